// Package worker runs generated cases in a long-lived child process so that a
// panic anywhere in the library (including goroutines the library started)
// is observed as process death, attributed to the case that was running.
//
// The child is the same test binary started with VERIF_WORKER=<name>; it reads
// one JSON case per line on stdin and answers one line per case on stdout.
package worker

import (
	"bufio"
	"bytes"
	"encoding/json"
	"fmt"
	"io"
	"os"
	"os/exec"
	"strings"
	"sync"
	"time"
)

// Serve is called by the child: handle is invoked per case and returns "" or a failure text.
func Serve(handle func(raw json.RawMessage) string) {
	in := bufio.NewReaderSize(os.Stdin, 1<<20)
	out := bufio.NewWriter(os.Stdout)
	for {
		line, err := in.ReadBytes('\n')
		if len(line) > 0 {
			res := handle(json.RawMessage(bytes.TrimSpace(line)))
			if res == "" {
				res = "ok"
			} else {
				res = "fail: " + strings.ReplaceAll(res, "\n", " | ")
			}
			fmt.Fprintln(out, res)
			out.Flush()
		}
		if err != nil {
			return
		}
	}
}

// Client owns one child process.
type Client struct {
	name string
	mu   sync.Mutex
	cmd  *exec.Cmd
	in   io.WriteCloser
	out  *bufio.Reader
	errb *tailBuffer
	// served counts the cases handled by the current child; the child is replaced every
	// recycleEvery cases so that memory retained by abandoned instances of the code under
	// test (goroutines that outlive their swarm) cannot accumulate over a long campaign.
	served int
}

const recycleEvery = 150

type tailBuffer struct {
	mu sync.Mutex
	b  []byte
}

func (t *tailBuffer) Write(p []byte) (int, error) {
	t.mu.Lock()
	defer t.mu.Unlock()
	t.b = append(t.b, p...)
	if len(t.b) > 64<<10 {
		t.b = t.b[len(t.b)-(64<<10):]
	}
	return len(p), nil
}

func (t *tailBuffer) String() string {
	t.mu.Lock()
	defer t.mu.Unlock()
	return string(t.b)
}

func NewClient(name string) *Client { return &Client{name: name} }

func (c *Client) start() error {
	bin := os.Getenv("VERIF_BIN")
	if bin == "" {
		bin = os.Args[0]
	}
	cmd := exec.Command(bin, "-test.run", "^TestWorkerEntry$", "-test.timeout", "0")
	cmd.Env = append(os.Environ(), "VERIF_WORKER="+c.name, "VERIF_STATS=")
	in, err := cmd.StdinPipe()
	if err != nil {
		return err
	}
	out, err := cmd.StdoutPipe()
	if err != nil {
		return err
	}
	c.errb = &tailBuffer{}
	cmd.Stderr = c.errb
	if err := cmd.Start(); err != nil {
		return err
	}
	c.cmd, c.in, c.out = cmd, in, bufio.NewReaderSize(out, 1<<20)
	return nil
}

// Result of one case.
type Result struct {
	OK      bool
	Died    bool   // the child process terminated while handling the case
	Timeout bool   // no answer within the limit (child was killed)
	Message string // failure text or the tail of the child's stderr
	Infra   bool   // the worker could not be started
}

// Run sends one case and waits for the answer.
func (c *Client) Run(v any, limit time.Duration) Result {
	c.mu.Lock()
	defer c.mu.Unlock()
	if c.cmd != nil && c.served >= recycleEvery {
		c.retire()
	}
	if c.cmd == nil {
		if err := c.start(); err != nil {
			return Result{Infra: true, Message: err.Error()}
		}
		c.served = 0
	}
	c.served++
	b, err := json.Marshal(v)
	if err != nil {
		return Result{Infra: true, Message: err.Error()}
	}
	if _, err := c.in.Write(append(b, '\n')); err != nil {
		return c.dead("write: " + err.Error())
	}
	type ans struct {
		line string
		err  error
	}
	ch := make(chan ans, 1)
	rd := c.out
	go func() {
		for {
			line, err := rd.ReadString('\n')
			s := strings.TrimSpace(line)
			if err != nil || s == "ok" || strings.HasPrefix(s, "fail: ") {
				ch <- ans{s, err}
				return
			}
			// other output of the test binary (PASS lines etc.) is ignored
		}
	}()
	select {
	case a := <-ch:
		if a.err != nil && a.line != "ok" && !strings.HasPrefix(a.line, "fail: ") {
			return c.dead("read: " + a.err.Error())
		}
		if a.line == "ok" {
			return Result{OK: true}
		}
		return Result{Message: strings.TrimPrefix(a.line, "fail: ")}
	case <-time.After(limit):
		c.kill()
		return Result{Timeout: true, Message: "no answer within " + limit.String() + "; stderr tail: " + tail(c.errb.String())}
	}
}

func (c *Client) dead(why string) Result {
	var state string
	if c.cmd != nil {
		done := make(chan struct{})
		go func() { c.cmd.Wait(); close(done) }()
		select {
		case <-done:
		case <-time.After(2 * time.Second):
			c.cmd.Process.Kill()
			<-done
		}
		state = c.cmd.ProcessState.String()
	}
	msg := fmt.Sprintf("worker died (%s; %s); stderr tail: %s", why, state, tail(c.errb.String()))
	c.cmd = nil
	if strings.Contains(state, "signal: killed") {
		// SIGKILL never comes from the Go runtime (a panic or fatal error exits with status 2):
		// the child was killed from outside, e.g. by the kernel's out-of-memory killer.
		return Result{Infra: true, Message: msg}
	}
	return Result{Died: true, Message: msg}
}

// retire ends the current child in an orderly way (end of input), killing it if it lingers.
func (c *Client) retire() {
	c.in.Close()
	done := make(chan struct{})
	cmd := c.cmd
	go func() { cmd.Wait(); close(done) }()
	select {
	case <-done:
	case <-time.After(2 * time.Second):
		cmd.Process.Kill()
		<-done
	}
	c.cmd = nil
}

func (c *Client) kill() {
	if c.cmd != nil {
		c.cmd.Process.Kill()
		c.cmd.Wait()
		c.cmd = nil
	}
}

// Close terminates the child.
func (c *Client) Close() {
	c.mu.Lock()
	defer c.mu.Unlock()
	if c.cmd != nil {
		c.in.Close()
		done := make(chan struct{})
		go func() { c.cmd.Wait(); close(done) }()
		select {
		case <-done:
		case <-time.After(2 * time.Second):
			c.cmd.Process.Kill()
			<-done
		}
		c.cmd = nil
	}
}

func tail(s string) string {
	// keep the panic header and the first frames
	if i := strings.Index(s, "panic:"); i >= 0 {
		s = s[i:]
	} else if i := strings.Index(s, "fatal error:"); i >= 0 {
		s = s[i:]
	}
	lines := strings.Split(s, "\n")
	if len(lines) > 14 {
		lines = lines[:14]
	}
	return strings.Join(lines, " | ")
}
