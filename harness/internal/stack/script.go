package stack

import (
	"context"
	"fmt"
	"runtime"
	"strings"
	"sync"
	"time"
	"verif/harness/internal/ev"

	"go.brendoncarroll.net/p2p"
)

// SAddr is the address type of the scripted transport.
type SAddr struct{ N int }

func (a SAddr) MarshalText() ([]byte, error) { return []byte(fmt.Sprintf("s%d", a.N)), nil }
func (a SAddr) String() string               { return fmt.Sprintf("s%d", a.N) }

// Sent is one outbound call captured by the scripted transport.
type Sent struct {
	Dst  Addr
	Data []byte
	Ask  bool
}

type injected struct {
	msg  Msg
	done chan string
}

type injectedAsk struct {
	msg  Msg
	done chan askResult
}

type askResult struct {
	n     int
	resp  []byte
	panic string
}

// Script is a transport owned by the test: Tell/Ask of the layer above are
// captured, and Receive/ServeAsk block until the test injects a message and
// return only after the layer's callback has returned. A panic raised inside
// the callback is recovered here and reported to the injector.
type Script struct {
	Local SAddr
	mtu   int

	in     chan injected
	asks   chan injectedAsk
	closed chan struct{}
	once   sync.Once

	mu  sync.Mutex
	out []Sent
	// AskReply, when set, produces the response to a captured Ask.
	AskReply func(req []byte) ([]byte, error)
}

func NewScript(n, mtu int) *Script {
	return &Script{Local: SAddr{n}, mtu: mtu, in: make(chan injected), asks: make(chan injectedAsk), closed: make(chan struct{})}
}

func (s *Script) Tell(ctx context.Context, dst Addr, v p2p.IOVec) error {
	if p2p.VecSize(v) > s.mtu {
		return p2p.ErrMTUExceeded
	}
	select {
	case <-s.closed:
		return p2p.ErrClosed
	default:
	}
	s.mu.Lock()
	s.out = append(s.out, Sent{Dst: dst, Data: p2p.VecBytes(nil, v)})
	s.mu.Unlock()
	return nil
}

func (s *Script) Ask(ctx context.Context, resp []byte, dst Addr, v p2p.IOVec) (int, error) {
	if p2p.VecSize(v) > s.mtu {
		return 0, p2p.ErrMTUExceeded
	}
	req := p2p.VecBytes(nil, v)
	s.mu.Lock()
	s.out = append(s.out, Sent{Dst: dst, Data: req, Ask: true})
	reply := s.AskReply
	s.mu.Unlock()
	if reply == nil {
		return 0, fmt.Errorf("script: no responder")
	}
	r, err := reply(req)
	if err != nil {
		return 0, err
	}
	if len(r) > len(resp) {
		return 0, fmt.Errorf("script: short buffer")
	}
	return copy(resp, r), nil
}

// Take returns and clears what was captured so far.
func (s *Script) Take() []Sent {
	s.mu.Lock()
	defer s.mu.Unlock()
	out := s.out
	s.out = nil
	return out
}

func (s *Script) Receive(ctx context.Context, fn func(Msg)) error {
	select {
	case <-ctx.Done():
		return ctx.Err()
	case <-s.closed:
		return p2p.ErrClosed
	case inj := <-s.in:
		func() {
			defer func() {
				if r := recover(); r != nil {
					inj.done <- fmt.Sprintf("%v", r)
					return
				}
				inj.done <- ""
			}()
			fn(inj.msg)
			// the transport recycles its receive buffer as soon as the callback has returned (the p2p.Receiver
			// contract): a layer that wants to keep the bytes has to copy them
			for i := range inj.msg.Payload {
				inj.msg.Payload[i] = 0xDD
			}
		}()
		return nil
	}
}

func (s *Script) ServeAsk(ctx context.Context, fn func(context.Context, []byte, Msg) int) error {
	select {
	case <-ctx.Done():
		return ctx.Err()
	case <-s.closed:
		return p2p.ErrClosed
	case inj := <-s.asks:
		func() {
			resp := make([]byte, s.mtu)
			defer func() {
				if r := recover(); r != nil {
					inj.done <- askResult{panic: fmt.Sprintf("%v", r)}
				}
			}()
			n := fn(ctx, resp, inj.msg)
			var out []byte
			if n >= 0 && n <= len(resp) {
				out = append([]byte{}, resp[:n]...)
			}
			for i := range inj.msg.Payload {
				inj.msg.Payload[i] = 0xDD // recycled, as above
			}
			inj.done <- askResult{n: n, resp: out}
		}()
		return nil
	}
}

// Inject hands payload to the layer above as a message from src and waits for
// the layer's callback to return. handled is false if nobody took the message
// within the timeout (no Receive pending) .
func (s *Script) Inject(src Addr, payload []byte, timeout time.Duration) (panicText string, handled bool) {
	inj := injected{msg: Msg{Src: src, Dst: s.Local, Payload: append([]byte{}, payload...)}, done: make(chan string, 1)}
	if !offer(s, s.in, inj, timeout) {
		return "", false
	}
	// A callback that hangs never returns; one that is merely slow on a busy machine does. The limit for
	// "did not return" is therefore patient (ev.Patient): `timeout` on a responsive machine, longer otherwise.
	if p, ok := ev.PatientRecv(timeout, inj.done); ok {
		return p, true
	}
	return "callback did not return within " + timeout.String() + LibraryStacks(), true
}

// InjectAsk hands payload to the layer above as an ask from src.
func (s *Script) InjectAsk(src Addr, payload []byte, timeout time.Duration) (n int, resp []byte, panicText string, handled bool) {
	inj := injectedAsk{msg: Msg{Src: src, Dst: s.Local, Payload: append([]byte{}, payload...)}, done: make(chan askResult, 1)}
	if !offer(s, s.asks, inj, timeout) {
		return 0, nil, "", false
	}
	if r, ok := ev.PatientRecv(timeout, inj.done); ok {
		return r.n, r.resp, r.panic, true
	}
	return 0, nil, "handler did not return within " + timeout.String() + LibraryStacks(), true
}

func (s *Script) LocalAddrs() []Addr { return []Addr{s.Local} }
func (s *Script) MTU() int           { return s.mtu }
func (s *Script) Close() error {
	s.once.Do(func() { close(s.closed) })
	return nil
}
func (s *Script) ParseAddr(x []byte) (Addr, error) {
	var n int
	if _, err := fmt.Sscanf(string(x), "s%d", &n); err != nil {
		return nil, err
	}
	return SAddr{n}, nil
}

// TellOnly hides the ask facet of a Script (multiplexers probe for it).
type TellOnly struct{ Swarm }

// PublicKey/LookupPublicKey make a Script usable where a secure swarm is demanded.
func (s *Script) PublicKey() PubKey { return PubKey{} }
func (s *Script) LookupPublicKey(context.Context, Addr) (PubKey, error) {
	return PubKey{}, p2p.ErrPublicKeyNotFound
}

// LibraryStacks returns the stacks of all goroutines that are inside the library, for hang diagnosis.
func LibraryStacks() string {
	buf := make([]byte, 1<<20)
	buf = buf[:runtime.Stack(buf, true)]
	var out []string
	for _, g := range strings.Split(string(buf), "\n\n") {
		if strings.Contains(g, "go.brendoncarroll.net/p2p/") {
			lines := strings.Split(g, "\n")
			var keep []string
			for _, l := range lines {
				if !strings.HasPrefix(l, "\t") {
					keep = append(keep, l)
				}
			}
			if len(keep) > 8 {
				keep = keep[:8]
			}
			out = append(out, strings.Join(keep, " < "))
		}
	}
	if len(out) > 12 {
		out = out[:12]
	}
	return "\ngoroutines inside the library:\n  " + strings.Join(out, "\n  ")
}

// offer hands v to a pending Receive / ServeAsk. It gives up when the transport is closed or after
// timeout - later if the machine stalled meanwhile (see ev.Patient).
func offer[T any](s *Script, ch chan T, v T, timeout time.Duration) bool {
	start := time.Now()
	wait := timeout
	for {
		select {
		case ch <- v:
			return true
		case <-s.closed:
			return false
		case <-time.After(wait):
		}
		if !ev.Stalled(start) || time.Since(start) > ev.Extended(timeout) {
			return false
		}
		wait = timeout / 4
	}
}
