package stack

import (
	"context"
	"crypto/ed25519"
	"encoding/binary"
	"fmt"
	"strings"
	"sync"
	"sync/atomic"
	"time"

	"go.brendoncarroll.net/p2p"
	"go.brendoncarroll.net/p2p/f/x509"
	"go.brendoncarroll.net/p2p/p/mbapp"
	"go.brendoncarroll.net/p2p/p/p2pmux"
	"go.brendoncarroll.net/p2p/s/fragswarm"
	"go.brendoncarroll.net/p2p/s/mapswarm"
	"go.brendoncarroll.net/p2p/s/memswarm"
	"go.brendoncarroll.net/p2p/s/multiswarm"
	"go.brendoncarroll.net/p2p/s/p2pkeswarm"
	"go.brendoncarroll.net/p2p/s/quicswarm"
	"go.brendoncarroll.net/p2p/s/udpswarm"
	"go.brendoncarroll.net/p2p/s/wlswarm"
)

// ---- keys ----

var (
	keyMu    sync.Mutex
	keyCache = map[int]x509.PrivateKey{}
	pubCache = map[int]x509.PublicKey{}
	Registry = x509.DefaultRegistry()
)

func StdKey(i int) ed25519.PrivateKey {
	seed := make([]byte, 32)
	binary.BigEndian.PutUint64(seed[24:], uint64(i)+1000)
	return ed25519.NewKeyFromSeed(seed)
}

func PrivKey(i int) x509.PrivateKey {
	keyMu.Lock()
	defer keyMu.Unlock()
	if k, ok := keyCache[i]; ok {
		return k
	}
	algo, signer := x509.SignerFromStandard(StdKey(i))
	priv, err := Registry.StoreSigner(algo, signer)
	if err != nil {
		panic(err)
	}
	pub, err := Registry.PublicFromPrivate(&priv)
	if err != nil {
		panic(err)
	}
	keyCache[i], pubCache[i] = priv, pub
	return priv
}

func PubOf(i int) x509.PublicKey {
	PrivKey(i)
	keyMu.Lock()
	defer keyMu.Unlock()
	return pubCache[i]
}

// KeyIndex returns the identity index owning pub, -1 for the zero key, -2 if unknown.
func KeyIndex(pub x509.PublicKey) int {
	if pub.IsZero() {
		return -1
	}
	keyMu.Lock()
	defer keyMu.Unlock()
	for i, p := range pubCache {
		if x509.EqualPublicKeys(&p, &pub) {
			return i
		}
	}
	return -2
}

// ---- spec ----

// Layer describes one layer of a stack.
type Layer struct {
	Kind string // frag mbapp mux multi map wl p2pke quic rec
	MTU  int    // frag, mbapp, quic
	N    int    // mbapp workers
	Mux  string // string uint16 uint32 uint64 varint
	Chan string // channel id: string bytes, or decimal number for integer kinds
	Name string // multi scheme
}

func (l Layer) String() string {
	switch l.Kind {
	case "frag":
		return fmt.Sprintf("frag(%d)", l.MTU)
	case "mbapp":
		return fmt.Sprintf("mbapp(%d,w%d)", l.MTU, l.N)
	case "mux":
		c := l.Chan
		if l.Mux == "string" {
			c = fmt.Sprintf("%q", shorten(c))
		}
		return fmt.Sprintf("mux:%s(%s)", l.Mux, c)
	case "multi":
		if l.N == 2 {
			return fmt.Sprintf("multi(%s,%s-small)", l.Name, l.Name)
		}
		return fmt.Sprintf("multi(%s)", l.Name)
	case "quic":
		return fmt.Sprintf("quic(%d)", l.MTU)
	}
	return l.Kind
}

func shorten(s string) string {
	if len(s) > 12 {
		return fmt.Sprintf("%s..[%d]", s[:8], len(s))
	}
	return s
}

// Spec is a base transport plus layers, bottom first.
type Spec struct {
	Base     string // mem udp udp6
	BaseMTU  int    // mem
	QueueLen int    // mem
	// Transform installs a pass-through tell transform on the in-memory realm (another code path in vswarm)
	Transform bool
	Layers    []Layer
}

func (s Spec) String() string {
	var parts []string
	switch s.Base {
	case "mem":
		if s.Transform {
			parts = append(parts, fmt.Sprintf("mem(mtu=%d,q=%d,transform)", s.BaseMTU, s.QueueLen))
		} else {
			parts = append(parts, fmt.Sprintf("mem(mtu=%d,q=%d)", s.BaseMTU, s.QueueLen))
		}
	default:
		parts = append(parts, s.Base)
	}
	for _, l := range s.Layers {
		parts = append(parts, l.String())
	}
	return strings.Join(parts, "|")
}

// Node is one participant: the erased top of its stack and the facets it offers.
type Node struct {
	S    Swarm
	A    AskBidi
	Sec  Sec
	Key  int
	Recs []*Recorder // recording decorators, bottom first
	// Levels holds the swarm at every level, bottom first (for address harvesting).
	Levels []Swarm
}

func (n *Node) Local() Addr { return n.S.LocalAddrs()[0] }

// World is a set of nodes built from one spec (they share the base realm).
type World struct {
	Spec  Spec
	Nodes []*Node
}

// Close closes every node. It is bounded: a Close that does not come back (which is C12's subject) must not
// turn a failure that was already detected into a test time-out.
func (w *World) Close() {
	done := make(chan struct{})
	go func() {
		defer close(done)
		for _, n := range w.Nodes {
			func() {
				defer func() { recover() }()
				n.S.Close()
			}()
		}
	}()
	select {
	case <-done:
	case <-time.After(5 * time.Second):
	}
}

// mapped is the address type of the mapswarm layer: a bijective renaming.
type mapped struct{ In Addr }

func (m mapped) MarshalText() ([]byte, error) {
	b, err := m.In.MarshalText()
	return append([]byte("m!"), b...), err
}
func (m mapped) String() string { b, _ := m.MarshalText(); return string(b) }

// HeaderLen is the true number of bytes a mux layer prepends.
func HeaderLen(l Layer) int {
	switch l.Mux {
	case "string":
		var b [binary.MaxVarintLen64]byte
		return binary.PutUvarint(b[:], uint64(len(l.Chan))) + len(l.Chan)
	case "uint16":
		return 2
	case "uint32":
		return 4
	case "uint64":
		return 8
	case "varint":
		var b [binary.MaxVarintLen64]byte
		return binary.PutUvarint(b[:], ParseUint(l.Chan))
	}
	return 0
}

func ParseUint(s string) uint64 {
	var v uint64
	fmt.Sscan(s, &v)
	return v
}

// Build constructs n nodes for spec. Node i uses identity key i+keyBase.
func Build(spec Spec, n int, keyBase int) (*World, error) {
	w := &World{Spec: spec}
	var realm *memswarm.SecureRealm[PubKey]
	if spec.Base == "mem" {
		opts := []memswarm.Option{memswarm.WithMTU(spec.BaseMTU), memswarm.WithQueueLen(spec.QueueLen)}
		if spec.Transform {
			opts = append(opts, memswarm.WithTellTransform(func(*memswarm.Message) bool { return true }))
		}
		realm = memswarm.NewSecureRealm[PubKey](opts...)
	}
	for i := 0; i < n; i++ {
		nd := &Node{Key: i + keyBase}
		switch spec.Base {
		case "mem":
			sw := realm.NewSwarm(PubOf(nd.Key))
			nd.S, nd.A, nd.Sec = Erase[memswarm.Addr](sw), EraseAsk[memswarm.Addr](sw), EraseSec[memswarm.Addr](sw)
		case "udp", "udp6", "udp-any", "udp6-any":
			laddr := map[string]string{"udp": "127.0.0.1:0", "udp6": "[::1]:0", "udp-any": "0.0.0.0:0", "udp6-any": "[::]:0"}[spec.Base]
			sw, err := udpswarm.New(laddr)
			if err != nil {
				w.Close()
				return nil, err
			}
			nd.S = Erase[udpswarm.Addr](sw)
		default:
			return nil, fmt.Errorf("unknown base %q", spec.Base)
		}
		nd.Levels = append(nd.Levels, nd.S)
		for _, l := range spec.Layers {
			if err := applyLayer(nd, l); err != nil {
				nd.S.Close()
				w.Close()
				return nil, fmt.Errorf("layer %v: %w", l, err)
			}
			nd.Levels = append(nd.Levels, nd.S)
		}
		w.Nodes = append(w.Nodes, nd)
	}
	return w, nil
}

func secOrDummy(nd *Node) Sec {
	if nd.Sec != nil {
		return nd.Sec
	}
	return dummySec{}
}

func applyLayer(nd *Node, l Layer) (err error) {
	defer func() {
		if r := recover(); r != nil {
			err = fmt.Errorf("constructor panicked: %v", r)
		}
	}()
	switch l.Kind {
	case "rec":
		r := NewRecorder(nd.S, nd.A)
		nd.Recs = append(nd.Recs, r)
		if nd.A != nil {
			ar := AskRecorder{r}
			nd.S, nd.A = ar, ar
		} else {
			nd.S = r
		}
	case "dup":
		nd.S, nd.A = dupSwarm{nd.S}, nil
	case "odderr":
		// a transport that reports its own shutdown with an error of its own (not ErrClosed)
		oe := &oddErr{Swarm: nd.S}
		if nd.A != nil {
			oa := oddErrAsk{oddErr: oe, AskBidi: nd.A}
			nd.S, nd.A = oa, oa
		} else {
			nd.S = oe
		}
	case "errclose":
		// a transport whose Close reports an error (after really closing): layers above must still shut down
		ec := &errClose{Swarm: nd.S}
		if nd.A != nil {
			ea := errCloseAsk{errClose: ec, AskBidi: nd.A}
			nd.S, nd.A = ea, ea
		} else {
			nd.S = ec
		}
	case "frag":
		nd.S = fragswarm.New[Addr](nd.S, l.MTU)
		nd.A = nil
	case "mbapp":
		hadSec := nd.Sec != nil
		sw := mbapp.New[Addr, PubKey](p2p.ComposeSecureSwarm[Addr, PubKey](nd.S, secOrDummy(nd)), l.MTU, mbapp.WithNumWorkers(max(1, l.N)))
		nd.S, nd.A = sw, sw
		if hadSec {
			nd.Sec = sw
		}
	case "mux":
		if err := applyMux(nd, l); err != nil {
			return err
		}
	case "multi":
		if nd.A != nil && nd.Sec != nil && l.N != 2 {
			ms := multiswarm.NewSecureAsk[PubKey](map[string]multiswarm.DynSecureAskSwarm[PubKey]{
				l.Name: p2p.ComposeSecureAskSwarm[Addr, PubKey](nd.S, nd.A, nd.Sec),
			})
			nd.S, nd.A, nd.Sec = Erase[multiswarm.Addr](ms), EraseAsk[multiswarm.Addr](ms), EraseSec[multiswarm.Addr](ms)
		} else if l.N == 2 {
			// two transports with different MTUs: the second scheme reaches the same peers through a wrapper
			// that reports (and enforces) half the MTU and leaves receiving to the first scheme
			ms := multiswarm.New(map[string]multiswarm.DynSwarm{l.Name: nd.S, l.Name + "-small": capSwarm{Swarm: nd.S, mtu: max(1, nd.S.MTU()/2), stop: make(chan struct{})}})
			nd.S, nd.A, nd.Sec = Erase[multiswarm.Addr](ms), nil, nil
		} else {
			ms := multiswarm.New(map[string]multiswarm.DynSwarm{l.Name: nd.S})
			nd.S, nd.A, nd.Sec = Erase[multiswarm.Addr](ms), nil, nil
		}
	case "map":
		inner := nd.S
		parser := func(x []byte) (mapped, error) {
			if !strings.HasPrefix(string(x), "m!") {
				return mapped{}, fmt.Errorf("not a mapped address")
			}
			a, err := inner.ParseAddr(x[2:])
			return mapped{a}, err
		}
		down := func(m mapped) Addr { return m.In }
		up := func(a Addr) mapped { return mapped{a} }
		if nd.Sec != nil {
			ms := mapswarm.NewSecure[mapped, Addr, PubKey](p2p.ComposeSecureSwarm[Addr, PubKey](nd.S, nd.Sec), down, up, parser)
			nd.S, nd.Sec = Erase[mapped](ms), EraseSec[mapped](ms)
		} else {
			nd.S = Erase[mapped](mapswarm.New[mapped, Addr](nd.S, down, up, parser))
		}
		nd.A = nil
	case "wl":
		allow := func(Addr) bool { return true }
		if nd.A != nil && nd.Sec != nil {
			ws := wlswarm.WrapSecureAsk[Addr, PubKey](p2p.ComposeSecureAskSwarm[Addr, PubKey](nd.S, nd.A, nd.Sec), allow)
			nd.S, nd.A, nd.Sec = ws, ws, ws
		} else {
			hadSec := nd.Sec != nil
			ws := wlswarm.WrapSecure[Addr, PubKey](p2p.ComposeSecureSwarm[Addr, PubKey](nd.S, secOrDummy(nd)), allow)
			nd.S, nd.A = ws, nil
			if hadSec {
				nd.Sec = ws
			}
		}
	case "p2pke":
		sw := p2pkeswarm.New[Addr](nd.S, PrivKey(nd.Key))
		nd.S, nd.A, nd.Sec = Erase[p2pkeswarm.Addr[Addr]](sw), nil, EraseSec[p2pkeswarm.Addr[Addr]](sw)
	case "quic":
		var opts []quicswarm.Option[Addr]
		if l.MTU > 0 {
			opts = append(opts, quicswarm.WithMTU[Addr](l.MTU))
		}
		sw, err := quicswarm.New[Addr](nd.S, PrivKey(nd.Key), opts...)
		if err != nil {
			return err
		}
		nd.S, nd.A, nd.Sec = Erase[quicswarm.Addr[Addr]](sw), EraseAsk[quicswarm.Addr[Addr]](sw), EraseSec[quicswarm.Addr[Addr]](sw)
	default:
		return fmt.Errorf("unknown layer kind %q", l.Kind)
	}
	return nil
}

type askSwarmT interface {
	Swarm
	AskBidi
}

func applyMux(nd *Node, l Layer) error {
	var below Swarm = nd.S
	hasAsk := nd.A != nil
	if hasAsk {
		below = p2p.ComposeAskSwarm[Addr](nd.S, nd.A)
	}
	var opened Swarm
	switch l.Mux {
	case "string":
		if hasAsk {
			opened = p2pmux.NewStringAskMux[Addr](below.(p2p.AskSwarm[Addr])).Open(l.Chan)
		} else {
			opened = p2pmux.NewStringMux[Addr](below).Open(l.Chan)
		}
	case "uint16":
		if hasAsk {
			opened = p2pmux.NewUint16AskMux[Addr](below).Open(uint16(ParseUint(l.Chan)))
		} else {
			opened = p2pmux.NewUint16Mux[Addr](below).Open(uint16(ParseUint(l.Chan)))
		}
	case "uint32":
		if hasAsk {
			opened = p2pmux.NewUint32AskMux[Addr](below).Open(uint32(ParseUint(l.Chan)))
		} else {
			opened = p2pmux.NewUint32Mux[Addr](below).Open(uint32(ParseUint(l.Chan)))
		}
	case "uint64":
		if hasAsk {
			opened = p2pmux.NewUint64AskMux[Addr](below).Open(ParseUint(l.Chan))
		} else {
			opened = p2pmux.NewUint64Mux[Addr](below).Open(ParseUint(l.Chan))
		}
	case "varint":
		if hasAsk {
			opened = p2pmux.NewVarintAskMux[Addr](below).Open(ParseUint(l.Chan))
		} else {
			opened = p2pmux.NewVarintMux[Addr](below).Open(ParseUint(l.Chan))
		}
	default:
		return fmt.Errorf("unknown mux kind %q", l.Mux)
	}
	nd.S = &muxTop{Swarm: opened, below: below}
	if as, ok := opened.(AskBidi); ok && hasAsk {
		nd.A = as
	} else {
		nd.A = nil
	}
	nd.Sec = nil
	return nil
}

// muxTop closes the multiplexed channel and the swarm beneath the multiplexer
// (a Mux has no Close of its own; the owner of the stack closes what it built).
type muxTop struct {
	Swarm
	below Swarm
}

func (m *muxTop) Close() error {
	err := m.Swarm.Close()
	if e2 := m.below.Close(); err == nil {
		err = e2
	}
	return err
}

// Ctx is a convenience background context.
var Ctx = context.Background()

// OpenMux creates one multiplexer of the given kind over below and opens every
// listed channel on it. below is ask-capable when ask is true.
func OpenMux(kind string, below Swarm, ask bool, ids []string) (out []Swarm, err error) {
	defer func() {
		if r := recover(); r != nil {
			err = fmt.Errorf("mux constructor/Open panicked: %v", r)
		}
	}()
	switch kind {
	case "string":
		if ask {
			m := p2pmux.NewStringAskMux[Addr](below.(p2p.AskSwarm[Addr]))
			for _, id := range ids {
				out = append(out, m.Open(id))
			}
		} else {
			m := p2pmux.NewStringMux[Addr](below)
			for _, id := range ids {
				out = append(out, m.Open(id))
			}
		}
	case "uint16":
		if ask {
			m := p2pmux.NewUint16AskMux[Addr](below)
			for _, id := range ids {
				out = append(out, m.Open(uint16(ParseUint(id))))
			}
		} else {
			m := p2pmux.NewUint16Mux[Addr](below)
			for _, id := range ids {
				out = append(out, m.Open(uint16(ParseUint(id))))
			}
		}
	case "uint32":
		if ask {
			m := p2pmux.NewUint32AskMux[Addr](below)
			for _, id := range ids {
				out = append(out, m.Open(uint32(ParseUint(id))))
			}
		} else {
			m := p2pmux.NewUint32Mux[Addr](below)
			for _, id := range ids {
				out = append(out, m.Open(uint32(ParseUint(id))))
			}
		}
	case "uint64":
		if ask {
			m := p2pmux.NewUint64AskMux[Addr](below)
			for _, id := range ids {
				out = append(out, m.Open(ParseUint(id)))
			}
		} else {
			m := p2pmux.NewUint64Mux[Addr](below)
			for _, id := range ids {
				out = append(out, m.Open(ParseUint(id)))
			}
		}
	case "varint":
		if ask {
			m := p2pmux.NewVarintAskMux[Addr](below)
			for _, id := range ids {
				out = append(out, m.Open(ParseUint(id)))
			}
		} else {
			m := p2pmux.NewVarintMux[Addr](below)
			for _, id := range ids {
				out = append(out, m.Open(ParseUint(id)))
			}
		}
	default:
		return nil, fmt.Errorf("unknown mux kind %q", kind)
	}
	return out, nil
}

type errClose struct{ Swarm }

func (e *errClose) Close() error {
	e.Swarm.Close()
	return fmt.Errorf("transport reported an error while closing")
}

// oddErr is a transport whose Receive and ServeAsk report "transport is shut down" once it has been closed: a
// non-nil error, as the Swarm contract demands, but not one that wraps ErrClosed.
type oddErr struct {
	Swarm
	closed atomic.Bool
}

var errShutDown = fmt.Errorf("transport is shut down")

func (e *oddErr) Receive(ctx context.Context, fn func(Msg)) error {
	err := e.Swarm.Receive(ctx, fn)
	if err != nil && e.closed.Load() {
		return errShutDown
	}
	return err
}

func (e *oddErr) Close() error {
	e.closed.Store(true)
	return e.Swarm.Close()
}

type oddErrAsk struct {
	*oddErr
	AskBidi
}

func (e oddErrAsk) ServeAsk(ctx context.Context, fn func(context.Context, []byte, Msg) int) error {
	err := e.AskBidi.ServeAsk(ctx, fn)
	if err != nil && e.closed.Load() {
		return errShutDown
	}
	return err
}

// dupSwarm is a datagram transport that delivers every datagram twice, as UDP may. Tell-only.
type dupSwarm struct{ Swarm }

func (d dupSwarm) Tell(ctx context.Context, dst Addr, v p2p.IOVec) error {
	if err := d.Swarm.Tell(ctx, dst, v); err != nil {
		return err
	}
	d.Swarm.Tell(ctx, dst, v) // the copy is best effort
	return nil
}

type errCloseAsk struct {
	*errClose
	AskBidi
}

// capSwarm is a second transport to the same peers with a smaller MTU. It never receives (the transport it
// wraps is also registered under its own scheme, which does the receiving).
type capSwarm struct {
	Swarm
	mtu  int
	stop chan struct{}
}

func (c capSwarm) MTU() int { return c.mtu }
func (c capSwarm) Tell(ctx context.Context, dst Addr, v p2p.IOVec) error {
	if p2p.VecSize(v) > c.mtu {
		return p2p.ErrMTUExceeded
	}
	return c.Swarm.Tell(ctx, dst, v)
}
func (c capSwarm) Receive(ctx context.Context, fn func(Msg)) error {
	select {
	case <-ctx.Done():
		return ctx.Err()
	case <-c.stop:
		return p2p.ErrClosed
	}
}
func (c capSwarm) Close() error {
	select {
	case <-c.stop:
	default:
		close(c.stop)
	}
	return c.Swarm.Close()
}
