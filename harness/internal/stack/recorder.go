package stack

import (
	"context"
	"sync"

	"go.brendoncarroll.net/p2p"
)

// TellRecord is one outbound call seen by a recording decorator.
type TellRecord struct {
	Size        int
	MTUExceeded bool
	Err         bool
	Ask         bool
}

// Recorder is a pass-through layer that records what the layer above hands down.
type Recorder struct {
	in  Swarm
	ask AskBidi

	mu    sync.Mutex
	tells []TellRecord
}

func NewRecorder(in Swarm, ask AskBidi) *Recorder { return &Recorder{in: in, ask: ask} }

func (r *Recorder) note(rec TellRecord) {
	r.mu.Lock()
	defer r.mu.Unlock()
	if len(r.tells) < 100000 {
		r.tells = append(r.tells, rec)
	}
}

// Records returns a copy of what was recorded so far.
func (r *Recorder) Records() []TellRecord {
	r.mu.Lock()
	defer r.mu.Unlock()
	return append([]TellRecord{}, r.tells...)
}

// SizeRejections counts calls the layer beneath refused for size.
func (r *Recorder) SizeRejections() int {
	n := 0
	for _, t := range r.Records() {
		if t.MTUExceeded {
			n++
		}
	}
	return n
}

func (r *Recorder) Tell(ctx context.Context, dst Addr, v p2p.IOVec) error {
	err := r.in.Tell(ctx, dst, v)
	r.note(TellRecord{Size: p2p.VecSize(v), MTUExceeded: p2p.IsErrMTUExceeded(err), Err: err != nil})
	return err
}

func (r *Recorder) Receive(ctx context.Context, fn func(Msg)) error { return r.in.Receive(ctx, fn) }
func (r *Recorder) LocalAddrs() []Addr                              { return r.in.LocalAddrs() }
func (r *Recorder) MTU() int                                        { return r.in.MTU() }
func (r *Recorder) Close() error                                    { return r.in.Close() }
func (r *Recorder) ParseAddr(x []byte) (Addr, error)                { return r.in.ParseAddr(x) }

// AskRecorder is a Recorder over an ask-capable swarm. (A plain Recorder must not have ask
// methods: multiplexers probe for them with a type assertion.)
type AskRecorder struct{ *Recorder }

func (r AskRecorder) Ask(ctx context.Context, resp []byte, dst Addr, req p2p.IOVec) (int, error) {
	n, err := r.ask.Ask(ctx, resp, dst, req)
	r.note(TellRecord{Size: p2p.VecSize(req), MTUExceeded: p2p.IsErrMTUExceeded(err), Err: err != nil, Ask: true})
	return n, err
}

func (r AskRecorder) ServeAsk(ctx context.Context, fn func(context.Context, []byte, Msg) int) error {
	return r.ask.ServeAsk(ctx, fn)
}
