// Package stack builds swarm stacks whose nesting is chosen at run time.
//
// Every layer of the library is generic over A p2p.Addr and p2p.Addr itself
// satisfies that constraint, so each level is erased to p2p.Swarm[p2p.Addr]
// (plus optional ask and secure facets) and the next layer is instantiated at
// A = p2p.Addr.
package stack

import (
	"context"

	"go.brendoncarroll.net/p2p"
	"go.brendoncarroll.net/p2p/f/x509"
)

type (
	Addr   = p2p.Addr
	PubKey = x509.PublicKey
	Swarm  = p2p.Swarm[Addr]
	Msg    = p2p.Message[Addr]
	Sec    = p2p.Secure[Addr, PubKey]
)

// AskBidi is the ask facet of an erased swarm.
type AskBidi interface {
	p2p.Asker[Addr]
	p2p.AskServer[Addr]
}

type askBidiT[T p2p.Addr] interface {
	p2p.Asker[T]
	p2p.AskServer[T]
}

// Erase adapts a typed swarm to p2p.Swarm[p2p.Addr].
func Erase[T p2p.Addr](x p2p.Swarm[T]) Swarm { return eSwarm[T]{x} }

type eSwarm[T p2p.Addr] struct{ in p2p.Swarm[T] }

func (e eSwarm[T]) Tell(ctx context.Context, dst Addr, v p2p.IOVec) error {
	d, ok := dst.(T)
	if !ok {
		return errWrongAddrType{dst}
	}
	return e.in.Tell(ctx, d, v)
}

func (e eSwarm[T]) Receive(ctx context.Context, fn func(Msg)) error {
	return e.in.Receive(ctx, func(m p2p.Message[T]) {
		fn(Msg{Src: m.Src, Dst: m.Dst, Payload: m.Payload})
	})
}

func (e eSwarm[T]) LocalAddrs() (ret []Addr) {
	for _, a := range e.in.LocalAddrs() {
		ret = append(ret, a)
	}
	return ret
}

func (e eSwarm[T]) MTU() int     { return e.in.MTU() }
func (e eSwarm[T]) Close() error { return e.in.Close() }
func (e eSwarm[T]) ParseAddr(x []byte) (Addr, error) {
	a, err := e.in.ParseAddr(x)
	if err != nil {
		return nil, err
	}
	return a, nil
}

// EraseAsk adapts a typed ask facet.
func EraseAsk[T p2p.Addr](x askBidiT[T]) AskBidi { return eAsk[T]{x} }

type eAsk[T p2p.Addr] struct{ in askBidiT[T] }

func (e eAsk[T]) Ask(ctx context.Context, resp []byte, dst Addr, req p2p.IOVec) (int, error) {
	d, ok := dst.(T)
	if !ok {
		return 0, errWrongAddrType{dst}
	}
	return e.in.Ask(ctx, resp, d, req)
}

func (e eAsk[T]) ServeAsk(ctx context.Context, fn func(context.Context, []byte, Msg) int) error {
	return e.in.ServeAsk(ctx, func(ctx context.Context, resp []byte, m p2p.Message[T]) int {
		return fn(ctx, resp, Msg{Src: m.Src, Dst: m.Dst, Payload: m.Payload})
	})
}

// EraseSec adapts a typed secure facet.
func EraseSec[T p2p.Addr](x p2p.Secure[T, PubKey]) Sec { return eSec[T]{x} }

type eSec[T p2p.Addr] struct{ in p2p.Secure[T, PubKey] }

func (e eSec[T]) PublicKey() PubKey { return e.in.PublicKey() }
func (e eSec[T]) LookupPublicKey(ctx context.Context, a Addr) (PubKey, error) {
	d, ok := a.(T)
	if !ok {
		return PubKey{}, errWrongAddrType{a}
	}
	return e.in.LookupPublicKey(ctx, d)
}

type errWrongAddrType struct{ a Addr }

func (e errWrongAddrType) Error() string { return "stack: address of the wrong type for this layer" }

// dummySec is used where a layer demands a secure swarm beneath but the stack has none.
type dummySec struct{}

func (dummySec) PublicKey() PubKey { return PubKey{} }
func (dummySec) LookupPublicKey(context.Context, Addr) (PubKey, error) {
	return PubKey{}, p2p.ErrPublicKeyNotFound
}
