// Package ledger provides tagged payloads and the sent/received ledger used as
// the round-trip oracle of the delivery properties.
package ledger

import (
	"bytes"
	"encoding/binary"
	"fmt"
	"hash/crc32"
	"sync"
)

// Entry is one payload handed to Tell (or Ask).
type Entry struct {
	ID       uint64
	Src, Dst int
	Data     []byte
	Refused  bool // Tell reported an error (e.g. MTU exceeded): must never be delivered
	TellErr  bool
	Received int
}

type Ledger struct {
	mu      sync.Mutex
	nextID  uint64
	byID    map[uint64]*Entry
	entries []*Entry
}

func New() *Ledger { return &Ledger{byID: map[uint64]*Entry{}, nextID: 1} }

func fill(dst []byte, seed uint64) {
	x := seed*0x9E3779B97F4A7C15 + 0x1234567
	for i := range dst {
		x ^= x << 13
		x ^= x >> 7
		x ^= x << 17
		dst[i] = byte(x >> 32)
	}
}

// Make builds a payload of the given size. Payloads of 16 bytes or more are
// self-describing: [id 8][len 4][crc32 4][bytes derived from id].
func (l *Ledger) Make(src, dst, size int) *Entry {
	l.mu.Lock()
	defer l.mu.Unlock()
	id := l.nextID
	l.nextID++
	data := make([]byte, size)
	if size >= 16 {
		binary.BigEndian.PutUint64(data, id|0xA5<<56)
		binary.BigEndian.PutUint32(data[8:], uint32(size))
		fill(data[16:], id)
		binary.BigEndian.PutUint32(data[12:], crc32.ChecksumIEEE(data[16:]))
	} else {
		fill(data, id)
	}
	e := &Entry{ID: id, Src: src, Dst: dst, Data: data}
	l.byID[id] = e
	l.entries = append(l.entries, e)
	return e
}

func (l *Ledger) Entries() []*Entry {
	l.mu.Lock()
	defer l.mu.Unlock()
	return append([]*Entry{}, l.entries...)
}

// Refuse marks an entry as refused by Tell: nothing of it may ever be delivered.
func (l *Ledger) Refuse(e *Entry) {
	l.mu.Lock()
	defer l.mu.Unlock()
	e.Refused = true
}

// Check classifies a payload delivered to receiver. It returns the matching
// entry, or a description of why the payload is not exactly one payload told
// to this receiver.
func (l *Ledger) Check(receiver int, payload []byte) (*Entry, string) {
	return l.CheckFrom(receiver, payload, nil)
}

// CheckFrom is Check with a hint: among several ledger entries with identical
// (short) content, prefer one for which fromOK holds (e.g. whose sender matches
// the observed source address).
func (l *Ledger) CheckFrom(receiver int, payload []byte, fromOK func(*Entry) bool) (*Entry, string) {
	l.mu.Lock()
	defer l.mu.Unlock()
	if len(payload) >= 16 && payload[0] == 0xA5 {
		id := binary.BigEndian.Uint64(payload) &^ (0xFF << 56)
		e := l.byID[id]
		if e != nil && bytes.Equal(e.Data, payload) {
			return l.accept(e, receiver)
		}
		if e != nil {
			return nil, fmt.Sprintf("payload carries the tag of message %d (%d bytes, %d->%d) but differs from it: got %d bytes; %s", id, len(e.Data), e.Src, e.Dst, len(payload), l.describe(payload))
		}
	}
	// short or untagged: look for an exact match among entries to this receiver, then anywhere
	var other, good *Entry
	for _, e := range l.entries {
		if bytes.Equal(e.Data, payload) {
			if e.Dst == receiver && !e.Refused {
				if fromOK == nil || fromOK(e) {
					return l.accept(e, receiver)
				}
				if good == nil {
					good = e
				}
			}
			other = e
		}
	}
	if good != nil {
		return l.accept(good, receiver)
	}
	if other != nil {
		return l.accept(other, receiver)
	}
	return nil, fmt.Sprintf("payload of %d bytes is not any payload that was told: %s", len(payload), l.describe(payload))
}

func (l *Ledger) accept(e *Entry, receiver int) (*Entry, string) {
	if e.Dst != receiver {
		return nil, fmt.Sprintf("message %d was told to node %d but delivered to node %d", e.ID, e.Dst, receiver)
	}
	if e.Refused {
		return nil, fmt.Sprintf("message %d (%d bytes) was refused by Tell, yet it was delivered", e.ID, len(e.Data))
	}
	e.Received++
	return e, ""
}

// describe relates an unknown payload to known ones (truncation, concatenation, mixture).
func (l *Ledger) describe(p []byte) string {
	for _, e := range l.entries {
		switch {
		case len(p) < len(e.Data) && len(p) > 0 && bytes.HasPrefix(e.Data, p):
			return fmt.Sprintf("it is a truncation (first %d of %d bytes) of message %d", len(p), len(e.Data), e.ID)
		case len(p) < len(e.Data) && len(p) >= 8 && bytes.Contains(e.Data, p):
			return fmt.Sprintf("it is an inner part (%d of %d bytes) of message %d", len(p), len(e.Data), e.ID)
		case len(p) > len(e.Data) && len(e.Data) >= 16 && bytes.HasPrefix(p, e.Data):
			return fmt.Sprintf("it starts with the whole of message %d and continues (%d extra bytes): a concatenation", e.ID, len(p)-len(e.Data))
		}
	}
	// mixture: which messages do 16-byte windows come from?
	hits := map[uint64]int{}
	for off := 0; off+16 <= len(p); off += 16 {
		for _, e := range l.entries {
			if len(e.Data) >= 32 && bytes.Contains(e.Data, p[off:off+16]) {
				hits[e.ID]++
			}
		}
	}
	if len(hits) > 0 {
		return fmt.Sprintf("its 16-byte windows occur in messages %v: a mixture", hits)
	}
	return "unrelated bytes"
}
