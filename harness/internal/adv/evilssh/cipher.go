// Copyright 2011 The Go Authors. All rights reserved.
// Use of this source code is governed by a BSD-style
// license that can be found in the LICENSE file.

package ssh

import (
	"crypto/aes"
	"crypto/cipher"
	"crypto/des"
	"crypto/rc4"
	"crypto/subtle"
	"encoding/binary"
	"errors"
	"fmt"
	"hash"
	"io"

	"golang.org/x/crypto/chacha20"
	"golang.org/x/crypto/poly1305"
)

const (
	packetSizeMultiple = 16 // TODO(huin) this should be determined by the cipher.

	// RFC 4253 section 6.1 defines a minimum packet size of 32768 that implementations
	// MUST be able to process (plus a few more kilobytes for padding and mac). The RFC
	// indicates implementations SHOULD be able to handle larger packet sizes, but then
	// waffles on about reasonable limits.
	//
	// OpenSSH caps their maxPacket at 256kB so we choose to do
	// the same. maxPacket is also used to ensure that uint32
	// length fields do not overflow, so it should remain well
	// below 4G.
	maxPacket = 256 * 1024
)

// noneCipher implements cipher.Stream and provides no encryption. It is used
// by the transport before the first key-exchange.
type noneCipher struct{}

func (c noneCipher) XORKeyStream(dst, src []byte) {
	copy(dst, src)
}

func newAESCTR(key, iv []byte) (cipher.Stream, error) {
	c, err := aes.NewCipher(key)
	if err != nil {
		return nil, err
	}
	return cipher.NewCTR(c, iv), nil
}

func newRC4(key, iv []byte) (cipher.Stream, error) {
	return rc4.NewCipher(key)
}

type cipherMode struct {
	keySize int
	ivSize  int
	create  func(key, iv []byte, macKey []byte, algs directionAlgorithms) (packetCipher, error)
}

func streamCipherMode(skip int, createFunc func(key, iv []byte) (cipher.Stream, error)) func(key, iv []byte, macKey []byte, algs directionAlgorithms) (packetCipher, error) {
	return func(key, iv, macKey []byte, algs directionAlgorithms) (packetCipher, error) {
		stream, err := createFunc(key, iv)
		if err != nil {
			return nil, err
		}

		var streamDump []byte
		if skip > 0 {
			streamDump = make([]byte, 512)
		}

		for remainingToDump := skip; remainingToDump > 0; {
			dumpThisTime := remainingToDump
			if dumpThisTime > len(streamDump) {
				dumpThisTime = len(streamDump)
			}
			stream.XORKeyStream(streamDump[:dumpThisTime], streamDump[:dumpThisTime])
			remainingToDump -= dumpThisTime
		}

		mac := macModes[algs.MAC].new(macKey)
		return &streamPacketCipher{
			mac:       mac,
			etm:       macModes[algs.MAC].etm,
			macResult: make([]byte, mac.Size()),
			cipher:    stream,
		}, nil
	}
}

// cipherModes documents properties of supported ciphers. Ciphers not included
// are not supported and will not be negotiated, even if explicitly requested in
// ClientConfig.Crypto.Ciphers.
var cipherModes = map[string]*cipherMode{
	// Ciphers from RFC 4344, which introduced many CTR-based ciphers. Algorithms
	// are defined in the order specified in the RFC.
	"aes128-ctr": {16, aes.BlockSize, streamCipherMode(0, newAESCTR)},
	"aes192-ctr": {24, aes.BlockSize, streamCipherMode(0, newAESCTR)},
	"aes256-ctr": {32, aes.BlockSize, streamCipherMode(0, newAESCTR)},

	// Ciphers from RFC 4345, which introduces security-improved arcfour ciphers.
	// They are defined in the order specified in the RFC.
	"arcfour128": {16, 0, streamCipherMode(1536, newRC4)},
	"arcfour256": {32, 0, streamCipherMode(1536, newRC4)},

	// Cipher defined in RFC 4253, which describes SSH Transport Layer Protocol.
	// Note that this cipher is not safe, as stated in RFC 4253: "Arcfour (and
	// RC4) has problems with weak keys, and should be used with caution."
	// RFC 4345 introduces improved versions of Arcfour.
	"arcfour": {16, 0, streamCipherMode(0, newRC4)},

	// AEAD ciphers
	gcm128CipherID:     {16, 12, newGCMCipher},
	gcm256CipherID:     {32, 12, newGCMCipher},
	chacha20Poly1305ID: {64, 0, newChaCha20Cipher},

	// CBC mode is insecure and so is not included in the default config.
	// (See https://www.ieee-security.org/TC/SP2013/papers/4977a526.pdf). If absolutely
	// needed, it's possible to specify a custom Config to enable it.
	// You should expect that an active attacker can recover plaintext if
	// you do.
	aes128cbcID: {16, aes.BlockSize, newAESCBCCipher},

	// 3des-cbc is insecure and is not included in the default
	// config.
	tripledescbcID: {24, des.BlockSize, newTripleDESCBCCipher},
}

// prefixLen is the length of the packet prefix that contains the packet length
// and number of padding bytes.
const prefixLen = 5

// streamPacketCipher is a packetCipher using a stream cipher.
type streamPacketCipher struct {
	mac    hash.Hash
	cipher cipher.Stream
	etm    bool

	// The following members are to avoid per-packet allocations.
	prefix      [prefixLen]byte
	seqNumBytes [4]byte
	padding     [2 * packetSizeMultiple]byte
	packetData  []byte
	macResult   []byte
}

// readCipherPacket reads and decrypt a single packet from the reader argument.
func (s *streamPacketCipher) readCipherPacket(seqNum uint32, r io.Reader) ([]byte, error) {
	if _, err := io.ReadFull(r, s.prefix[:]); err != nil {
		return nil, err
	}

	var encryptedPaddingLength [1]byte
	if s.mac != nil && s.etm {
		copy(encryptedPaddingLength[:], s.prefix[4:5])
		s.cipher.XORKeyStream(s.prefix[4:5], s.prefix[4:5])
	} else {
		s.cipher.XORKeyStream(s.prefix[:], s.prefix[:])
	}

	length := binary.BigEndian.Uint32(s.prefix[0:4])
	paddingLength := uint32(s.prefix[4])

	var macSize uint32
	if s.mac != nil {
		s.mac.Reset()
		binary.BigEndian.PutUint32(s.seqNumBytes[:], seqNum)
		s.mac.Write(s.seqNumBytes[:])
		if s.etm {
			s.mac.Write(s.prefix[:4])
			s.mac.Write(encryptedPaddingLength[:])
		} else {
			s.mac.Write(s.prefix[:])
		}
		macSize = uint32(s.mac.Size())
	}

	if length <= paddingLength+1 {
		return nil, errors.New("ssh: invalid packet length, packet too small")
	}

	if length > maxPacket {
		return nil, errors.New("ssh: invalid packet length, packet too large")
	}

	// the maxPacket check above ensures that length-1+macSize
	// does not overflow.
	if uint32(cap(s.packetData)) < length-1+macSize {
		s.packetData = make([]byte, length-1+macSize)
	} else {
		s.packetData = s.packetData[:length-1+macSize]
	}

	if _, err := io.ReadFull(r, s.packetData); err != nil {
		return nil, err
	}
	mac := s.packetData[length-1:]
	data := s.packetData[:length-1]

	if s.mac != nil && s.etm {
		s.mac.Write(data)
	}

	s.cipher.XORKeyStream(data, data)

	if s.mac != nil {
		if !s.etm {
			s.mac.Write(data)
		}
		s.macResult = s.mac.Sum(s.macResult[:0])
		if subtle.ConstantTimeCompare(s.macResult, mac) != 1 {
			return nil, errors.New("ssh: MAC failure")
		}
	}

	return s.packetData[:length-paddingLength-1], nil
}

// writeCipherPacket encrypts and sends a packet of data to the writer argument
func (s *streamPacketCipher) writeCipherPacket(seqNum uint32, w io.Writer, rand io.Reader, packet []byte) error {
	if len(packet) > maxPacket {
		return errors.New("ssh: packet too large")
	}

	aadlen := 0
	if s.mac != nil && s.etm {
		// packet length is not encrypted for EtM modes
		aadlen = 4
	}

	paddingLength := packetSizeMultiple - (prefixLen+len(packet)-aadlen)%packetSizeMultiple
	if paddingLength < 4 {
		paddingLength += packetSizeMultiple
	}

	length := len(packet) + 1 + paddingLength
	binary.BigEndian.PutUint32(s.prefix[:], uint32(length))
	s.prefix[4] = byte(paddingLength)
	padding := s.padding[:paddingLength]
	if _, err := io.ReadFull(rand, padding); err != nil {
		return err
	}

	if s.mac != nil {
		s.mac.Reset()
		binary.BigEndian.PutUint32(s.seqNumBytes[:], seqNum)
		s.mac.Write(s.seqNumBytes[:])

		if s.etm {
			// For EtM algorithms, the packet length must stay unencrypted,
			// but the following data (padding length) must be encrypted
			s.cipher.XORKeyStream(s.prefix[4:5], s.prefix[4:5])
		}

		s.mac.Write(s.prefix[:])

		if !s.etm {
			// For non-EtM algorithms, the algorithm is applied on unencrypted data
			s.mac.Write(packet)
			s.mac.Write(padding)
		}
	}

	if !(s.mac != nil && s.etm) {
		// For EtM algorithms, the padding length has already been encrypted
		// and the packet length must remain unencrypted
		s.cipher.XORKeyStream(s.prefix[:], s.prefix[:])
	}

	s.cipher.XORKeyStream(packet, packet)
	s.cipher.XORKeyStream(padding, padding)

	if s.mac != nil && s.etm {
		// For EtM algorithms, packet and padding must be encrypted
		s.mac.Write(packet)
		s.mac.Write(padding)
	}

	if _, err := w.Write(s.prefix[:]); err != nil {
		return err
	}
	if _, err := w.Write(packet); err != nil {
		return err
	}
	if _, err := w.Write(padding); err != nil {
		return err
	}

	if s.mac != nil {
		s.macResult = s.mac.Sum(s.macResult[:0])
		if _, err := w.Write(s.macResult); err != nil {
			return err
		}
	}

	return nil
}

type gcmCipher struct {
	aead   cipher.AEAD
	prefix [4]byte
	iv     []byte
	buf    []byte
}

func newGCMCipher(key, iv, unusedMacKey []byte, unusedAlgs directionAlgorithms) (packetCipher, error) {
	c, err := aes.NewCipher(key)
	if err != nil {
		return nil, err
	}

	aead, err := cipher.NewGCM(c)
	if err != nil {
		return nil, err
	}

	return &gcmCipher{
		aead: aead,
		iv:   iv,
	}, nil
}

const gcmTagSize = 16

func (c *gcmCipher) writeCipherPacket(seqNum uint32, w io.Writer, rand io.Reader, packet []byte) error {
	// Pad out to multiple of 16 bytes. This is different from the
	// stream cipher because that encrypts the length too.
	padding := byte(packetSizeMultiple - (1+len(packet))%packetSizeMultiple)
	if padding < 4 {
		padding += packetSizeMultiple
	}

	length := uint32(len(packet) + int(padding) + 1)
	binary.BigEndian.PutUint32(c.prefix[:], length)
	if _, err := w.Write(c.prefix[:]); err != nil {
		return err
	}

	if cap(c.buf) < int(length) {
		c.buf = make([]byte, length)
	} else {
		c.buf = c.buf[:length]
	}

	c.buf[0] = padding
	copy(c.buf[1:], packet)
	if _, err := io.ReadFull(rand, c.buf[1+len(packet):]); err != nil {
		return err
	}
	c.buf = c.aead.Seal(c.buf[:0], c.iv, c.buf, c.prefix[:])
	if _, err := w.Write(c.buf); err != nil {
		return err
	}
	c.incIV()

	return nil
}

func (c *gcmCipher) incIV() {
	for i := 4 + 7; i >= 4; i-- {
		c.iv[i]++
		if c.iv[i] != 0 {
			break
		}
	}
}

func (c *gcmCipher) readCipherPacket(seqNum uint32, r io.Reader) ([]byte, error) {
	if _, err := io.ReadFull(r, c.prefix[:]); err != nil {
		return nil, err
	}
	length := binary.BigEndian.Uint32(c.prefix[:])
	if length > maxPacket {
		return nil, errors.New("ssh: max packet length exceeded")
	}

	if cap(c.buf) < int(length+gcmTagSize) {
		c.buf = make([]byte, length+gcmTagSize)
	} else {
		c.buf = c.buf[:length+gcmTagSize]
	}

	if _, err := io.ReadFull(r, c.buf); err != nil {
		return nil, err
	}

	plain, err := c.aead.Open(c.buf[:0], c.iv, c.buf, c.prefix[:])
	if err != nil {
		return nil, err
	}
	c.incIV()

	if len(plain) == 0 {
		return nil, errors.New("ssh: empty packet")
	}

	padding := plain[0]
	if padding < 4 {
		// padding is a byte, so it automatically satisfies
		// the maximum size, which is 255.
		return nil, fmt.Errorf("ssh: illegal padding %d", padding)
	}

	if int(padding+1) >= len(plain) {
		return nil, fmt.Errorf("ssh: padding %d too large", padding)
	}
	plain = plain[1 : length-uint32(padding)]
	return plain, nil
}

// cbcCipher implements aes128-cbc cipher defined in RFC 4253 section 6.1
type cbcCipher struct {
	mac       hash.Hash
	macSize   uint32
	decrypter cipher.BlockMode
	encrypter cipher.BlockMode

	// The following members are to avoid per-packet allocations.
	seqNumBytes [4]byte
	packetData  []byte
	macResult   []byte

	// Amount of data we should still read to hide which
	// verification error triggered.
	oracleCamouflage uint32
}

func newCBCCipher(c cipher.Block, key, iv, macKey []byte, algs directionAlgorithms) (packetCipher, error) {
	cbc := &cbcCipher{
		mac:        macModes[algs.MAC].new(macKey),
		decrypter:  cipher.NewCBCDecrypter(c, iv),
		encrypter:  cipher.NewCBCEncrypter(c, iv),
		packetData: make([]byte, 1024),
	}
	if cbc.mac != nil {
		cbc.macSize = uint32(cbc.mac.Size())
	}

	return cbc, nil
}

func newAESCBCCipher(key, iv, macKey []byte, algs directionAlgorithms) (packetCipher, error) {
	c, err := aes.NewCipher(key)
	if err != nil {
		return nil, err
	}

	cbc, err := newCBCCipher(c, key, iv, macKey, algs)
	if err != nil {
		return nil, err
	}

	return cbc, nil
}

func newTripleDESCBCCipher(key, iv, macKey []byte, algs directionAlgorithms) (packetCipher, error) {
	c, err := des.NewTripleDESCipher(key)
	if err != nil {
		return nil, err
	}

	cbc, err := newCBCCipher(c, key, iv, macKey, algs)
	if err != nil {
		return nil, err
	}

	return cbc, nil
}

func maxUInt32(a, b int) uint32 {
	if a > b {
		return uint32(a)
	}
	return uint32(b)
}

const (
	cbcMinPacketSizeMultiple = 8
	cbcMinPacketSize         = 16
	cbcMinPaddingSize        = 4
)

// cbcError represents a verification error that may leak information.
type cbcError string

func (e cbcError) Error() string { return string(e) }

func (c *cbcCipher) readCipherPacket(seqNum uint32, r io.Reader) ([]byte, error) {
	p, err := c.readCipherPacketLeaky(seqNum, r)
	if err != nil {
		if _, ok := err.(cbcError); ok {
			// Verification error: read a fixed amount of
			// data, to make distinguishing between
			// failing MAC and failing length check more
			// difficult.
			io.CopyN(io.Discard, r, int64(c.oracleCamouflage))
		}
	}
	return p, err
}

func (c *cbcCipher) readCipherPacketLeaky(seqNum uint32, r io.Reader) ([]byte, error) {
	blockSize := c.decrypter.BlockSize()

	// Read the header, which will include some of the subsequent data in the
	// case of block ciphers - this is copied back to the payload later.
	// How many bytes of payload/padding will be read with this first read.
	firstBlockLength := uint32((prefixLen + blockSize - 1) / blockSize * blockSize)
	firstBlock := c.packetData[:firstBlockLength]
	if _, err := io.ReadFull(r, firstBlock); err != nil {
		return nil, err
	}

	c.oracleCamouflage = maxPacket + 4 + c.macSize - firstBlockLength

	c.decrypter.CryptBlocks(firstBlock, firstBlock)
	length := binary.BigEndian.Uint32(firstBlock[:4])
	if length > maxPacket {
		return nil, cbcError("ssh: packet too large")
	}
	if length+4 < maxUInt32(cbcMinPacketSize, blockSize) {
		// The minimum size of a packet is 16 (or the cipher block size, whichever
		// is larger) bytes.
		return nil, cbcError("ssh: packet too small")
	}
	// The length of the packet (including the length field but not the MAC) must
	// be a multiple of the block size or 8, whichever is larger.
	if (length+4)%maxUInt32(cbcMinPacketSizeMultiple, blockSize) != 0 {
		return nil, cbcError("ssh: invalid packet length multiple")
	}

	paddingLength := uint32(firstBlock[4])
	if paddingLength < cbcMinPaddingSize || length <= paddingLength+1 {
		return nil, cbcError("ssh: invalid packet length")
	}

	// Positions within the c.packetData buffer:
	macStart := 4 + length
	paddingStart := macStart - paddingLength

	// Entire packet size, starting before length, ending at end of mac.
	entirePacketSize := macStart + c.macSize

	// Ensure c.packetData is large enough for the entire packet data.
	if uint32(cap(c.packetData)) < entirePacketSize {
		// Still need to upsize and copy, but this should be rare at runtime, only
		// on upsizing the packetData buffer.
		c.packetData = make([]byte, entirePacketSize)
		copy(c.packetData, firstBlock)
	} else {
		c.packetData = c.packetData[:entirePacketSize]
	}

	n, err := io.ReadFull(r, c.packetData[firstBlockLength:])
	if err != nil {
		return nil, err
	}
	c.oracleCamouflage -= uint32(n)

	remainingCrypted := c.packetData[firstBlockLength:macStart]
	c.decrypter.CryptBlocks(remainingCrypted, remainingCrypted)

	mac := c.packetData[macStart:]
	if c.mac != nil {
		c.mac.Reset()
		binary.BigEndian.PutUint32(c.seqNumBytes[:], seqNum)
		c.mac.Write(c.seqNumBytes[:])
		c.mac.Write(c.packetData[:macStart])
		c.macResult = c.mac.Sum(c.macResult[:0])
		if subtle.ConstantTimeCompare(c.macResult, mac) != 1 {
			return nil, cbcError("ssh: MAC failure")
		}
	}

	return c.packetData[prefixLen:paddingStart], nil
}

func (c *cbcCipher) writeCipherPacket(seqNum uint32, w io.Writer, rand io.Reader, packet []byte) error {
	effectiveBlockSize := maxUInt32(cbcMinPacketSizeMultiple, c.encrypter.BlockSize())

	// Length of encrypted portion of the packet (header, payload, padding).
	// Enforce minimum padding and packet size.
	encLength := maxUInt32(prefixLen+len(packet)+cbcMinPaddingSize, cbcMinPaddingSize)
	// Enforce block size.
	encLength = (encLength + effectiveBlockSize - 1) / effectiveBlockSize * effectiveBlockSize

	length := encLength - 4
	paddingLength := int(length) - (1 + len(packet))

	// Overall buffer contains: header, payload, padding, mac.
	// Space for the MAC is reserved in the capacity but not the slice length.
	bufferSize := encLength + c.macSize
	if uint32(cap(c.packetData)) < bufferSize {
		c.packetData = make([]byte, encLength, bufferSize)
	} else {
		c.packetData = c.packetData[:encLength]
	}

	p := c.packetData

	// Packet header.
	binary.BigEndian.PutUint32(p, length)
	p = p[4:]
	p[0] = byte(paddingLength)

	// Payload.
	p = p[1:]
	copy(p, packet)

	// Padding.
	p = p[len(packet):]
	if _, err := io.ReadFull(rand, p); err != nil {
		return err
	}

	if c.mac != nil {
		c.mac.Reset()
		binary.BigEndian.PutUint32(c.seqNumBytes[:], seqNum)
		c.mac.Write(c.seqNumBytes[:])
		c.mac.Write(c.packetData)
		// The MAC is now appended into the capacity reserved for it earlier.
		c.packetData = c.mac.Sum(c.packetData)
	}

	c.encrypter.CryptBlocks(c.packetData[:encLength], c.packetData[:encLength])

	if _, err := w.Write(c.packetData); err != nil {
		return err
	}

	return nil
}

const chacha20Poly1305ID = "chacha20-poly1305@openssh.com"

// chacha20Poly1305Cipher implements the chacha20-poly1305@openssh.com
// AEAD, which is described here:
//
//	https://tools.ietf.org/html/draft-josefsson-ssh-chacha20-poly1305-openssh-00
//
// the methods here also implement padding, which RFC 4253 Section 6
// also requires of stream ciphers.
type chacha20Poly1305Cipher struct {
	lengthKey  [32]byte
	contentKey [32]byte
	buf        []byte
}

func newChaCha20Cipher(key, unusedIV, unusedMACKey []byte, unusedAlgs directionAlgorithms) (packetCipher, error) {
	if len(key) != 64 {
		panic(len(key))
	}

	c := &chacha20Poly1305Cipher{
		buf: make([]byte, 256),
	}

	copy(c.contentKey[:], key[:32])
	copy(c.lengthKey[:], key[32:])
	return c, nil
}

func (c *chacha20Poly1305Cipher) readCipherPacket(seqNum uint32, r io.Reader) ([]byte, error) {
	nonce := make([]byte, 12)
	binary.BigEndian.PutUint32(nonce[8:], seqNum)
	s, err := chacha20.NewUnauthenticatedCipher(c.contentKey[:], nonce)
	if err != nil {
		return nil, err
	}
	var polyKey, discardBuf [32]byte
	s.XORKeyStream(polyKey[:], polyKey[:])
	s.XORKeyStream(discardBuf[:], discardBuf[:]) // skip the next 32 bytes

	encryptedLength := c.buf[:4]
	if _, err := io.ReadFull(r, encryptedLength); err != nil {
		return nil, err
	}

	var lenBytes [4]byte
	ls, err := chacha20.NewUnauthenticatedCipher(c.lengthKey[:], nonce)
	if err != nil {
		return nil, err
	}
	ls.XORKeyStream(lenBytes[:], encryptedLength)

	length := binary.BigEndian.Uint32(lenBytes[:])
	if length > maxPacket {
		return nil, errors.New("ssh: invalid packet length, packet too large")
	}

	contentEnd := 4 + length
	packetEnd := contentEnd + poly1305.TagSize
	if uint32(cap(c.buf)) < packetEnd {
		c.buf = make([]byte, packetEnd)
		copy(c.buf[:], encryptedLength)
	} else {
		c.buf = c.buf[:packetEnd]
	}

	if _, err := io.ReadFull(r, c.buf[4:packetEnd]); err != nil {
		return nil, err
	}

	var mac [poly1305.TagSize]byte
	copy(mac[:], c.buf[contentEnd:packetEnd])
	if !poly1305.Verify(&mac, c.buf[:contentEnd], &polyKey) {
		return nil, errors.New("ssh: MAC failure")
	}

	plain := c.buf[4:contentEnd]
	s.XORKeyStream(plain, plain)

	if len(plain) == 0 {
		return nil, errors.New("ssh: empty packet")
	}

	padding := plain[0]
	if padding < 4 {
		// padding is a byte, so it automatically satisfies
		// the maximum size, which is 255.
		return nil, fmt.Errorf("ssh: illegal padding %d", padding)
	}

	if int(padding)+1 >= len(plain) {
		return nil, fmt.Errorf("ssh: padding %d too large", padding)
	}

	plain = plain[1 : len(plain)-int(padding)]

	return plain, nil
}

func (c *chacha20Poly1305Cipher) writeCipherPacket(seqNum uint32, w io.Writer, rand io.Reader, payload []byte) error {
	nonce := make([]byte, 12)
	binary.BigEndian.PutUint32(nonce[8:], seqNum)
	s, err := chacha20.NewUnauthenticatedCipher(c.contentKey[:], nonce)
	if err != nil {
		return err
	}
	var polyKey, discardBuf [32]byte
	s.XORKeyStream(polyKey[:], polyKey[:])
	s.XORKeyStream(discardBuf[:], discardBuf[:]) // skip the next 32 bytes

	// There is no blocksize, so fall back to multiple of 8 byte
	// padding, as described in RFC 4253, Sec 6.
	const packetSizeMultiple = 8

	padding := packetSizeMultiple - (1+len(payload))%packetSizeMultiple
	if padding < 4 {
		padding += packetSizeMultiple
	}

	// size (4 bytes), padding (1), payload, padding, tag.
	totalLength := 4 + 1 + len(payload) + padding + poly1305.TagSize
	if cap(c.buf) < totalLength {
		c.buf = make([]byte, totalLength)
	} else {
		c.buf = c.buf[:totalLength]
	}

	binary.BigEndian.PutUint32(c.buf, uint32(1+len(payload)+padding))
	ls, err := chacha20.NewUnauthenticatedCipher(c.lengthKey[:], nonce)
	if err != nil {
		return err
	}
	ls.XORKeyStream(c.buf, c.buf[:4])
	c.buf[4] = byte(padding)
	copy(c.buf[5:], payload)
	packetEnd := 5 + len(payload) + padding
	if _, err := io.ReadFull(rand, c.buf[5+len(payload):packetEnd]); err != nil {
		return err
	}

	s.XORKeyStream(c.buf[4:], c.buf[4:packetEnd])

	var mac [poly1305.TagSize]byte
	poly1305.Sum(&mac, c.buf[:packetEnd], &polyKey)

	copy(c.buf[packetEnd:], mac[:])

	if _, err := w.Write(c.buf); err != nil {
		return err
	}
	return nil
}
