// Copyright 2013 The Go Authors. All rights reserved.
// Use of this source code is governed by a BSD-style
// license that can be found in the LICENSE file.

package ssh

import (
	"fmt"
	"net"
)

// OpenChannelError is returned if the other side rejects an
// OpenChannel request.
type OpenChannelError struct {
	Reason  RejectionReason
	Message string
}

func (e *OpenChannelError) Error() string {
	return fmt.Sprintf("ssh: rejected: %s (%s)", e.Reason, e.Message)
}

// ConnMetadata holds metadata for the connection.
type ConnMetadata interface {
	// User returns the user ID for this connection.
	User() string

	// SessionID returns the session hash, also denoted by H.
	SessionID() []byte

	// ClientVersion returns the client's version string as hashed
	// into the session ID.
	ClientVersion() []byte

	// ServerVersion returns the server's version string as hashed
	// into the session ID.
	ServerVersion() []byte

	// RemoteAddr returns the remote address for this connection.
	RemoteAddr() net.Addr

	// LocalAddr returns the local address for this connection.
	LocalAddr() net.Addr
}

// Conn represents an SSH connection for both server and client roles.
// Conn is the basis for implementing an application layer, such
// as ClientConn, which implements the traditional shell access for
// clients.
type Conn interface {
	ConnMetadata

	// SendRequest sends a global request, and returns the
	// reply. If wantReply is true, it returns the response status
	// and payload. See also RFC 4254, section 4.
	SendRequest(name string, wantReply bool, payload []byte) (bool, []byte, error)

	// OpenChannel tries to open an channel. If the request is
	// rejected, it returns *OpenChannelError. On success it returns
	// the SSH Channel and a Go channel for incoming, out-of-band
	// requests. The Go channel must be serviced, or the
	// connection will hang.
	OpenChannel(name string, data []byte) (Channel, <-chan *Request, error)

	// Close closes the underlying network connection
	Close() error

	// Wait blocks until the connection has shut down, and returns the
	// error causing the shutdown.
	Wait() error

	// TODO(hanwen): consider exposing:
	//   RequestKeyChange
	//   Disconnect
}

// DiscardRequests consumes and rejects all requests from the
// passed-in channel.
func DiscardRequests(in <-chan *Request) {
	for req := range in {
		if req.WantReply {
			req.Reply(false, nil)
		}
	}
}

// A connection represents an incoming connection.
type connection struct {
	transport *handshakeTransport
	sshConn

	// The connection protocol.
	*mux
}

func (c *connection) Close() error {
	return c.sshConn.conn.Close()
}

// sshConn provides net.Conn metadata, but disallows direct reads and
// writes.
type sshConn struct {
	conn net.Conn

	user          string
	sessionID     []byte
	clientVersion []byte
	serverVersion []byte
}

func dup(src []byte) []byte {
	dst := make([]byte, len(src))
	copy(dst, src)
	return dst
}

func (c *sshConn) User() string {
	return c.user
}

func (c *sshConn) RemoteAddr() net.Addr {
	return c.conn.RemoteAddr()
}

func (c *sshConn) Close() error {
	return c.conn.Close()
}

func (c *sshConn) LocalAddr() net.Addr {
	return c.conn.LocalAddr()
}

func (c *sshConn) SessionID() []byte {
	return dup(c.sessionID)
}

func (c *sshConn) ClientVersion() []byte {
	return dup(c.clientVersion)
}

func (c *sshConn) ServerVersion() []byte {
	return dup(c.serverVersion)
}
