// Copyright 2012 The Go Authors. All rights reserved.
// Use of this source code is governed by a BSD-style
// license that can be found in the LICENSE file.

package ssh

// Message authentication support

import (
	"crypto/hmac"
	"crypto/sha1"
	"crypto/sha256"
	"hash"
)

type macMode struct {
	keySize int
	etm     bool
	new     func(key []byte) hash.Hash
}

// truncatingMAC wraps around a hash.Hash and truncates the output digest to
// a given size.
type truncatingMAC struct {
	length int
	hmac   hash.Hash
}

func (t truncatingMAC) Write(data []byte) (int, error) {
	return t.hmac.Write(data)
}

func (t truncatingMAC) Sum(in []byte) []byte {
	out := t.hmac.Sum(in)
	return out[:len(in)+t.length]
}

func (t truncatingMAC) Reset() {
	t.hmac.Reset()
}

func (t truncatingMAC) Size() int {
	return t.length
}

func (t truncatingMAC) BlockSize() int { return t.hmac.BlockSize() }

var macModes = map[string]*macMode{
	"hmac-sha2-256-etm@openssh.com": {32, true, func(key []byte) hash.Hash {
		return hmac.New(sha256.New, key)
	}},
	"hmac-sha2-256": {32, false, func(key []byte) hash.Hash {
		return hmac.New(sha256.New, key)
	}},
	"hmac-sha1": {20, false, func(key []byte) hash.Hash {
		return hmac.New(sha1.New, key)
	}},
	"hmac-sha1-96": {20, false, func(key []byte) hash.Hash {
		return truncatingMAC{12, hmac.New(sha1.New, key)}
	}},
}
