// Copyright 2012 The Go Authors. All rights reserved.
// Use of this source code is governed by a BSD-style
// license that can be found in the LICENSE file.

package ssh

import (
	"bytes"
	"errors"
	"fmt"
	"io"
	"net"
	"sort"
	"time"
)

// Certificate algorithm names from [PROTOCOL.certkeys]. These values can appear
// in Certificate.Type, PublicKey.Type, and ClientConfig.HostKeyAlgorithms.
// Unlike key algorithm names, these are not passed to AlgorithmSigner and don't
// appear in the Signature.Format field.
const (
	CertAlgoRSAv01        = "ssh-rsa-cert-v01@openssh.com"
	CertAlgoDSAv01        = "ssh-dss-cert-v01@openssh.com"
	CertAlgoECDSA256v01   = "ecdsa-sha2-nistp256-cert-v01@openssh.com"
	CertAlgoECDSA384v01   = "ecdsa-sha2-nistp384-cert-v01@openssh.com"
	CertAlgoECDSA521v01   = "ecdsa-sha2-nistp521-cert-v01@openssh.com"
	CertAlgoSKECDSA256v01 = "sk-ecdsa-sha2-nistp256-cert-v01@openssh.com"
	CertAlgoED25519v01    = "ssh-ed25519-cert-v01@openssh.com"
	CertAlgoSKED25519v01  = "sk-ssh-ed25519-cert-v01@openssh.com"

	// CertAlgoRSASHA256v01 and CertAlgoRSASHA512v01 can't appear as a
	// Certificate.Type (or PublicKey.Type), but only in
	// ClientConfig.HostKeyAlgorithms.
	CertAlgoRSASHA256v01 = "rsa-sha2-256-cert-v01@openssh.com"
	CertAlgoRSASHA512v01 = "rsa-sha2-512-cert-v01@openssh.com"
)

const (
	// Deprecated: use CertAlgoRSAv01.
	CertSigAlgoRSAv01 = CertAlgoRSAv01
	// Deprecated: use CertAlgoRSASHA256v01.
	CertSigAlgoRSASHA2256v01 = CertAlgoRSASHA256v01
	// Deprecated: use CertAlgoRSASHA512v01.
	CertSigAlgoRSASHA2512v01 = CertAlgoRSASHA512v01
)

// Certificate types distinguish between host and user
// certificates. The values can be set in the CertType field of
// Certificate.
const (
	UserCert = 1
	HostCert = 2
)

// Signature represents a cryptographic signature.
type Signature struct {
	Format string
	Blob   []byte
	Rest   []byte `ssh:"rest"`
}

// CertTimeInfinity can be used for OpenSSHCertV01.ValidBefore to indicate that
// a certificate does not expire.
const CertTimeInfinity = 1<<64 - 1

// An Certificate represents an OpenSSH certificate as defined in
// [PROTOCOL.certkeys]?rev=1.8. The Certificate type implements the
// PublicKey interface, so it can be unmarshaled using
// ParsePublicKey.
type Certificate struct {
	Nonce           []byte
	Key             PublicKey
	Serial          uint64
	CertType        uint32
	KeyId           string
	ValidPrincipals []string
	ValidAfter      uint64
	ValidBefore     uint64
	Permissions
	Reserved     []byte
	SignatureKey PublicKey
	Signature    *Signature
}

// genericCertData holds the key-independent part of the certificate data.
// Overall, certificates contain an nonce, public key fields and
// key-independent fields.
type genericCertData struct {
	Serial          uint64
	CertType        uint32
	KeyId           string
	ValidPrincipals []byte
	ValidAfter      uint64
	ValidBefore     uint64
	CriticalOptions []byte
	Extensions      []byte
	Reserved        []byte
	SignatureKey    []byte
	Signature       []byte
}

func marshalStringList(namelist []string) []byte {
	var to []byte
	for _, name := range namelist {
		s := struct{ N string }{name}
		to = append(to, Marshal(&s)...)
	}
	return to
}

type optionsTuple struct {
	Key   string
	Value []byte
}

type optionsTupleValue struct {
	Value string
}

// serialize a map of critical options or extensions
// issue #10569 - per [PROTOCOL.certkeys] and SSH implementation,
// we need two length prefixes for a non-empty string value
func marshalTuples(tups map[string]string) []byte {
	keys := make([]string, 0, len(tups))
	for key := range tups {
		keys = append(keys, key)
	}
	sort.Strings(keys)

	var ret []byte
	for _, key := range keys {
		s := optionsTuple{Key: key}
		if value := tups[key]; len(value) > 0 {
			s.Value = Marshal(&optionsTupleValue{value})
		}
		ret = append(ret, Marshal(&s)...)
	}
	return ret
}

// issue #10569 - per [PROTOCOL.certkeys] and SSH implementation,
// we need two length prefixes for a non-empty option value
func parseTuples(in []byte) (map[string]string, error) {
	tups := map[string]string{}
	var lastKey string
	var haveLastKey bool

	for len(in) > 0 {
		var key, val, extra []byte
		var ok bool

		if key, in, ok = parseString(in); !ok {
			return nil, errShortRead
		}
		keyStr := string(key)
		// according to [PROTOCOL.certkeys], the names must be in
		// lexical order.
		if haveLastKey && keyStr <= lastKey {
			return nil, fmt.Errorf("ssh: certificate options are not in lexical order")
		}
		lastKey, haveLastKey = keyStr, true
		// the next field is a data field, which if non-empty has a string embedded
		if val, in, ok = parseString(in); !ok {
			return nil, errShortRead
		}
		if len(val) > 0 {
			val, extra, ok = parseString(val)
			if !ok {
				return nil, errShortRead
			}
			if len(extra) > 0 {
				return nil, fmt.Errorf("ssh: unexpected trailing data after certificate option value")
			}
			tups[keyStr] = string(val)
		} else {
			tups[keyStr] = ""
		}
	}
	return tups, nil
}

func parseCert(in []byte, privAlgo string) (*Certificate, error) {
	nonce, rest, ok := parseString(in)
	if !ok {
		return nil, errShortRead
	}

	key, rest, err := parsePubKey(rest, privAlgo)
	if err != nil {
		return nil, err
	}

	var g genericCertData
	if err := Unmarshal(rest, &g); err != nil {
		return nil, err
	}

	c := &Certificate{
		Nonce:       nonce,
		Key:         key,
		Serial:      g.Serial,
		CertType:    g.CertType,
		KeyId:       g.KeyId,
		ValidAfter:  g.ValidAfter,
		ValidBefore: g.ValidBefore,
	}

	for principals := g.ValidPrincipals; len(principals) > 0; {
		principal, rest, ok := parseString(principals)
		if !ok {
			return nil, errShortRead
		}
		c.ValidPrincipals = append(c.ValidPrincipals, string(principal))
		principals = rest
	}

	c.CriticalOptions, err = parseTuples(g.CriticalOptions)
	if err != nil {
		return nil, err
	}
	c.Extensions, err = parseTuples(g.Extensions)
	if err != nil {
		return nil, err
	}
	c.Reserved = g.Reserved
	k, err := ParsePublicKey(g.SignatureKey)
	if err != nil {
		return nil, err
	}

	c.SignatureKey = k
	c.Signature, rest, ok = parseSignatureBody(g.Signature)
	if !ok || len(rest) > 0 {
		return nil, errors.New("ssh: signature parse error")
	}

	return c, nil
}

type openSSHCertSigner struct {
	pub    *Certificate
	signer Signer
}

type algorithmOpenSSHCertSigner struct {
	*openSSHCertSigner
	algorithmSigner AlgorithmSigner
}

// NewCertSigner returns a Signer that signs with the given Certificate, whose
// private key is held by signer. It returns an error if the public key in cert
// doesn't match the key used by signer.
func NewCertSigner(cert *Certificate, signer Signer) (Signer, error) {
	if !bytes.Equal(cert.Key.Marshal(), signer.PublicKey().Marshal()) {
		return nil, errors.New("ssh: signer and cert have different public key")
	}

	if algorithmSigner, ok := signer.(AlgorithmSigner); ok {
		return &algorithmOpenSSHCertSigner{
			&openSSHCertSigner{cert, signer}, algorithmSigner}, nil
	} else {
		return &openSSHCertSigner{cert, signer}, nil
	}
}

func (s *openSSHCertSigner) Sign(rand io.Reader, data []byte) (*Signature, error) {
	return s.signer.Sign(rand, data)
}

func (s *openSSHCertSigner) PublicKey() PublicKey {
	return s.pub
}

func (s *algorithmOpenSSHCertSigner) SignWithAlgorithm(rand io.Reader, data []byte, algorithm string) (*Signature, error) {
	return s.algorithmSigner.SignWithAlgorithm(rand, data, algorithm)
}

const sourceAddressCriticalOption = "source-address"

// CertChecker does the work of verifying a certificate. Its methods
// can be plugged into ClientConfig.HostKeyCallback and
// ServerConfig.PublicKeyCallback. For the CertChecker to work,
// minimally, the IsAuthority callback should be set.
type CertChecker struct {
	// SupportedCriticalOptions lists the CriticalOptions that the
	// server application layer understands. These are only used
	// for user certificates.
	SupportedCriticalOptions []string

	// IsUserAuthority should return true if the key is recognized as an
	// authority for the given user certificate. This allows for
	// certificates to be signed by other certificates. This must be set
	// if this CertChecker will be checking user certificates.
	IsUserAuthority func(auth PublicKey) bool

	// IsHostAuthority should report whether the key is recognized as
	// an authority for this host. This allows for certificates to be
	// signed by other keys, and for those other keys to only be valid
	// signers for particular hostnames. This must be set if this
	// CertChecker will be checking host certificates.
	IsHostAuthority func(auth PublicKey, address string) bool

	// Clock is used for verifying time stamps. If nil, time.Now
	// is used.
	Clock func() time.Time

	// UserKeyFallback is called when CertChecker.Authenticate encounters a
	// public key that is not a certificate. It must implement validation
	// of user keys or else, if nil, all such keys are rejected.
	UserKeyFallback func(conn ConnMetadata, key PublicKey) (*Permissions, error)

	// HostKeyFallback is called when CertChecker.CheckHostKey encounters a
	// public key that is not a certificate. It must implement host key
	// validation or else, if nil, all such keys are rejected.
	HostKeyFallback HostKeyCallback

	// IsRevoked is called for each certificate so that revocation checking
	// can be implemented. It should return true if the given certificate
	// is revoked and false otherwise. If nil, no certificates are
	// considered to have been revoked.
	IsRevoked func(cert *Certificate) bool
}

// CheckHostKey checks a host key certificate. This method can be
// plugged into ClientConfig.HostKeyCallback.
func (c *CertChecker) CheckHostKey(addr string, remote net.Addr, key PublicKey) error {
	cert, ok := key.(*Certificate)
	if !ok {
		if c.HostKeyFallback != nil {
			return c.HostKeyFallback(addr, remote, key)
		}
		return errors.New("ssh: non-certificate host key")
	}
	if cert.CertType != HostCert {
		return fmt.Errorf("ssh: certificate presented as a host key has type %d", cert.CertType)
	}
	if !c.IsHostAuthority(cert.SignatureKey, addr) {
		return fmt.Errorf("ssh: no authorities for hostname: %v", addr)
	}

	hostname, _, err := net.SplitHostPort(addr)
	if err != nil {
		return err
	}

	// Pass hostname only as principal for host certificates (consistent with OpenSSH)
	return c.CheckCert(hostname, cert)
}

// Authenticate checks a user certificate. Authenticate can be used as
// a value for ServerConfig.PublicKeyCallback.
func (c *CertChecker) Authenticate(conn ConnMetadata, pubKey PublicKey) (*Permissions, error) {
	cert, ok := pubKey.(*Certificate)
	if !ok {
		if c.UserKeyFallback != nil {
			return c.UserKeyFallback(conn, pubKey)
		}
		return nil, errors.New("ssh: normal key pairs not accepted")
	}

	if cert.CertType != UserCert {
		return nil, fmt.Errorf("ssh: cert has type %d", cert.CertType)
	}
	if !c.IsUserAuthority(cert.SignatureKey) {
		return nil, fmt.Errorf("ssh: certificate signed by unrecognized authority")
	}

	if err := c.CheckCert(conn.User(), cert); err != nil {
		return nil, err
	}

	return &cert.Permissions, nil
}

// CheckCert checks CriticalOptions, ValidPrincipals, revocation, timestamp and
// the signature of the certificate.
func (c *CertChecker) CheckCert(principal string, cert *Certificate) error {
	if c.IsRevoked != nil && c.IsRevoked(cert) {
		return fmt.Errorf("ssh: certificate serial %d revoked", cert.Serial)
	}

	for opt := range cert.CriticalOptions {
		// sourceAddressCriticalOption will be enforced by
		// serverAuthenticate
		if opt == sourceAddressCriticalOption {
			continue
		}

		found := false
		for _, supp := range c.SupportedCriticalOptions {
			if supp == opt {
				found = true
				break
			}
		}
		if !found {
			return fmt.Errorf("ssh: unsupported critical option %q in certificate", opt)
		}
	}

	if len(cert.ValidPrincipals) > 0 {
		// By default, certs are valid for all users/hosts.
		found := false
		for _, p := range cert.ValidPrincipals {
			if p == principal {
				found = true
				break
			}
		}
		if !found {
			return fmt.Errorf("ssh: principal %q not in the set of valid principals for given certificate: %q", principal, cert.ValidPrincipals)
		}
	}

	clock := c.Clock
	if clock == nil {
		clock = time.Now
	}

	unixNow := clock().Unix()
	if after := int64(cert.ValidAfter); after < 0 || unixNow < int64(cert.ValidAfter) {
		return fmt.Errorf("ssh: cert is not yet valid")
	}
	if before := int64(cert.ValidBefore); cert.ValidBefore != uint64(CertTimeInfinity) && (unixNow >= before || before < 0) {
		return fmt.Errorf("ssh: cert has expired")
	}
	if err := cert.SignatureKey.Verify(cert.bytesForSigning(), cert.Signature); err != nil {
		return fmt.Errorf("ssh: certificate signature does not verify")
	}

	return nil
}

// SignCert signs the certificate with an authority, setting the Nonce,
// SignatureKey, and Signature fields.
func (c *Certificate) SignCert(rand io.Reader, authority Signer) error {
	c.Nonce = make([]byte, 32)
	if _, err := io.ReadFull(rand, c.Nonce); err != nil {
		return err
	}
	c.SignatureKey = authority.PublicKey()

	// Default to KeyAlgoRSASHA512 for ssh-rsa signers.
	if v, ok := authority.(AlgorithmSigner); ok && v.PublicKey().Type() == KeyAlgoRSA {
		sig, err := v.SignWithAlgorithm(rand, c.bytesForSigning(), KeyAlgoRSASHA512)
		if err != nil {
			return err
		}
		c.Signature = sig
		return nil
	}

	sig, err := authority.Sign(rand, c.bytesForSigning())
	if err != nil {
		return err
	}
	c.Signature = sig
	return nil
}

// certKeyAlgoNames is a mapping from known certificate algorithm names to the
// corresponding public key signature algorithm.
//
// This map must be kept in sync with the one in agent/client.go.
var certKeyAlgoNames = map[string]string{
	CertAlgoRSAv01:        KeyAlgoRSA,
	CertAlgoRSASHA256v01:  KeyAlgoRSASHA256,
	CertAlgoRSASHA512v01:  KeyAlgoRSASHA512,
	CertAlgoDSAv01:        KeyAlgoDSA,
	CertAlgoECDSA256v01:   KeyAlgoECDSA256,
	CertAlgoECDSA384v01:   KeyAlgoECDSA384,
	CertAlgoECDSA521v01:   KeyAlgoECDSA521,
	CertAlgoSKECDSA256v01: KeyAlgoSKECDSA256,
	CertAlgoED25519v01:    KeyAlgoED25519,
	CertAlgoSKED25519v01:  KeyAlgoSKED25519,
}

// underlyingAlgo returns the signature algorithm associated with algo (which is
// an advertised or negotiated public key or host key algorithm). These are
// usually the same, except for certificate algorithms.
func underlyingAlgo(algo string) string {
	if a, ok := certKeyAlgoNames[algo]; ok {
		return a
	}
	return algo
}

// certificateAlgo returns the certificate algorithms that uses the provided
// underlying signature algorithm.
func certificateAlgo(algo string) (certAlgo string, ok bool) {
	for certName, algoName := range certKeyAlgoNames {
		if algoName == algo {
			return certName, true
		}
	}
	return "", false
}

func (cert *Certificate) bytesForSigning() []byte {
	c2 := *cert
	c2.Signature = nil
	out := c2.Marshal()
	// Drop trailing signature length.
	return out[:len(out)-4]
}

// Marshal serializes c into OpenSSH's wire format. It is part of the
// PublicKey interface.
func (c *Certificate) Marshal() []byte {
	generic := genericCertData{
		Serial:          c.Serial,
		CertType:        c.CertType,
		KeyId:           c.KeyId,
		ValidPrincipals: marshalStringList(c.ValidPrincipals),
		ValidAfter:      uint64(c.ValidAfter),
		ValidBefore:     uint64(c.ValidBefore),
		CriticalOptions: marshalTuples(c.CriticalOptions),
		Extensions:      marshalTuples(c.Extensions),
		Reserved:        c.Reserved,
		SignatureKey:    c.SignatureKey.Marshal(),
	}
	if c.Signature != nil {
		generic.Signature = Marshal(c.Signature)
	}
	genericBytes := Marshal(&generic)
	keyBytes := c.Key.Marshal()
	_, keyBytes, _ = parseString(keyBytes)
	prefix := Marshal(&struct {
		Name  string
		Nonce []byte
		Key   []byte `ssh:"rest"`
	}{c.Type(), c.Nonce, keyBytes})

	result := make([]byte, 0, len(prefix)+len(genericBytes))
	result = append(result, prefix...)
	result = append(result, genericBytes...)
	return result
}

// Type returns the certificate algorithm name. It is part of the PublicKey interface.
func (c *Certificate) Type() string {
	certName, ok := certificateAlgo(c.Key.Type())
	if !ok {
		panic("unknown certificate type for key type " + c.Key.Type())
	}
	return certName
}

// Verify verifies a signature against the certificate's public
// key. It is part of the PublicKey interface.
func (c *Certificate) Verify(data []byte, sig *Signature) error {
	return c.Key.Verify(data, sig)
}

func parseSignatureBody(in []byte) (out *Signature, rest []byte, ok bool) {
	format, in, ok := parseString(in)
	if !ok {
		return
	}

	out = &Signature{
		Format: string(format),
	}

	if out.Blob, in, ok = parseString(in); !ok {
		return
	}

	switch out.Format {
	case KeyAlgoSKECDSA256, CertAlgoSKECDSA256v01, KeyAlgoSKED25519, CertAlgoSKED25519v01:
		out.Rest = in
		return out, nil, ok
	}

	return out, in, ok
}

func parseSignature(in []byte) (out *Signature, rest []byte, ok bool) {
	sigBytes, rest, ok := parseString(in)
	if !ok {
		return
	}

	out, trailing, ok := parseSignatureBody(sigBytes)
	if !ok || len(trailing) > 0 {
		return nil, nil, false
	}
	return
}
