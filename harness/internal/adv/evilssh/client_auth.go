// Copyright 2011 The Go Authors. All rights reserved.
// Use of this source code is governed by a BSD-style
// license that can be found in the LICENSE file.

package ssh

import (
	"bytes"
	"errors"
	"fmt"
	"io"
	"strings"
)

type authResult int

const (
	authFailure authResult = iota
	authPartialSuccess
	authSuccess
)

// clientAuthenticate authenticates with the remote server. See RFC 4252.
func (c *connection) clientAuthenticate(config *ClientConfig) error {
	// initiate user auth session
	if err := c.transport.writePacket(Marshal(&serviceRequestMsg{serviceUserAuth})); err != nil {
		return err
	}
	packet, err := c.transport.readPacket()
	if err != nil {
		return err
	}
	// The server may choose to send a SSH_MSG_EXT_INFO at this point (if we
	// advertised willingness to receive one, which we always do) or not. See
	// RFC 8308, Section 2.4.
	extensions := make(map[string][]byte)
	if len(packet) > 0 && packet[0] == msgExtInfo {
		var extInfo extInfoMsg
		if err := Unmarshal(packet, &extInfo); err != nil {
			return err
		}
		payload := extInfo.Payload
		for i := uint32(0); i < extInfo.NumExtensions; i++ {
			name, rest, ok := parseString(payload)
			if !ok {
				return parseError(msgExtInfo)
			}
			value, rest, ok := parseString(rest)
			if !ok {
				return parseError(msgExtInfo)
			}
			extensions[string(name)] = value
			payload = rest
		}
		packet, err = c.transport.readPacket()
		if err != nil {
			return err
		}
	}
	var serviceAccept serviceAcceptMsg
	if err := Unmarshal(packet, &serviceAccept); err != nil {
		return err
	}

	// during the authentication phase the client first attempts the "none" method
	// then any untried methods suggested by the server.
	var tried []string
	var lastMethods []string

	sessionID := c.transport.getSessionID()
	for auth := AuthMethod(new(noneAuth)); auth != nil; {
		ok, methods, err := auth.auth(sessionID, config.User, c.transport, config.Rand, extensions)
		if err != nil {
			return err
		}
		if ok == authSuccess {
			// success
			return nil
		} else if ok == authFailure {
			if m := auth.method(); !contains(tried, m) {
				tried = append(tried, m)
			}
		}
		if methods == nil {
			methods = lastMethods
		}
		lastMethods = methods

		auth = nil

	findNext:
		for _, a := range config.Auth {
			candidateMethod := a.method()
			if contains(tried, candidateMethod) {
				continue
			}
			for _, meth := range methods {
				if meth == candidateMethod {
					auth = a
					break findNext
				}
			}
		}
	}
	return fmt.Errorf("ssh: unable to authenticate, attempted methods %v, no supported methods remain", tried)
}

func contains(list []string, e string) bool {
	for _, s := range list {
		if s == e {
			return true
		}
	}
	return false
}

// An AuthMethod represents an instance of an RFC 4252 authentication method.
type AuthMethod interface {
	// auth authenticates user over transport t.
	// Returns true if authentication is successful.
	// If authentication is not successful, a []string of alternative
	// method names is returned. If the slice is nil, it will be ignored
	// and the previous set of possible methods will be reused.
	auth(session []byte, user string, p packetConn, rand io.Reader, extensions map[string][]byte) (authResult, []string, error)

	// method returns the RFC 4252 method name.
	method() string
}

// "none" authentication, RFC 4252 section 5.2.
type noneAuth int

func (n *noneAuth) auth(session []byte, user string, c packetConn, rand io.Reader, _ map[string][]byte) (authResult, []string, error) {
	if err := c.writePacket(Marshal(&userAuthRequestMsg{
		User:    user,
		Service: serviceSSH,
		Method:  "none",
	})); err != nil {
		return authFailure, nil, err
	}

	return handleAuthResponse(c)
}

func (n *noneAuth) method() string {
	return "none"
}

// passwordCallback is an AuthMethod that fetches the password through
// a function call, e.g. by prompting the user.
type passwordCallback func() (password string, err error)

func (cb passwordCallback) auth(session []byte, user string, c packetConn, rand io.Reader, _ map[string][]byte) (authResult, []string, error) {
	type passwordAuthMsg struct {
		User     string `sshtype:"50"`
		Service  string
		Method   string
		Reply    bool
		Password string
	}

	pw, err := cb()
	// REVIEW NOTE: is there a need to support skipping a password attempt?
	// The program may only find out that the user doesn't have a password
	// when prompting.
	if err != nil {
		return authFailure, nil, err
	}

	if err := c.writePacket(Marshal(&passwordAuthMsg{
		User:     user,
		Service:  serviceSSH,
		Method:   cb.method(),
		Reply:    false,
		Password: pw,
	})); err != nil {
		return authFailure, nil, err
	}

	return handleAuthResponse(c)
}

func (cb passwordCallback) method() string {
	return "password"
}

// Password returns an AuthMethod using the given password.
func Password(secret string) AuthMethod {
	return passwordCallback(func() (string, error) { return secret, nil })
}

// PasswordCallback returns an AuthMethod that uses a callback for
// fetching a password.
func PasswordCallback(prompt func() (secret string, err error)) AuthMethod {
	return passwordCallback(prompt)
}

type publickeyAuthMsg struct {
	User    string `sshtype:"50"`
	Service string
	Method  string
	// HasSig indicates to the receiver packet that the auth request is signed and
	// should be used for authentication of the request.
	HasSig   bool
	Algoname string
	PubKey   []byte
	// Sig is tagged with "rest" so Marshal will exclude it during
	// validateKey
	Sig []byte `ssh:"rest"`
}

// publicKeyCallback is an AuthMethod that uses a set of key
// pairs for authentication.
type publicKeyCallback func() ([]Signer, error)

func (cb publicKeyCallback) method() string {
	return "publickey"
}

func pickSignatureAlgorithm(signer Signer, extensions map[string][]byte) (as AlgorithmSigner, algo string) {
	keyFormat := signer.PublicKey().Type()

	// Like in sendKexInit, if the public key implements AlgorithmSigner we
	// assume it supports all algorithms, otherwise only the key format one.
	as, ok := signer.(AlgorithmSigner)
	if !ok {
		return algorithmSignerWrapper{signer}, keyFormat
	}

	extPayload, ok := extensions["server-sig-algs"]
	if !ok {
		// If there is no "server-sig-algs" extension, fall back to the key
		// format algorithm.
		return as, keyFormat
	}

	// The server-sig-algs extension only carries underlying signature
	// algorithm, but we are trying to select a protocol-level public key
	// algorithm, which might be a certificate type. Extend the list of server
	// supported algorithms to include the corresponding certificate algorithms.
	serverAlgos := strings.Split(string(extPayload), ",")
	for _, algo := range serverAlgos {
		if certAlgo, ok := certificateAlgo(algo); ok {
			serverAlgos = append(serverAlgos, certAlgo)
		}
	}

	keyAlgos := algorithmsForKeyFormat(keyFormat)
	algo, err := findCommon("public key signature algorithm", keyAlgos, serverAlgos)
	if err != nil {
		// If there is no overlap, try the key anyway with the key format
		// algorithm, to support servers that fail to list all supported
		// algorithms.
		return as, keyFormat
	}
	return as, algo
}

func (cb publicKeyCallback) auth(session []byte, user string, c packetConn, rand io.Reader, extensions map[string][]byte) (authResult, []string, error) {
	// Authentication is performed by sending an enquiry to test if a key is
	// acceptable to the remote. If the key is acceptable, the client will
	// attempt to authenticate with the valid key.  If not the client will repeat
	// the process with the remaining keys.

	signers, err := cb()
	if err != nil {
		return authFailure, nil, err
	}
	var methods []string
	for _, signer := range signers {
		pub := signer.PublicKey()
		as, algo := pickSignatureAlgorithm(signer, extensions)

		ok, err := validateKey(pub, algo, user, c)
		if err != nil {
			return authFailure, nil, err
		}
		if !ok {
			continue
		}

		pubKey := pub.Marshal()
		data := buildDataSignedForAuth(session, userAuthRequestMsg{
			User:    user,
			Service: serviceSSH,
			Method:  cb.method(),
		}, algo, pubKey)
		sign, err := as.SignWithAlgorithm(rand, data, underlyingAlgo(algo))
		if err != nil {
			return authFailure, nil, err
		}

		// manually wrap the serialized signature in a string
		s := Marshal(sign)
		sig := make([]byte, stringLength(len(s)))
		marshalString(sig, s)
		msg := publickeyAuthMsg{
			User:     user,
			Service:  serviceSSH,
			Method:   cb.method(),
			HasSig:   true,
			Algoname: algo,
			PubKey:   pubKey,
			Sig:      sig,
		}
		p := Marshal(&msg)
		if err := c.writePacket(p); err != nil {
			return authFailure, nil, err
		}
		var success authResult
		success, methods, err = handleAuthResponse(c)
		if err != nil {
			return authFailure, nil, err
		}

		// If authentication succeeds or the list of available methods does not
		// contain the "publickey" method, do not attempt to authenticate with any
		// other keys.  According to RFC 4252 Section 7, the latter can occur when
		// additional authentication methods are required.
		if success == authSuccess || !containsMethod(methods, cb.method()) {
			return success, methods, err
		}
	}

	return authFailure, methods, nil
}

func containsMethod(methods []string, method string) bool {
	for _, m := range methods {
		if m == method {
			return true
		}
	}

	return false
}

// validateKey validates the key provided is acceptable to the server.
func validateKey(key PublicKey, algo string, user string, c packetConn) (bool, error) {
	pubKey := key.Marshal()
	msg := publickeyAuthMsg{
		User:     user,
		Service:  serviceSSH,
		Method:   "publickey",
		HasSig:   false,
		Algoname: algo,
		PubKey:   pubKey,
	}
	if err := c.writePacket(Marshal(&msg)); err != nil {
		return false, err
	}

	return confirmKeyAck(key, algo, c)
}

func confirmKeyAck(key PublicKey, algo string, c packetConn) (bool, error) {
	pubKey := key.Marshal()

	for {
		packet, err := c.readPacket()
		if err != nil {
			return false, err
		}
		switch packet[0] {
		case msgUserAuthBanner:
			if err := handleBannerResponse(c, packet); err != nil {
				return false, err
			}
		case msgUserAuthPubKeyOk:
			var msg userAuthPubKeyOkMsg
			if err := Unmarshal(packet, &msg); err != nil {
				return false, err
			}
			if msg.Algo != algo || !bytes.Equal(msg.PubKey, pubKey) {
				return false, nil
			}
			return true, nil
		case msgUserAuthFailure:
			return false, nil
		default:
			return false, unexpectedMessageError(msgUserAuthPubKeyOk, packet[0])
		}
	}
}

// PublicKeys returns an AuthMethod that uses the given key
// pairs.
func PublicKeys(signers ...Signer) AuthMethod {
	return publicKeyCallback(func() ([]Signer, error) { return signers, nil })
}

// PublicKeysCallback returns an AuthMethod that runs the given
// function to obtain a list of key pairs.
func PublicKeysCallback(getSigners func() (signers []Signer, err error)) AuthMethod {
	return publicKeyCallback(getSigners)
}

// handleAuthResponse returns whether the preceding authentication request succeeded
// along with a list of remaining authentication methods to try next and
// an error if an unexpected response was received.
func handleAuthResponse(c packetConn) (authResult, []string, error) {
	gotMsgExtInfo := false
	for {
		packet, err := c.readPacket()
		if err != nil {
			return authFailure, nil, err
		}

		switch packet[0] {
		case msgUserAuthBanner:
			if err := handleBannerResponse(c, packet); err != nil {
				return authFailure, nil, err
			}
		case msgExtInfo:
			// Ignore post-authentication RFC 8308 extensions, once.
			if gotMsgExtInfo {
				return authFailure, nil, unexpectedMessageError(msgUserAuthSuccess, packet[0])
			}
			gotMsgExtInfo = true
		case msgUserAuthFailure:
			var msg userAuthFailureMsg
			if err := Unmarshal(packet, &msg); err != nil {
				return authFailure, nil, err
			}
			if msg.PartialSuccess {
				return authPartialSuccess, msg.Methods, nil
			}
			return authFailure, msg.Methods, nil
		case msgUserAuthSuccess:
			return authSuccess, nil, nil
		default:
			return authFailure, nil, unexpectedMessageError(msgUserAuthSuccess, packet[0])
		}
	}
}

func handleBannerResponse(c packetConn, packet []byte) error {
	var msg userAuthBannerMsg
	if err := Unmarshal(packet, &msg); err != nil {
		return err
	}

	transport, ok := c.(*handshakeTransport)
	if !ok {
		return nil
	}

	if transport.bannerCallback != nil {
		return transport.bannerCallback(msg.Message)
	}

	return nil
}

// KeyboardInteractiveChallenge should print questions, optionally
// disabling echoing (e.g. for passwords), and return all the answers.
// Challenge may be called multiple times in a single session. After
// successful authentication, the server may send a challenge with no
// questions, for which the name and instruction messages should be
// printed.  RFC 4256 section 3.3 details how the UI should behave for
// both CLI and GUI environments.
type KeyboardInteractiveChallenge func(name, instruction string, questions []string, echos []bool) (answers []string, err error)

// KeyboardInteractive returns an AuthMethod using a prompt/response
// sequence controlled by the server.
func KeyboardInteractive(challenge KeyboardInteractiveChallenge) AuthMethod {
	return challenge
}

func (cb KeyboardInteractiveChallenge) method() string {
	return "keyboard-interactive"
}

func (cb KeyboardInteractiveChallenge) auth(session []byte, user string, c packetConn, rand io.Reader, _ map[string][]byte) (authResult, []string, error) {
	type initiateMsg struct {
		User       string `sshtype:"50"`
		Service    string
		Method     string
		Language   string
		Submethods string
	}

	if err := c.writePacket(Marshal(&initiateMsg{
		User:    user,
		Service: serviceSSH,
		Method:  "keyboard-interactive",
	})); err != nil {
		return authFailure, nil, err
	}

	gotMsgExtInfo := false
	for {
		packet, err := c.readPacket()
		if err != nil {
			return authFailure, nil, err
		}

		// like handleAuthResponse, but with less options.
		switch packet[0] {
		case msgUserAuthBanner:
			if err := handleBannerResponse(c, packet); err != nil {
				return authFailure, nil, err
			}
			continue
		case msgExtInfo:
			// Ignore post-authentication RFC 8308 extensions, once.
			if gotMsgExtInfo {
				return authFailure, nil, unexpectedMessageError(msgUserAuthInfoRequest, packet[0])
			}
			gotMsgExtInfo = true
			continue
		case msgUserAuthInfoRequest:
			// OK
		case msgUserAuthFailure:
			var msg userAuthFailureMsg
			if err := Unmarshal(packet, &msg); err != nil {
				return authFailure, nil, err
			}
			if msg.PartialSuccess {
				return authPartialSuccess, msg.Methods, nil
			}
			return authFailure, msg.Methods, nil
		case msgUserAuthSuccess:
			return authSuccess, nil, nil
		default:
			return authFailure, nil, unexpectedMessageError(msgUserAuthInfoRequest, packet[0])
		}

		var msg userAuthInfoRequestMsg
		if err := Unmarshal(packet, &msg); err != nil {
			return authFailure, nil, err
		}

		// Manually unpack the prompt/echo pairs.
		rest := msg.Prompts
		var prompts []string
		var echos []bool
		for i := 0; i < int(msg.NumPrompts); i++ {
			prompt, r, ok := parseString(rest)
			if !ok || len(r) == 0 {
				return authFailure, nil, errors.New("ssh: prompt format error")
			}
			prompts = append(prompts, string(prompt))
			echos = append(echos, r[0] != 0)
			rest = r[1:]
		}

		if len(rest) != 0 {
			return authFailure, nil, errors.New("ssh: extra data following keyboard-interactive pairs")
		}

		answers, err := cb(msg.Name, msg.Instruction, prompts, echos)
		if err != nil {
			return authFailure, nil, err
		}

		if len(answers) != len(prompts) {
			return authFailure, nil, fmt.Errorf("ssh: incorrect number of answers from keyboard-interactive callback %d (expected %d)", len(answers), len(prompts))
		}
		responseLength := 1 + 4
		for _, a := range answers {
			responseLength += stringLength(len(a))
		}
		serialized := make([]byte, responseLength)
		p := serialized
		p[0] = msgUserAuthInfoResponse
		p = p[1:]
		p = marshalUint32(p, uint32(len(answers)))
		for _, a := range answers {
			p = marshalString(p, []byte(a))
		}

		if err := c.writePacket(serialized); err != nil {
			return authFailure, nil, err
		}
	}
}

type retryableAuthMethod struct {
	authMethod AuthMethod
	maxTries   int
}

func (r *retryableAuthMethod) auth(session []byte, user string, c packetConn, rand io.Reader, extensions map[string][]byte) (ok authResult, methods []string, err error) {
	for i := 0; r.maxTries <= 0 || i < r.maxTries; i++ {
		ok, methods, err = r.authMethod.auth(session, user, c, rand, extensions)
		if ok != authFailure || err != nil { // either success, partial success or error terminate
			return ok, methods, err
		}
	}
	return ok, methods, err
}

func (r *retryableAuthMethod) method() string {
	return r.authMethod.method()
}

// RetryableAuthMethod is a decorator for other auth methods enabling them to
// be retried up to maxTries before considering that AuthMethod itself failed.
// If maxTries is <= 0, will retry indefinitely
//
// This is useful for interactive clients using challenge/response type
// authentication (e.g. Keyboard-Interactive, Password, etc) where the user
// could mistype their response resulting in the server issuing a
// SSH_MSG_USERAUTH_FAILURE (rfc4252 #8 [password] and rfc4256 #3.4
// [keyboard-interactive]); Without this decorator, the non-retryable
// AuthMethod would be removed from future consideration, and never tried again
// (and so the user would never be able to retry their entry).
func RetryableAuthMethod(auth AuthMethod, maxTries int) AuthMethod {
	return &retryableAuthMethod{authMethod: auth, maxTries: maxTries}
}

// GSSAPIWithMICAuthMethod is an AuthMethod with "gssapi-with-mic" authentication.
// See RFC 4462 section 3
// gssAPIClient is implementation of the GSSAPIClient interface, see the definition of the interface for details.
// target is the server host you want to log in to.
func GSSAPIWithMICAuthMethod(gssAPIClient GSSAPIClient, target string) AuthMethod {
	if gssAPIClient == nil {
		panic("gss-api client must be not nil with enable gssapi-with-mic")
	}
	return &gssAPIWithMICCallback{gssAPIClient: gssAPIClient, target: target}
}

type gssAPIWithMICCallback struct {
	gssAPIClient GSSAPIClient
	target       string
}

func (g *gssAPIWithMICCallback) auth(session []byte, user string, c packetConn, rand io.Reader, _ map[string][]byte) (authResult, []string, error) {
	m := &userAuthRequestMsg{
		User:    user,
		Service: serviceSSH,
		Method:  g.method(),
	}
	// The GSS-API authentication method is initiated when the client sends an SSH_MSG_USERAUTH_REQUEST.
	// See RFC 4462 section 3.2.
	m.Payload = appendU32(m.Payload, 1)
	m.Payload = appendString(m.Payload, string(krb5OID))
	if err := c.writePacket(Marshal(m)); err != nil {
		return authFailure, nil, err
	}
	// The server responds to the SSH_MSG_USERAUTH_REQUEST with either an
	// SSH_MSG_USERAUTH_FAILURE if none of the mechanisms are supported or
	// with an SSH_MSG_USERAUTH_GSSAPI_RESPONSE.
	// See RFC 4462 section 3.3.
	// OpenSSH supports Kerberos V5 mechanism only for GSS-API authentication,so I don't want to check
	// selected mech if it is valid.
	packet, err := c.readPacket()
	if err != nil {
		return authFailure, nil, err
	}
	userAuthGSSAPIResp := &userAuthGSSAPIResponse{}
	if err := Unmarshal(packet, userAuthGSSAPIResp); err != nil {
		return authFailure, nil, err
	}
	// Start the loop into the exchange token.
	// See RFC 4462 section 3.4.
	var token []byte
	defer g.gssAPIClient.DeleteSecContext()
	for {
		// Initiates the establishment of a security context between the application and a remote peer.
		nextToken, needContinue, err := g.gssAPIClient.InitSecContext("host@"+g.target, token, false)
		if err != nil {
			return authFailure, nil, err
		}
		if len(nextToken) > 0 {
			if err := c.writePacket(Marshal(&userAuthGSSAPIToken{
				Token: nextToken,
			})); err != nil {
				return authFailure, nil, err
			}
		}
		if !needContinue {
			break
		}
		packet, err = c.readPacket()
		if err != nil {
			return authFailure, nil, err
		}
		switch packet[0] {
		case msgUserAuthFailure:
			var msg userAuthFailureMsg
			if err := Unmarshal(packet, &msg); err != nil {
				return authFailure, nil, err
			}
			if msg.PartialSuccess {
				return authPartialSuccess, msg.Methods, nil
			}
			return authFailure, msg.Methods, nil
		case msgUserAuthGSSAPIError:
			userAuthGSSAPIErrorResp := &userAuthGSSAPIError{}
			if err := Unmarshal(packet, userAuthGSSAPIErrorResp); err != nil {
				return authFailure, nil, err
			}
			return authFailure, nil, fmt.Errorf("GSS-API Error:\n"+
				"Major Status: %d\n"+
				"Minor Status: %d\n"+
				"Error Message: %s\n", userAuthGSSAPIErrorResp.MajorStatus, userAuthGSSAPIErrorResp.MinorStatus,
				userAuthGSSAPIErrorResp.Message)
		case msgUserAuthGSSAPIToken:
			userAuthGSSAPITokenReq := &userAuthGSSAPIToken{}
			if err := Unmarshal(packet, userAuthGSSAPITokenReq); err != nil {
				return authFailure, nil, err
			}
			token = userAuthGSSAPITokenReq.Token
		}
	}
	// Binding Encryption Keys.
	// See RFC 4462 section 3.5.
	micField := buildMIC(string(session), user, "ssh-connection", "gssapi-with-mic")
	micToken, err := g.gssAPIClient.GetMIC(micField)
	if err != nil {
		return authFailure, nil, err
	}
	if err := c.writePacket(Marshal(&userAuthGSSAPIMIC{
		MIC: micToken,
	})); err != nil {
		return authFailure, nil, err
	}
	return handleAuthResponse(c)
}

func (g *gssAPIWithMICCallback) method() string {
	return "gssapi-with-mic"
}

// ---- verification harness addition ----

// ScriptStep is one step of a scripted public-key authentication: either a
// query ("would this key be acceptable?", no signature) for Key, or a signed
// authentication request with Signer.
type ScriptStep struct {
	Query  bool
	Key    PublicKey
	Signer Signer
}

// ScriptedPublicKeys returns an AuthMethod that executes steps in order. It
// lets a client order, repeat and interleave key queries and signed requests
// arbitrarily, which the stock PublicKeys method does not.
func ScriptedPublicKeys(steps []ScriptStep) AuthMethod { return scriptedPublicKeys(steps) }

type scriptedPublicKeys []ScriptStep

func (s scriptedPublicKeys) method() string { return "publickey" }

func (s scriptedPublicKeys) auth(session []byte, user string, c packetConn, rand io.Reader, extensions map[string][]byte) (authResult, []string, error) {
	var methods []string
	for _, step := range s {
		if step.Query {
			if _, err := validateKey(step.Key, step.Key.Type(), user, c); err != nil {
				return authFailure, nil, err
			}
			continue
		}
		signer := step.Signer
		pub := signer.PublicKey()
		as, algo := pickSignatureAlgorithm(signer, extensions)
		pubKey := pub.Marshal()
		data := buildDataSignedForAuth(session, userAuthRequestMsg{
			User:    user,
			Service: serviceSSH,
			Method:  s.method(),
		}, algo, pubKey)
		sign, err := as.SignWithAlgorithm(rand, data, underlyingAlgo(algo))
		if err != nil {
			return authFailure, nil, err
		}
		sb := Marshal(sign)
		sig := make([]byte, stringLength(len(sb)))
		marshalString(sig, sb)
		msg := publickeyAuthMsg{
			User:     user,
			Service:  serviceSSH,
			Method:   s.method(),
			HasSig:   true,
			Algoname: algo,
			PubKey:   pubKey,
			Sig:      sig,
		}
		if err := c.writePacket(Marshal(&msg)); err != nil {
			return authFailure, nil, err
		}
		var success authResult
		success, methods, err = handleAuthResponse(c)
		if err != nil {
			return authFailure, nil, err
		}
		if success == authSuccess {
			return success, methods, nil
		}
	}
	return authFailure, methods, nil
}
