// Copyright 2014 The Go Authors. All rights reserved.
// Use of this source code is governed by a BSD-style
// license that can be found in the LICENSE file.

// Package bcrypt_pbkdf implements bcrypt_pbkdf(3) from OpenBSD.
//
// See https://flak.tedunangst.com/post/bcrypt-pbkdf and
// https://cvsweb.openbsd.org/cgi-bin/cvsweb/src/lib/libutil/bcrypt_pbkdf.c.
package bcrypt_pbkdf

import (
	"crypto/sha512"
	"errors"
	"golang.org/x/crypto/blowfish"
)

const blockSize = 32

// Key derives a key from the password, salt and rounds count, returning a
// []byte of length keyLen that can be used as cryptographic key.
func Key(password, salt []byte, rounds, keyLen int) ([]byte, error) {
	if rounds < 1 {
		return nil, errors.New("bcrypt_pbkdf: number of rounds is too small")
	}
	if len(password) == 0 {
		return nil, errors.New("bcrypt_pbkdf: empty password")
	}
	if len(salt) == 0 || len(salt) > 1<<20 {
		return nil, errors.New("bcrypt_pbkdf: bad salt length")
	}
	if keyLen > 1024 {
		return nil, errors.New("bcrypt_pbkdf: keyLen is too large")
	}

	numBlocks := (keyLen + blockSize - 1) / blockSize
	key := make([]byte, numBlocks*blockSize)

	h := sha512.New()
	h.Write(password)
	shapass := h.Sum(nil)

	shasalt := make([]byte, 0, sha512.Size)
	cnt, tmp := make([]byte, 4), make([]byte, blockSize)
	for block := 1; block <= numBlocks; block++ {
		h.Reset()
		h.Write(salt)
		cnt[0] = byte(block >> 24)
		cnt[1] = byte(block >> 16)
		cnt[2] = byte(block >> 8)
		cnt[3] = byte(block)
		h.Write(cnt)
		bcryptHash(tmp, shapass, h.Sum(shasalt))

		out := make([]byte, blockSize)
		copy(out, tmp)
		for i := 2; i <= rounds; i++ {
			h.Reset()
			h.Write(tmp)
			bcryptHash(tmp, shapass, h.Sum(shasalt))
			for j := 0; j < len(out); j++ {
				out[j] ^= tmp[j]
			}
		}

		for i, v := range out {
			key[i*numBlocks+(block-1)] = v
		}
	}
	return key[:keyLen], nil
}

var magic = []byte("OxychromaticBlowfishSwatDynamite")

func bcryptHash(out, shapass, shasalt []byte) {
	c, err := blowfish.NewSaltedCipher(shapass, shasalt)
	if err != nil {
		panic(err)
	}
	for i := 0; i < 64; i++ {
		blowfish.ExpandKey(shasalt, c)
		blowfish.ExpandKey(shapass, c)
	}
	copy(out, magic)
	for i := 0; i < 32; i += 8 {
		for j := 0; j < 64; j++ {
			c.Encrypt(out[i:i+8], out[i:i+8])
		}
	}
	// Swap bytes due to different endianness.
	for i := 0; i < 32; i += 4 {
		out[i+3], out[i+2], out[i+1], out[i] = out[i], out[i+1], out[i+2], out[i+3]
	}
}
