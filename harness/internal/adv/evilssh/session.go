// Copyright 2011 The Go Authors. All rights reserved.
// Use of this source code is governed by a BSD-style
// license that can be found in the LICENSE file.

package ssh

// Session implements an interactive session described in
// "RFC 4254, section 6".

import (
	"bytes"
	"encoding/binary"
	"errors"
	"fmt"
	"io"
	"sync"
)

type Signal string

// POSIX signals as listed in RFC 4254 Section 6.10.
const (
	SIGABRT Signal = "ABRT"
	SIGALRM Signal = "ALRM"
	SIGFPE  Signal = "FPE"
	SIGHUP  Signal = "HUP"
	SIGILL  Signal = "ILL"
	SIGINT  Signal = "INT"
	SIGKILL Signal = "KILL"
	SIGPIPE Signal = "PIPE"
	SIGQUIT Signal = "QUIT"
	SIGSEGV Signal = "SEGV"
	SIGTERM Signal = "TERM"
	SIGUSR1 Signal = "USR1"
	SIGUSR2 Signal = "USR2"
)

var signals = map[Signal]int{
	SIGABRT: 6,
	SIGALRM: 14,
	SIGFPE:  8,
	SIGHUP:  1,
	SIGILL:  4,
	SIGINT:  2,
	SIGKILL: 9,
	SIGPIPE: 13,
	SIGQUIT: 3,
	SIGSEGV: 11,
	SIGTERM: 15,
}

type TerminalModes map[uint8]uint32

// POSIX terminal mode flags as listed in RFC 4254 Section 8.
const (
	tty_OP_END    = 0
	VINTR         = 1
	VQUIT         = 2
	VERASE        = 3
	VKILL         = 4
	VEOF          = 5
	VEOL          = 6
	VEOL2         = 7
	VSTART        = 8
	VSTOP         = 9
	VSUSP         = 10
	VDSUSP        = 11
	VREPRINT      = 12
	VWERASE       = 13
	VLNEXT        = 14
	VFLUSH        = 15
	VSWTCH        = 16
	VSTATUS       = 17
	VDISCARD      = 18
	IGNPAR        = 30
	PARMRK        = 31
	INPCK         = 32
	ISTRIP        = 33
	INLCR         = 34
	IGNCR         = 35
	ICRNL         = 36
	IUCLC         = 37
	IXON          = 38
	IXANY         = 39
	IXOFF         = 40
	IMAXBEL       = 41
	IUTF8         = 42 // RFC 8160
	ISIG          = 50
	ICANON        = 51
	XCASE         = 52
	ECHO          = 53
	ECHOE         = 54
	ECHOK         = 55
	ECHONL        = 56
	NOFLSH        = 57
	TOSTOP        = 58
	IEXTEN        = 59
	ECHOCTL       = 60
	ECHOKE        = 61
	PENDIN        = 62
	OPOST         = 70
	OLCUC         = 71
	ONLCR         = 72
	OCRNL         = 73
	ONOCR         = 74
	ONLRET        = 75
	CS7           = 90
	CS8           = 91
	PARENB        = 92
	PARODD        = 93
	TTY_OP_ISPEED = 128
	TTY_OP_OSPEED = 129
)

// A Session represents a connection to a remote command or shell.
type Session struct {
	// Stdin specifies the remote process's standard input.
	// If Stdin is nil, the remote process reads from an empty
	// bytes.Buffer.
	Stdin io.Reader

	// Stdout and Stderr specify the remote process's standard
	// output and error.
	//
	// If either is nil, Run connects the corresponding file
	// descriptor to an instance of io.Discard. There is a
	// fixed amount of buffering that is shared for the two streams.
	// If either blocks it may eventually cause the remote
	// command to block.
	Stdout io.Writer
	Stderr io.Writer

	ch        Channel // the channel backing this session
	started   bool    // true once Start, Run or Shell is invoked.
	copyFuncs []func() error
	errors    chan error // one send per copyFunc

	// true if pipe method is active
	stdinpipe, stdoutpipe, stderrpipe bool

	// stdinPipeWriter is non-nil if StdinPipe has not been called
	// and Stdin was specified by the user; it is the write end of
	// a pipe connecting Session.Stdin to the stdin channel.
	stdinPipeWriter io.WriteCloser

	exitStatus chan error
}

// SendRequest sends an out-of-band channel request on the SSH channel
// underlying the session.
func (s *Session) SendRequest(name string, wantReply bool, payload []byte) (bool, error) {
	return s.ch.SendRequest(name, wantReply, payload)
}

func (s *Session) Close() error {
	return s.ch.Close()
}

// RFC 4254 Section 6.4.
type setenvRequest struct {
	Name  string
	Value string
}

// Setenv sets an environment variable that will be applied to any
// command executed by Shell or Run.
func (s *Session) Setenv(name, value string) error {
	msg := setenvRequest{
		Name:  name,
		Value: value,
	}
	ok, err := s.ch.SendRequest("env", true, Marshal(&msg))
	if err == nil && !ok {
		err = errors.New("ssh: setenv failed")
	}
	return err
}

// RFC 4254 Section 6.2.
type ptyRequestMsg struct {
	Term     string
	Columns  uint32
	Rows     uint32
	Width    uint32
	Height   uint32
	Modelist string
}

// RequestPty requests the association of a pty with the session on the remote host.
func (s *Session) RequestPty(term string, h, w int, termmodes TerminalModes) error {
	var tm []byte
	for k, v := range termmodes {
		kv := struct {
			Key byte
			Val uint32
		}{k, v}

		tm = append(tm, Marshal(&kv)...)
	}
	tm = append(tm, tty_OP_END)
	req := ptyRequestMsg{
		Term:     term,
		Columns:  uint32(w),
		Rows:     uint32(h),
		Width:    uint32(w * 8),
		Height:   uint32(h * 8),
		Modelist: string(tm),
	}
	ok, err := s.ch.SendRequest("pty-req", true, Marshal(&req))
	if err == nil && !ok {
		err = errors.New("ssh: pty-req failed")
	}
	return err
}

// RFC 4254 Section 6.5.
type subsystemRequestMsg struct {
	Subsystem string
}

// RequestSubsystem requests the association of a subsystem with the session on the remote host.
// A subsystem is a predefined command that runs in the background when the ssh session is initiated
func (s *Session) RequestSubsystem(subsystem string) error {
	msg := subsystemRequestMsg{
		Subsystem: subsystem,
	}
	ok, err := s.ch.SendRequest("subsystem", true, Marshal(&msg))
	if err == nil && !ok {
		err = errors.New("ssh: subsystem request failed")
	}
	return err
}

// RFC 4254 Section 6.7.
type ptyWindowChangeMsg struct {
	Columns uint32
	Rows    uint32
	Width   uint32
	Height  uint32
}

// WindowChange informs the remote host about a terminal window dimension change to h rows and w columns.
func (s *Session) WindowChange(h, w int) error {
	req := ptyWindowChangeMsg{
		Columns: uint32(w),
		Rows:    uint32(h),
		Width:   uint32(w * 8),
		Height:  uint32(h * 8),
	}
	_, err := s.ch.SendRequest("window-change", false, Marshal(&req))
	return err
}

// RFC 4254 Section 6.9.
type signalMsg struct {
	Signal string
}

// Signal sends the given signal to the remote process.
// sig is one of the SIG* constants.
func (s *Session) Signal(sig Signal) error {
	msg := signalMsg{
		Signal: string(sig),
	}

	_, err := s.ch.SendRequest("signal", false, Marshal(&msg))
	return err
}

// RFC 4254 Section 6.5.
type execMsg struct {
	Command string
}

// Start runs cmd on the remote host. Typically, the remote
// server passes cmd to the shell for interpretation.
// A Session only accepts one call to Run, Start or Shell.
func (s *Session) Start(cmd string) error {
	if s.started {
		return errors.New("ssh: session already started")
	}
	req := execMsg{
		Command: cmd,
	}

	ok, err := s.ch.SendRequest("exec", true, Marshal(&req))
	if err == nil && !ok {
		err = fmt.Errorf("ssh: command %v failed", cmd)
	}
	if err != nil {
		return err
	}
	return s.start()
}

// Run runs cmd on the remote host. Typically, the remote
// server passes cmd to the shell for interpretation.
// A Session only accepts one call to Run, Start, Shell, Output,
// or CombinedOutput.
//
// The returned error is nil if the command runs, has no problems
// copying stdin, stdout, and stderr, and exits with a zero exit
// status.
//
// If the remote server does not send an exit status, an error of type
// *ExitMissingError is returned. If the command completes
// unsuccessfully or is interrupted by a signal, the error is of type
// *ExitError. Other error types may be returned for I/O problems.
func (s *Session) Run(cmd string) error {
	err := s.Start(cmd)
	if err != nil {
		return err
	}
	return s.Wait()
}

// Output runs cmd on the remote host and returns its standard output.
func (s *Session) Output(cmd string) ([]byte, error) {
	if s.Stdout != nil {
		return nil, errors.New("ssh: Stdout already set")
	}
	var b bytes.Buffer
	s.Stdout = &b
	err := s.Run(cmd)
	return b.Bytes(), err
}

type singleWriter struct {
	b  bytes.Buffer
	mu sync.Mutex
}

func (w *singleWriter) Write(p []byte) (int, error) {
	w.mu.Lock()
	defer w.mu.Unlock()
	return w.b.Write(p)
}

// CombinedOutput runs cmd on the remote host and returns its combined
// standard output and standard error.
func (s *Session) CombinedOutput(cmd string) ([]byte, error) {
	if s.Stdout != nil {
		return nil, errors.New("ssh: Stdout already set")
	}
	if s.Stderr != nil {
		return nil, errors.New("ssh: Stderr already set")
	}
	var b singleWriter
	s.Stdout = &b
	s.Stderr = &b
	err := s.Run(cmd)
	return b.b.Bytes(), err
}

// Shell starts a login shell on the remote host. A Session only
// accepts one call to Run, Start, Shell, Output, or CombinedOutput.
func (s *Session) Shell() error {
	if s.started {
		return errors.New("ssh: session already started")
	}

	ok, err := s.ch.SendRequest("shell", true, nil)
	if err == nil && !ok {
		return errors.New("ssh: could not start shell")
	}
	if err != nil {
		return err
	}
	return s.start()
}

func (s *Session) start() error {
	s.started = true

	type F func(*Session)
	for _, setupFd := range []F{(*Session).stdin, (*Session).stdout, (*Session).stderr} {
		setupFd(s)
	}

	s.errors = make(chan error, len(s.copyFuncs))
	for _, fn := range s.copyFuncs {
		go func(fn func() error) {
			s.errors <- fn()
		}(fn)
	}
	return nil
}

// Wait waits for the remote command to exit.
//
// The returned error is nil if the command runs, has no problems
// copying stdin, stdout, and stderr, and exits with a zero exit
// status.
//
// If the remote server does not send an exit status, an error of type
// *ExitMissingError is returned. If the command completes
// unsuccessfully or is interrupted by a signal, the error is of type
// *ExitError. Other error types may be returned for I/O problems.
func (s *Session) Wait() error {
	if !s.started {
		return errors.New("ssh: session not started")
	}
	waitErr := <-s.exitStatus

	if s.stdinPipeWriter != nil {
		s.stdinPipeWriter.Close()
	}
	var copyError error
	for range s.copyFuncs {
		if err := <-s.errors; err != nil && copyError == nil {
			copyError = err
		}
	}
	if waitErr != nil {
		return waitErr
	}
	return copyError
}

func (s *Session) wait(reqs <-chan *Request) error {
	wm := Waitmsg{status: -1}
	// Wait for msg channel to be closed before returning.
	for msg := range reqs {
		switch msg.Type {
		case "exit-status":
			wm.status = int(binary.BigEndian.Uint32(msg.Payload))
		case "exit-signal":
			var sigval struct {
				Signal     string
				CoreDumped bool
				Error      string
				Lang       string
			}
			if err := Unmarshal(msg.Payload, &sigval); err != nil {
				return err
			}

			// Must sanitize strings?
			wm.signal = sigval.Signal
			wm.msg = sigval.Error
			wm.lang = sigval.Lang
		default:
			// This handles keepalives and matches
			// OpenSSH's behaviour.
			if msg.WantReply {
				msg.Reply(false, nil)
			}
		}
	}
	if wm.status == 0 {
		return nil
	}
	if wm.status == -1 {
		// exit-status was never sent from server
		if wm.signal == "" {
			// signal was not sent either.  RFC 4254
			// section 6.10 recommends against this
			// behavior, but it is allowed, so we let
			// clients handle it.
			return &ExitMissingError{}
		}
		wm.status = 128
		if _, ok := signals[Signal(wm.signal)]; ok {
			wm.status += signals[Signal(wm.signal)]
		}
	}

	return &ExitError{wm}
}

// ExitMissingError is returned if a session is torn down cleanly, but
// the server sends no confirmation of the exit status.
type ExitMissingError struct{}

func (e *ExitMissingError) Error() string {
	return "wait: remote command exited without exit status or exit signal"
}

func (s *Session) stdin() {
	if s.stdinpipe {
		return
	}
	var stdin io.Reader
	if s.Stdin == nil {
		stdin = new(bytes.Buffer)
	} else {
		r, w := io.Pipe()
		go func() {
			_, err := io.Copy(w, s.Stdin)
			w.CloseWithError(err)
		}()
		stdin, s.stdinPipeWriter = r, w
	}
	s.copyFuncs = append(s.copyFuncs, func() error {
		_, err := io.Copy(s.ch, stdin)
		if err1 := s.ch.CloseWrite(); err == nil && err1 != io.EOF {
			err = err1
		}
		return err
	})
}

func (s *Session) stdout() {
	if s.stdoutpipe {
		return
	}
	if s.Stdout == nil {
		s.Stdout = io.Discard
	}
	s.copyFuncs = append(s.copyFuncs, func() error {
		_, err := io.Copy(s.Stdout, s.ch)
		return err
	})
}

func (s *Session) stderr() {
	if s.stderrpipe {
		return
	}
	if s.Stderr == nil {
		s.Stderr = io.Discard
	}
	s.copyFuncs = append(s.copyFuncs, func() error {
		_, err := io.Copy(s.Stderr, s.ch.Stderr())
		return err
	})
}

// sessionStdin reroutes Close to CloseWrite.
type sessionStdin struct {
	io.Writer
	ch Channel
}

func (s *sessionStdin) Close() error {
	return s.ch.CloseWrite()
}

// StdinPipe returns a pipe that will be connected to the
// remote command's standard input when the command starts.
func (s *Session) StdinPipe() (io.WriteCloser, error) {
	if s.Stdin != nil {
		return nil, errors.New("ssh: Stdin already set")
	}
	if s.started {
		return nil, errors.New("ssh: StdinPipe after process started")
	}
	s.stdinpipe = true
	return &sessionStdin{s.ch, s.ch}, nil
}

// StdoutPipe returns a pipe that will be connected to the
// remote command's standard output when the command starts.
// There is a fixed amount of buffering that is shared between
// stdout and stderr streams. If the StdoutPipe reader is
// not serviced fast enough it may eventually cause the
// remote command to block.
func (s *Session) StdoutPipe() (io.Reader, error) {
	if s.Stdout != nil {
		return nil, errors.New("ssh: Stdout already set")
	}
	if s.started {
		return nil, errors.New("ssh: StdoutPipe after process started")
	}
	s.stdoutpipe = true
	return s.ch, nil
}

// StderrPipe returns a pipe that will be connected to the
// remote command's standard error when the command starts.
// There is a fixed amount of buffering that is shared between
// stdout and stderr streams. If the StderrPipe reader is
// not serviced fast enough it may eventually cause the
// remote command to block.
func (s *Session) StderrPipe() (io.Reader, error) {
	if s.Stderr != nil {
		return nil, errors.New("ssh: Stderr already set")
	}
	if s.started {
		return nil, errors.New("ssh: StderrPipe after process started")
	}
	s.stderrpipe = true
	return s.ch.Stderr(), nil
}

// newSession returns a new interactive session on the remote host.
func newSession(ch Channel, reqs <-chan *Request) (*Session, error) {
	s := &Session{
		ch: ch,
	}
	s.exitStatus = make(chan error, 1)
	go func() {
		s.exitStatus <- s.wait(reqs)
	}()

	return s, nil
}

// An ExitError reports unsuccessful completion of a remote command.
type ExitError struct {
	Waitmsg
}

func (e *ExitError) Error() string {
	return e.Waitmsg.String()
}

// Waitmsg stores the information about an exited remote command
// as reported by Wait.
type Waitmsg struct {
	status int
	signal string
	msg    string
	lang   string
}

// ExitStatus returns the exit status of the remote command.
func (w Waitmsg) ExitStatus() int {
	return w.status
}

// Signal returns the exit signal of the remote command if
// it was terminated violently.
func (w Waitmsg) Signal() string {
	return w.signal
}

// Msg returns the exit message given by the remote command
func (w Waitmsg) Msg() string {
	return w.msg
}

// Lang returns the language tag. See RFC 3066
func (w Waitmsg) Lang() string {
	return w.lang
}

func (w Waitmsg) String() string {
	str := fmt.Sprintf("Process exited with status %v", w.status)
	if w.signal != "" {
		str += fmt.Sprintf(" from signal %v", w.signal)
	}
	if w.msg != "" {
		str += fmt.Sprintf(". Reason was: %v", w.msg)
	}
	return str
}
