// Copyright 2011 The Go Authors. All rights reserved.
// Use of this source code is governed by a BSD-style
// license that can be found in the LICENSE file.

package ssh

import (
	"bytes"
	"encoding/binary"
	"errors"
	"fmt"
	"io"
	"math/big"
	"reflect"
	"strconv"
	"strings"
)

// These are SSH message type numbers. They are scattered around several
// documents but many were taken from [SSH-PARAMETERS].
const (
	msgIgnore        = 2
	msgUnimplemented = 3
	msgDebug         = 4
	msgNewKeys       = 21
)

// SSH messages:
//
// These structures mirror the wire format of the corresponding SSH messages.
// They are marshaled using reflection with the marshal and unmarshal functions
// in this file. The only wrinkle is that a final member of type []byte with a
// ssh tag of "rest" receives the remainder of a packet when unmarshaling.

// See RFC 4253, section 11.1.
const msgDisconnect = 1

// disconnectMsg is the message that signals a disconnect. It is also
// the error type returned from mux.Wait()
type disconnectMsg struct {
	Reason   uint32 `sshtype:"1"`
	Message  string
	Language string
}

func (d *disconnectMsg) Error() string {
	return fmt.Sprintf("ssh: disconnect, reason %d: %s", d.Reason, d.Message)
}

// See RFC 4253, section 7.1.
const msgKexInit = 20

type kexInitMsg struct {
	Cookie                  [16]byte `sshtype:"20"`
	KexAlgos                []string
	ServerHostKeyAlgos      []string
	CiphersClientServer     []string
	CiphersServerClient     []string
	MACsClientServer        []string
	MACsServerClient        []string
	CompressionClientServer []string
	CompressionServerClient []string
	LanguagesClientServer   []string
	LanguagesServerClient   []string
	FirstKexFollows         bool
	Reserved                uint32
}

// See RFC 4253, section 8.

// Diffie-Hellman
const msgKexDHInit = 30

type kexDHInitMsg struct {
	X *big.Int `sshtype:"30"`
}

const msgKexECDHInit = 30

type kexECDHInitMsg struct {
	ClientPubKey []byte `sshtype:"30"`
}

const msgKexECDHReply = 31

type kexECDHReplyMsg struct {
	HostKey         []byte `sshtype:"31"`
	EphemeralPubKey []byte
	Signature       []byte
}

const msgKexDHReply = 31

type kexDHReplyMsg struct {
	HostKey   []byte `sshtype:"31"`
	Y         *big.Int
	Signature []byte
}

// See RFC 4419, section 5.
const msgKexDHGexGroup = 31

type kexDHGexGroupMsg struct {
	P *big.Int `sshtype:"31"`
	G *big.Int
}

const msgKexDHGexInit = 32

type kexDHGexInitMsg struct {
	X *big.Int `sshtype:"32"`
}

const msgKexDHGexReply = 33

type kexDHGexReplyMsg struct {
	HostKey   []byte `sshtype:"33"`
	Y         *big.Int
	Signature []byte
}

const msgKexDHGexRequest = 34

type kexDHGexRequestMsg struct {
	MinBits      uint32 `sshtype:"34"`
	PreferedBits uint32
	MaxBits      uint32
}

// See RFC 4253, section 10.
const msgServiceRequest = 5

type serviceRequestMsg struct {
	Service string `sshtype:"5"`
}

// See RFC 4253, section 10.
const msgServiceAccept = 6

type serviceAcceptMsg struct {
	Service string `sshtype:"6"`
}

// See RFC 8308, section 2.3
const msgExtInfo = 7

type extInfoMsg struct {
	NumExtensions uint32 `sshtype:"7"`
	Payload       []byte `ssh:"rest"`
}

// See RFC 4252, section 5.
const msgUserAuthRequest = 50

type userAuthRequestMsg struct {
	User    string `sshtype:"50"`
	Service string
	Method  string
	Payload []byte `ssh:"rest"`
}

// Used for debug printouts of packets.
type userAuthSuccessMsg struct {
}

// See RFC 4252, section 5.1
const msgUserAuthFailure = 51

type userAuthFailureMsg struct {
	Methods        []string `sshtype:"51"`
	PartialSuccess bool
}

// See RFC 4252, section 5.1
const msgUserAuthSuccess = 52

// See RFC 4252, section 5.4
const msgUserAuthBanner = 53

type userAuthBannerMsg struct {
	Message string `sshtype:"53"`
	// unused, but required to allow message parsing
	Language string
}

// See RFC 4256, section 3.2
const msgUserAuthInfoRequest = 60
const msgUserAuthInfoResponse = 61

type userAuthInfoRequestMsg struct {
	Name        string `sshtype:"60"`
	Instruction string
	Language    string
	NumPrompts  uint32
	Prompts     []byte `ssh:"rest"`
}

// See RFC 4254, section 5.1.
const msgChannelOpen = 90

type channelOpenMsg struct {
	ChanType         string `sshtype:"90"`
	PeersID          uint32
	PeersWindow      uint32
	MaxPacketSize    uint32
	TypeSpecificData []byte `ssh:"rest"`
}

const msgChannelExtendedData = 95
const msgChannelData = 94

// Used for debug print outs of packets.
type channelDataMsg struct {
	PeersID uint32 `sshtype:"94"`
	Length  uint32
	Rest    []byte `ssh:"rest"`
}

// See RFC 4254, section 5.1.
const msgChannelOpenConfirm = 91

type channelOpenConfirmMsg struct {
	PeersID          uint32 `sshtype:"91"`
	MyID             uint32
	MyWindow         uint32
	MaxPacketSize    uint32
	TypeSpecificData []byte `ssh:"rest"`
}

// See RFC 4254, section 5.1.
const msgChannelOpenFailure = 92

type channelOpenFailureMsg struct {
	PeersID  uint32 `sshtype:"92"`
	Reason   RejectionReason
	Message  string
	Language string
}

const msgChannelRequest = 98

type channelRequestMsg struct {
	PeersID             uint32 `sshtype:"98"`
	Request             string
	WantReply           bool
	RequestSpecificData []byte `ssh:"rest"`
}

// See RFC 4254, section 5.4.
const msgChannelSuccess = 99

type channelRequestSuccessMsg struct {
	PeersID uint32 `sshtype:"99"`
}

// See RFC 4254, section 5.4.
const msgChannelFailure = 100

type channelRequestFailureMsg struct {
	PeersID uint32 `sshtype:"100"`
}

// See RFC 4254, section 5.3
const msgChannelClose = 97

type channelCloseMsg struct {
	PeersID uint32 `sshtype:"97"`
}

// See RFC 4254, section 5.3
const msgChannelEOF = 96

type channelEOFMsg struct {
	PeersID uint32 `sshtype:"96"`
}

// See RFC 4254, section 4
const msgGlobalRequest = 80

type globalRequestMsg struct {
	Type      string `sshtype:"80"`
	WantReply bool
	Data      []byte `ssh:"rest"`
}

// See RFC 4254, section 4
const msgRequestSuccess = 81

type globalRequestSuccessMsg struct {
	Data []byte `ssh:"rest" sshtype:"81"`
}

// See RFC 4254, section 4
const msgRequestFailure = 82

type globalRequestFailureMsg struct {
	Data []byte `ssh:"rest" sshtype:"82"`
}

// See RFC 4254, section 5.2
const msgChannelWindowAdjust = 93

type windowAdjustMsg struct {
	PeersID         uint32 `sshtype:"93"`
	AdditionalBytes uint32
}

// See RFC 4252, section 7
const msgUserAuthPubKeyOk = 60

type userAuthPubKeyOkMsg struct {
	Algo   string `sshtype:"60"`
	PubKey []byte
}

// See RFC 4462, section 3
const msgUserAuthGSSAPIResponse = 60

type userAuthGSSAPIResponse struct {
	SupportMech []byte `sshtype:"60"`
}

const msgUserAuthGSSAPIToken = 61

type userAuthGSSAPIToken struct {
	Token []byte `sshtype:"61"`
}

const msgUserAuthGSSAPIMIC = 66

type userAuthGSSAPIMIC struct {
	MIC []byte `sshtype:"66"`
}

// See RFC 4462, section 3.9
const msgUserAuthGSSAPIErrTok = 64

type userAuthGSSAPIErrTok struct {
	ErrorToken []byte `sshtype:"64"`
}

// See RFC 4462, section 3.8
const msgUserAuthGSSAPIError = 65

type userAuthGSSAPIError struct {
	MajorStatus uint32 `sshtype:"65"`
	MinorStatus uint32
	Message     string
	LanguageTag string
}

// typeTags returns the possible type bytes for the given reflect.Type, which
// should be a struct. The possible values are separated by a '|' character.
func typeTags(structType reflect.Type) (tags []byte) {
	tagStr := structType.Field(0).Tag.Get("sshtype")

	for _, tag := range strings.Split(tagStr, "|") {
		i, err := strconv.Atoi(tag)
		if err == nil {
			tags = append(tags, byte(i))
		}
	}

	return tags
}

func fieldError(t reflect.Type, field int, problem string) error {
	if problem != "" {
		problem = ": " + problem
	}
	return fmt.Errorf("ssh: unmarshal error for field %s of type %s%s", t.Field(field).Name, t.Name(), problem)
}

var errShortRead = errors.New("ssh: short read")

// Unmarshal parses data in SSH wire format into a structure. The out
// argument should be a pointer to struct. If the first member of the
// struct has the "sshtype" tag set to a '|'-separated set of numbers
// in decimal, the packet must start with one of those numbers. In
// case of error, Unmarshal returns a ParseError or
// UnexpectedMessageError.
func Unmarshal(data []byte, out interface{}) error {
	v := reflect.ValueOf(out).Elem()
	structType := v.Type()
	expectedTypes := typeTags(structType)

	var expectedType byte
	if len(expectedTypes) > 0 {
		expectedType = expectedTypes[0]
	}

	if len(data) == 0 {
		return parseError(expectedType)
	}

	if len(expectedTypes) > 0 {
		goodType := false
		for _, e := range expectedTypes {
			if e > 0 && data[0] == e {
				goodType = true
				break
			}
		}
		if !goodType {
			return fmt.Errorf("ssh: unexpected message type %d (expected one of %v)", data[0], expectedTypes)
		}
		data = data[1:]
	}

	var ok bool
	for i := 0; i < v.NumField(); i++ {
		field := v.Field(i)
		t := field.Type()
		switch t.Kind() {
		case reflect.Bool:
			if len(data) < 1 {
				return errShortRead
			}
			field.SetBool(data[0] != 0)
			data = data[1:]
		case reflect.Array:
			if t.Elem().Kind() != reflect.Uint8 {
				return fieldError(structType, i, "array of unsupported type")
			}
			if len(data) < t.Len() {
				return errShortRead
			}
			for j, n := 0, t.Len(); j < n; j++ {
				field.Index(j).Set(reflect.ValueOf(data[j]))
			}
			data = data[t.Len():]
		case reflect.Uint64:
			var u64 uint64
			if u64, data, ok = parseUint64(data); !ok {
				return errShortRead
			}
			field.SetUint(u64)
		case reflect.Uint32:
			var u32 uint32
			if u32, data, ok = parseUint32(data); !ok {
				return errShortRead
			}
			field.SetUint(uint64(u32))
		case reflect.Uint8:
			if len(data) < 1 {
				return errShortRead
			}
			field.SetUint(uint64(data[0]))
			data = data[1:]
		case reflect.String:
			var s []byte
			if s, data, ok = parseString(data); !ok {
				return fieldError(structType, i, "")
			}
			field.SetString(string(s))
		case reflect.Slice:
			switch t.Elem().Kind() {
			case reflect.Uint8:
				if structType.Field(i).Tag.Get("ssh") == "rest" {
					field.Set(reflect.ValueOf(data))
					data = nil
				} else {
					var s []byte
					if s, data, ok = parseString(data); !ok {
						return errShortRead
					}
					field.Set(reflect.ValueOf(s))
				}
			case reflect.String:
				var nl []string
				if nl, data, ok = parseNameList(data); !ok {
					return errShortRead
				}
				field.Set(reflect.ValueOf(nl))
			default:
				return fieldError(structType, i, "slice of unsupported type")
			}
		case reflect.Ptr:
			if t == bigIntType {
				var n *big.Int
				if n, data, ok = parseInt(data); !ok {
					return errShortRead
				}
				field.Set(reflect.ValueOf(n))
			} else {
				return fieldError(structType, i, "pointer to unsupported type")
			}
		default:
			return fieldError(structType, i, fmt.Sprintf("unsupported type: %v", t))
		}
	}

	if len(data) != 0 {
		return parseError(expectedType)
	}

	return nil
}

// Marshal serializes the message in msg to SSH wire format.  The msg
// argument should be a struct or pointer to struct. If the first
// member has the "sshtype" tag set to a number in decimal, that
// number is prepended to the result. If the last of member has the
// "ssh" tag set to "rest", its contents are appended to the output.
func Marshal(msg interface{}) []byte {
	out := make([]byte, 0, 64)
	return marshalStruct(out, msg)
}

func marshalStruct(out []byte, msg interface{}) []byte {
	v := reflect.Indirect(reflect.ValueOf(msg))
	msgTypes := typeTags(v.Type())
	if len(msgTypes) > 0 {
		out = append(out, msgTypes[0])
	}

	for i, n := 0, v.NumField(); i < n; i++ {
		field := v.Field(i)
		switch t := field.Type(); t.Kind() {
		case reflect.Bool:
			var v uint8
			if field.Bool() {
				v = 1
			}
			out = append(out, v)
		case reflect.Array:
			if t.Elem().Kind() != reflect.Uint8 {
				panic(fmt.Sprintf("array of non-uint8 in field %d: %T", i, field.Interface()))
			}
			for j, l := 0, t.Len(); j < l; j++ {
				out = append(out, uint8(field.Index(j).Uint()))
			}
		case reflect.Uint32:
			out = appendU32(out, uint32(field.Uint()))
		case reflect.Uint64:
			out = appendU64(out, uint64(field.Uint()))
		case reflect.Uint8:
			out = append(out, uint8(field.Uint()))
		case reflect.String:
			s := field.String()
			out = appendInt(out, len(s))
			out = append(out, s...)
		case reflect.Slice:
			switch t.Elem().Kind() {
			case reflect.Uint8:
				if v.Type().Field(i).Tag.Get("ssh") != "rest" {
					out = appendInt(out, field.Len())
				}
				out = append(out, field.Bytes()...)
			case reflect.String:
				offset := len(out)
				out = appendU32(out, 0)
				if n := field.Len(); n > 0 {
					for j := 0; j < n; j++ {
						f := field.Index(j)
						if j != 0 {
							out = append(out, ',')
						}
						out = append(out, f.String()...)
					}
					// overwrite length value
					binary.BigEndian.PutUint32(out[offset:], uint32(len(out)-offset-4))
				}
			default:
				panic(fmt.Sprintf("slice of unknown type in field %d: %T", i, field.Interface()))
			}
		case reflect.Ptr:
			if t == bigIntType {
				var n *big.Int
				nValue := reflect.ValueOf(&n)
				nValue.Elem().Set(field)
				needed := intLength(n)
				oldLength := len(out)

				if cap(out)-len(out) < needed {
					newOut := make([]byte, len(out), 2*(len(out)+needed))
					copy(newOut, out)
					out = newOut
				}
				out = out[:oldLength+needed]
				marshalInt(out[oldLength:], n)
			} else {
				panic(fmt.Sprintf("pointer to unknown type in field %d: %T", i, field.Interface()))
			}
		}
	}

	return out
}

var bigOne = big.NewInt(1)

func parseString(in []byte) (out, rest []byte, ok bool) {
	if len(in) < 4 {
		return
	}
	length := binary.BigEndian.Uint32(in)
	in = in[4:]
	if uint32(len(in)) < length {
		return
	}
	out = in[:length]
	rest = in[length:]
	ok = true
	return
}

var (
	comma         = []byte{','}
	emptyNameList = []string{}
)

func parseNameList(in []byte) (out []string, rest []byte, ok bool) {
	contents, rest, ok := parseString(in)
	if !ok {
		return
	}
	if len(contents) == 0 {
		out = emptyNameList
		return
	}
	parts := bytes.Split(contents, comma)
	out = make([]string, len(parts))
	for i, part := range parts {
		out[i] = string(part)
	}
	return
}

func parseInt(in []byte) (out *big.Int, rest []byte, ok bool) {
	contents, rest, ok := parseString(in)
	if !ok {
		return
	}
	out = new(big.Int)

	if len(contents) > 0 && contents[0]&0x80 == 0x80 {
		// This is a negative number
		notBytes := make([]byte, len(contents))
		for i := range notBytes {
			notBytes[i] = ^contents[i]
		}
		out.SetBytes(notBytes)
		out.Add(out, bigOne)
		out.Neg(out)
	} else {
		// Positive number
		out.SetBytes(contents)
	}
	ok = true
	return
}

func parseUint32(in []byte) (uint32, []byte, bool) {
	if len(in) < 4 {
		return 0, nil, false
	}
	return binary.BigEndian.Uint32(in), in[4:], true
}

func parseUint64(in []byte) (uint64, []byte, bool) {
	if len(in) < 8 {
		return 0, nil, false
	}
	return binary.BigEndian.Uint64(in), in[8:], true
}

func intLength(n *big.Int) int {
	length := 4 /* length bytes */
	if n.Sign() < 0 {
		nMinus1 := new(big.Int).Neg(n)
		nMinus1.Sub(nMinus1, bigOne)
		bitLen := nMinus1.BitLen()
		if bitLen%8 == 0 {
			// The number will need 0xff padding
			length++
		}
		length += (bitLen + 7) / 8
	} else if n.Sign() == 0 {
		// A zero is the zero length string
	} else {
		bitLen := n.BitLen()
		if bitLen%8 == 0 {
			// The number will need 0x00 padding
			length++
		}
		length += (bitLen + 7) / 8
	}

	return length
}

func marshalUint32(to []byte, n uint32) []byte {
	binary.BigEndian.PutUint32(to, n)
	return to[4:]
}

func marshalUint64(to []byte, n uint64) []byte {
	binary.BigEndian.PutUint64(to, n)
	return to[8:]
}

func marshalInt(to []byte, n *big.Int) []byte {
	lengthBytes := to
	to = to[4:]
	length := 0

	if n.Sign() < 0 {
		// A negative number has to be converted to two's-complement
		// form. So we'll subtract 1 and invert. If the
		// most-significant-bit isn't set then we'll need to pad the
		// beginning with 0xff in order to keep the number negative.
		nMinus1 := new(big.Int).Neg(n)
		nMinus1.Sub(nMinus1, bigOne)
		bytes := nMinus1.Bytes()
		for i := range bytes {
			bytes[i] ^= 0xff
		}
		if len(bytes) == 0 || bytes[0]&0x80 == 0 {
			to[0] = 0xff
			to = to[1:]
			length++
		}
		nBytes := copy(to, bytes)
		to = to[nBytes:]
		length += nBytes
	} else if n.Sign() == 0 {
		// A zero is the zero length string
	} else {
		bytes := n.Bytes()
		if len(bytes) > 0 && bytes[0]&0x80 != 0 {
			// We'll have to pad this with a 0x00 in order to
			// stop it looking like a negative number.
			to[0] = 0
			to = to[1:]
			length++
		}
		nBytes := copy(to, bytes)
		to = to[nBytes:]
		length += nBytes
	}

	lengthBytes[0] = byte(length >> 24)
	lengthBytes[1] = byte(length >> 16)
	lengthBytes[2] = byte(length >> 8)
	lengthBytes[3] = byte(length)
	return to
}

func writeInt(w io.Writer, n *big.Int) {
	length := intLength(n)
	buf := make([]byte, length)
	marshalInt(buf, n)
	w.Write(buf)
}

func writeString(w io.Writer, s []byte) {
	var lengthBytes [4]byte
	lengthBytes[0] = byte(len(s) >> 24)
	lengthBytes[1] = byte(len(s) >> 16)
	lengthBytes[2] = byte(len(s) >> 8)
	lengthBytes[3] = byte(len(s))
	w.Write(lengthBytes[:])
	w.Write(s)
}

func stringLength(n int) int {
	return 4 + n
}

func marshalString(to []byte, s []byte) []byte {
	to[0] = byte(len(s) >> 24)
	to[1] = byte(len(s) >> 16)
	to[2] = byte(len(s) >> 8)
	to[3] = byte(len(s))
	to = to[4:]
	copy(to, s)
	return to[len(s):]
}

var bigIntType = reflect.TypeOf((*big.Int)(nil))

// Decode a packet into its corresponding message.
func decode(packet []byte) (interface{}, error) {
	var msg interface{}
	switch packet[0] {
	case msgDisconnect:
		msg = new(disconnectMsg)
	case msgServiceRequest:
		msg = new(serviceRequestMsg)
	case msgServiceAccept:
		msg = new(serviceAcceptMsg)
	case msgExtInfo:
		msg = new(extInfoMsg)
	case msgKexInit:
		msg = new(kexInitMsg)
	case msgKexDHInit:
		msg = new(kexDHInitMsg)
	case msgKexDHReply:
		msg = new(kexDHReplyMsg)
	case msgUserAuthRequest:
		msg = new(userAuthRequestMsg)
	case msgUserAuthSuccess:
		return new(userAuthSuccessMsg), nil
	case msgUserAuthFailure:
		msg = new(userAuthFailureMsg)
	case msgUserAuthPubKeyOk:
		msg = new(userAuthPubKeyOkMsg)
	case msgGlobalRequest:
		msg = new(globalRequestMsg)
	case msgRequestSuccess:
		msg = new(globalRequestSuccessMsg)
	case msgRequestFailure:
		msg = new(globalRequestFailureMsg)
	case msgChannelOpen:
		msg = new(channelOpenMsg)
	case msgChannelData:
		msg = new(channelDataMsg)
	case msgChannelOpenConfirm:
		msg = new(channelOpenConfirmMsg)
	case msgChannelOpenFailure:
		msg = new(channelOpenFailureMsg)
	case msgChannelWindowAdjust:
		msg = new(windowAdjustMsg)
	case msgChannelEOF:
		msg = new(channelEOFMsg)
	case msgChannelClose:
		msg = new(channelCloseMsg)
	case msgChannelRequest:
		msg = new(channelRequestMsg)
	case msgChannelSuccess:
		msg = new(channelRequestSuccessMsg)
	case msgChannelFailure:
		msg = new(channelRequestFailureMsg)
	case msgUserAuthGSSAPIToken:
		msg = new(userAuthGSSAPIToken)
	case msgUserAuthGSSAPIMIC:
		msg = new(userAuthGSSAPIMIC)
	case msgUserAuthGSSAPIErrTok:
		msg = new(userAuthGSSAPIErrTok)
	case msgUserAuthGSSAPIError:
		msg = new(userAuthGSSAPIError)
	default:
		return nil, unexpectedMessageError(0, packet[0])
	}
	if err := Unmarshal(packet, msg); err != nil {
		return nil, err
	}
	return msg, nil
}

var packetTypeNames = map[byte]string{
	msgDisconnect:          "disconnectMsg",
	msgServiceRequest:      "serviceRequestMsg",
	msgServiceAccept:       "serviceAcceptMsg",
	msgExtInfo:             "extInfoMsg",
	msgKexInit:             "kexInitMsg",
	msgKexDHInit:           "kexDHInitMsg",
	msgKexDHReply:          "kexDHReplyMsg",
	msgUserAuthRequest:     "userAuthRequestMsg",
	msgUserAuthSuccess:     "userAuthSuccessMsg",
	msgUserAuthFailure:     "userAuthFailureMsg",
	msgUserAuthPubKeyOk:    "userAuthPubKeyOkMsg",
	msgGlobalRequest:       "globalRequestMsg",
	msgRequestSuccess:      "globalRequestSuccessMsg",
	msgRequestFailure:      "globalRequestFailureMsg",
	msgChannelOpen:         "channelOpenMsg",
	msgChannelData:         "channelDataMsg",
	msgChannelOpenConfirm:  "channelOpenConfirmMsg",
	msgChannelOpenFailure:  "channelOpenFailureMsg",
	msgChannelWindowAdjust: "windowAdjustMsg",
	msgChannelEOF:          "channelEOFMsg",
	msgChannelClose:        "channelCloseMsg",
	msgChannelRequest:      "channelRequestMsg",
	msgChannelSuccess:      "channelRequestSuccessMsg",
	msgChannelFailure:      "channelRequestFailureMsg",
}
