// Copyright 2013 The Go Authors. All rights reserved.
// Use of this source code is governed by a BSD-style
// license that can be found in the LICENSE file.

package ssh

import (
	"encoding/binary"
	"fmt"
	"io"
	"log"
	"sync"
	"sync/atomic"
)

// debugMux, if set, causes messages in the connection protocol to be
// logged.
const debugMux = false

// chanList is a thread safe channel list.
type chanList struct {
	// protects concurrent access to chans
	sync.Mutex

	// chans are indexed by the local id of the channel, which the
	// other side should send in the PeersId field.
	chans []*channel

	// This is a debugging aid: it offsets all IDs by this
	// amount. This helps distinguish otherwise identical
	// server/client muxes
	offset uint32
}

// Assigns a channel ID to the given channel.
func (c *chanList) add(ch *channel) uint32 {
	c.Lock()
	defer c.Unlock()
	for i := range c.chans {
		if c.chans[i] == nil {
			c.chans[i] = ch
			return uint32(i) + c.offset
		}
	}
	c.chans = append(c.chans, ch)
	return uint32(len(c.chans)-1) + c.offset
}

// getChan returns the channel for the given ID.
func (c *chanList) getChan(id uint32) *channel {
	id -= c.offset

	c.Lock()
	defer c.Unlock()
	if id < uint32(len(c.chans)) {
		return c.chans[id]
	}
	return nil
}

func (c *chanList) remove(id uint32) {
	id -= c.offset
	c.Lock()
	if id < uint32(len(c.chans)) {
		c.chans[id] = nil
	}
	c.Unlock()
}

// dropAll forgets all channels it knows, returning them in a slice.
func (c *chanList) dropAll() []*channel {
	c.Lock()
	defer c.Unlock()
	var r []*channel

	for _, ch := range c.chans {
		if ch == nil {
			continue
		}
		r = append(r, ch)
	}
	c.chans = nil
	return r
}

// mux represents the state for the SSH connection protocol, which
// multiplexes many channels onto a single packet transport.
type mux struct {
	conn     packetConn
	chanList chanList

	incomingChannels chan NewChannel

	globalSentMu     sync.Mutex
	globalResponses  chan interface{}
	incomingRequests chan *Request

	errCond *sync.Cond
	err     error
}

// When debugging, each new chanList instantiation has a different
// offset.
var globalOff uint32

func (m *mux) Wait() error {
	m.errCond.L.Lock()
	defer m.errCond.L.Unlock()
	for m.err == nil {
		m.errCond.Wait()
	}
	return m.err
}

// newMux returns a mux that runs over the given connection.
func newMux(p packetConn) *mux {
	m := &mux{
		conn:             p,
		incomingChannels: make(chan NewChannel, chanSize),
		globalResponses:  make(chan interface{}, 1),
		incomingRequests: make(chan *Request, chanSize),
		errCond:          newCond(),
	}
	if debugMux {
		m.chanList.offset = atomic.AddUint32(&globalOff, 1)
	}

	go m.loop()
	return m
}

func (m *mux) sendMessage(msg interface{}) error {
	p := Marshal(msg)
	if debugMux {
		log.Printf("send global(%d): %#v", m.chanList.offset, msg)
	}
	return m.conn.writePacket(p)
}

func (m *mux) SendRequest(name string, wantReply bool, payload []byte) (bool, []byte, error) {
	if wantReply {
		m.globalSentMu.Lock()
		defer m.globalSentMu.Unlock()
	}

	if err := m.sendMessage(globalRequestMsg{
		Type:      name,
		WantReply: wantReply,
		Data:      payload,
	}); err != nil {
		return false, nil, err
	}

	if !wantReply {
		return false, nil, nil
	}

	msg, ok := <-m.globalResponses
	if !ok {
		return false, nil, io.EOF
	}
	switch msg := msg.(type) {
	case *globalRequestFailureMsg:
		return false, msg.Data, nil
	case *globalRequestSuccessMsg:
		return true, msg.Data, nil
	default:
		return false, nil, fmt.Errorf("ssh: unexpected response to request: %#v", msg)
	}
}

// ackRequest must be called after processing a global request that
// has WantReply set.
func (m *mux) ackRequest(ok bool, data []byte) error {
	if ok {
		return m.sendMessage(globalRequestSuccessMsg{Data: data})
	}
	return m.sendMessage(globalRequestFailureMsg{Data: data})
}

func (m *mux) Close() error {
	return m.conn.Close()
}

// loop runs the connection machine. It will process packets until an
// error is encountered. To synchronize on loop exit, use mux.Wait.
func (m *mux) loop() {
	var err error
	for err == nil {
		err = m.onePacket()
	}

	for _, ch := range m.chanList.dropAll() {
		ch.close()
	}

	close(m.incomingChannels)
	close(m.incomingRequests)
	close(m.globalResponses)

	m.conn.Close()

	m.errCond.L.Lock()
	m.err = err
	m.errCond.Broadcast()
	m.errCond.L.Unlock()

	if debugMux {
		log.Println("loop exit", err)
	}
}

// onePacket reads and processes one packet.
func (m *mux) onePacket() error {
	packet, err := m.conn.readPacket()
	if err != nil {
		return err
	}

	if debugMux {
		if packet[0] == msgChannelData || packet[0] == msgChannelExtendedData {
			log.Printf("decoding(%d): data packet - %d bytes", m.chanList.offset, len(packet))
		} else {
			p, _ := decode(packet)
			log.Printf("decoding(%d): %d %#v - %d bytes", m.chanList.offset, packet[0], p, len(packet))
		}
	}

	switch packet[0] {
	case msgChannelOpen:
		return m.handleChannelOpen(packet)
	case msgGlobalRequest, msgRequestSuccess, msgRequestFailure:
		return m.handleGlobalPacket(packet)
	}

	// assume a channel packet.
	if len(packet) < 5 {
		return parseError(packet[0])
	}
	id := binary.BigEndian.Uint32(packet[1:])
	ch := m.chanList.getChan(id)
	if ch == nil {
		return m.handleUnknownChannelPacket(id, packet)
	}

	return ch.handlePacket(packet)
}

func (m *mux) handleGlobalPacket(packet []byte) error {
	msg, err := decode(packet)
	if err != nil {
		return err
	}

	switch msg := msg.(type) {
	case *globalRequestMsg:
		m.incomingRequests <- &Request{
			Type:      msg.Type,
			WantReply: msg.WantReply,
			Payload:   msg.Data,
			mux:       m,
		}
	case *globalRequestSuccessMsg, *globalRequestFailureMsg:
		m.globalResponses <- msg
	default:
		panic(fmt.Sprintf("not a global message %#v", msg))
	}

	return nil
}

// handleChannelOpen schedules a channel to be Accept()ed.
func (m *mux) handleChannelOpen(packet []byte) error {
	var msg channelOpenMsg
	if err := Unmarshal(packet, &msg); err != nil {
		return err
	}

	if msg.MaxPacketSize < minPacketLength || msg.MaxPacketSize > 1<<31 {
		failMsg := channelOpenFailureMsg{
			PeersID:  msg.PeersID,
			Reason:   ConnectionFailed,
			Message:  "invalid request",
			Language: "en_US.UTF-8",
		}
		return m.sendMessage(failMsg)
	}

	c := m.newChannel(msg.ChanType, channelInbound, msg.TypeSpecificData)
	c.remoteId = msg.PeersID
	c.maxRemotePayload = msg.MaxPacketSize
	c.remoteWin.add(msg.PeersWindow)
	m.incomingChannels <- c
	return nil
}

func (m *mux) OpenChannel(chanType string, extra []byte) (Channel, <-chan *Request, error) {
	ch, err := m.openChannel(chanType, extra)
	if err != nil {
		return nil, nil, err
	}

	return ch, ch.incomingRequests, nil
}

func (m *mux) openChannel(chanType string, extra []byte) (*channel, error) {
	ch := m.newChannel(chanType, channelOutbound, extra)

	ch.maxIncomingPayload = channelMaxPacket

	open := channelOpenMsg{
		ChanType:         chanType,
		PeersWindow:      ch.myWindow,
		MaxPacketSize:    ch.maxIncomingPayload,
		TypeSpecificData: extra,
		PeersID:          ch.localId,
	}
	if err := m.sendMessage(open); err != nil {
		return nil, err
	}

	switch msg := (<-ch.msg).(type) {
	case *channelOpenConfirmMsg:
		return ch, nil
	case *channelOpenFailureMsg:
		return nil, &OpenChannelError{msg.Reason, msg.Message}
	default:
		return nil, fmt.Errorf("ssh: unexpected packet in response to channel open: %T", msg)
	}
}

func (m *mux) handleUnknownChannelPacket(id uint32, packet []byte) error {
	msg, err := decode(packet)
	if err != nil {
		return err
	}

	switch msg := msg.(type) {
	// RFC 4254 section 5.4 says unrecognized channel requests should
	// receive a failure response.
	case *channelRequestMsg:
		if msg.WantReply {
			return m.sendMessage(channelRequestFailureMsg{
				PeersID: msg.PeersID,
			})
		}
		return nil
	default:
		return fmt.Errorf("ssh: invalid channel %d", id)
	}
}
