// Copyright 2011 The Go Authors. All rights reserved.
// Use of this source code is governed by a BSD-style
// license that can be found in the LICENSE file.

package ssh

import (
	"bytes"
	"errors"
	"fmt"
	"net"
	"os"
	"sync"
	"time"
)

// Client implements a traditional SSH client that supports shells,
// subprocesses, TCP port/streamlocal forwarding and tunneled dialing.
type Client struct {
	Conn

	handleForwardsOnce sync.Once // guards calling (*Client).handleForwards

	forwards        forwardList // forwarded tcpip connections from the remote side
	mu              sync.Mutex
	channelHandlers map[string]chan NewChannel
}

// HandleChannelOpen returns a channel on which NewChannel requests
// for the given type are sent. If the type already is being handled,
// nil is returned. The channel is closed when the connection is closed.
func (c *Client) HandleChannelOpen(channelType string) <-chan NewChannel {
	c.mu.Lock()
	defer c.mu.Unlock()
	if c.channelHandlers == nil {
		// The SSH channel has been closed.
		c := make(chan NewChannel)
		close(c)
		return c
	}

	ch := c.channelHandlers[channelType]
	if ch != nil {
		return nil
	}

	ch = make(chan NewChannel, chanSize)
	c.channelHandlers[channelType] = ch
	return ch
}

// NewClient creates a Client on top of the given connection.
func NewClient(c Conn, chans <-chan NewChannel, reqs <-chan *Request) *Client {
	conn := &Client{
		Conn:            c,
		channelHandlers: make(map[string]chan NewChannel, 1),
	}

	go conn.handleGlobalRequests(reqs)
	go conn.handleChannelOpens(chans)
	go func() {
		conn.Wait()
		conn.forwards.closeAll()
	}()
	return conn
}

// NewClientConn establishes an authenticated SSH connection using c
// as the underlying transport.  The Request and NewChannel channels
// must be serviced or the connection will hang.
func NewClientConn(c net.Conn, addr string, config *ClientConfig) (Conn, <-chan NewChannel, <-chan *Request, error) {
	fullConf := *config
	fullConf.SetDefaults()
	if fullConf.HostKeyCallback == nil {
		c.Close()
		return nil, nil, nil, errors.New("ssh: must specify HostKeyCallback")
	}

	conn := &connection{
		sshConn: sshConn{conn: c, user: fullConf.User},
	}

	if err := conn.clientHandshake(addr, &fullConf); err != nil {
		c.Close()
		return nil, nil, nil, fmt.Errorf("ssh: handshake failed: %v", err)
	}
	conn.mux = newMux(conn.transport)
	return conn, conn.mux.incomingChannels, conn.mux.incomingRequests, nil
}

// clientHandshake performs the client side key exchange. See RFC 4253 Section
// 7.
func (c *connection) clientHandshake(dialAddress string, config *ClientConfig) error {
	if config.ClientVersion != "" {
		c.clientVersion = []byte(config.ClientVersion)
	} else {
		c.clientVersion = []byte(packageVersion)
	}
	var err error
	c.serverVersion, err = exchangeVersions(c.sshConn.conn, c.clientVersion)
	if err != nil {
		return err
	}

	c.transport = newClientTransport(
		newTransport(c.sshConn.conn, config.Rand, true /* is client */),
		c.clientVersion, c.serverVersion, config, dialAddress, c.sshConn.RemoteAddr())
	if err := c.transport.waitSession(); err != nil {
		return err
	}

	c.sessionID = c.transport.getSessionID()
	return c.clientAuthenticate(config)
}

// verifyHostKeySignature verifies the host key obtained in the key exchange.
// algo is the negotiated algorithm, and may be a certificate type.
func verifyHostKeySignature(hostKey PublicKey, algo string, result *kexResult) error {
	sig, rest, ok := parseSignatureBody(result.Signature)
	if len(rest) > 0 || !ok {
		return errors.New("ssh: signature parse error")
	}

	if a := underlyingAlgo(algo); sig.Format != a {
		return fmt.Errorf("ssh: invalid signature algorithm %q, expected %q", sig.Format, a)
	}

	return hostKey.Verify(result.H, sig)
}

// NewSession opens a new Session for this client. (A session is a remote
// execution of a program.)
func (c *Client) NewSession() (*Session, error) {
	ch, in, err := c.OpenChannel("session", nil)
	if err != nil {
		return nil, err
	}
	return newSession(ch, in)
}

func (c *Client) handleGlobalRequests(incoming <-chan *Request) {
	for r := range incoming {
		// This handles keepalive messages and matches
		// the behaviour of OpenSSH.
		r.Reply(false, nil)
	}
}

// handleChannelOpens channel open messages from the remote side.
func (c *Client) handleChannelOpens(in <-chan NewChannel) {
	for ch := range in {
		c.mu.Lock()
		handler := c.channelHandlers[ch.ChannelType()]
		c.mu.Unlock()

		if handler != nil {
			handler <- ch
		} else {
			ch.Reject(UnknownChannelType, fmt.Sprintf("unknown channel type: %v", ch.ChannelType()))
		}
	}

	c.mu.Lock()
	for _, ch := range c.channelHandlers {
		close(ch)
	}
	c.channelHandlers = nil
	c.mu.Unlock()
}

// Dial starts a client connection to the given SSH server. It is a
// convenience function that connects to the given network address,
// initiates the SSH handshake, and then sets up a Client.  For access
// to incoming channels and requests, use net.Dial with NewClientConn
// instead.
func Dial(network, addr string, config *ClientConfig) (*Client, error) {
	conn, err := net.DialTimeout(network, addr, config.Timeout)
	if err != nil {
		return nil, err
	}
	c, chans, reqs, err := NewClientConn(conn, addr, config)
	if err != nil {
		return nil, err
	}
	return NewClient(c, chans, reqs), nil
}

// HostKeyCallback is the function type used for verifying server
// keys.  A HostKeyCallback must return nil if the host key is OK, or
// an error to reject it. It receives the hostname as passed to Dial
// or NewClientConn. The remote address is the RemoteAddr of the
// net.Conn underlying the SSH connection.
type HostKeyCallback func(hostname string, remote net.Addr, key PublicKey) error

// BannerCallback is the function type used for treat the banner sent by
// the server. A BannerCallback receives the message sent by the remote server.
type BannerCallback func(message string) error

// A ClientConfig structure is used to configure a Client. It must not be
// modified after having been passed to an SSH function.
type ClientConfig struct {
	// Config contains configuration that is shared between clients and
	// servers.
	Config

	// User contains the username to authenticate as.
	User string

	// Auth contains possible authentication methods to use with the
	// server. Only the first instance of a particular RFC 4252 method will
	// be used during authentication.
	Auth []AuthMethod

	// HostKeyCallback is called during the cryptographic
	// handshake to validate the server's host key. The client
	// configuration must supply this callback for the connection
	// to succeed. The functions InsecureIgnoreHostKey or
	// FixedHostKey can be used for simplistic host key checks.
	HostKeyCallback HostKeyCallback

	// BannerCallback is called during the SSH dance to display a custom
	// server's message. The client configuration can supply this callback to
	// handle it as wished. The function BannerDisplayStderr can be used for
	// simplistic display on Stderr.
	BannerCallback BannerCallback

	// ClientVersion contains the version identification string that will
	// be used for the connection. If empty, a reasonable default is used.
	ClientVersion string

	// HostKeyAlgorithms lists the public key algorithms that the client will
	// accept from the server for host key authentication, in order of
	// preference. If empty, a reasonable default is used. Any
	// string returned from a PublicKey.Type method may be used, or
	// any of the CertAlgo and KeyAlgo constants.
	HostKeyAlgorithms []string

	// Timeout is the maximum amount of time for the TCP connection to establish.
	//
	// A Timeout of zero means no timeout.
	Timeout time.Duration
}

// InsecureIgnoreHostKey returns a function that can be used for
// ClientConfig.HostKeyCallback to accept any host key. It should
// not be used for production code.
func InsecureIgnoreHostKey() HostKeyCallback {
	return func(hostname string, remote net.Addr, key PublicKey) error {
		return nil
	}
}

type fixedHostKey struct {
	key PublicKey
}

func (f *fixedHostKey) check(hostname string, remote net.Addr, key PublicKey) error {
	if f.key == nil {
		return fmt.Errorf("ssh: required host key was nil")
	}
	if !bytes.Equal(key.Marshal(), f.key.Marshal()) {
		return fmt.Errorf("ssh: host key mismatch")
	}
	return nil
}

// FixedHostKey returns a function for use in
// ClientConfig.HostKeyCallback to accept only a specific host key.
func FixedHostKey(key PublicKey) HostKeyCallback {
	hk := &fixedHostKey{key}
	return hk.check
}

// BannerDisplayStderr returns a function that can be used for
// ClientConfig.BannerCallback to display banners on os.Stderr.
func BannerDisplayStderr() BannerCallback {
	return func(banner string) error {
		_, err := os.Stderr.WriteString(banner)

		return err
	}
}
