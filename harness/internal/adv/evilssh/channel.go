// Copyright 2011 The Go Authors. All rights reserved.
// Use of this source code is governed by a BSD-style
// license that can be found in the LICENSE file.

package ssh

import (
	"encoding/binary"
	"errors"
	"fmt"
	"io"
	"log"
	"sync"
)

const (
	minPacketLength = 9
	// channelMaxPacket contains the maximum number of bytes that will be
	// sent in a single packet. As per RFC 4253, section 6.1, 32k is also
	// the minimum.
	channelMaxPacket = 1 << 15
	// We follow OpenSSH here.
	channelWindowSize = 64 * channelMaxPacket
)

// NewChannel represents an incoming request to a channel. It must either be
// accepted for use by calling Accept, or rejected by calling Reject.
type NewChannel interface {
	// Accept accepts the channel creation request. It returns the Channel
	// and a Go channel containing SSH requests. The Go channel must be
	// serviced otherwise the Channel will hang.
	Accept() (Channel, <-chan *Request, error)

	// Reject rejects the channel creation request. After calling
	// this, no other methods on the Channel may be called.
	Reject(reason RejectionReason, message string) error

	// ChannelType returns the type of the channel, as supplied by the
	// client.
	ChannelType() string

	// ExtraData returns the arbitrary payload for this channel, as supplied
	// by the client. This data is specific to the channel type.
	ExtraData() []byte
}

// A Channel is an ordered, reliable, flow-controlled, duplex stream
// that is multiplexed over an SSH connection.
type Channel interface {
	// Read reads up to len(data) bytes from the channel.
	Read(data []byte) (int, error)

	// Write writes len(data) bytes to the channel.
	Write(data []byte) (int, error)

	// Close signals end of channel use. No data may be sent after this
	// call.
	Close() error

	// CloseWrite signals the end of sending in-band
	// data. Requests may still be sent, and the other side may
	// still send data
	CloseWrite() error

	// SendRequest sends a channel request.  If wantReply is true,
	// it will wait for a reply and return the result as a
	// boolean, otherwise the return value will be false. Channel
	// requests are out-of-band messages so they may be sent even
	// if the data stream is closed or blocked by flow control.
	// If the channel is closed before a reply is returned, io.EOF
	// is returned.
	SendRequest(name string, wantReply bool, payload []byte) (bool, error)

	// Stderr returns an io.ReadWriter that writes to this channel
	// with the extended data type set to stderr. Stderr may
	// safely be read and written from a different goroutine than
	// Read and Write respectively.
	Stderr() io.ReadWriter
}

// Request is a request sent outside of the normal stream of
// data. Requests can either be specific to an SSH channel, or they
// can be global.
type Request struct {
	Type      string
	WantReply bool
	Payload   []byte

	ch  *channel
	mux *mux
}

// Reply sends a response to a request. It must be called for all requests
// where WantReply is true and is a no-op otherwise. The payload argument is
// ignored for replies to channel-specific requests.
func (r *Request) Reply(ok bool, payload []byte) error {
	if !r.WantReply {
		return nil
	}

	if r.ch == nil {
		return r.mux.ackRequest(ok, payload)
	}

	return r.ch.ackRequest(ok)
}

// RejectionReason is an enumeration used when rejecting channel creation
// requests. See RFC 4254, section 5.1.
type RejectionReason uint32

const (
	Prohibited RejectionReason = iota + 1
	ConnectionFailed
	UnknownChannelType
	ResourceShortage
)

// String converts the rejection reason to human readable form.
func (r RejectionReason) String() string {
	switch r {
	case Prohibited:
		return "administratively prohibited"
	case ConnectionFailed:
		return "connect failed"
	case UnknownChannelType:
		return "unknown channel type"
	case ResourceShortage:
		return "resource shortage"
	}
	return fmt.Sprintf("unknown reason %d", int(r))
}

func min(a uint32, b int) uint32 {
	if a < uint32(b) {
		return a
	}
	return uint32(b)
}

type channelDirection uint8

const (
	channelInbound channelDirection = iota
	channelOutbound
)

// channel is an implementation of the Channel interface that works
// with the mux class.
type channel struct {
	// R/O after creation
	chanType          string
	extraData         []byte
	localId, remoteId uint32

	// maxIncomingPayload and maxRemotePayload are the maximum
	// payload sizes of normal and extended data packets for
	// receiving and sending, respectively. The wire packet will
	// be 9 or 13 bytes larger (excluding encryption overhead).
	maxIncomingPayload uint32
	maxRemotePayload   uint32

	mux *mux

	// decided is set to true if an accept or reject message has been sent
	// (for outbound channels) or received (for inbound channels).
	decided bool

	// direction contains either channelOutbound, for channels created
	// locally, or channelInbound, for channels created by the peer.
	direction channelDirection

	// Pending internal channel messages.
	msg chan interface{}

	// Since requests have no ID, there can be only one request
	// with WantReply=true outstanding.  This lock is held by a
	// goroutine that has such an outgoing request pending.
	sentRequestMu sync.Mutex

	incomingRequests chan *Request

	sentEOF bool

	// thread-safe data
	remoteWin  window
	pending    *buffer
	extPending *buffer

	// windowMu protects myWindow, the flow-control window.
	windowMu sync.Mutex
	myWindow uint32

	// writeMu serializes calls to mux.conn.writePacket() and
	// protects sentClose and packetPool. This mutex must be
	// different from windowMu, as writePacket can block if there
	// is a key exchange pending.
	writeMu   sync.Mutex
	sentClose bool

	// packetPool has a buffer for each extended channel ID to
	// save allocations during writes.
	packetPool map[uint32][]byte
}

// writePacket sends a packet. If the packet is a channel close, it updates
// sentClose. This method takes the lock c.writeMu.
func (ch *channel) writePacket(packet []byte) error {
	ch.writeMu.Lock()
	if ch.sentClose {
		ch.writeMu.Unlock()
		return io.EOF
	}
	ch.sentClose = (packet[0] == msgChannelClose)
	err := ch.mux.conn.writePacket(packet)
	ch.writeMu.Unlock()
	return err
}

func (ch *channel) sendMessage(msg interface{}) error {
	if debugMux {
		log.Printf("send(%d): %#v", ch.mux.chanList.offset, msg)
	}

	p := Marshal(msg)
	binary.BigEndian.PutUint32(p[1:], ch.remoteId)
	return ch.writePacket(p)
}

// WriteExtended writes data to a specific extended stream. These streams are
// used, for example, for stderr.
func (ch *channel) WriteExtended(data []byte, extendedCode uint32) (n int, err error) {
	if ch.sentEOF {
		return 0, io.EOF
	}
	// 1 byte message type, 4 bytes remoteId, 4 bytes data length
	opCode := byte(msgChannelData)
	headerLength := uint32(9)
	if extendedCode > 0 {
		headerLength += 4
		opCode = msgChannelExtendedData
	}

	ch.writeMu.Lock()
	packet := ch.packetPool[extendedCode]
	// We don't remove the buffer from packetPool, so
	// WriteExtended calls from different goroutines will be
	// flagged as errors by the race detector.
	ch.writeMu.Unlock()

	for len(data) > 0 {
		space := min(ch.maxRemotePayload, len(data))
		if space, err = ch.remoteWin.reserve(space); err != nil {
			return n, err
		}
		if want := headerLength + space; uint32(cap(packet)) < want {
			packet = make([]byte, want)
		} else {
			packet = packet[:want]
		}

		todo := data[:space]

		packet[0] = opCode
		binary.BigEndian.PutUint32(packet[1:], ch.remoteId)
		if extendedCode > 0 {
			binary.BigEndian.PutUint32(packet[5:], uint32(extendedCode))
		}
		binary.BigEndian.PutUint32(packet[headerLength-4:], uint32(len(todo)))
		copy(packet[headerLength:], todo)
		if err = ch.writePacket(packet); err != nil {
			return n, err
		}

		n += len(todo)
		data = data[len(todo):]
	}

	ch.writeMu.Lock()
	ch.packetPool[extendedCode] = packet
	ch.writeMu.Unlock()

	return n, err
}

func (ch *channel) handleData(packet []byte) error {
	headerLen := 9
	isExtendedData := packet[0] == msgChannelExtendedData
	if isExtendedData {
		headerLen = 13
	}
	if len(packet) < headerLen {
		// malformed data packet
		return parseError(packet[0])
	}

	var extended uint32
	if isExtendedData {
		extended = binary.BigEndian.Uint32(packet[5:])
	}

	length := binary.BigEndian.Uint32(packet[headerLen-4 : headerLen])
	if length == 0 {
		return nil
	}
	if length > ch.maxIncomingPayload {
		// TODO(hanwen): should send Disconnect?
		return errors.New("ssh: incoming packet exceeds maximum payload size")
	}

	data := packet[headerLen:]
	if length != uint32(len(data)) {
		return errors.New("ssh: wrong packet length")
	}

	ch.windowMu.Lock()
	if ch.myWindow < length {
		ch.windowMu.Unlock()
		// TODO(hanwen): should send Disconnect with reason?
		return errors.New("ssh: remote side wrote too much")
	}
	ch.myWindow -= length
	ch.windowMu.Unlock()

	if extended == 1 {
		ch.extPending.write(data)
	} else if extended > 0 {
		// discard other extended data.
	} else {
		ch.pending.write(data)
	}
	return nil
}

func (c *channel) adjustWindow(n uint32) error {
	c.windowMu.Lock()
	// Since myWindow is managed on our side, and can never exceed
	// the initial window setting, we don't worry about overflow.
	c.myWindow += uint32(n)
	c.windowMu.Unlock()
	return c.sendMessage(windowAdjustMsg{
		AdditionalBytes: uint32(n),
	})
}

func (c *channel) ReadExtended(data []byte, extended uint32) (n int, err error) {
	switch extended {
	case 1:
		n, err = c.extPending.Read(data)
	case 0:
		n, err = c.pending.Read(data)
	default:
		return 0, fmt.Errorf("ssh: extended code %d unimplemented", extended)
	}

	if n > 0 {
		err = c.adjustWindow(uint32(n))
		// sendWindowAdjust can return io.EOF if the remote
		// peer has closed the connection, however we want to
		// defer forwarding io.EOF to the caller of Read until
		// the buffer has been drained.
		if n > 0 && err == io.EOF {
			err = nil
		}
	}

	return n, err
}

func (c *channel) close() {
	c.pending.eof()
	c.extPending.eof()
	close(c.msg)
	close(c.incomingRequests)
	c.writeMu.Lock()
	// This is not necessary for a normal channel teardown, but if
	// there was another error, it is.
	c.sentClose = true
	c.writeMu.Unlock()
	// Unblock writers.
	c.remoteWin.close()
}

// responseMessageReceived is called when a success or failure message is
// received on a channel to check that such a message is reasonable for the
// given channel.
func (ch *channel) responseMessageReceived() error {
	if ch.direction == channelInbound {
		return errors.New("ssh: channel response message received on inbound channel")
	}
	if ch.decided {
		return errors.New("ssh: duplicate response received for channel")
	}
	ch.decided = true
	return nil
}

func (ch *channel) handlePacket(packet []byte) error {
	switch packet[0] {
	case msgChannelData, msgChannelExtendedData:
		return ch.handleData(packet)
	case msgChannelClose:
		ch.sendMessage(channelCloseMsg{PeersID: ch.remoteId})
		ch.mux.chanList.remove(ch.localId)
		ch.close()
		return nil
	case msgChannelEOF:
		// RFC 4254 is mute on how EOF affects dataExt messages but
		// it is logical to signal EOF at the same time.
		ch.extPending.eof()
		ch.pending.eof()
		return nil
	}

	decoded, err := decode(packet)
	if err != nil {
		return err
	}

	switch msg := decoded.(type) {
	case *channelOpenFailureMsg:
		if err := ch.responseMessageReceived(); err != nil {
			return err
		}
		ch.mux.chanList.remove(msg.PeersID)
		ch.msg <- msg
	case *channelOpenConfirmMsg:
		if err := ch.responseMessageReceived(); err != nil {
			return err
		}
		if msg.MaxPacketSize < minPacketLength || msg.MaxPacketSize > 1<<31 {
			return fmt.Errorf("ssh: invalid MaxPacketSize %d from peer", msg.MaxPacketSize)
		}
		ch.remoteId = msg.MyID
		ch.maxRemotePayload = msg.MaxPacketSize
		ch.remoteWin.add(msg.MyWindow)
		ch.msg <- msg
	case *windowAdjustMsg:
		if !ch.remoteWin.add(msg.AdditionalBytes) {
			return fmt.Errorf("ssh: invalid window update for %d bytes", msg.AdditionalBytes)
		}
	case *channelRequestMsg:
		req := Request{
			Type:      msg.Request,
			WantReply: msg.WantReply,
			Payload:   msg.RequestSpecificData,
			ch:        ch,
		}

		ch.incomingRequests <- &req
	default:
		ch.msg <- msg
	}
	return nil
}

func (m *mux) newChannel(chanType string, direction channelDirection, extraData []byte) *channel {
	ch := &channel{
		remoteWin:        window{Cond: newCond()},
		myWindow:         channelWindowSize,
		pending:          newBuffer(),
		extPending:       newBuffer(),
		direction:        direction,
		incomingRequests: make(chan *Request, chanSize),
		msg:              make(chan interface{}, chanSize),
		chanType:         chanType,
		extraData:        extraData,
		mux:              m,
		packetPool:       make(map[uint32][]byte),
	}
	ch.localId = m.chanList.add(ch)
	return ch
}

var errUndecided = errors.New("ssh: must Accept or Reject channel")
var errDecidedAlready = errors.New("ssh: can call Accept or Reject only once")

type extChannel struct {
	code uint32
	ch   *channel
}

func (e *extChannel) Write(data []byte) (n int, err error) {
	return e.ch.WriteExtended(data, e.code)
}

func (e *extChannel) Read(data []byte) (n int, err error) {
	return e.ch.ReadExtended(data, e.code)
}

func (ch *channel) Accept() (Channel, <-chan *Request, error) {
	if ch.decided {
		return nil, nil, errDecidedAlready
	}
	ch.maxIncomingPayload = channelMaxPacket
	confirm := channelOpenConfirmMsg{
		PeersID:       ch.remoteId,
		MyID:          ch.localId,
		MyWindow:      ch.myWindow,
		MaxPacketSize: ch.maxIncomingPayload,
	}
	ch.decided = true
	if err := ch.sendMessage(confirm); err != nil {
		return nil, nil, err
	}

	return ch, ch.incomingRequests, nil
}

func (ch *channel) Reject(reason RejectionReason, message string) error {
	if ch.decided {
		return errDecidedAlready
	}
	reject := channelOpenFailureMsg{
		PeersID:  ch.remoteId,
		Reason:   reason,
		Message:  message,
		Language: "en",
	}
	ch.decided = true
	return ch.sendMessage(reject)
}

func (ch *channel) Read(data []byte) (int, error) {
	if !ch.decided {
		return 0, errUndecided
	}
	return ch.ReadExtended(data, 0)
}

func (ch *channel) Write(data []byte) (int, error) {
	if !ch.decided {
		return 0, errUndecided
	}
	return ch.WriteExtended(data, 0)
}

func (ch *channel) CloseWrite() error {
	if !ch.decided {
		return errUndecided
	}
	ch.sentEOF = true
	return ch.sendMessage(channelEOFMsg{
		PeersID: ch.remoteId})
}

func (ch *channel) Close() error {
	if !ch.decided {
		return errUndecided
	}

	return ch.sendMessage(channelCloseMsg{
		PeersID: ch.remoteId})
}

// Extended returns an io.ReadWriter that sends and receives data on the given,
// SSH extended stream. Such streams are used, for example, for stderr.
func (ch *channel) Extended(code uint32) io.ReadWriter {
	if !ch.decided {
		return nil
	}
	return &extChannel{code, ch}
}

func (ch *channel) Stderr() io.ReadWriter {
	return ch.Extended(1)
}

func (ch *channel) SendRequest(name string, wantReply bool, payload []byte) (bool, error) {
	if !ch.decided {
		return false, errUndecided
	}

	if wantReply {
		ch.sentRequestMu.Lock()
		defer ch.sentRequestMu.Unlock()
	}

	msg := channelRequestMsg{
		PeersID:             ch.remoteId,
		Request:             name,
		WantReply:           wantReply,
		RequestSpecificData: payload,
	}

	if err := ch.sendMessage(msg); err != nil {
		return false, err
	}

	if wantReply {
		m, ok := (<-ch.msg)
		if !ok {
			return false, io.EOF
		}
		switch m.(type) {
		case *channelRequestFailureMsg:
			return false, nil
		case *channelRequestSuccessMsg:
			return true, nil
		default:
			return false, fmt.Errorf("ssh: unexpected response to channel request: %#v", m)
		}
	}

	return false, nil
}

// ackRequest either sends an ack or nack to the channel request.
func (ch *channel) ackRequest(ok bool) error {
	if !ch.decided {
		return errUndecided
	}

	var msg interface{}
	if !ok {
		msg = channelRequestFailureMsg{
			PeersID: ch.remoteId,
		}
	} else {
		msg = channelRequestSuccessMsg{
			PeersID: ch.remoteId,
		}
	}
	return ch.sendMessage(msg)
}

func (ch *channel) ChannelType() string {
	return ch.chanType
}

func (ch *channel) ExtraData() []byte {
	return ch.extraData
}
