// Copyright 2011 The Go Authors. All rights reserved.
// Use of this source code is governed by a BSD-style
// license that can be found in the LICENSE file.

package ssh

import (
	"bufio"
	"bytes"
	"errors"
	"io"
	"log"
)

// debugTransport if set, will print packet types as they go over the
// wire. No message decoding is done, to minimize the impact on timing.
const debugTransport = false

const (
	gcm128CipherID = "aes128-gcm@openssh.com"
	gcm256CipherID = "aes256-gcm@openssh.com"
	aes128cbcID    = "aes128-cbc"
	tripledescbcID = "3des-cbc"
)

// packetConn represents a transport that implements packet based
// operations.
type packetConn interface {
	// Encrypt and send a packet of data to the remote peer.
	writePacket(packet []byte) error

	// Read a packet from the connection. The read is blocking,
	// i.e. if error is nil, then the returned byte slice is
	// always non-empty.
	readPacket() ([]byte, error)

	// Close closes the write-side of the connection.
	Close() error
}

// transport is the keyingTransport that implements the SSH packet
// protocol.
type transport struct {
	reader connectionState
	writer connectionState

	bufReader *bufio.Reader
	bufWriter *bufio.Writer
	rand      io.Reader
	isClient  bool
	io.Closer
}

// packetCipher represents a combination of SSH encryption/MAC
// protocol.  A single instance should be used for one direction only.
type packetCipher interface {
	// writeCipherPacket encrypts the packet and writes it to w. The
	// contents of the packet are generally scrambled.
	writeCipherPacket(seqnum uint32, w io.Writer, rand io.Reader, packet []byte) error

	// readCipherPacket reads and decrypts a packet of data. The
	// returned packet may be overwritten by future calls of
	// readPacket.
	readCipherPacket(seqnum uint32, r io.Reader) ([]byte, error)
}

// connectionState represents one side (read or write) of the
// connection. This is necessary because each direction has its own
// keys, and can even have its own algorithms
type connectionState struct {
	packetCipher
	seqNum           uint32
	dir              direction
	pendingKeyChange chan packetCipher
}

// prepareKeyChange sets up key material for a keychange. The key changes in
// both directions are triggered by reading and writing a msgNewKey packet
// respectively.
func (t *transport) prepareKeyChange(algs *algorithms, kexResult *kexResult) error {
	ciph, err := newPacketCipher(t.reader.dir, algs.r, kexResult)
	if err != nil {
		return err
	}
	t.reader.pendingKeyChange <- ciph

	ciph, err = newPacketCipher(t.writer.dir, algs.w, kexResult)
	if err != nil {
		return err
	}
	t.writer.pendingKeyChange <- ciph

	return nil
}

func (t *transport) printPacket(p []byte, write bool) {
	if len(p) == 0 {
		return
	}
	who := "server"
	if t.isClient {
		who = "client"
	}
	what := "read"
	if write {
		what = "write"
	}

	log.Println(what, who, p[0])
}

// Read and decrypt next packet.
func (t *transport) readPacket() (p []byte, err error) {
	for {
		p, err = t.reader.readPacket(t.bufReader)
		if err != nil {
			break
		}
		if len(p) == 0 || (p[0] != msgIgnore && p[0] != msgDebug) {
			break
		}
	}
	if debugTransport {
		t.printPacket(p, false)
	}

	return p, err
}

func (s *connectionState) readPacket(r *bufio.Reader) ([]byte, error) {
	packet, err := s.packetCipher.readCipherPacket(s.seqNum, r)
	s.seqNum++
	if err == nil && len(packet) == 0 {
		err = errors.New("ssh: zero length packet")
	}

	if len(packet) > 0 {
		switch packet[0] {
		case msgNewKeys:
			select {
			case cipher := <-s.pendingKeyChange:
				s.packetCipher = cipher
			default:
				return nil, errors.New("ssh: got bogus newkeys message")
			}

		case msgDisconnect:
			// Transform a disconnect message into an
			// error. Since this is lowest level at which
			// we interpret message types, doing it here
			// ensures that we don't have to handle it
			// elsewhere.
			var msg disconnectMsg
			if err := Unmarshal(packet, &msg); err != nil {
				return nil, err
			}
			return nil, &msg
		}
	}

	// The packet may point to an internal buffer, so copy the
	// packet out here.
	fresh := make([]byte, len(packet))
	copy(fresh, packet)

	return fresh, err
}

func (t *transport) writePacket(packet []byte) error {
	if debugTransport {
		t.printPacket(packet, true)
	}
	return t.writer.writePacket(t.bufWriter, t.rand, packet)
}

func (s *connectionState) writePacket(w *bufio.Writer, rand io.Reader, packet []byte) error {
	changeKeys := len(packet) > 0 && packet[0] == msgNewKeys

	err := s.packetCipher.writeCipherPacket(s.seqNum, w, rand, packet)
	if err != nil {
		return err
	}
	if err = w.Flush(); err != nil {
		return err
	}
	s.seqNum++
	if changeKeys {
		select {
		case cipher := <-s.pendingKeyChange:
			s.packetCipher = cipher
		default:
			panic("ssh: no key material for msgNewKeys")
		}
	}
	return err
}

func newTransport(rwc io.ReadWriteCloser, rand io.Reader, isClient bool) *transport {
	t := &transport{
		bufReader: bufio.NewReader(rwc),
		bufWriter: bufio.NewWriter(rwc),
		rand:      rand,
		reader: connectionState{
			packetCipher:     &streamPacketCipher{cipher: noneCipher{}},
			pendingKeyChange: make(chan packetCipher, 1),
		},
		writer: connectionState{
			packetCipher:     &streamPacketCipher{cipher: noneCipher{}},
			pendingKeyChange: make(chan packetCipher, 1),
		},
		Closer: rwc,
	}
	t.isClient = isClient

	if isClient {
		t.reader.dir = serverKeys
		t.writer.dir = clientKeys
	} else {
		t.reader.dir = clientKeys
		t.writer.dir = serverKeys
	}

	return t
}

type direction struct {
	ivTag     []byte
	keyTag    []byte
	macKeyTag []byte
}

var (
	serverKeys = direction{[]byte{'B'}, []byte{'D'}, []byte{'F'}}
	clientKeys = direction{[]byte{'A'}, []byte{'C'}, []byte{'E'}}
)

// setupKeys sets the cipher and MAC keys from kex.K, kex.H and sessionId, as
// described in RFC 4253, section 6.4. direction should either be serverKeys
// (to setup server->client keys) or clientKeys (for client->server keys).
func newPacketCipher(d direction, algs directionAlgorithms, kex *kexResult) (packetCipher, error) {
	cipherMode := cipherModes[algs.Cipher]

	iv := make([]byte, cipherMode.ivSize)
	key := make([]byte, cipherMode.keySize)

	generateKeyMaterial(iv, d.ivTag, kex)
	generateKeyMaterial(key, d.keyTag, kex)

	var macKey []byte
	if !aeadCiphers[algs.Cipher] {
		macMode := macModes[algs.MAC]
		macKey = make([]byte, macMode.keySize)
		generateKeyMaterial(macKey, d.macKeyTag, kex)
	}

	return cipherModes[algs.Cipher].create(key, iv, macKey, algs)
}

// generateKeyMaterial fills out with key material generated from tag, K, H
// and sessionId, as specified in RFC 4253, section 7.2.
func generateKeyMaterial(out, tag []byte, r *kexResult) {
	var digestsSoFar []byte

	h := r.Hash.New()
	for len(out) > 0 {
		h.Reset()
		h.Write(r.K)
		h.Write(r.H)

		if len(digestsSoFar) == 0 {
			h.Write(tag)
			h.Write(r.SessionID)
		} else {
			h.Write(digestsSoFar)
		}

		digest := h.Sum(nil)
		n := copy(out, digest)
		out = out[n:]
		if len(out) > 0 {
			digestsSoFar = append(digestsSoFar, digest...)
		}
	}
}

const packageVersion = "SSH-2.0-Go"

// Sends and receives a version line.  The versionLine string should
// be US ASCII, start with "SSH-2.0-", and should not include a
// newline. exchangeVersions returns the other side's version line.
func exchangeVersions(rw io.ReadWriter, versionLine []byte) (them []byte, err error) {
	// Contrary to the RFC, we do not ignore lines that don't
	// start with "SSH-2.0-" to make the library usable with
	// nonconforming servers.
	for _, c := range versionLine {
		// The spec disallows non US-ASCII chars, and
		// specifically forbids null chars.
		if c < 32 {
			return nil, errors.New("ssh: junk character in version line")
		}
	}
	if _, err = rw.Write(append(versionLine, '\r', '\n')); err != nil {
		return
	}

	them, err = readVersion(rw)
	return them, err
}

// maxVersionStringBytes is the maximum number of bytes that we'll
// accept as a version string. RFC 4253 section 4.2 limits this at 255
// chars
const maxVersionStringBytes = 255

// Read version string as specified by RFC 4253, section 4.2.
func readVersion(r io.Reader) ([]byte, error) {
	versionString := make([]byte, 0, 64)
	var ok bool
	var buf [1]byte

	for length := 0; length < maxVersionStringBytes; length++ {
		_, err := io.ReadFull(r, buf[:])
		if err != nil {
			return nil, err
		}
		// The RFC says that the version should be terminated with \r\n
		// but several SSH servers actually only send a \n.
		if buf[0] == '\n' {
			if !bytes.HasPrefix(versionString, []byte("SSH-")) {
				// RFC 4253 says we need to ignore all version string lines
				// except the one containing the SSH version (provided that
				// all the lines do not exceed 255 bytes in total).
				versionString = versionString[:0]
				continue
			}
			ok = true
			break
		}

		// non ASCII chars are disallowed, but we are lenient,
		// since Go doesn't use null-terminated strings.

		// The RFC allows a comment after a space, however,
		// all of it (version and comments) goes into the
		// session hash.
		versionString = append(versionString, buf[0])
	}

	if !ok {
		return nil, errors.New("ssh: overflow reading version string")
	}

	// There might be a '\r' on the end which we should remove.
	if len(versionString) > 0 && versionString[len(versionString)-1] == '\r' {
		versionString = versionString[:len(versionString)-1]
	}
	return versionString, nil
}
