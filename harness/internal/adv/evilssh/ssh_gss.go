// Copyright 2011 The Go Authors. All rights reserved.
// Use of this source code is governed by a BSD-style
// license that can be found in the LICENSE file.

package ssh

import (
	"encoding/asn1"
	"errors"
)

var krb5OID []byte

func init() {
	krb5OID, _ = asn1.Marshal(krb5Mesh)
}

// GSSAPIClient provides the API to plug-in GSSAPI authentication for client logins.
type GSSAPIClient interface {
	// InitSecContext initiates the establishment of a security context for GSS-API between the
	// ssh client and ssh server. Initially the token parameter should be specified as nil.
	// The routine may return a outputToken which should be transferred to
	// the ssh server, where the ssh server will present it to
	// AcceptSecContext. If no token need be sent, InitSecContext will indicate this by setting
	// needContinue to false. To complete the context
	// establishment, one or more reply tokens may be required from the ssh
	// server;if so, InitSecContext will return a needContinue which is true.
	// In this case, InitSecContext should be called again when the
	// reply token is received from the ssh server, passing the reply
	// token to InitSecContext via the token parameters.
	// See RFC 2743 section 2.2.1 and RFC 4462 section 3.4.
	InitSecContext(target string, token []byte, isGSSDelegCreds bool) (outputToken []byte, needContinue bool, err error)
	// GetMIC generates a cryptographic MIC for the SSH2 message, and places
	// the MIC in a token for transfer to the ssh server.
	// The contents of the MIC field are obtained by calling GSS_GetMIC()
	// over the following, using the GSS-API context that was just
	// established:
	//  string    session identifier
	//  byte      SSH_MSG_USERAUTH_REQUEST
	//  string    user name
	//  string    service
	//  string    "gssapi-with-mic"
	// See RFC 2743 section 2.3.1 and RFC 4462 3.5.
	GetMIC(micFiled []byte) ([]byte, error)
	// Whenever possible, it should be possible for
	// DeleteSecContext() calls to be successfully processed even
	// if other calls cannot succeed, thereby enabling context-related
	// resources to be released.
	// In addition to deleting established security contexts,
	// gss_delete_sec_context must also be able to delete "half-built"
	// security contexts resulting from an incomplete sequence of
	// InitSecContext()/AcceptSecContext() calls.
	// See RFC 2743 section 2.2.3.
	DeleteSecContext() error
}

// GSSAPIServer provides the API to plug in GSSAPI authentication for server logins.
type GSSAPIServer interface {
	// AcceptSecContext allows a remotely initiated security context between the application
	// and a remote peer to be established by the ssh client. The routine may return a
	// outputToken which should be transferred to the ssh client,
	// where the ssh client will present it to InitSecContext.
	// If no token need be sent, AcceptSecContext will indicate this
	// by setting the needContinue to false. To
	// complete the context establishment, one or more reply tokens may be
	// required from the ssh client. if so, AcceptSecContext
	// will return a needContinue which is true, in which case it
	// should be called again when the reply token is received from the ssh
	// client, passing the token to AcceptSecContext via the
	// token parameters.
	// The srcName return value is the authenticated username.
	// See RFC 2743 section 2.2.2 and RFC 4462 section 3.4.
	AcceptSecContext(token []byte) (outputToken []byte, srcName string, needContinue bool, err error)
	// VerifyMIC verifies that a cryptographic MIC, contained in the token parameter,
	// fits the supplied message is received from the ssh client.
	// See RFC 2743 section 2.3.2.
	VerifyMIC(micField []byte, micToken []byte) error
	// Whenever possible, it should be possible for
	// DeleteSecContext() calls to be successfully processed even
	// if other calls cannot succeed, thereby enabling context-related
	// resources to be released.
	// In addition to deleting established security contexts,
	// gss_delete_sec_context must also be able to delete "half-built"
	// security contexts resulting from an incomplete sequence of
	// InitSecContext()/AcceptSecContext() calls.
	// See RFC 2743 section 2.2.3.
	DeleteSecContext() error
}

var (
	// OpenSSH supports Kerberos V5 mechanism only for GSS-API authentication,
	// so we also support the krb5 mechanism only.
	// See RFC 1964 section 1.
	krb5Mesh = asn1.ObjectIdentifier{1, 2, 840, 113554, 1, 2, 2}
)

// The GSS-API authentication method is initiated when the client sends an SSH_MSG_USERAUTH_REQUEST
// See RFC 4462 section 3.2.
type userAuthRequestGSSAPI struct {
	N    uint32
	OIDS []asn1.ObjectIdentifier
}

func parseGSSAPIPayload(payload []byte) (*userAuthRequestGSSAPI, error) {
	n, rest, ok := parseUint32(payload)
	if !ok {
		return nil, errors.New("parse uint32 failed")
	}
	s := &userAuthRequestGSSAPI{
		N:    n,
		OIDS: make([]asn1.ObjectIdentifier, n),
	}
	for i := 0; i < int(n); i++ {
		var (
			desiredMech []byte
			err         error
		)
		desiredMech, rest, ok = parseString(rest)
		if !ok {
			return nil, errors.New("parse string failed")
		}
		if rest, err = asn1.Unmarshal(desiredMech, &s.OIDS[i]); err != nil {
			return nil, err
		}

	}
	return s, nil
}

// See RFC 4462 section 3.6.
func buildMIC(sessionID string, username string, service string, authMethod string) []byte {
	out := make([]byte, 0, 0)
	out = appendString(out, sessionID)
	out = append(out, msgUserAuthRequest)
	out = appendString(out, username)
	out = appendString(out, service)
	out = appendString(out, authMethod)
	return out
}
