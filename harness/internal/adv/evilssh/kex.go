// Copyright 2013 The Go Authors. All rights reserved.
// Use of this source code is governed by a BSD-style
// license that can be found in the LICENSE file.

package ssh

import (
	"crypto"
	"crypto/ecdsa"
	"crypto/elliptic"
	"crypto/rand"
	"crypto/subtle"
	"encoding/binary"
	"errors"
	"fmt"
	"io"
	"math/big"

	"golang.org/x/crypto/curve25519"
)

const (
	kexAlgoDH1SHA1                = "diffie-hellman-group1-sha1"
	kexAlgoDH14SHA1               = "diffie-hellman-group14-sha1"
	kexAlgoDH14SHA256             = "diffie-hellman-group14-sha256"
	kexAlgoECDH256                = "ecdh-sha2-nistp256"
	kexAlgoECDH384                = "ecdh-sha2-nistp384"
	kexAlgoECDH521                = "ecdh-sha2-nistp521"
	kexAlgoCurve25519SHA256LibSSH = "curve25519-sha256@libssh.org"
	kexAlgoCurve25519SHA256       = "curve25519-sha256"

	// For the following kex only the client half contains a production
	// ready implementation. The server half only consists of a minimal
	// implementation to satisfy the automated tests.
	kexAlgoDHGEXSHA1   = "diffie-hellman-group-exchange-sha1"
	kexAlgoDHGEXSHA256 = "diffie-hellman-group-exchange-sha256"
)

// kexResult captures the outcome of a key exchange.
type kexResult struct {
	// Session hash. See also RFC 4253, section 8.
	H []byte

	// Shared secret. See also RFC 4253, section 8.
	K []byte

	// Host key as hashed into H.
	HostKey []byte

	// Signature of H.
	Signature []byte

	// A cryptographic hash function that matches the security
	// level of the key exchange algorithm. It is used for
	// calculating H, and for deriving keys from H and K.
	Hash crypto.Hash

	// The session ID, which is the first H computed. This is used
	// to derive key material inside the transport.
	SessionID []byte
}

// handshakeMagics contains data that is always included in the
// session hash.
type handshakeMagics struct {
	clientVersion, serverVersion []byte
	clientKexInit, serverKexInit []byte
}

func (m *handshakeMagics) write(w io.Writer) {
	writeString(w, m.clientVersion)
	writeString(w, m.serverVersion)
	writeString(w, m.clientKexInit)
	writeString(w, m.serverKexInit)
}

// kexAlgorithm abstracts different key exchange algorithms.
type kexAlgorithm interface {
	// Server runs server-side key agreement, signing the result
	// with a hostkey. algo is the negotiated algorithm, and may
	// be a certificate type.
	Server(p packetConn, rand io.Reader, magics *handshakeMagics, s AlgorithmSigner, algo string) (*kexResult, error)

	// Client runs the client-side key agreement. Caller is
	// responsible for verifying the host key signature.
	Client(p packetConn, rand io.Reader, magics *handshakeMagics) (*kexResult, error)
}

// dhGroup is a multiplicative group suitable for implementing Diffie-Hellman key agreement.
type dhGroup struct {
	g, p, pMinus1 *big.Int
	hashFunc      crypto.Hash
}

func (group *dhGroup) diffieHellman(theirPublic, myPrivate *big.Int) (*big.Int, error) {
	if theirPublic.Cmp(bigOne) <= 0 || theirPublic.Cmp(group.pMinus1) >= 0 {
		return nil, errors.New("ssh: DH parameter out of bounds")
	}
	return new(big.Int).Exp(theirPublic, myPrivate, group.p), nil
}

func (group *dhGroup) Client(c packetConn, randSource io.Reader, magics *handshakeMagics) (*kexResult, error) {
	var x *big.Int
	for {
		var err error
		if x, err = rand.Int(randSource, group.pMinus1); err != nil {
			return nil, err
		}
		if x.Sign() > 0 {
			break
		}
	}

	X := new(big.Int).Exp(group.g, x, group.p)
	kexDHInit := kexDHInitMsg{
		X: X,
	}
	if err := c.writePacket(Marshal(&kexDHInit)); err != nil {
		return nil, err
	}

	packet, err := c.readPacket()
	if err != nil {
		return nil, err
	}

	var kexDHReply kexDHReplyMsg
	if err = Unmarshal(packet, &kexDHReply); err != nil {
		return nil, err
	}

	ki, err := group.diffieHellman(kexDHReply.Y, x)
	if err != nil {
		return nil, err
	}

	h := group.hashFunc.New()
	magics.write(h)
	writeString(h, kexDHReply.HostKey)
	writeInt(h, X)
	writeInt(h, kexDHReply.Y)
	K := make([]byte, intLength(ki))
	marshalInt(K, ki)
	h.Write(K)

	return &kexResult{
		H:         h.Sum(nil),
		K:         K,
		HostKey:   kexDHReply.HostKey,
		Signature: kexDHReply.Signature,
		Hash:      group.hashFunc,
	}, nil
}

func (group *dhGroup) Server(c packetConn, randSource io.Reader, magics *handshakeMagics, priv AlgorithmSigner, algo string) (result *kexResult, err error) {
	packet, err := c.readPacket()
	if err != nil {
		return
	}
	var kexDHInit kexDHInitMsg
	if err = Unmarshal(packet, &kexDHInit); err != nil {
		return
	}

	var y *big.Int
	for {
		if y, err = rand.Int(randSource, group.pMinus1); err != nil {
			return
		}
		if y.Sign() > 0 {
			break
		}
	}

	Y := new(big.Int).Exp(group.g, y, group.p)
	ki, err := group.diffieHellman(kexDHInit.X, y)
	if err != nil {
		return nil, err
	}

	hostKeyBytes := priv.PublicKey().Marshal()

	h := group.hashFunc.New()
	magics.write(h)
	writeString(h, hostKeyBytes)
	writeInt(h, kexDHInit.X)
	writeInt(h, Y)

	K := make([]byte, intLength(ki))
	marshalInt(K, ki)
	h.Write(K)

	H := h.Sum(nil)

	// H is already a hash, but the hostkey signing will apply its
	// own key-specific hash algorithm.
	sig, err := signAndMarshal(priv, randSource, H, algo)
	if err != nil {
		return nil, err
	}

	kexDHReply := kexDHReplyMsg{
		HostKey:   hostKeyBytes,
		Y:         Y,
		Signature: sig,
	}
	packet = Marshal(&kexDHReply)

	err = c.writePacket(packet)
	return &kexResult{
		H:         H,
		K:         K,
		HostKey:   hostKeyBytes,
		Signature: sig,
		Hash:      group.hashFunc,
	}, err
}

// ecdh performs Elliptic Curve Diffie-Hellman key exchange as
// described in RFC 5656, section 4.
type ecdh struct {
	curve elliptic.Curve
}

func (kex *ecdh) Client(c packetConn, rand io.Reader, magics *handshakeMagics) (*kexResult, error) {
	ephKey, err := ecdsa.GenerateKey(kex.curve, rand)
	if err != nil {
		return nil, err
	}

	kexInit := kexECDHInitMsg{
		ClientPubKey: elliptic.Marshal(kex.curve, ephKey.PublicKey.X, ephKey.PublicKey.Y),
	}

	serialized := Marshal(&kexInit)
	if err := c.writePacket(serialized); err != nil {
		return nil, err
	}

	packet, err := c.readPacket()
	if err != nil {
		return nil, err
	}

	var reply kexECDHReplyMsg
	if err = Unmarshal(packet, &reply); err != nil {
		return nil, err
	}

	x, y, err := unmarshalECKey(kex.curve, reply.EphemeralPubKey)
	if err != nil {
		return nil, err
	}

	// generate shared secret
	secret, _ := kex.curve.ScalarMult(x, y, ephKey.D.Bytes())

	h := ecHash(kex.curve).New()
	magics.write(h)
	writeString(h, reply.HostKey)
	writeString(h, kexInit.ClientPubKey)
	writeString(h, reply.EphemeralPubKey)
	K := make([]byte, intLength(secret))
	marshalInt(K, secret)
	h.Write(K)

	return &kexResult{
		H:         h.Sum(nil),
		K:         K,
		HostKey:   reply.HostKey,
		Signature: reply.Signature,
		Hash:      ecHash(kex.curve),
	}, nil
}

// unmarshalECKey parses and checks an EC key.
func unmarshalECKey(curve elliptic.Curve, pubkey []byte) (x, y *big.Int, err error) {
	x, y = elliptic.Unmarshal(curve, pubkey)
	if x == nil {
		return nil, nil, errors.New("ssh: elliptic.Unmarshal failure")
	}
	if !validateECPublicKey(curve, x, y) {
		return nil, nil, errors.New("ssh: public key not on curve")
	}
	return x, y, nil
}

// validateECPublicKey checks that the point is a valid public key for
// the given curve. See [SEC1], 3.2.2
func validateECPublicKey(curve elliptic.Curve, x, y *big.Int) bool {
	if x.Sign() == 0 && y.Sign() == 0 {
		return false
	}

	if x.Cmp(curve.Params().P) >= 0 {
		return false
	}

	if y.Cmp(curve.Params().P) >= 0 {
		return false
	}

	if !curve.IsOnCurve(x, y) {
		return false
	}

	// We don't check if N * PubKey == 0, since
	//
	// - the NIST curves have cofactor = 1, so this is implicit.
	// (We don't foresee an implementation that supports non NIST
	// curves)
	//
	// - for ephemeral keys, we don't need to worry about small
	// subgroup attacks.
	return true
}

func (kex *ecdh) Server(c packetConn, rand io.Reader, magics *handshakeMagics, priv AlgorithmSigner, algo string) (result *kexResult, err error) {
	packet, err := c.readPacket()
	if err != nil {
		return nil, err
	}

	var kexECDHInit kexECDHInitMsg
	if err = Unmarshal(packet, &kexECDHInit); err != nil {
		return nil, err
	}

	clientX, clientY, err := unmarshalECKey(kex.curve, kexECDHInit.ClientPubKey)
	if err != nil {
		return nil, err
	}

	// We could cache this key across multiple users/multiple
	// connection attempts, but the benefit is small. OpenSSH
	// generates a new key for each incoming connection.
	ephKey, err := ecdsa.GenerateKey(kex.curve, rand)
	if err != nil {
		return nil, err
	}

	hostKeyBytes := priv.PublicKey().Marshal()

	serializedEphKey := elliptic.Marshal(kex.curve, ephKey.PublicKey.X, ephKey.PublicKey.Y)

	// generate shared secret
	secret, _ := kex.curve.ScalarMult(clientX, clientY, ephKey.D.Bytes())

	h := ecHash(kex.curve).New()
	magics.write(h)
	writeString(h, hostKeyBytes)
	writeString(h, kexECDHInit.ClientPubKey)
	writeString(h, serializedEphKey)

	K := make([]byte, intLength(secret))
	marshalInt(K, secret)
	h.Write(K)

	H := h.Sum(nil)

	// H is already a hash, but the hostkey signing will apply its
	// own key-specific hash algorithm.
	sig, err := signAndMarshal(priv, rand, H, algo)
	if err != nil {
		return nil, err
	}

	reply := kexECDHReplyMsg{
		EphemeralPubKey: serializedEphKey,
		HostKey:         hostKeyBytes,
		Signature:       sig,
	}

	serialized := Marshal(&reply)
	if err := c.writePacket(serialized); err != nil {
		return nil, err
	}

	return &kexResult{
		H:         H,
		K:         K,
		HostKey:   reply.HostKey,
		Signature: sig,
		Hash:      ecHash(kex.curve),
	}, nil
}

// ecHash returns the hash to match the given elliptic curve, see RFC
// 5656, section 6.2.1
func ecHash(curve elliptic.Curve) crypto.Hash {
	bitSize := curve.Params().BitSize
	switch {
	case bitSize <= 256:
		return crypto.SHA256
	case bitSize <= 384:
		return crypto.SHA384
	}
	return crypto.SHA512
}

var kexAlgoMap = map[string]kexAlgorithm{}

func init() {
	// This is the group called diffie-hellman-group1-sha1 in
	// RFC 4253 and Oakley Group 2 in RFC 2409.
	p, _ := new(big.Int).SetString("FFFFFFFFFFFFFFFFC90FDAA22168C234C4C6628B80DC1CD129024E088A67CC74020BBEA63B139B22514A08798E3404DDEF9519B3CD3A431B302B0A6DF25F14374FE1356D6D51C245E485B576625E7EC6F44C42E9A637ED6B0BFF5CB6F406B7EDEE386BFB5A899FA5AE9F24117C4B1FE649286651ECE65381FFFFFFFFFFFFFFFF", 16)
	kexAlgoMap[kexAlgoDH1SHA1] = &dhGroup{
		g:        new(big.Int).SetInt64(2),
		p:        p,
		pMinus1:  new(big.Int).Sub(p, bigOne),
		hashFunc: crypto.SHA1,
	}

	// This are the groups called diffie-hellman-group14-sha1 and
	// diffie-hellman-group14-sha256 in RFC 4253 and RFC 8268,
	// and Oakley Group 14 in RFC 3526.
	p, _ = new(big.Int).SetString("FFFFFFFFFFFFFFFFC90FDAA22168C234C4C6628B80DC1CD129024E088A67CC74020BBEA63B139B22514A08798E3404DDEF9519B3CD3A431B302B0A6DF25F14374FE1356D6D51C245E485B576625E7EC6F44C42E9A637ED6B0BFF5CB6F406B7EDEE386BFB5A899FA5AE9F24117C4B1FE649286651ECE45B3DC2007CB8A163BF0598DA48361C55D39A69163FA8FD24CF5F83655D23DCA3AD961C62F356208552BB9ED529077096966D670C354E4ABC9804F1746C08CA18217C32905E462E36CE3BE39E772C180E86039B2783A2EC07A28FB5C55DF06F4C52C9DE2BCBF6955817183995497CEA956AE515D2261898FA051015728E5A8AACAA68FFFFFFFFFFFFFFFF", 16)
	group14 := &dhGroup{
		g:       new(big.Int).SetInt64(2),
		p:       p,
		pMinus1: new(big.Int).Sub(p, bigOne),
	}

	kexAlgoMap[kexAlgoDH14SHA1] = &dhGroup{
		g: group14.g, p: group14.p, pMinus1: group14.pMinus1,
		hashFunc: crypto.SHA1,
	}
	kexAlgoMap[kexAlgoDH14SHA256] = &dhGroup{
		g: group14.g, p: group14.p, pMinus1: group14.pMinus1,
		hashFunc: crypto.SHA256,
	}

	kexAlgoMap[kexAlgoECDH521] = &ecdh{elliptic.P521()}
	kexAlgoMap[kexAlgoECDH384] = &ecdh{elliptic.P384()}
	kexAlgoMap[kexAlgoECDH256] = &ecdh{elliptic.P256()}
	kexAlgoMap[kexAlgoCurve25519SHA256] = &curve25519sha256{}
	kexAlgoMap[kexAlgoCurve25519SHA256LibSSH] = &curve25519sha256{}
	kexAlgoMap[kexAlgoDHGEXSHA1] = &dhGEXSHA{hashFunc: crypto.SHA1}
	kexAlgoMap[kexAlgoDHGEXSHA256] = &dhGEXSHA{hashFunc: crypto.SHA256}
}

// curve25519sha256 implements the curve25519-sha256 (formerly known as
// curve25519-sha256@libssh.org) key exchange method, as described in RFC 8731.
type curve25519sha256 struct{}

type curve25519KeyPair struct {
	priv [32]byte
	pub  [32]byte
}

func (kp *curve25519KeyPair) generate(rand io.Reader) error {
	if _, err := io.ReadFull(rand, kp.priv[:]); err != nil {
		return err
	}
	curve25519.ScalarBaseMult(&kp.pub, &kp.priv)
	return nil
}

// curve25519Zeros is just an array of 32 zero bytes so that we have something
// convenient to compare against in order to reject curve25519 points with the
// wrong order.
var curve25519Zeros [32]byte

func (kex *curve25519sha256) Client(c packetConn, rand io.Reader, magics *handshakeMagics) (*kexResult, error) {
	var kp curve25519KeyPair
	if err := kp.generate(rand); err != nil {
		return nil, err
	}
	if err := c.writePacket(Marshal(&kexECDHInitMsg{kp.pub[:]})); err != nil {
		return nil, err
	}

	packet, err := c.readPacket()
	if err != nil {
		return nil, err
	}

	var reply kexECDHReplyMsg
	if err = Unmarshal(packet, &reply); err != nil {
		return nil, err
	}
	if len(reply.EphemeralPubKey) != 32 {
		return nil, errors.New("ssh: peer's curve25519 public value has wrong length")
	}

	var servPub, secret [32]byte
	copy(servPub[:], reply.EphemeralPubKey)
	curve25519.ScalarMult(&secret, &kp.priv, &servPub)
	if subtle.ConstantTimeCompare(secret[:], curve25519Zeros[:]) == 1 {
		return nil, errors.New("ssh: peer's curve25519 public value has wrong order")
	}

	h := crypto.SHA256.New()
	magics.write(h)
	writeString(h, reply.HostKey)
	writeString(h, kp.pub[:])
	writeString(h, reply.EphemeralPubKey)

	ki := new(big.Int).SetBytes(secret[:])
	K := make([]byte, intLength(ki))
	marshalInt(K, ki)
	h.Write(K)

	return &kexResult{
		H:         h.Sum(nil),
		K:         K,
		HostKey:   reply.HostKey,
		Signature: reply.Signature,
		Hash:      crypto.SHA256,
	}, nil
}

func (kex *curve25519sha256) Server(c packetConn, rand io.Reader, magics *handshakeMagics, priv AlgorithmSigner, algo string) (result *kexResult, err error) {
	packet, err := c.readPacket()
	if err != nil {
		return
	}
	var kexInit kexECDHInitMsg
	if err = Unmarshal(packet, &kexInit); err != nil {
		return
	}

	if len(kexInit.ClientPubKey) != 32 {
		return nil, errors.New("ssh: peer's curve25519 public value has wrong length")
	}

	var kp curve25519KeyPair
	if err := kp.generate(rand); err != nil {
		return nil, err
	}

	var clientPub, secret [32]byte
	copy(clientPub[:], kexInit.ClientPubKey)
	curve25519.ScalarMult(&secret, &kp.priv, &clientPub)
	if subtle.ConstantTimeCompare(secret[:], curve25519Zeros[:]) == 1 {
		return nil, errors.New("ssh: peer's curve25519 public value has wrong order")
	}

	hostKeyBytes := priv.PublicKey().Marshal()

	h := crypto.SHA256.New()
	magics.write(h)
	writeString(h, hostKeyBytes)
	writeString(h, kexInit.ClientPubKey)
	writeString(h, kp.pub[:])

	ki := new(big.Int).SetBytes(secret[:])
	K := make([]byte, intLength(ki))
	marshalInt(K, ki)
	h.Write(K)

	H := h.Sum(nil)

	sig, err := signAndMarshal(priv, rand, H, algo)
	if err != nil {
		return nil, err
	}

	reply := kexECDHReplyMsg{
		EphemeralPubKey: kp.pub[:],
		HostKey:         hostKeyBytes,
		Signature:       sig,
	}
	if err := c.writePacket(Marshal(&reply)); err != nil {
		return nil, err
	}
	return &kexResult{
		H:         H,
		K:         K,
		HostKey:   hostKeyBytes,
		Signature: sig,
		Hash:      crypto.SHA256,
	}, nil
}

// dhGEXSHA implements the diffie-hellman-group-exchange-sha1 and
// diffie-hellman-group-exchange-sha256 key agreement protocols,
// as described in RFC 4419
type dhGEXSHA struct {
	hashFunc crypto.Hash
}

const (
	dhGroupExchangeMinimumBits   = 2048
	dhGroupExchangePreferredBits = 2048
	dhGroupExchangeMaximumBits   = 8192
)

func (gex *dhGEXSHA) Client(c packetConn, randSource io.Reader, magics *handshakeMagics) (*kexResult, error) {
	// Send GexRequest
	kexDHGexRequest := kexDHGexRequestMsg{
		MinBits:      dhGroupExchangeMinimumBits,
		PreferedBits: dhGroupExchangePreferredBits,
		MaxBits:      dhGroupExchangeMaximumBits,
	}
	if err := c.writePacket(Marshal(&kexDHGexRequest)); err != nil {
		return nil, err
	}

	// Receive GexGroup
	packet, err := c.readPacket()
	if err != nil {
		return nil, err
	}

	var msg kexDHGexGroupMsg
	if err = Unmarshal(packet, &msg); err != nil {
		return nil, err
	}

	// reject if p's bit length < dhGroupExchangeMinimumBits or > dhGroupExchangeMaximumBits
	if msg.P.BitLen() < dhGroupExchangeMinimumBits || msg.P.BitLen() > dhGroupExchangeMaximumBits {
		return nil, fmt.Errorf("ssh: server-generated gex p is out of range (%d bits)", msg.P.BitLen())
	}

	// Check if g is safe by verifying that 1 < g < p-1
	pMinusOne := new(big.Int).Sub(msg.P, bigOne)
	if msg.G.Cmp(bigOne) <= 0 || msg.G.Cmp(pMinusOne) >= 0 {
		return nil, fmt.Errorf("ssh: server provided gex g is not safe")
	}

	// Send GexInit
	pHalf := new(big.Int).Rsh(msg.P, 1)
	x, err := rand.Int(randSource, pHalf)
	if err != nil {
		return nil, err
	}
	X := new(big.Int).Exp(msg.G, x, msg.P)
	kexDHGexInit := kexDHGexInitMsg{
		X: X,
	}
	if err := c.writePacket(Marshal(&kexDHGexInit)); err != nil {
		return nil, err
	}

	// Receive GexReply
	packet, err = c.readPacket()
	if err != nil {
		return nil, err
	}

	var kexDHGexReply kexDHGexReplyMsg
	if err = Unmarshal(packet, &kexDHGexReply); err != nil {
		return nil, err
	}

	if kexDHGexReply.Y.Cmp(bigOne) <= 0 || kexDHGexReply.Y.Cmp(pMinusOne) >= 0 {
		return nil, errors.New("ssh: DH parameter out of bounds")
	}
	kInt := new(big.Int).Exp(kexDHGexReply.Y, x, msg.P)

	// Check if k is safe by verifying that k > 1 and k < p - 1
	if kInt.Cmp(bigOne) <= 0 || kInt.Cmp(pMinusOne) >= 0 {
		return nil, fmt.Errorf("ssh: derived k is not safe")
	}

	h := gex.hashFunc.New()
	magics.write(h)
	writeString(h, kexDHGexReply.HostKey)
	binary.Write(h, binary.BigEndian, uint32(dhGroupExchangeMinimumBits))
	binary.Write(h, binary.BigEndian, uint32(dhGroupExchangePreferredBits))
	binary.Write(h, binary.BigEndian, uint32(dhGroupExchangeMaximumBits))
	writeInt(h, msg.P)
	writeInt(h, msg.G)
	writeInt(h, X)
	writeInt(h, kexDHGexReply.Y)
	K := make([]byte, intLength(kInt))
	marshalInt(K, kInt)
	h.Write(K)

	return &kexResult{
		H:         h.Sum(nil),
		K:         K,
		HostKey:   kexDHGexReply.HostKey,
		Signature: kexDHGexReply.Signature,
		Hash:      gex.hashFunc,
	}, nil
}

// Server half implementation of the Diffie Hellman Key Exchange with SHA1 and SHA256.
//
// This is a minimal implementation to satisfy the automated tests.
func (gex dhGEXSHA) Server(c packetConn, randSource io.Reader, magics *handshakeMagics, priv AlgorithmSigner, algo string) (result *kexResult, err error) {
	// Receive GexRequest
	packet, err := c.readPacket()
	if err != nil {
		return
	}
	var kexDHGexRequest kexDHGexRequestMsg
	if err = Unmarshal(packet, &kexDHGexRequest); err != nil {
		return
	}

	// Send GexGroup
	// This is the group called diffie-hellman-group14-sha1 in RFC
	// 4253 and Oakley Group 14 in RFC 3526.
	p, _ := new(big.Int).SetString("FFFFFFFFFFFFFFFFC90FDAA22168C234C4C6628B80DC1CD129024E088A67CC74020BBEA63B139B22514A08798E3404DDEF9519B3CD3A431B302B0A6DF25F14374FE1356D6D51C245E485B576625E7EC6F44C42E9A637ED6B0BFF5CB6F406B7EDEE386BFB5A899FA5AE9F24117C4B1FE649286651ECE45B3DC2007CB8A163BF0598DA48361C55D39A69163FA8FD24CF5F83655D23DCA3AD961C62F356208552BB9ED529077096966D670C354E4ABC9804F1746C08CA18217C32905E462E36CE3BE39E772C180E86039B2783A2EC07A28FB5C55DF06F4C52C9DE2BCBF6955817183995497CEA956AE515D2261898FA051015728E5A8AACAA68FFFFFFFFFFFFFFFF", 16)
	g := big.NewInt(2)

	msg := &kexDHGexGroupMsg{
		P: p,
		G: g,
	}
	if err := c.writePacket(Marshal(msg)); err != nil {
		return nil, err
	}

	// Receive GexInit
	packet, err = c.readPacket()
	if err != nil {
		return
	}
	var kexDHGexInit kexDHGexInitMsg
	if err = Unmarshal(packet, &kexDHGexInit); err != nil {
		return
	}

	pHalf := new(big.Int).Rsh(p, 1)

	y, err := rand.Int(randSource, pHalf)
	if err != nil {
		return
	}
	Y := new(big.Int).Exp(g, y, p)

	pMinusOne := new(big.Int).Sub(p, bigOne)
	if kexDHGexInit.X.Cmp(bigOne) <= 0 || kexDHGexInit.X.Cmp(pMinusOne) >= 0 {
		return nil, errors.New("ssh: DH parameter out of bounds")
	}
	kInt := new(big.Int).Exp(kexDHGexInit.X, y, p)

	hostKeyBytes := priv.PublicKey().Marshal()

	h := gex.hashFunc.New()
	magics.write(h)
	writeString(h, hostKeyBytes)
	binary.Write(h, binary.BigEndian, uint32(dhGroupExchangeMinimumBits))
	binary.Write(h, binary.BigEndian, uint32(dhGroupExchangePreferredBits))
	binary.Write(h, binary.BigEndian, uint32(dhGroupExchangeMaximumBits))
	writeInt(h, p)
	writeInt(h, g)
	writeInt(h, kexDHGexInit.X)
	writeInt(h, Y)

	K := make([]byte, intLength(kInt))
	marshalInt(K, kInt)
	h.Write(K)

	H := h.Sum(nil)

	// H is already a hash, but the hostkey signing will apply its
	// own key-specific hash algorithm.
	sig, err := signAndMarshal(priv, randSource, H, algo)
	if err != nil {
		return nil, err
	}

	kexDHGexReply := kexDHGexReplyMsg{
		HostKey:   hostKeyBytes,
		Y:         Y,
		Signature: sig,
	}
	packet = Marshal(&kexDHGexReply)

	err = c.writePacket(packet)

	return &kexResult{
		H:         H,
		K:         K,
		HostKey:   hostKeyBytes,
		Signature: sig,
		Hash:      gex.hashFunc,
	}, err
}
