// Copyright 2011 The Go Authors. All rights reserved.
// Use of this source code is governed by a BSD-style
// license that can be found in the LICENSE file.

/*
Package ssh implements an SSH client and server.

SSH is a transport security protocol, an authentication protocol and a
family of application protocols. The most typical application level
protocol is a remote shell and this is specifically implemented.  However,
the multiplexed nature of SSH is exposed to users that wish to support
others.

References:

	[PROTOCOL.certkeys]: http://cvsweb.openbsd.org/cgi-bin/cvsweb/src/usr.bin/ssh/PROTOCOL.certkeys?rev=HEAD
	[SSH-PARAMETERS]:    http://www.iana.org/assignments/ssh-parameters/ssh-parameters.xml#ssh-parameters-1

This package does not fall under the stability promise of the Go language itself,
so its API may be changed when pressing needs arise.
*/
package ssh
