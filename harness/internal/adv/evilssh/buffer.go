// Copyright 2012 The Go Authors. All rights reserved.
// Use of this source code is governed by a BSD-style
// license that can be found in the LICENSE file.

package ssh

import (
	"io"
	"sync"
)

// buffer provides a linked list buffer for data exchange
// between producer and consumer. Theoretically the buffer is
// of unlimited capacity as it does no allocation of its own.
type buffer struct {
	// protects concurrent access to head, tail and closed
	*sync.Cond

	head *element // the buffer that will be read first
	tail *element // the buffer that will be read last

	closed bool
}

// An element represents a single link in a linked list.
type element struct {
	buf  []byte
	next *element
}

// newBuffer returns an empty buffer that is not closed.
func newBuffer() *buffer {
	e := new(element)
	b := &buffer{
		Cond: newCond(),
		head: e,
		tail: e,
	}
	return b
}

// write makes buf available for Read to receive.
// buf must not be modified after the call to write.
func (b *buffer) write(buf []byte) {
	b.Cond.L.Lock()
	e := &element{buf: buf}
	b.tail.next = e
	b.tail = e
	b.Cond.Signal()
	b.Cond.L.Unlock()
}

// eof closes the buffer. Reads from the buffer once all
// the data has been consumed will receive io.EOF.
func (b *buffer) eof() {
	b.Cond.L.Lock()
	b.closed = true
	b.Cond.Signal()
	b.Cond.L.Unlock()
}

// Read reads data from the internal buffer in buf.  Reads will block
// if no data is available, or until the buffer is closed.
func (b *buffer) Read(buf []byte) (n int, err error) {
	b.Cond.L.Lock()
	defer b.Cond.L.Unlock()

	for len(buf) > 0 {
		// if there is data in b.head, copy it
		if len(b.head.buf) > 0 {
			r := copy(buf, b.head.buf)
			buf, b.head.buf = buf[r:], b.head.buf[r:]
			n += r
			continue
		}
		// if there is a next buffer, make it the head
		if len(b.head.buf) == 0 && b.head != b.tail {
			b.head = b.head.next
			continue
		}

		// if at least one byte has been copied, return
		if n > 0 {
			break
		}

		// if nothing was read, and there is nothing outstanding
		// check to see if the buffer is closed.
		if b.closed {
			err = io.EOF
			break
		}
		// out of buffers, wait for producer
		b.Cond.Wait()
	}
	return
}
