// Copyright 2012 The Go Authors. All rights reserved.
// Use of this source code is governed by a BSD-style
// license that can be found in the LICENSE file.

package ssh

import (
	"bytes"
	"crypto"
	"crypto/aes"
	"crypto/cipher"
	"crypto/dsa"
	"crypto/ecdsa"
	"crypto/elliptic"
	"crypto/md5"
	"crypto/rsa"
	"crypto/sha256"
	"crypto/x509"
	"encoding/asn1"
	"encoding/base64"
	"encoding/hex"
	"encoding/pem"
	"errors"
	"fmt"
	"io"
	"math/big"
	"strings"

	"golang.org/x/crypto/ed25519"
	"verif/harness/internal/adv/evilssh/internal/bcrypt_pbkdf"
)

// Public key algorithms names. These values can appear in PublicKey.Type,
// ClientConfig.HostKeyAlgorithms, Signature.Format, or as AlgorithmSigner
// arguments.
const (
	KeyAlgoRSA        = "ssh-rsa"
	KeyAlgoDSA        = "ssh-dss"
	KeyAlgoECDSA256   = "ecdsa-sha2-nistp256"
	KeyAlgoSKECDSA256 = "sk-ecdsa-sha2-nistp256@openssh.com"
	KeyAlgoECDSA384   = "ecdsa-sha2-nistp384"
	KeyAlgoECDSA521   = "ecdsa-sha2-nistp521"
	KeyAlgoED25519    = "ssh-ed25519"
	KeyAlgoSKED25519  = "sk-ssh-ed25519@openssh.com"

	// KeyAlgoRSASHA256 and KeyAlgoRSASHA512 are only public key algorithms, not
	// public key formats, so they can't appear as a PublicKey.Type. The
	// corresponding PublicKey.Type is KeyAlgoRSA. See RFC 8332, Section 2.
	KeyAlgoRSASHA256 = "rsa-sha2-256"
	KeyAlgoRSASHA512 = "rsa-sha2-512"
)

const (
	// Deprecated: use KeyAlgoRSA.
	SigAlgoRSA = KeyAlgoRSA
	// Deprecated: use KeyAlgoRSASHA256.
	SigAlgoRSASHA2256 = KeyAlgoRSASHA256
	// Deprecated: use KeyAlgoRSASHA512.
	SigAlgoRSASHA2512 = KeyAlgoRSASHA512
)

// parsePubKey parses a public key of the given algorithm.
// Use ParsePublicKey for keys with prepended algorithm.
func parsePubKey(in []byte, algo string) (pubKey PublicKey, rest []byte, err error) {
	switch algo {
	case KeyAlgoRSA:
		return parseRSA(in)
	case KeyAlgoDSA:
		return parseDSA(in)
	case KeyAlgoECDSA256, KeyAlgoECDSA384, KeyAlgoECDSA521:
		return parseECDSA(in)
	case KeyAlgoSKECDSA256:
		return parseSKECDSA(in)
	case KeyAlgoED25519:
		return parseED25519(in)
	case KeyAlgoSKED25519:
		return parseSKEd25519(in)
	case CertAlgoRSAv01, CertAlgoDSAv01, CertAlgoECDSA256v01, CertAlgoECDSA384v01, CertAlgoECDSA521v01, CertAlgoSKECDSA256v01, CertAlgoED25519v01, CertAlgoSKED25519v01:
		cert, err := parseCert(in, certKeyAlgoNames[algo])
		if err != nil {
			return nil, nil, err
		}
		return cert, nil, nil
	}
	return nil, nil, fmt.Errorf("ssh: unknown key algorithm: %v", algo)
}

// parseAuthorizedKey parses a public key in OpenSSH authorized_keys format
// (see sshd(8) manual page) once the options and key type fields have been
// removed.
func parseAuthorizedKey(in []byte) (out PublicKey, comment string, err error) {
	in = bytes.TrimSpace(in)

	i := bytes.IndexAny(in, " \t")
	if i == -1 {
		i = len(in)
	}
	base64Key := in[:i]

	key := make([]byte, base64.StdEncoding.DecodedLen(len(base64Key)))
	n, err := base64.StdEncoding.Decode(key, base64Key)
	if err != nil {
		return nil, "", err
	}
	key = key[:n]
	out, err = ParsePublicKey(key)
	if err != nil {
		return nil, "", err
	}
	comment = string(bytes.TrimSpace(in[i:]))
	return out, comment, nil
}

// ParseKnownHosts parses an entry in the format of the known_hosts file.
//
// The known_hosts format is documented in the sshd(8) manual page. This
// function will parse a single entry from in. On successful return, marker
// will contain the optional marker value (i.e. "cert-authority" or "revoked")
// or else be empty, hosts will contain the hosts that this entry matches,
// pubKey will contain the public key and comment will contain any trailing
// comment at the end of the line. See the sshd(8) manual page for the various
// forms that a host string can take.
//
// The unparsed remainder of the input will be returned in rest. This function
// can be called repeatedly to parse multiple entries.
//
// If no entries were found in the input then err will be io.EOF. Otherwise a
// non-nil err value indicates a parse error.
func ParseKnownHosts(in []byte) (marker string, hosts []string, pubKey PublicKey, comment string, rest []byte, err error) {
	for len(in) > 0 {
		end := bytes.IndexByte(in, '\n')
		if end != -1 {
			rest = in[end+1:]
			in = in[:end]
		} else {
			rest = nil
		}

		end = bytes.IndexByte(in, '\r')
		if end != -1 {
			in = in[:end]
		}

		in = bytes.TrimSpace(in)
		if len(in) == 0 || in[0] == '#' {
			in = rest
			continue
		}

		i := bytes.IndexAny(in, " \t")
		if i == -1 {
			in = rest
			continue
		}

		// Strip out the beginning of the known_host key.
		// This is either an optional marker or a (set of) hostname(s).
		keyFields := bytes.Fields(in)
		if len(keyFields) < 3 || len(keyFields) > 5 {
			return "", nil, nil, "", nil, errors.New("ssh: invalid entry in known_hosts data")
		}

		// keyFields[0] is either "@cert-authority", "@revoked" or a comma separated
		// list of hosts
		marker := ""
		if keyFields[0][0] == '@' {
			marker = string(keyFields[0][1:])
			keyFields = keyFields[1:]
		}

		hosts := string(keyFields[0])
		// keyFields[1] contains the key type (e.g. “ssh-rsa”).
		// However, that information is duplicated inside the
		// base64-encoded key and so is ignored here.

		key := bytes.Join(keyFields[2:], []byte(" "))
		if pubKey, comment, err = parseAuthorizedKey(key); err != nil {
			return "", nil, nil, "", nil, err
		}

		return marker, strings.Split(hosts, ","), pubKey, comment, rest, nil
	}

	return "", nil, nil, "", nil, io.EOF
}

// ParseAuthorizedKey parses a public key from an authorized_keys
// file used in OpenSSH according to the sshd(8) manual page.
func ParseAuthorizedKey(in []byte) (out PublicKey, comment string, options []string, rest []byte, err error) {
	for len(in) > 0 {
		end := bytes.IndexByte(in, '\n')
		if end != -1 {
			rest = in[end+1:]
			in = in[:end]
		} else {
			rest = nil
		}

		end = bytes.IndexByte(in, '\r')
		if end != -1 {
			in = in[:end]
		}

		in = bytes.TrimSpace(in)
		if len(in) == 0 || in[0] == '#' {
			in = rest
			continue
		}

		i := bytes.IndexAny(in, " \t")
		if i == -1 {
			in = rest
			continue
		}

		if out, comment, err = parseAuthorizedKey(in[i:]); err == nil {
			return out, comment, options, rest, nil
		}

		// No key type recognised. Maybe there's an options field at
		// the beginning.
		var b byte
		inQuote := false
		var candidateOptions []string
		optionStart := 0
		for i, b = range in {
			isEnd := !inQuote && (b == ' ' || b == '\t')
			if (b == ',' && !inQuote) || isEnd {
				if i-optionStart > 0 {
					candidateOptions = append(candidateOptions, string(in[optionStart:i]))
				}
				optionStart = i + 1
			}
			if isEnd {
				break
			}
			if b == '"' && (i == 0 || (i > 0 && in[i-1] != '\\')) {
				inQuote = !inQuote
			}
		}
		for i < len(in) && (in[i] == ' ' || in[i] == '\t') {
			i++
		}
		if i == len(in) {
			// Invalid line: unmatched quote
			in = rest
			continue
		}

		in = in[i:]
		i = bytes.IndexAny(in, " \t")
		if i == -1 {
			in = rest
			continue
		}

		if out, comment, err = parseAuthorizedKey(in[i:]); err == nil {
			options = candidateOptions
			return out, comment, options, rest, nil
		}

		in = rest
		continue
	}

	return nil, "", nil, nil, errors.New("ssh: no key found")
}

// ParsePublicKey parses an SSH public key formatted for use in
// the SSH wire protocol according to RFC 4253, section 6.6.
func ParsePublicKey(in []byte) (out PublicKey, err error) {
	algo, in, ok := parseString(in)
	if !ok {
		return nil, errShortRead
	}
	var rest []byte
	out, rest, err = parsePubKey(in, string(algo))
	if len(rest) > 0 {
		return nil, errors.New("ssh: trailing junk in public key")
	}

	return out, err
}

// MarshalAuthorizedKey serializes key for inclusion in an OpenSSH
// authorized_keys file. The return value ends with newline.
func MarshalAuthorizedKey(key PublicKey) []byte {
	b := &bytes.Buffer{}
	b.WriteString(key.Type())
	b.WriteByte(' ')
	e := base64.NewEncoder(base64.StdEncoding, b)
	e.Write(key.Marshal())
	e.Close()
	b.WriteByte('\n')
	return b.Bytes()
}

// PublicKey represents a public key using an unspecified algorithm.
//
// Some PublicKeys provided by this package also implement CryptoPublicKey.
type PublicKey interface {
	// Type returns the key format name, e.g. "ssh-rsa".
	Type() string

	// Marshal returns the serialized key data in SSH wire format, with the name
	// prefix. To unmarshal the returned data, use the ParsePublicKey function.
	Marshal() []byte

	// Verify that sig is a signature on the given data using this key. This
	// method will hash the data appropriately first. sig.Format is allowed to
	// be any signature algorithm compatible with the key type, the caller
	// should check if it has more stringent requirements.
	Verify(data []byte, sig *Signature) error
}

// CryptoPublicKey, if implemented by a PublicKey,
// returns the underlying crypto.PublicKey form of the key.
type CryptoPublicKey interface {
	CryptoPublicKey() crypto.PublicKey
}

// A Signer can create signatures that verify against a public key.
//
// Some Signers provided by this package also implement AlgorithmSigner.
type Signer interface {
	// PublicKey returns the associated PublicKey.
	PublicKey() PublicKey

	// Sign returns a signature for the given data. This method will hash the
	// data appropriately first. The signature algorithm is expected to match
	// the key format returned by the PublicKey.Type method (and not to be any
	// alternative algorithm supported by the key format).
	Sign(rand io.Reader, data []byte) (*Signature, error)
}

// An AlgorithmSigner is a Signer that also supports specifying an algorithm to
// use for signing.
//
// An AlgorithmSigner can't advertise the algorithms it supports, so it should
// be prepared to be invoked with every algorithm supported by the public key
// format.
type AlgorithmSigner interface {
	Signer

	// SignWithAlgorithm is like Signer.Sign, but allows specifying a desired
	// signing algorithm. Callers may pass an empty string for the algorithm in
	// which case the AlgorithmSigner will use a default algorithm. This default
	// doesn't currently control any behavior in this package.
	SignWithAlgorithm(rand io.Reader, data []byte, algorithm string) (*Signature, error)
}

type rsaPublicKey rsa.PublicKey

func (r *rsaPublicKey) Type() string {
	return "ssh-rsa"
}

// parseRSA parses an RSA key according to RFC 4253, section 6.6.
func parseRSA(in []byte) (out PublicKey, rest []byte, err error) {
	var w struct {
		E    *big.Int
		N    *big.Int
		Rest []byte `ssh:"rest"`
	}
	if err := Unmarshal(in, &w); err != nil {
		return nil, nil, err
	}

	if w.E.BitLen() > 24 {
		return nil, nil, errors.New("ssh: exponent too large")
	}
	e := w.E.Int64()
	if e < 3 || e&1 == 0 {
		return nil, nil, errors.New("ssh: incorrect exponent")
	}

	var key rsa.PublicKey
	key.E = int(e)
	key.N = w.N
	return (*rsaPublicKey)(&key), w.Rest, nil
}

func (r *rsaPublicKey) Marshal() []byte {
	e := new(big.Int).SetInt64(int64(r.E))
	// RSA publickey struct layout should match the struct used by
	// parseRSACert in the x/crypto/ssh/agent package.
	wirekey := struct {
		Name string
		E    *big.Int
		N    *big.Int
	}{
		KeyAlgoRSA,
		e,
		r.N,
	}
	return Marshal(&wirekey)
}

func (r *rsaPublicKey) Verify(data []byte, sig *Signature) error {
	supportedAlgos := algorithmsForKeyFormat(r.Type())
	if !contains(supportedAlgos, sig.Format) {
		return fmt.Errorf("ssh: signature type %s for key type %s", sig.Format, r.Type())
	}
	hash := hashFuncs[sig.Format]
	h := hash.New()
	h.Write(data)
	digest := h.Sum(nil)
	return rsa.VerifyPKCS1v15((*rsa.PublicKey)(r), hash, digest, sig.Blob)
}

func (r *rsaPublicKey) CryptoPublicKey() crypto.PublicKey {
	return (*rsa.PublicKey)(r)
}

type dsaPublicKey dsa.PublicKey

func (k *dsaPublicKey) Type() string {
	return "ssh-dss"
}

func checkDSAParams(param *dsa.Parameters) error {
	// SSH specifies FIPS 186-2, which only provided a single size
	// (1024 bits) DSA key. FIPS 186-3 allows for larger key
	// sizes, which would confuse SSH.
	if l := param.P.BitLen(); l != 1024 {
		return fmt.Errorf("ssh: unsupported DSA key size %d", l)
	}

	return nil
}

// parseDSA parses an DSA key according to RFC 4253, section 6.6.
func parseDSA(in []byte) (out PublicKey, rest []byte, err error) {
	var w struct {
		P, Q, G, Y *big.Int
		Rest       []byte `ssh:"rest"`
	}
	if err := Unmarshal(in, &w); err != nil {
		return nil, nil, err
	}

	param := dsa.Parameters{
		P: w.P,
		Q: w.Q,
		G: w.G,
	}
	if err := checkDSAParams(&param); err != nil {
		return nil, nil, err
	}

	key := &dsaPublicKey{
		Parameters: param,
		Y:          w.Y,
	}
	return key, w.Rest, nil
}

func (k *dsaPublicKey) Marshal() []byte {
	// DSA publickey struct layout should match the struct used by
	// parseDSACert in the x/crypto/ssh/agent package.
	w := struct {
		Name       string
		P, Q, G, Y *big.Int
	}{
		k.Type(),
		k.P,
		k.Q,
		k.G,
		k.Y,
	}

	return Marshal(&w)
}

func (k *dsaPublicKey) Verify(data []byte, sig *Signature) error {
	if sig.Format != k.Type() {
		return fmt.Errorf("ssh: signature type %s for key type %s", sig.Format, k.Type())
	}
	h := hashFuncs[sig.Format].New()
	h.Write(data)
	digest := h.Sum(nil)

	// Per RFC 4253, section 6.6,
	// The value for 'dss_signature_blob' is encoded as a string containing
	// r, followed by s (which are 160-bit integers, without lengths or
	// padding, unsigned, and in network byte order).
	// For DSS purposes, sig.Blob should be exactly 40 bytes in length.
	if len(sig.Blob) != 40 {
		return errors.New("ssh: DSA signature parse error")
	}
	r := new(big.Int).SetBytes(sig.Blob[:20])
	s := new(big.Int).SetBytes(sig.Blob[20:])
	if dsa.Verify((*dsa.PublicKey)(k), digest, r, s) {
		return nil
	}
	return errors.New("ssh: signature did not verify")
}

func (k *dsaPublicKey) CryptoPublicKey() crypto.PublicKey {
	return (*dsa.PublicKey)(k)
}

type dsaPrivateKey struct {
	*dsa.PrivateKey
}

func (k *dsaPrivateKey) PublicKey() PublicKey {
	return (*dsaPublicKey)(&k.PrivateKey.PublicKey)
}

func (k *dsaPrivateKey) Sign(rand io.Reader, data []byte) (*Signature, error) {
	return k.SignWithAlgorithm(rand, data, k.PublicKey().Type())
}

func (k *dsaPrivateKey) SignWithAlgorithm(rand io.Reader, data []byte, algorithm string) (*Signature, error) {
	if algorithm != "" && algorithm != k.PublicKey().Type() {
		return nil, fmt.Errorf("ssh: unsupported signature algorithm %s", algorithm)
	}

	h := hashFuncs[k.PublicKey().Type()].New()
	h.Write(data)
	digest := h.Sum(nil)
	r, s, err := dsa.Sign(rand, k.PrivateKey, digest)
	if err != nil {
		return nil, err
	}

	sig := make([]byte, 40)
	rb := r.Bytes()
	sb := s.Bytes()

	copy(sig[20-len(rb):20], rb)
	copy(sig[40-len(sb):], sb)

	return &Signature{
		Format: k.PublicKey().Type(),
		Blob:   sig,
	}, nil
}

type ecdsaPublicKey ecdsa.PublicKey

func (k *ecdsaPublicKey) Type() string {
	return "ecdsa-sha2-" + k.nistID()
}

func (k *ecdsaPublicKey) nistID() string {
	switch k.Params().BitSize {
	case 256:
		return "nistp256"
	case 384:
		return "nistp384"
	case 521:
		return "nistp521"
	}
	panic("ssh: unsupported ecdsa key size")
}

type ed25519PublicKey ed25519.PublicKey

func (k ed25519PublicKey) Type() string {
	return KeyAlgoED25519
}

func parseED25519(in []byte) (out PublicKey, rest []byte, err error) {
	var w struct {
		KeyBytes []byte
		Rest     []byte `ssh:"rest"`
	}

	if err := Unmarshal(in, &w); err != nil {
		return nil, nil, err
	}

	if l := len(w.KeyBytes); l != ed25519.PublicKeySize {
		return nil, nil, fmt.Errorf("invalid size %d for Ed25519 public key", l)
	}

	return ed25519PublicKey(w.KeyBytes), w.Rest, nil
}

func (k ed25519PublicKey) Marshal() []byte {
	w := struct {
		Name     string
		KeyBytes []byte
	}{
		KeyAlgoED25519,
		[]byte(k),
	}
	return Marshal(&w)
}

func (k ed25519PublicKey) Verify(b []byte, sig *Signature) error {
	if sig.Format != k.Type() {
		return fmt.Errorf("ssh: signature type %s for key type %s", sig.Format, k.Type())
	}
	if l := len(k); l != ed25519.PublicKeySize {
		return fmt.Errorf("ssh: invalid size %d for Ed25519 public key", l)
	}

	if ok := ed25519.Verify(ed25519.PublicKey(k), b, sig.Blob); !ok {
		return errors.New("ssh: signature did not verify")
	}

	return nil
}

func (k ed25519PublicKey) CryptoPublicKey() crypto.PublicKey {
	return ed25519.PublicKey(k)
}

func supportedEllipticCurve(curve elliptic.Curve) bool {
	return curve == elliptic.P256() || curve == elliptic.P384() || curve == elliptic.P521()
}

// parseECDSA parses an ECDSA key according to RFC 5656, section 3.1.
func parseECDSA(in []byte) (out PublicKey, rest []byte, err error) {
	var w struct {
		Curve    string
		KeyBytes []byte
		Rest     []byte `ssh:"rest"`
	}

	if err := Unmarshal(in, &w); err != nil {
		return nil, nil, err
	}

	key := new(ecdsa.PublicKey)

	switch w.Curve {
	case "nistp256":
		key.Curve = elliptic.P256()
	case "nistp384":
		key.Curve = elliptic.P384()
	case "nistp521":
		key.Curve = elliptic.P521()
	default:
		return nil, nil, errors.New("ssh: unsupported curve")
	}

	key.X, key.Y = elliptic.Unmarshal(key.Curve, w.KeyBytes)
	if key.X == nil || key.Y == nil {
		return nil, nil, errors.New("ssh: invalid curve point")
	}
	return (*ecdsaPublicKey)(key), w.Rest, nil
}

func (k *ecdsaPublicKey) Marshal() []byte {
	// See RFC 5656, section 3.1.
	keyBytes := elliptic.Marshal(k.Curve, k.X, k.Y)
	// ECDSA publickey struct layout should match the struct used by
	// parseECDSACert in the x/crypto/ssh/agent package.
	w := struct {
		Name string
		ID   string
		Key  []byte
	}{
		k.Type(),
		k.nistID(),
		keyBytes,
	}

	return Marshal(&w)
}

func (k *ecdsaPublicKey) Verify(data []byte, sig *Signature) error {
	if sig.Format != k.Type() {
		return fmt.Errorf("ssh: signature type %s for key type %s", sig.Format, k.Type())
	}

	h := hashFuncs[sig.Format].New()
	h.Write(data)
	digest := h.Sum(nil)

	// Per RFC 5656, section 3.1.2,
	// The ecdsa_signature_blob value has the following specific encoding:
	//    mpint    r
	//    mpint    s
	var ecSig struct {
		R *big.Int
		S *big.Int
	}

	if err := Unmarshal(sig.Blob, &ecSig); err != nil {
		return err
	}

	if ecdsa.Verify((*ecdsa.PublicKey)(k), digest, ecSig.R, ecSig.S) {
		return nil
	}
	return errors.New("ssh: signature did not verify")
}

func (k *ecdsaPublicKey) CryptoPublicKey() crypto.PublicKey {
	return (*ecdsa.PublicKey)(k)
}

// skFields holds the additional fields present in U2F/FIDO2 signatures.
// See openssh/PROTOCOL.u2f 'SSH U2F Signatures' for details.
type skFields struct {
	// Flags contains U2F/FIDO2 flags such as 'user present'
	Flags byte
	// Counter is a monotonic signature counter which can be
	// used to detect concurrent use of a private key, should
	// it be extracted from hardware.
	Counter uint32
}

type skECDSAPublicKey struct {
	// application is a URL-like string, typically "ssh:" for SSH.
	// see openssh/PROTOCOL.u2f for details.
	application string
	ecdsa.PublicKey
}

func (k *skECDSAPublicKey) Type() string {
	return KeyAlgoSKECDSA256
}

func (k *skECDSAPublicKey) nistID() string {
	return "nistp256"
}

func parseSKECDSA(in []byte) (out PublicKey, rest []byte, err error) {
	var w struct {
		Curve       string
		KeyBytes    []byte
		Application string
		Rest        []byte `ssh:"rest"`
	}

	if err := Unmarshal(in, &w); err != nil {
		return nil, nil, err
	}

	key := new(skECDSAPublicKey)
	key.application = w.Application

	if w.Curve != "nistp256" {
		return nil, nil, errors.New("ssh: unsupported curve")
	}
	key.Curve = elliptic.P256()

	key.X, key.Y = elliptic.Unmarshal(key.Curve, w.KeyBytes)
	if key.X == nil || key.Y == nil {
		return nil, nil, errors.New("ssh: invalid curve point")
	}

	return key, w.Rest, nil
}

func (k *skECDSAPublicKey) Marshal() []byte {
	// See RFC 5656, section 3.1.
	keyBytes := elliptic.Marshal(k.Curve, k.X, k.Y)
	w := struct {
		Name        string
		ID          string
		Key         []byte
		Application string
	}{
		k.Type(),
		k.nistID(),
		keyBytes,
		k.application,
	}

	return Marshal(&w)
}

func (k *skECDSAPublicKey) Verify(data []byte, sig *Signature) error {
	if sig.Format != k.Type() {
		return fmt.Errorf("ssh: signature type %s for key type %s", sig.Format, k.Type())
	}

	h := hashFuncs[sig.Format].New()
	h.Write([]byte(k.application))
	appDigest := h.Sum(nil)

	h.Reset()
	h.Write(data)
	dataDigest := h.Sum(nil)

	var ecSig struct {
		R *big.Int
		S *big.Int
	}
	if err := Unmarshal(sig.Blob, &ecSig); err != nil {
		return err
	}

	var skf skFields
	if err := Unmarshal(sig.Rest, &skf); err != nil {
		return err
	}

	blob := struct {
		ApplicationDigest []byte `ssh:"rest"`
		Flags             byte
		Counter           uint32
		MessageDigest     []byte `ssh:"rest"`
	}{
		appDigest,
		skf.Flags,
		skf.Counter,
		dataDigest,
	}

	original := Marshal(blob)

	h.Reset()
	h.Write(original)
	digest := h.Sum(nil)

	if ecdsa.Verify((*ecdsa.PublicKey)(&k.PublicKey), digest, ecSig.R, ecSig.S) {
		return nil
	}
	return errors.New("ssh: signature did not verify")
}

type skEd25519PublicKey struct {
	// application is a URL-like string, typically "ssh:" for SSH.
	// see openssh/PROTOCOL.u2f for details.
	application string
	ed25519.PublicKey
}

func (k *skEd25519PublicKey) Type() string {
	return KeyAlgoSKED25519
}

func parseSKEd25519(in []byte) (out PublicKey, rest []byte, err error) {
	var w struct {
		KeyBytes    []byte
		Application string
		Rest        []byte `ssh:"rest"`
	}

	if err := Unmarshal(in, &w); err != nil {
		return nil, nil, err
	}

	if l := len(w.KeyBytes); l != ed25519.PublicKeySize {
		return nil, nil, fmt.Errorf("invalid size %d for Ed25519 public key", l)
	}

	key := new(skEd25519PublicKey)
	key.application = w.Application
	key.PublicKey = ed25519.PublicKey(w.KeyBytes)

	return key, w.Rest, nil
}

func (k *skEd25519PublicKey) Marshal() []byte {
	w := struct {
		Name        string
		KeyBytes    []byte
		Application string
	}{
		KeyAlgoSKED25519,
		[]byte(k.PublicKey),
		k.application,
	}
	return Marshal(&w)
}

func (k *skEd25519PublicKey) Verify(data []byte, sig *Signature) error {
	if sig.Format != k.Type() {
		return fmt.Errorf("ssh: signature type %s for key type %s", sig.Format, k.Type())
	}
	if l := len(k.PublicKey); l != ed25519.PublicKeySize {
		return fmt.Errorf("invalid size %d for Ed25519 public key", l)
	}

	h := hashFuncs[sig.Format].New()
	h.Write([]byte(k.application))
	appDigest := h.Sum(nil)

	h.Reset()
	h.Write(data)
	dataDigest := h.Sum(nil)

	var edSig struct {
		Signature []byte `ssh:"rest"`
	}

	if err := Unmarshal(sig.Blob, &edSig); err != nil {
		return err
	}

	var skf skFields
	if err := Unmarshal(sig.Rest, &skf); err != nil {
		return err
	}

	blob := struct {
		ApplicationDigest []byte `ssh:"rest"`
		Flags             byte
		Counter           uint32
		MessageDigest     []byte `ssh:"rest"`
	}{
		appDigest,
		skf.Flags,
		skf.Counter,
		dataDigest,
	}

	original := Marshal(blob)

	if ok := ed25519.Verify(k.PublicKey, original, edSig.Signature); !ok {
		return errors.New("ssh: signature did not verify")
	}

	return nil
}

// NewSignerFromKey takes an *rsa.PrivateKey, *dsa.PrivateKey,
// *ecdsa.PrivateKey or any other crypto.Signer and returns a
// corresponding Signer instance. ECDSA keys must use P-256, P-384 or
// P-521. DSA keys must use parameter size L1024N160.
func NewSignerFromKey(key interface{}) (Signer, error) {
	switch key := key.(type) {
	case crypto.Signer:
		return NewSignerFromSigner(key)
	case *dsa.PrivateKey:
		return newDSAPrivateKey(key)
	default:
		return nil, fmt.Errorf("ssh: unsupported key type %T", key)
	}
}

func newDSAPrivateKey(key *dsa.PrivateKey) (Signer, error) {
	if err := checkDSAParams(&key.PublicKey.Parameters); err != nil {
		return nil, err
	}

	return &dsaPrivateKey{key}, nil
}

type wrappedSigner struct {
	signer crypto.Signer
	pubKey PublicKey
}

// NewSignerFromSigner takes any crypto.Signer implementation and
// returns a corresponding Signer interface. This can be used, for
// example, with keys kept in hardware modules.
func NewSignerFromSigner(signer crypto.Signer) (Signer, error) {
	pubKey, err := NewPublicKey(signer.Public())
	if err != nil {
		return nil, err
	}

	return &wrappedSigner{signer, pubKey}, nil
}

func (s *wrappedSigner) PublicKey() PublicKey {
	return s.pubKey
}

func (s *wrappedSigner) Sign(rand io.Reader, data []byte) (*Signature, error) {
	return s.SignWithAlgorithm(rand, data, s.pubKey.Type())
}

func (s *wrappedSigner) SignWithAlgorithm(rand io.Reader, data []byte, algorithm string) (*Signature, error) {
	if algorithm == "" {
		algorithm = s.pubKey.Type()
	}

	supportedAlgos := algorithmsForKeyFormat(s.pubKey.Type())
	if !contains(supportedAlgos, algorithm) {
		return nil, fmt.Errorf("ssh: unsupported signature algorithm %q for key format %q", algorithm, s.pubKey.Type())
	}

	hashFunc := hashFuncs[algorithm]
	var digest []byte
	if hashFunc != 0 {
		h := hashFunc.New()
		h.Write(data)
		digest = h.Sum(nil)
	} else {
		digest = data
	}

	signature, err := s.signer.Sign(rand, digest, hashFunc)
	if err != nil {
		return nil, err
	}

	// crypto.Signer.Sign is expected to return an ASN.1-encoded signature
	// for ECDSA and DSA, but that's not the encoding expected by SSH, so
	// re-encode.
	switch s.pubKey.(type) {
	case *ecdsaPublicKey, *dsaPublicKey:
		type asn1Signature struct {
			R, S *big.Int
		}
		asn1Sig := new(asn1Signature)
		_, err := asn1.Unmarshal(signature, asn1Sig)
		if err != nil {
			return nil, err
		}

		switch s.pubKey.(type) {
		case *ecdsaPublicKey:
			signature = Marshal(asn1Sig)

		case *dsaPublicKey:
			signature = make([]byte, 40)
			r := asn1Sig.R.Bytes()
			s := asn1Sig.S.Bytes()
			copy(signature[20-len(r):20], r)
			copy(signature[40-len(s):40], s)
		}
	}

	return &Signature{
		Format: algorithm,
		Blob:   signature,
	}, nil
}

// NewPublicKey takes an *rsa.PublicKey, *dsa.PublicKey, *ecdsa.PublicKey,
// or ed25519.PublicKey returns a corresponding PublicKey instance.
// ECDSA keys must use P-256, P-384 or P-521.
func NewPublicKey(key interface{}) (PublicKey, error) {
	switch key := key.(type) {
	case *rsa.PublicKey:
		return (*rsaPublicKey)(key), nil
	case *ecdsa.PublicKey:
		if !supportedEllipticCurve(key.Curve) {
			return nil, errors.New("ssh: only P-256, P-384 and P-521 EC keys are supported")
		}
		return (*ecdsaPublicKey)(key), nil
	case *dsa.PublicKey:
		return (*dsaPublicKey)(key), nil
	case ed25519.PublicKey:
		if l := len(key); l != ed25519.PublicKeySize {
			return nil, fmt.Errorf("ssh: invalid size %d for Ed25519 public key", l)
		}
		return ed25519PublicKey(key), nil
	default:
		return nil, fmt.Errorf("ssh: unsupported key type %T", key)
	}
}

// ParsePrivateKey returns a Signer from a PEM encoded private key. It supports
// the same keys as ParseRawPrivateKey. If the private key is encrypted, it
// will return a PassphraseMissingError.
func ParsePrivateKey(pemBytes []byte) (Signer, error) {
	key, err := ParseRawPrivateKey(pemBytes)
	if err != nil {
		return nil, err
	}

	return NewSignerFromKey(key)
}

// ParsePrivateKeyWithPassphrase returns a Signer from a PEM encoded private
// key and passphrase. It supports the same keys as
// ParseRawPrivateKeyWithPassphrase.
func ParsePrivateKeyWithPassphrase(pemBytes, passphrase []byte) (Signer, error) {
	key, err := ParseRawPrivateKeyWithPassphrase(pemBytes, passphrase)
	if err != nil {
		return nil, err
	}

	return NewSignerFromKey(key)
}

// encryptedBlock tells whether a private key is
// encrypted by examining its Proc-Type header
// for a mention of ENCRYPTED
// according to RFC 1421 Section 4.6.1.1.
func encryptedBlock(block *pem.Block) bool {
	return strings.Contains(block.Headers["Proc-Type"], "ENCRYPTED")
}

// A PassphraseMissingError indicates that parsing this private key requires a
// passphrase. Use ParsePrivateKeyWithPassphrase.
type PassphraseMissingError struct {
	// PublicKey will be set if the private key format includes an unencrypted
	// public key along with the encrypted private key.
	PublicKey PublicKey
}

func (*PassphraseMissingError) Error() string {
	return "ssh: this private key is passphrase protected"
}

// ParseRawPrivateKey returns a private key from a PEM encoded private key. It supports
// RSA, DSA, ECDSA, and Ed25519 private keys in PKCS#1, PKCS#8, OpenSSL, and OpenSSH
// formats. If the private key is encrypted, it will return a PassphraseMissingError.
func ParseRawPrivateKey(pemBytes []byte) (interface{}, error) {
	block, _ := pem.Decode(pemBytes)
	if block == nil {
		return nil, errors.New("ssh: no key found")
	}

	if encryptedBlock(block) {
		return nil, &PassphraseMissingError{}
	}

	switch block.Type {
	case "RSA PRIVATE KEY":
		return x509.ParsePKCS1PrivateKey(block.Bytes)
	// RFC5208 - https://tools.ietf.org/html/rfc5208
	case "PRIVATE KEY":
		return x509.ParsePKCS8PrivateKey(block.Bytes)
	case "EC PRIVATE KEY":
		return x509.ParseECPrivateKey(block.Bytes)
	case "DSA PRIVATE KEY":
		return ParseDSAPrivateKey(block.Bytes)
	case "OPENSSH PRIVATE KEY":
		return parseOpenSSHPrivateKey(block.Bytes, unencryptedOpenSSHKey)
	default:
		return nil, fmt.Errorf("ssh: unsupported key type %q", block.Type)
	}
}

// ParseRawPrivateKeyWithPassphrase returns a private key decrypted with
// passphrase from a PEM encoded private key. If the passphrase is wrong, it
// will return x509.IncorrectPasswordError.
func ParseRawPrivateKeyWithPassphrase(pemBytes, passphrase []byte) (interface{}, error) {
	block, _ := pem.Decode(pemBytes)
	if block == nil {
		return nil, errors.New("ssh: no key found")
	}

	if block.Type == "OPENSSH PRIVATE KEY" {
		return parseOpenSSHPrivateKey(block.Bytes, passphraseProtectedOpenSSHKey(passphrase))
	}

	if !encryptedBlock(block) || !x509.IsEncryptedPEMBlock(block) {
		return nil, errors.New("ssh: not an encrypted key")
	}

	buf, err := x509.DecryptPEMBlock(block, passphrase)
	if err != nil {
		if err == x509.IncorrectPasswordError {
			return nil, err
		}
		return nil, fmt.Errorf("ssh: cannot decode encrypted private keys: %v", err)
	}

	switch block.Type {
	case "RSA PRIVATE KEY":
		return x509.ParsePKCS1PrivateKey(buf)
	case "EC PRIVATE KEY":
		return x509.ParseECPrivateKey(buf)
	case "DSA PRIVATE KEY":
		return ParseDSAPrivateKey(buf)
	default:
		return nil, fmt.Errorf("ssh: unsupported key type %q", block.Type)
	}
}

// ParseDSAPrivateKey returns a DSA private key from its ASN.1 DER encoding, as
// specified by the OpenSSL DSA man page.
func ParseDSAPrivateKey(der []byte) (*dsa.PrivateKey, error) {
	var k struct {
		Version int
		P       *big.Int
		Q       *big.Int
		G       *big.Int
		Pub     *big.Int
		Priv    *big.Int
	}
	rest, err := asn1.Unmarshal(der, &k)
	if err != nil {
		return nil, errors.New("ssh: failed to parse DSA key: " + err.Error())
	}
	if len(rest) > 0 {
		return nil, errors.New("ssh: garbage after DSA key")
	}

	return &dsa.PrivateKey{
		PublicKey: dsa.PublicKey{
			Parameters: dsa.Parameters{
				P: k.P,
				Q: k.Q,
				G: k.G,
			},
			Y: k.Pub,
		},
		X: k.Priv,
	}, nil
}

func unencryptedOpenSSHKey(cipherName, kdfName, kdfOpts string, privKeyBlock []byte) ([]byte, error) {
	if kdfName != "none" || cipherName != "none" {
		return nil, &PassphraseMissingError{}
	}
	if kdfOpts != "" {
		return nil, errors.New("ssh: invalid openssh private key")
	}
	return privKeyBlock, nil
}

func passphraseProtectedOpenSSHKey(passphrase []byte) openSSHDecryptFunc {
	return func(cipherName, kdfName, kdfOpts string, privKeyBlock []byte) ([]byte, error) {
		if kdfName == "none" || cipherName == "none" {
			return nil, errors.New("ssh: key is not password protected")
		}
		if kdfName != "bcrypt" {
			return nil, fmt.Errorf("ssh: unknown KDF %q, only supports %q", kdfName, "bcrypt")
		}

		var opts struct {
			Salt   string
			Rounds uint32
		}
		if err := Unmarshal([]byte(kdfOpts), &opts); err != nil {
			return nil, err
		}

		k, err := bcrypt_pbkdf.Key(passphrase, []byte(opts.Salt), int(opts.Rounds), 32+16)
		if err != nil {
			return nil, err
		}
		key, iv := k[:32], k[32:]

		c, err := aes.NewCipher(key)
		if err != nil {
			return nil, err
		}
		switch cipherName {
		case "aes256-ctr":
			ctr := cipher.NewCTR(c, iv)
			ctr.XORKeyStream(privKeyBlock, privKeyBlock)
		case "aes256-cbc":
			if len(privKeyBlock)%c.BlockSize() != 0 {
				return nil, fmt.Errorf("ssh: invalid encrypted private key length, not a multiple of the block size")
			}
			cbc := cipher.NewCBCDecrypter(c, iv)
			cbc.CryptBlocks(privKeyBlock, privKeyBlock)
		default:
			return nil, fmt.Errorf("ssh: unknown cipher %q, only supports %q or %q", cipherName, "aes256-ctr", "aes256-cbc")
		}

		return privKeyBlock, nil
	}
}

type openSSHDecryptFunc func(CipherName, KdfName, KdfOpts string, PrivKeyBlock []byte) ([]byte, error)

// parseOpenSSHPrivateKey parses an OpenSSH private key, using the decrypt
// function to unwrap the encrypted portion. unencryptedOpenSSHKey can be used
// as the decrypt function to parse an unencrypted private key. See
// https://github.com/openssh/openssh-portable/blob/master/PROTOCOL.key.
func parseOpenSSHPrivateKey(key []byte, decrypt openSSHDecryptFunc) (crypto.PrivateKey, error) {
	const magic = "openssh-key-v1\x00"
	if len(key) < len(magic) || string(key[:len(magic)]) != magic {
		return nil, errors.New("ssh: invalid openssh private key format")
	}
	remaining := key[len(magic):]

	var w struct {
		CipherName   string
		KdfName      string
		KdfOpts      string
		NumKeys      uint32
		PubKey       []byte
		PrivKeyBlock []byte
	}

	if err := Unmarshal(remaining, &w); err != nil {
		return nil, err
	}
	if w.NumKeys != 1 {
		// We only support single key files, and so does OpenSSH.
		// https://github.com/openssh/openssh-portable/blob/4103a3ec7/sshkey.c#L4171
		return nil, errors.New("ssh: multi-key files are not supported")
	}

	privKeyBlock, err := decrypt(w.CipherName, w.KdfName, w.KdfOpts, w.PrivKeyBlock)
	if err != nil {
		if err, ok := err.(*PassphraseMissingError); ok {
			pub, errPub := ParsePublicKey(w.PubKey)
			if errPub != nil {
				return nil, fmt.Errorf("ssh: failed to parse embedded public key: %v", errPub)
			}
			err.PublicKey = pub
		}
		return nil, err
	}

	pk1 := struct {
		Check1  uint32
		Check2  uint32
		Keytype string
		Rest    []byte `ssh:"rest"`
	}{}

	if err := Unmarshal(privKeyBlock, &pk1); err != nil || pk1.Check1 != pk1.Check2 {
		if w.CipherName != "none" {
			return nil, x509.IncorrectPasswordError
		}
		return nil, errors.New("ssh: malformed OpenSSH key")
	}

	switch pk1.Keytype {
	case KeyAlgoRSA:
		// https://github.com/openssh/openssh-portable/blob/master/sshkey.c#L2760-L2773
		key := struct {
			N       *big.Int
			E       *big.Int
			D       *big.Int
			Iqmp    *big.Int
			P       *big.Int
			Q       *big.Int
			Comment string
			Pad     []byte `ssh:"rest"`
		}{}

		if err := Unmarshal(pk1.Rest, &key); err != nil {
			return nil, err
		}

		if err := checkOpenSSHKeyPadding(key.Pad); err != nil {
			return nil, err
		}

		pk := &rsa.PrivateKey{
			PublicKey: rsa.PublicKey{
				N: key.N,
				E: int(key.E.Int64()),
			},
			D:      key.D,
			Primes: []*big.Int{key.P, key.Q},
		}

		if err := pk.Validate(); err != nil {
			return nil, err
		}

		pk.Precompute()

		return pk, nil
	case KeyAlgoED25519:
		key := struct {
			Pub     []byte
			Priv    []byte
			Comment string
			Pad     []byte `ssh:"rest"`
		}{}

		if err := Unmarshal(pk1.Rest, &key); err != nil {
			return nil, err
		}

		if len(key.Priv) != ed25519.PrivateKeySize {
			return nil, errors.New("ssh: private key unexpected length")
		}

		if err := checkOpenSSHKeyPadding(key.Pad); err != nil {
			return nil, err
		}

		pk := ed25519.PrivateKey(make([]byte, ed25519.PrivateKeySize))
		copy(pk, key.Priv)
		return &pk, nil
	case KeyAlgoECDSA256, KeyAlgoECDSA384, KeyAlgoECDSA521:
		key := struct {
			Curve   string
			Pub     []byte
			D       *big.Int
			Comment string
			Pad     []byte `ssh:"rest"`
		}{}

		if err := Unmarshal(pk1.Rest, &key); err != nil {
			return nil, err
		}

		if err := checkOpenSSHKeyPadding(key.Pad); err != nil {
			return nil, err
		}

		var curve elliptic.Curve
		switch key.Curve {
		case "nistp256":
			curve = elliptic.P256()
		case "nistp384":
			curve = elliptic.P384()
		case "nistp521":
			curve = elliptic.P521()
		default:
			return nil, errors.New("ssh: unhandled elliptic curve: " + key.Curve)
		}

		X, Y := elliptic.Unmarshal(curve, key.Pub)
		if X == nil || Y == nil {
			return nil, errors.New("ssh: failed to unmarshal public key")
		}

		if key.D.Cmp(curve.Params().N) >= 0 {
			return nil, errors.New("ssh: scalar is out of range")
		}

		x, y := curve.ScalarBaseMult(key.D.Bytes())
		if x.Cmp(X) != 0 || y.Cmp(Y) != 0 {
			return nil, errors.New("ssh: public key does not match private key")
		}

		return &ecdsa.PrivateKey{
			PublicKey: ecdsa.PublicKey{
				Curve: curve,
				X:     X,
				Y:     Y,
			},
			D: key.D,
		}, nil
	default:
		return nil, errors.New("ssh: unhandled key type")
	}
}

func checkOpenSSHKeyPadding(pad []byte) error {
	for i, b := range pad {
		if int(b) != i+1 {
			return errors.New("ssh: padding not as expected")
		}
	}
	return nil
}

// FingerprintLegacyMD5 returns the user presentation of the key's
// fingerprint as described by RFC 4716 section 4.
func FingerprintLegacyMD5(pubKey PublicKey) string {
	md5sum := md5.Sum(pubKey.Marshal())
	hexarray := make([]string, len(md5sum))
	for i, c := range md5sum {
		hexarray[i] = hex.EncodeToString([]byte{c})
	}
	return strings.Join(hexarray, ":")
}

// FingerprintSHA256 returns the user presentation of the key's
// fingerprint as unpadded base64 encoded sha256 hash.
// This format was introduced from OpenSSH 6.8.
// https://www.openssh.com/txt/release-6.8
// https://tools.ietf.org/html/rfc4648#section-3.2 (unpadded base64 encoding)
func FingerprintSHA256(pubKey PublicKey) string {
	sha256sum := sha256.Sum256(pubKey.Marshal())
	hash := base64.RawStdEncoding.EncodeToString(sha256sum[:])
	return "SHA256:" + hash
}
