package ssh

import (
	"errors"
	"io"
	"net"
)

// streamLocalChannelOpenDirectMsg is a struct used for SSH_MSG_CHANNEL_OPEN message
// with "direct-streamlocal@openssh.com" string.
//
// See openssh-portable/PROTOCOL, section 2.4. connection: Unix domain socket forwarding
// https://github.com/openssh/openssh-portable/blob/master/PROTOCOL#L235
type streamLocalChannelOpenDirectMsg struct {
	socketPath string
	reserved0  string
	reserved1  uint32
}

// forwardedStreamLocalPayload is a struct used for SSH_MSG_CHANNEL_OPEN message
// with "forwarded-streamlocal@openssh.com" string.
type forwardedStreamLocalPayload struct {
	SocketPath string
	Reserved0  string
}

// streamLocalChannelForwardMsg is a struct used for SSH2_MSG_GLOBAL_REQUEST message
// with "streamlocal-forward@openssh.com"/"cancel-streamlocal-forward@openssh.com" string.
type streamLocalChannelForwardMsg struct {
	socketPath string
}

// ListenUnix is similar to ListenTCP but uses a Unix domain socket.
func (c *Client) ListenUnix(socketPath string) (net.Listener, error) {
	c.handleForwardsOnce.Do(c.handleForwards)
	m := streamLocalChannelForwardMsg{
		socketPath,
	}
	// send message
	ok, _, err := c.SendRequest("streamlocal-forward@openssh.com", true, Marshal(&m))
	if err != nil {
		return nil, err
	}
	if !ok {
		return nil, errors.New("ssh: streamlocal-forward@openssh.com request denied by peer")
	}
	ch := c.forwards.add(&net.UnixAddr{Name: socketPath, Net: "unix"})

	return &unixListener{socketPath, c, ch}, nil
}

func (c *Client) dialStreamLocal(socketPath string) (Channel, error) {
	msg := streamLocalChannelOpenDirectMsg{
		socketPath: socketPath,
	}
	ch, in, err := c.OpenChannel("direct-streamlocal@openssh.com", Marshal(&msg))
	if err != nil {
		return nil, err
	}
	go DiscardRequests(in)
	return ch, err
}

type unixListener struct {
	socketPath string

	conn *Client
	in   <-chan forward
}

// Accept waits for and returns the next connection to the listener.
func (l *unixListener) Accept() (net.Conn, error) {
	s, ok := <-l.in
	if !ok {
		return nil, io.EOF
	}
	ch, incoming, err := s.newCh.Accept()
	if err != nil {
		return nil, err
	}
	go DiscardRequests(incoming)

	return &chanConn{
		Channel: ch,
		laddr: &net.UnixAddr{
			Name: l.socketPath,
			Net:  "unix",
		},
		raddr: &net.UnixAddr{
			Name: "@",
			Net:  "unix",
		},
	}, nil
}

// Close closes the listener.
func (l *unixListener) Close() error {
	// this also closes the listener.
	l.conn.forwards.remove(&net.UnixAddr{Name: l.socketPath, Net: "unix"})
	m := streamLocalChannelForwardMsg{
		l.socketPath,
	}
	ok, _, err := l.conn.SendRequest("cancel-streamlocal-forward@openssh.com", true, Marshal(&m))
	if err == nil && !ok {
		err = errors.New("ssh: cancel-streamlocal-forward@openssh.com failed")
	}
	return err
}

// Addr returns the listener's network address.
func (l *unixListener) Addr() net.Addr {
	return &net.UnixAddr{
		Name: l.socketPath,
		Net:  "unix",
	}
}
