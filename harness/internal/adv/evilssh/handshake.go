// Copyright 2013 The Go Authors. All rights reserved.
// Use of this source code is governed by a BSD-style
// license that can be found in the LICENSE file.

package ssh

import (
	"crypto/rand"
	"errors"
	"fmt"
	"io"
	"log"
	"net"
	"sync"
)

// debugHandshake, if set, prints messages sent and received.  Key
// exchange messages are printed as if DH were used, so the debug
// messages are wrong when using ECDH.
const debugHandshake = false

// chanSize sets the amount of buffering SSH connections. This is
// primarily for testing: setting chanSize=0 uncovers deadlocks more
// quickly.
const chanSize = 16

// keyingTransport is a packet based transport that supports key
// changes. It need not be thread-safe. It should pass through
// msgNewKeys in both directions.
type keyingTransport interface {
	packetConn

	// prepareKeyChange sets up a key change. The key change for a
	// direction will be effected if a msgNewKeys message is sent
	// or received.
	prepareKeyChange(*algorithms, *kexResult) error
}

// handshakeTransport implements rekeying on top of a keyingTransport
// and offers a thread-safe writePacket() interface.
type handshakeTransport struct {
	conn   keyingTransport
	config *Config

	serverVersion []byte
	clientVersion []byte

	// hostKeys is non-empty if we are the server. In that case,
	// it contains all host keys that can be used to sign the
	// connection.
	hostKeys []Signer

	// hostKeyAlgorithms is non-empty if we are the client. In that case,
	// we accept these key types from the server as host key.
	hostKeyAlgorithms []string

	// On read error, incoming is closed, and readError is set.
	incoming  chan []byte
	readError error

	mu               sync.Mutex
	writeError       error
	sentInitPacket   []byte
	sentInitMsg      *kexInitMsg
	pendingPackets   [][]byte // Used when a key exchange is in progress.
	writePacketsLeft uint32
	writeBytesLeft   int64

	// If the read loop wants to schedule a kex, it pings this
	// channel, and the write loop will send out a kex
	// message.
	requestKex chan struct{}

	// If the other side requests or confirms a kex, its kexInit
	// packet is sent here for the write loop to find it.
	startKex    chan *pendingKex
	kexLoopDone chan struct{} // closed (with writeError non-nil) when kexLoop exits

	// data for host key checking
	hostKeyCallback HostKeyCallback
	dialAddress     string
	remoteAddr      net.Addr

	// bannerCallback is non-empty if we are the client and it has been set in
	// ClientConfig. In that case it is called during the user authentication
	// dance to handle a custom server's message.
	bannerCallback BannerCallback

	// Algorithms agreed in the last key exchange.
	algorithms *algorithms

	// Counters exclusively owned by readLoop.
	readPacketsLeft uint32
	readBytesLeft   int64

	// The session ID or nil if first kex did not complete yet.
	sessionID []byte
}

type pendingKex struct {
	otherInit []byte
	done      chan error
}

func newHandshakeTransport(conn keyingTransport, config *Config, clientVersion, serverVersion []byte) *handshakeTransport {
	t := &handshakeTransport{
		conn:          conn,
		serverVersion: serverVersion,
		clientVersion: clientVersion,
		incoming:      make(chan []byte, chanSize),
		requestKex:    make(chan struct{}, 1),
		startKex:      make(chan *pendingKex),
		kexLoopDone:   make(chan struct{}),

		config: config,
	}
	t.resetReadThresholds()
	t.resetWriteThresholds()

	// We always start with a mandatory key exchange.
	t.requestKex <- struct{}{}
	return t
}

func newClientTransport(conn keyingTransport, clientVersion, serverVersion []byte, config *ClientConfig, dialAddr string, addr net.Addr) *handshakeTransport {
	t := newHandshakeTransport(conn, &config.Config, clientVersion, serverVersion)
	t.dialAddress = dialAddr
	t.remoteAddr = addr
	t.hostKeyCallback = config.HostKeyCallback
	t.bannerCallback = config.BannerCallback
	if config.HostKeyAlgorithms != nil {
		t.hostKeyAlgorithms = config.HostKeyAlgorithms
	} else {
		t.hostKeyAlgorithms = supportedHostKeyAlgos
	}
	go t.readLoop()
	go t.kexLoop()
	return t
}

func newServerTransport(conn keyingTransport, clientVersion, serverVersion []byte, config *ServerConfig) *handshakeTransport {
	t := newHandshakeTransport(conn, &config.Config, clientVersion, serverVersion)
	t.hostKeys = config.hostKeys
	go t.readLoop()
	go t.kexLoop()
	return t
}

func (t *handshakeTransport) getSessionID() []byte {
	return t.sessionID
}

// waitSession waits for the session to be established. This should be
// the first thing to call after instantiating handshakeTransport.
func (t *handshakeTransport) waitSession() error {
	p, err := t.readPacket()
	if err != nil {
		return err
	}
	if p[0] != msgNewKeys {
		return fmt.Errorf("ssh: first packet should be msgNewKeys")
	}

	return nil
}

func (t *handshakeTransport) id() string {
	if len(t.hostKeys) > 0 {
		return "server"
	}
	return "client"
}

func (t *handshakeTransport) printPacket(p []byte, write bool) {
	action := "got"
	if write {
		action = "sent"
	}

	if p[0] == msgChannelData || p[0] == msgChannelExtendedData {
		log.Printf("%s %s data (packet %d bytes)", t.id(), action, len(p))
	} else {
		msg, err := decode(p)
		log.Printf("%s %s %T %v (%v)", t.id(), action, msg, msg, err)
	}
}

func (t *handshakeTransport) readPacket() ([]byte, error) {
	p, ok := <-t.incoming
	if !ok {
		return nil, t.readError
	}
	return p, nil
}

func (t *handshakeTransport) readLoop() {
	first := true
	for {
		p, err := t.readOnePacket(first)
		first = false
		if err != nil {
			t.readError = err
			close(t.incoming)
			break
		}
		if p[0] == msgIgnore || p[0] == msgDebug {
			continue
		}
		t.incoming <- p
	}

	// Stop writers too.
	t.recordWriteError(t.readError)

	// Unblock the writer should it wait for this.
	close(t.startKex)

	// Don't close t.requestKex; it's also written to from writePacket.
}

func (t *handshakeTransport) pushPacket(p []byte) error {
	if debugHandshake {
		t.printPacket(p, true)
	}
	return t.conn.writePacket(p)
}

func (t *handshakeTransport) getWriteError() error {
	t.mu.Lock()
	defer t.mu.Unlock()
	return t.writeError
}

func (t *handshakeTransport) recordWriteError(err error) {
	t.mu.Lock()
	defer t.mu.Unlock()
	if t.writeError == nil && err != nil {
		t.writeError = err
	}
}

func (t *handshakeTransport) requestKeyExchange() {
	select {
	case t.requestKex <- struct{}{}:
	default:
		// something already requested a kex, so do nothing.
	}
}

func (t *handshakeTransport) resetWriteThresholds() {
	t.writePacketsLeft = packetRekeyThreshold
	if t.config.RekeyThreshold > 0 {
		t.writeBytesLeft = int64(t.config.RekeyThreshold)
	} else if t.algorithms != nil {
		t.writeBytesLeft = t.algorithms.w.rekeyBytes()
	} else {
		t.writeBytesLeft = 1 << 30
	}
}

func (t *handshakeTransport) kexLoop() {

write:
	for t.getWriteError() == nil {
		var request *pendingKex
		var sent bool

		for request == nil || !sent {
			var ok bool
			select {
			case request, ok = <-t.startKex:
				if !ok {
					break write
				}
			case <-t.requestKex:
				break
			}

			if !sent {
				if err := t.sendKexInit(); err != nil {
					t.recordWriteError(err)
					break
				}
				sent = true
			}
		}

		if err := t.getWriteError(); err != nil {
			if request != nil {
				request.done <- err
			}
			break
		}

		// We're not servicing t.requestKex, but that is OK:
		// we never block on sending to t.requestKex.

		// We're not servicing t.startKex, but the remote end
		// has just sent us a kexInitMsg, so it can't send
		// another key change request, until we close the done
		// channel on the pendingKex request.

		err := t.enterKeyExchange(request.otherInit)

		t.mu.Lock()
		t.writeError = err
		t.sentInitPacket = nil
		t.sentInitMsg = nil

		t.resetWriteThresholds()

		// we have completed the key exchange. Since the
		// reader is still blocked, it is safe to clear out
		// the requestKex channel. This avoids the situation
		// where: 1) we consumed our own request for the
		// initial kex, and 2) the kex from the remote side
		// caused another send on the requestKex channel,
	clear:
		for {
			select {
			case <-t.requestKex:
				//
			default:
				break clear
			}
		}

		request.done <- t.writeError

		// kex finished. Push packets that we received while
		// the kex was in progress. Don't look at t.startKex
		// and don't increment writtenSinceKex: if we trigger
		// another kex while we are still busy with the last
		// one, things will become very confusing.
		for _, p := range t.pendingPackets {
			t.writeError = t.pushPacket(p)
			if t.writeError != nil {
				break
			}
		}
		t.pendingPackets = t.pendingPackets[:0]
		t.mu.Unlock()
	}

	// Unblock reader.
	t.conn.Close()

	// drain startKex channel. We don't service t.requestKex
	// because nobody does blocking sends there.
	for request := range t.startKex {
		request.done <- t.getWriteError()
	}

	// Mark that the loop is done so that Close can return.
	close(t.kexLoopDone)
}

// The protocol uses uint32 for packet counters, so we can't let them
// reach 1<<32.  We will actually read and write more packets than
// this, though: the other side may send more packets, and after we
// hit this limit on writing we will send a few more packets for the
// key exchange itself.
const packetRekeyThreshold = (1 << 31)

func (t *handshakeTransport) resetReadThresholds() {
	t.readPacketsLeft = packetRekeyThreshold
	if t.config.RekeyThreshold > 0 {
		t.readBytesLeft = int64(t.config.RekeyThreshold)
	} else if t.algorithms != nil {
		t.readBytesLeft = t.algorithms.r.rekeyBytes()
	} else {
		t.readBytesLeft = 1 << 30
	}
}

func (t *handshakeTransport) readOnePacket(first bool) ([]byte, error) {
	p, err := t.conn.readPacket()
	if err != nil {
		return nil, err
	}

	if t.readPacketsLeft > 0 {
		t.readPacketsLeft--
	} else {
		t.requestKeyExchange()
	}

	if t.readBytesLeft > 0 {
		t.readBytesLeft -= int64(len(p))
	} else {
		t.requestKeyExchange()
	}

	if debugHandshake {
		t.printPacket(p, false)
	}

	if first && p[0] != msgKexInit {
		return nil, fmt.Errorf("ssh: first packet should be msgKexInit")
	}

	if p[0] != msgKexInit {
		return p, nil
	}

	firstKex := t.sessionID == nil

	kex := pendingKex{
		done:      make(chan error, 1),
		otherInit: p,
	}
	t.startKex <- &kex
	err = <-kex.done

	if debugHandshake {
		log.Printf("%s exited key exchange (first %v), err %v", t.id(), firstKex, err)
	}

	if err != nil {
		return nil, err
	}

	t.resetReadThresholds()

	// By default, a key exchange is hidden from higher layers by
	// translating it into msgIgnore.
	successPacket := []byte{msgIgnore}
	if firstKex {
		// sendKexInit() for the first kex waits for
		// msgNewKeys so the authentication process is
		// guaranteed to happen over an encrypted transport.
		successPacket = []byte{msgNewKeys}
	}

	return successPacket, nil
}

// sendKexInit sends a key change message.
func (t *handshakeTransport) sendKexInit() error {
	t.mu.Lock()
	defer t.mu.Unlock()
	if t.sentInitMsg != nil {
		// kexInits may be sent either in response to the other side,
		// or because our side wants to initiate a key change, so we
		// may have already sent a kexInit. In that case, don't send a
		// second kexInit.
		return nil
	}

	msg := &kexInitMsg{
		KexAlgos:                t.config.KeyExchanges,
		CiphersClientServer:     t.config.Ciphers,
		CiphersServerClient:     t.config.Ciphers,
		MACsClientServer:        t.config.MACs,
		MACsServerClient:        t.config.MACs,
		CompressionClientServer: supportedCompressions,
		CompressionServerClient: supportedCompressions,
	}
	io.ReadFull(rand.Reader, msg.Cookie[:])

	isServer := len(t.hostKeys) > 0
	if isServer {
		for _, k := range t.hostKeys {
			// If k is an AlgorithmSigner, presume it supports all signature algorithms
			// associated with the key format. (Ideally AlgorithmSigner would have a
			// method to advertise supported algorithms, but it doesn't. This means that
			// adding support for a new algorithm is a breaking change, as we will
			// immediately negotiate it even if existing implementations don't support
			// it. If that ever happens, we'll have to figure something out.)
			// If k is not an AlgorithmSigner, we can only assume it only supports the
			// algorithms that matches the key format. (This means that Sign can't pick
			// a different default.)
			keyFormat := k.PublicKey().Type()
			if _, ok := k.(AlgorithmSigner); ok {
				msg.ServerHostKeyAlgos = append(msg.ServerHostKeyAlgos, algorithmsForKeyFormat(keyFormat)...)
			} else {
				msg.ServerHostKeyAlgos = append(msg.ServerHostKeyAlgos, keyFormat)
			}
		}
	} else {
		msg.ServerHostKeyAlgos = t.hostKeyAlgorithms

		// As a client we opt in to receiving SSH_MSG_EXT_INFO so we know what
		// algorithms the server supports for public key authentication. See RFC
		// 8308, Section 2.1.
		if firstKeyExchange := t.sessionID == nil; firstKeyExchange {
			msg.KexAlgos = make([]string, 0, len(t.config.KeyExchanges)+1)
			msg.KexAlgos = append(msg.KexAlgos, t.config.KeyExchanges...)
			msg.KexAlgos = append(msg.KexAlgos, "ext-info-c")
		}
	}

	packet := Marshal(msg)

	// writePacket destroys the contents, so save a copy.
	packetCopy := make([]byte, len(packet))
	copy(packetCopy, packet)

	if err := t.pushPacket(packetCopy); err != nil {
		return err
	}

	t.sentInitMsg = msg
	t.sentInitPacket = packet

	return nil
}

func (t *handshakeTransport) writePacket(p []byte) error {
	switch p[0] {
	case msgKexInit:
		return errors.New("ssh: only handshakeTransport can send kexInit")
	case msgNewKeys:
		return errors.New("ssh: only handshakeTransport can send newKeys")
	}

	t.mu.Lock()
	defer t.mu.Unlock()
	if t.writeError != nil {
		return t.writeError
	}

	if t.sentInitMsg != nil {
		// Copy the packet so the writer can reuse the buffer.
		cp := make([]byte, len(p))
		copy(cp, p)
		t.pendingPackets = append(t.pendingPackets, cp)
		return nil
	}

	if t.writeBytesLeft > 0 {
		t.writeBytesLeft -= int64(len(p))
	} else {
		t.requestKeyExchange()
	}

	if t.writePacketsLeft > 0 {
		t.writePacketsLeft--
	} else {
		t.requestKeyExchange()
	}

	if err := t.pushPacket(p); err != nil {
		t.writeError = err
	}

	return nil
}

func (t *handshakeTransport) Close() error {
	// Close the connection. This should cause the readLoop goroutine to wake up
	// and close t.startKex, which will shut down kexLoop if running.
	err := t.conn.Close()

	// Wait for the kexLoop goroutine to complete.
	// At that point we know that the readLoop goroutine is complete too,
	// because kexLoop itself waits for readLoop to close the startKex channel.
	<-t.kexLoopDone

	return err
}

func (t *handshakeTransport) enterKeyExchange(otherInitPacket []byte) error {
	if debugHandshake {
		log.Printf("%s entered key exchange", t.id())
	}

	otherInit := &kexInitMsg{}
	if err := Unmarshal(otherInitPacket, otherInit); err != nil {
		return err
	}

	magics := handshakeMagics{
		clientVersion: t.clientVersion,
		serverVersion: t.serverVersion,
		clientKexInit: otherInitPacket,
		serverKexInit: t.sentInitPacket,
	}

	clientInit := otherInit
	serverInit := t.sentInitMsg
	isClient := len(t.hostKeys) == 0
	if isClient {
		clientInit, serverInit = serverInit, clientInit

		magics.clientKexInit = t.sentInitPacket
		magics.serverKexInit = otherInitPacket
	}

	var err error
	t.algorithms, err = findAgreedAlgorithms(isClient, clientInit, serverInit)
	if err != nil {
		return err
	}

	// We don't send FirstKexFollows, but we handle receiving it.
	//
	// RFC 4253 section 7 defines the kex and the agreement method for
	// first_kex_packet_follows. It states that the guessed packet
	// should be ignored if the "kex algorithm and/or the host
	// key algorithm is guessed wrong (server and client have
	// different preferred algorithm), or if any of the other
	// algorithms cannot be agreed upon". The other algorithms have
	// already been checked above so the kex algorithm and host key
	// algorithm are checked here.
	if otherInit.FirstKexFollows && (clientInit.KexAlgos[0] != serverInit.KexAlgos[0] || clientInit.ServerHostKeyAlgos[0] != serverInit.ServerHostKeyAlgos[0]) {
		// other side sent a kex message for the wrong algorithm,
		// which we have to ignore.
		if _, err := t.conn.readPacket(); err != nil {
			return err
		}
	}

	kex, ok := kexAlgoMap[t.algorithms.kex]
	if !ok {
		return fmt.Errorf("ssh: unexpected key exchange algorithm %v", t.algorithms.kex)
	}

	var result *kexResult
	if len(t.hostKeys) > 0 {
		result, err = t.server(kex, &magics)
	} else {
		result, err = t.client(kex, &magics)
	}

	if err != nil {
		return err
	}

	firstKeyExchange := t.sessionID == nil
	if firstKeyExchange {
		t.sessionID = result.H
	}
	result.SessionID = t.sessionID

	if err := t.conn.prepareKeyChange(t.algorithms, result); err != nil {
		return err
	}
	if err = t.conn.writePacket([]byte{msgNewKeys}); err != nil {
		return err
	}

	// On the server side, after the first SSH_MSG_NEWKEYS, send a SSH_MSG_EXT_INFO
	// message with the server-sig-algs extension if the client supports it. See
	// RFC 8308, Sections 2.4 and 3.1.
	if !isClient && firstKeyExchange && contains(clientInit.KexAlgos, "ext-info-c") {
		extInfo := &extInfoMsg{
			NumExtensions: 1,
			Payload:       make([]byte, 0, 4+15+4+len(supportedPubKeyAuthAlgosList)),
		}
		extInfo.Payload = appendInt(extInfo.Payload, len("server-sig-algs"))
		extInfo.Payload = append(extInfo.Payload, "server-sig-algs"...)
		extInfo.Payload = appendInt(extInfo.Payload, len(supportedPubKeyAuthAlgosList))
		extInfo.Payload = append(extInfo.Payload, supportedPubKeyAuthAlgosList...)
		if err := t.conn.writePacket(Marshal(extInfo)); err != nil {
			return err
		}
	}

	if packet, err := t.conn.readPacket(); err != nil {
		return err
	} else if packet[0] != msgNewKeys {
		return unexpectedMessageError(msgNewKeys, packet[0])
	}

	return nil
}

// algorithmSignerWrapper is an AlgorithmSigner that only supports the default
// key format algorithm.
//
// This is technically a violation of the AlgorithmSigner interface, but it
// should be unreachable given where we use this. Anyway, at least it returns an
// error instead of panicing or producing an incorrect signature.
type algorithmSignerWrapper struct {
	Signer
}

func (a algorithmSignerWrapper) SignWithAlgorithm(rand io.Reader, data []byte, algorithm string) (*Signature, error) {
	if algorithm != underlyingAlgo(a.PublicKey().Type()) {
		return nil, errors.New("ssh: internal error: algorithmSignerWrapper invoked with non-default algorithm")
	}
	return a.Sign(rand, data)
}

func pickHostKey(hostKeys []Signer, algo string) AlgorithmSigner {
	for _, k := range hostKeys {
		if algo == k.PublicKey().Type() {
			return algorithmSignerWrapper{k}
		}
		k, ok := k.(AlgorithmSigner)
		if !ok {
			continue
		}
		for _, a := range algorithmsForKeyFormat(k.PublicKey().Type()) {
			if algo == a {
				return k
			}
		}
	}
	return nil
}

func (t *handshakeTransport) server(kex kexAlgorithm, magics *handshakeMagics) (*kexResult, error) {
	hostKey := pickHostKey(t.hostKeys, t.algorithms.hostKey)
	if hostKey == nil {
		return nil, errors.New("ssh: internal error: negotiated unsupported signature type")
	}

	r, err := kex.Server(t.conn, t.config.Rand, magics, hostKey, t.algorithms.hostKey)
	return r, err
}

func (t *handshakeTransport) client(kex kexAlgorithm, magics *handshakeMagics) (*kexResult, error) {
	result, err := kex.Client(t.conn, t.config.Rand, magics)
	if err != nil {
		return nil, err
	}

	hostKey, err := ParsePublicKey(result.HostKey)
	if err != nil {
		return nil, err
	}

	if err := verifyHostKeySignature(hostKey, t.algorithms.hostKey, result); err != nil {
		return nil, err
	}

	err = t.hostKeyCallback(t.dialAddress, t.remoteAddr, hostKey)
	if err != nil {
		return nil, err
	}

	return result, nil
}
