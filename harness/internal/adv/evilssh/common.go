// Copyright 2011 The Go Authors. All rights reserved.
// Use of this source code is governed by a BSD-style
// license that can be found in the LICENSE file.

package ssh

import (
	"crypto"
	"crypto/rand"
	"fmt"
	"io"
	"math"
	"strings"
	"sync"

	_ "crypto/sha1"
	_ "crypto/sha256"
	_ "crypto/sha512"
)

// These are string constants in the SSH protocol.
const (
	compressionNone = "none"
	serviceUserAuth = "ssh-userauth"
	serviceSSH      = "ssh-connection"
)

// supportedCiphers lists ciphers we support but might not recommend.
var supportedCiphers = []string{
	"aes128-ctr", "aes192-ctr", "aes256-ctr",
	"aes128-gcm@openssh.com", gcm256CipherID,
	chacha20Poly1305ID,
	"arcfour256", "arcfour128", "arcfour",
	aes128cbcID,
	tripledescbcID,
}

// preferredCiphers specifies the default preference for ciphers.
var preferredCiphers = []string{
	"aes128-gcm@openssh.com", gcm256CipherID,
	chacha20Poly1305ID,
	"aes128-ctr", "aes192-ctr", "aes256-ctr",
}

// supportedKexAlgos specifies the supported key-exchange algorithms in
// preference order.
var supportedKexAlgos = []string{
	kexAlgoCurve25519SHA256, kexAlgoCurve25519SHA256LibSSH,
	// P384 and P521 are not constant-time yet, but since we don't
	// reuse ephemeral keys, using them for ECDH should be OK.
	kexAlgoECDH256, kexAlgoECDH384, kexAlgoECDH521,
	kexAlgoDH14SHA256, kexAlgoDH14SHA1, kexAlgoDH1SHA1,
}

// serverForbiddenKexAlgos contains key exchange algorithms, that are forbidden
// for the server half.
var serverForbiddenKexAlgos = map[string]struct{}{
	kexAlgoDHGEXSHA1:   {}, // server half implementation is only minimal to satisfy the automated tests
	kexAlgoDHGEXSHA256: {}, // server half implementation is only minimal to satisfy the automated tests
}

// preferredKexAlgos specifies the default preference for key-exchange algorithms
// in preference order.
var preferredKexAlgos = []string{
	kexAlgoCurve25519SHA256, kexAlgoCurve25519SHA256LibSSH,
	kexAlgoECDH256, kexAlgoECDH384, kexAlgoECDH521,
	kexAlgoDH14SHA256, kexAlgoDH14SHA1,
}

// supportedHostKeyAlgos specifies the supported host-key algorithms (i.e. methods
// of authenticating servers) in preference order.
var supportedHostKeyAlgos = []string{
	CertAlgoRSASHA512v01, CertAlgoRSASHA256v01,
	CertAlgoRSAv01, CertAlgoDSAv01, CertAlgoECDSA256v01,
	CertAlgoECDSA384v01, CertAlgoECDSA521v01, CertAlgoED25519v01,

	KeyAlgoECDSA256, KeyAlgoECDSA384, KeyAlgoECDSA521,
	KeyAlgoRSASHA512, KeyAlgoRSASHA256,
	KeyAlgoRSA, KeyAlgoDSA,

	KeyAlgoED25519,
}

// supportedMACs specifies a default set of MAC algorithms in preference order.
// This is based on RFC 4253, section 6.4, but with hmac-md5 variants removed
// because they have reached the end of their useful life.
var supportedMACs = []string{
	"hmac-sha2-256-etm@openssh.com", "hmac-sha2-256", "hmac-sha1", "hmac-sha1-96",
}

var supportedCompressions = []string{compressionNone}

// hashFuncs keeps the mapping of supported signature algorithms to their
// respective hashes needed for signing and verification.
var hashFuncs = map[string]crypto.Hash{
	KeyAlgoRSA:       crypto.SHA1,
	KeyAlgoRSASHA256: crypto.SHA256,
	KeyAlgoRSASHA512: crypto.SHA512,
	KeyAlgoDSA:       crypto.SHA1,
	KeyAlgoECDSA256:  crypto.SHA256,
	KeyAlgoECDSA384:  crypto.SHA384,
	KeyAlgoECDSA521:  crypto.SHA512,
	// KeyAlgoED25519 doesn't pre-hash.
	KeyAlgoSKECDSA256: crypto.SHA256,
	KeyAlgoSKED25519:  crypto.SHA256,
}

// algorithmsForKeyFormat returns the supported signature algorithms for a given
// public key format (PublicKey.Type), in order of preference. See RFC 8332,
// Section 2. See also the note in sendKexInit on backwards compatibility.
func algorithmsForKeyFormat(keyFormat string) []string {
	switch keyFormat {
	case KeyAlgoRSA:
		return []string{KeyAlgoRSASHA256, KeyAlgoRSASHA512, KeyAlgoRSA}
	case CertAlgoRSAv01:
		return []string{CertAlgoRSASHA256v01, CertAlgoRSASHA512v01, CertAlgoRSAv01}
	default:
		return []string{keyFormat}
	}
}

// supportedPubKeyAuthAlgos specifies the supported client public key
// authentication algorithms. Note that this doesn't include certificate types
// since those use the underlying algorithm. This list is sent to the client if
// it supports the server-sig-algs extension. Order is irrelevant.
var supportedPubKeyAuthAlgos = []string{
	KeyAlgoED25519,
	KeyAlgoSKED25519, KeyAlgoSKECDSA256,
	KeyAlgoECDSA256, KeyAlgoECDSA384, KeyAlgoECDSA521,
	KeyAlgoRSASHA256, KeyAlgoRSASHA512, KeyAlgoRSA,
	KeyAlgoDSA,
}

var supportedPubKeyAuthAlgosList = strings.Join(supportedPubKeyAuthAlgos, ",")

// unexpectedMessageError results when the SSH message that we received didn't
// match what we wanted.
func unexpectedMessageError(expected, got uint8) error {
	return fmt.Errorf("ssh: unexpected message type %d (expected %d)", got, expected)
}

// parseError results from a malformed SSH message.
func parseError(tag uint8) error {
	return fmt.Errorf("ssh: parse error in message type %d", tag)
}

func findCommon(what string, client []string, server []string) (common string, err error) {
	for _, c := range client {
		for _, s := range server {
			if c == s {
				return c, nil
			}
		}
	}
	return "", fmt.Errorf("ssh: no common algorithm for %s; client offered: %v, server offered: %v", what, client, server)
}

// directionAlgorithms records algorithm choices in one direction (either read or write)
type directionAlgorithms struct {
	Cipher      string
	MAC         string
	Compression string
}

// rekeyBytes returns a rekeying intervals in bytes.
func (a *directionAlgorithms) rekeyBytes() int64 {
	// According to RFC 4344 block ciphers should rekey after
	// 2^(BLOCKSIZE/4) blocks. For all AES flavors BLOCKSIZE is
	// 128.
	switch a.Cipher {
	case "aes128-ctr", "aes192-ctr", "aes256-ctr", gcm128CipherID, gcm256CipherID, aes128cbcID:
		return 16 * (1 << 32)

	}

	// For others, stick with RFC 4253 recommendation to rekey after 1 Gb of data.
	return 1 << 30
}

var aeadCiphers = map[string]bool{
	gcm128CipherID:     true,
	gcm256CipherID:     true,
	chacha20Poly1305ID: true,
}

type algorithms struct {
	kex     string
	hostKey string
	w       directionAlgorithms
	r       directionAlgorithms
}

func findAgreedAlgorithms(isClient bool, clientKexInit, serverKexInit *kexInitMsg) (algs *algorithms, err error) {
	result := &algorithms{}

	result.kex, err = findCommon("key exchange", clientKexInit.KexAlgos, serverKexInit.KexAlgos)
	if err != nil {
		return
	}

	result.hostKey, err = findCommon("host key", clientKexInit.ServerHostKeyAlgos, serverKexInit.ServerHostKeyAlgos)
	if err != nil {
		return
	}

	stoc, ctos := &result.w, &result.r
	if isClient {
		ctos, stoc = stoc, ctos
	}

	ctos.Cipher, err = findCommon("client to server cipher", clientKexInit.CiphersClientServer, serverKexInit.CiphersClientServer)
	if err != nil {
		return
	}

	stoc.Cipher, err = findCommon("server to client cipher", clientKexInit.CiphersServerClient, serverKexInit.CiphersServerClient)
	if err != nil {
		return
	}

	if !aeadCiphers[ctos.Cipher] {
		ctos.MAC, err = findCommon("client to server MAC", clientKexInit.MACsClientServer, serverKexInit.MACsClientServer)
		if err != nil {
			return
		}
	}

	if !aeadCiphers[stoc.Cipher] {
		stoc.MAC, err = findCommon("server to client MAC", clientKexInit.MACsServerClient, serverKexInit.MACsServerClient)
		if err != nil {
			return
		}
	}

	ctos.Compression, err = findCommon("client to server compression", clientKexInit.CompressionClientServer, serverKexInit.CompressionClientServer)
	if err != nil {
		return
	}

	stoc.Compression, err = findCommon("server to client compression", clientKexInit.CompressionServerClient, serverKexInit.CompressionServerClient)
	if err != nil {
		return
	}

	return result, nil
}

// If rekeythreshold is too small, we can't make any progress sending
// stuff.
const minRekeyThreshold uint64 = 256

// Config contains configuration data common to both ServerConfig and
// ClientConfig.
type Config struct {
	// Rand provides the source of entropy for cryptographic
	// primitives. If Rand is nil, the cryptographic random reader
	// in package crypto/rand will be used.
	Rand io.Reader

	// The maximum number of bytes sent or received after which a
	// new key is negotiated. It must be at least 256. If
	// unspecified, a size suitable for the chosen cipher is used.
	RekeyThreshold uint64

	// The allowed key exchanges algorithms. If unspecified then a
	// default set of algorithms is used.
	KeyExchanges []string

	// The allowed cipher algorithms. If unspecified then a sensible
	// default is used.
	Ciphers []string

	// The allowed MAC algorithms. If unspecified then a sensible default
	// is used.
	MACs []string
}

// SetDefaults sets sensible values for unset fields in config. This is
// exported for testing: Configs passed to SSH functions are copied and have
// default values set automatically.
func (c *Config) SetDefaults() {
	if c.Rand == nil {
		c.Rand = rand.Reader
	}
	if c.Ciphers == nil {
		c.Ciphers = preferredCiphers
	}
	var ciphers []string
	for _, c := range c.Ciphers {
		if cipherModes[c] != nil {
			// reject the cipher if we have no cipherModes definition
			ciphers = append(ciphers, c)
		}
	}
	c.Ciphers = ciphers

	if c.KeyExchanges == nil {
		c.KeyExchanges = preferredKexAlgos
	}

	if c.MACs == nil {
		c.MACs = supportedMACs
	}

	if c.RekeyThreshold == 0 {
		// cipher specific default
	} else if c.RekeyThreshold < minRekeyThreshold {
		c.RekeyThreshold = minRekeyThreshold
	} else if c.RekeyThreshold >= math.MaxInt64 {
		// Avoid weirdness if somebody uses -1 as a threshold.
		c.RekeyThreshold = math.MaxInt64
	}
}

// buildDataSignedForAuth returns the data that is signed in order to prove
// possession of a private key. See RFC 4252, section 7. algo is the advertised
// algorithm, and may be a certificate type.
func buildDataSignedForAuth(sessionID []byte, req userAuthRequestMsg, algo string, pubKey []byte) []byte {
	data := struct {
		Session []byte
		Type    byte
		User    string
		Service string
		Method  string
		Sign    bool
		Algo    string
		PubKey  []byte
	}{
		sessionID,
		msgUserAuthRequest,
		req.User,
		req.Service,
		req.Method,
		true,
		algo,
		pubKey,
	}
	return Marshal(data)
}

func appendU16(buf []byte, n uint16) []byte {
	return append(buf, byte(n>>8), byte(n))
}

func appendU32(buf []byte, n uint32) []byte {
	return append(buf, byte(n>>24), byte(n>>16), byte(n>>8), byte(n))
}

func appendU64(buf []byte, n uint64) []byte {
	return append(buf,
		byte(n>>56), byte(n>>48), byte(n>>40), byte(n>>32),
		byte(n>>24), byte(n>>16), byte(n>>8), byte(n))
}

func appendInt(buf []byte, n int) []byte {
	return appendU32(buf, uint32(n))
}

func appendString(buf []byte, s string) []byte {
	buf = appendU32(buf, uint32(len(s)))
	buf = append(buf, s...)
	return buf
}

func appendBool(buf []byte, b bool) []byte {
	if b {
		return append(buf, 1)
	}
	return append(buf, 0)
}

// newCond is a helper to hide the fact that there is no usable zero
// value for sync.Cond.
func newCond() *sync.Cond { return sync.NewCond(new(sync.Mutex)) }

// window represents the buffer available to clients
// wishing to write to a channel.
type window struct {
	*sync.Cond
	win          uint32 // RFC 4254 5.2 says the window size can grow to 2^32-1
	writeWaiters int
	closed       bool
}

// add adds win to the amount of window available
// for consumers.
func (w *window) add(win uint32) bool {
	// a zero sized window adjust is a noop.
	if win == 0 {
		return true
	}
	w.L.Lock()
	if w.win+win < win {
		w.L.Unlock()
		return false
	}
	w.win += win
	// It is unusual that multiple goroutines would be attempting to reserve
	// window space, but not guaranteed. Use broadcast to notify all waiters
	// that additional window is available.
	w.Broadcast()
	w.L.Unlock()
	return true
}

// close sets the window to closed, so all reservations fail
// immediately.
func (w *window) close() {
	w.L.Lock()
	w.closed = true
	w.Broadcast()
	w.L.Unlock()
}

// reserve reserves win from the available window capacity.
// If no capacity remains, reserve will block. reserve may
// return less than requested.
func (w *window) reserve(win uint32) (uint32, error) {
	var err error
	w.L.Lock()
	w.writeWaiters++
	w.Broadcast()
	for w.win == 0 && !w.closed {
		w.Wait()
	}
	w.writeWaiters--
	if w.win < win {
		win = w.win
	}
	w.win -= win
	if w.closed {
		err = io.EOF
	}
	w.L.Unlock()
	return win, err
}

// waitWriterBlocked waits until some goroutine is blocked for further
// writes. It is used in tests only.
func (w *window) waitWriterBlocked() {
	w.Cond.L.Lock()
	for w.writeWaiters == 0 {
		w.Cond.Wait()
	}
	w.Cond.L.Unlock()
}
