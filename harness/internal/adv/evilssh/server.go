// Copyright 2011 The Go Authors. All rights reserved.
// Use of this source code is governed by a BSD-style
// license that can be found in the LICENSE file.

package ssh

import (
	"bytes"
	"errors"
	"fmt"
	"io"
	"net"
	"strings"
)

// The Permissions type holds fine-grained permissions that are
// specific to a user or a specific authentication method for a user.
// The Permissions value for a successful authentication attempt is
// available in ServerConn, so it can be used to pass information from
// the user-authentication phase to the application layer.
type Permissions struct {
	// CriticalOptions indicate restrictions to the default
	// permissions, and are typically used in conjunction with
	// user certificates. The standard for SSH certificates
	// defines "force-command" (only allow the given command to
	// execute) and "source-address" (only allow connections from
	// the given address). The SSH package currently only enforces
	// the "source-address" critical option. It is up to server
	// implementations to enforce other critical options, such as
	// "force-command", by checking them after the SSH handshake
	// is successful. In general, SSH servers should reject
	// connections that specify critical options that are unknown
	// or not supported.
	CriticalOptions map[string]string

	// Extensions are extra functionality that the server may
	// offer on authenticated connections. Lack of support for an
	// extension does not preclude authenticating a user. Common
	// extensions are "permit-agent-forwarding",
	// "permit-X11-forwarding". The Go SSH library currently does
	// not act on any extension, and it is up to server
	// implementations to honor them. Extensions can be used to
	// pass data from the authentication callbacks to the server
	// application layer.
	Extensions map[string]string
}

type GSSAPIWithMICConfig struct {
	// AllowLogin, must be set, is called when gssapi-with-mic
	// authentication is selected (RFC 4462 section 3). The srcName is from the
	// results of the GSS-API authentication. The format is username@DOMAIN.
	// GSSAPI just guarantees to the server who the user is, but not if they can log in, and with what permissions.
	// This callback is called after the user identity is established with GSSAPI to decide if the user can login with
	// which permissions. If the user is allowed to login, it should return a nil error.
	AllowLogin func(conn ConnMetadata, srcName string) (*Permissions, error)

	// Server must be set. It's the implementation
	// of the GSSAPIServer interface. See GSSAPIServer interface for details.
	Server GSSAPIServer
}

// ServerConfig holds server specific configuration data.
type ServerConfig struct {
	// Config contains configuration shared between client and server.
	Config

	hostKeys []Signer

	// NoClientAuth is true if clients are allowed to connect without
	// authenticating.
	// To determine NoClientAuth at runtime, set NoClientAuth to true
	// and the optional NoClientAuthCallback to a non-nil value.
	NoClientAuth bool

	// NoClientAuthCallback, if non-nil, is called when a user
	// attempts to authenticate with auth method "none".
	// NoClientAuth must also be set to true for this be used, or
	// this func is unused.
	NoClientAuthCallback func(ConnMetadata) (*Permissions, error)

	// MaxAuthTries specifies the maximum number of authentication attempts
	// permitted per connection. If set to a negative number, the number of
	// attempts are unlimited. If set to zero, the number of attempts are limited
	// to 6.
	MaxAuthTries int

	// PasswordCallback, if non-nil, is called when a user
	// attempts to authenticate using a password.
	PasswordCallback func(conn ConnMetadata, password []byte) (*Permissions, error)

	// PublicKeyCallback, if non-nil, is called when a client
	// offers a public key for authentication. It must return a nil error
	// if the given public key can be used to authenticate the
	// given user. For example, see CertChecker.Authenticate. A
	// call to this function does not guarantee that the key
	// offered is in fact used to authenticate. To record any data
	// depending on the public key, store it inside a
	// Permissions.Extensions entry.
	PublicKeyCallback func(conn ConnMetadata, key PublicKey) (*Permissions, error)

	// KeyboardInteractiveCallback, if non-nil, is called when
	// keyboard-interactive authentication is selected (RFC
	// 4256). The client object's Challenge function should be
	// used to query the user. The callback may offer multiple
	// Challenge rounds. To avoid information leaks, the client
	// should be presented a challenge even if the user is
	// unknown.
	KeyboardInteractiveCallback func(conn ConnMetadata, client KeyboardInteractiveChallenge) (*Permissions, error)

	// AuthLogCallback, if non-nil, is called to log all authentication
	// attempts.
	AuthLogCallback func(conn ConnMetadata, method string, err error)

	// ServerVersion is the version identification string to announce in
	// the public handshake.
	// If empty, a reasonable default is used.
	// Note that RFC 4253 section 4.2 requires that this string start with
	// "SSH-2.0-".
	ServerVersion string

	// BannerCallback, if present, is called and the return string is sent to
	// the client after key exchange completed but before authentication.
	BannerCallback func(conn ConnMetadata) string

	// GSSAPIWithMICConfig includes gssapi server and callback, which if both non-nil, is used
	// when gssapi-with-mic authentication is selected (RFC 4462 section 3).
	GSSAPIWithMICConfig *GSSAPIWithMICConfig
}

// AddHostKey adds a private key as a host key. If an existing host
// key exists with the same public key format, it is replaced. Each server
// config must have at least one host key.
func (s *ServerConfig) AddHostKey(key Signer) {
	for i, k := range s.hostKeys {
		if k.PublicKey().Type() == key.PublicKey().Type() {
			s.hostKeys[i] = key
			return
		}
	}

	s.hostKeys = append(s.hostKeys, key)
}

// cachedPubKey contains the results of querying whether a public key is
// acceptable for a user.
type cachedPubKey struct {
	user       string
	pubKeyData []byte
	result     error
	perms      *Permissions
}

const maxCachedPubKeys = 16

// pubKeyCache caches tests for public keys.  Since SSH clients
// will query whether a public key is acceptable before attempting to
// authenticate with it, we end up with duplicate queries for public
// key validity.  The cache only applies to a single ServerConn.
type pubKeyCache struct {
	keys []cachedPubKey
}

// get returns the result for a given user/algo/key tuple.
func (c *pubKeyCache) get(user string, pubKeyData []byte) (cachedPubKey, bool) {
	for _, k := range c.keys {
		if k.user == user && bytes.Equal(k.pubKeyData, pubKeyData) {
			return k, true
		}
	}
	return cachedPubKey{}, false
}

// add adds the given tuple to the cache.
func (c *pubKeyCache) add(candidate cachedPubKey) {
	if len(c.keys) < maxCachedPubKeys {
		c.keys = append(c.keys, candidate)
	}
}

// ServerConn is an authenticated SSH connection, as seen from the
// server
type ServerConn struct {
	Conn

	// If the succeeding authentication callback returned a
	// non-nil Permissions pointer, it is stored here.
	Permissions *Permissions
}

// NewServerConn starts a new SSH server with c as the underlying
// transport.  It starts with a handshake and, if the handshake is
// unsuccessful, it closes the connection and returns an error.  The
// Request and NewChannel channels must be serviced, or the connection
// will hang.
//
// The returned error may be of type *ServerAuthError for
// authentication errors.
func NewServerConn(c net.Conn, config *ServerConfig) (*ServerConn, <-chan NewChannel, <-chan *Request, error) {
	fullConf := *config
	fullConf.SetDefaults()
	if fullConf.MaxAuthTries == 0 {
		fullConf.MaxAuthTries = 6
	}
	// Check if the config contains any unsupported key exchanges
	for _, kex := range fullConf.KeyExchanges {
		if _, ok := serverForbiddenKexAlgos[kex]; ok {
			return nil, nil, nil, fmt.Errorf("ssh: unsupported key exchange %s for server", kex)
		}
	}

	s := &connection{
		sshConn: sshConn{conn: c},
	}
	perms, err := s.serverHandshake(&fullConf)
	if err != nil {
		c.Close()
		return nil, nil, nil, err
	}
	return &ServerConn{s, perms}, s.mux.incomingChannels, s.mux.incomingRequests, nil
}

// signAndMarshal signs the data with the appropriate algorithm,
// and serializes the result in SSH wire format. algo is the negotiate
// algorithm and may be a certificate type.
func signAndMarshal(k AlgorithmSigner, rand io.Reader, data []byte, algo string) ([]byte, error) {
	sig, err := k.SignWithAlgorithm(rand, data, underlyingAlgo(algo))
	if err != nil {
		return nil, err
	}

	return Marshal(sig), nil
}

// handshake performs key exchange and user authentication.
func (s *connection) serverHandshake(config *ServerConfig) (*Permissions, error) {
	if len(config.hostKeys) == 0 {
		return nil, errors.New("ssh: server has no host keys")
	}

	if !config.NoClientAuth && config.PasswordCallback == nil && config.PublicKeyCallback == nil &&
		config.KeyboardInteractiveCallback == nil && (config.GSSAPIWithMICConfig == nil ||
		config.GSSAPIWithMICConfig.AllowLogin == nil || config.GSSAPIWithMICConfig.Server == nil) {
		return nil, errors.New("ssh: no authentication methods configured but NoClientAuth is also false")
	}

	if config.ServerVersion != "" {
		s.serverVersion = []byte(config.ServerVersion)
	} else {
		s.serverVersion = []byte(packageVersion)
	}
	var err error
	s.clientVersion, err = exchangeVersions(s.sshConn.conn, s.serverVersion)
	if err != nil {
		return nil, err
	}

	tr := newTransport(s.sshConn.conn, config.Rand, false /* not client */)
	s.transport = newServerTransport(tr, s.clientVersion, s.serverVersion, config)

	if err := s.transport.waitSession(); err != nil {
		return nil, err
	}

	// We just did the key change, so the session ID is established.
	s.sessionID = s.transport.getSessionID()

	var packet []byte
	if packet, err = s.transport.readPacket(); err != nil {
		return nil, err
	}

	var serviceRequest serviceRequestMsg
	if err = Unmarshal(packet, &serviceRequest); err != nil {
		return nil, err
	}
	if serviceRequest.Service != serviceUserAuth {
		return nil, errors.New("ssh: requested service '" + serviceRequest.Service + "' before authenticating")
	}
	serviceAccept := serviceAcceptMsg{
		Service: serviceUserAuth,
	}
	if err := s.transport.writePacket(Marshal(&serviceAccept)); err != nil {
		return nil, err
	}

	perms, err := s.serverAuthenticate(config)
	if err != nil {
		return nil, err
	}
	s.mux = newMux(s.transport)
	return perms, err
}

func checkSourceAddress(addr net.Addr, sourceAddrs string) error {
	if addr == nil {
		return errors.New("ssh: no address known for client, but source-address match required")
	}

	tcpAddr, ok := addr.(*net.TCPAddr)
	if !ok {
		return fmt.Errorf("ssh: remote address %v is not an TCP address when checking source-address match", addr)
	}

	for _, sourceAddr := range strings.Split(sourceAddrs, ",") {
		if allowedIP := net.ParseIP(sourceAddr); allowedIP != nil {
			if allowedIP.Equal(tcpAddr.IP) {
				return nil
			}
		} else {
			_, ipNet, err := net.ParseCIDR(sourceAddr)
			if err != nil {
				return fmt.Errorf("ssh: error parsing source-address restriction %q: %v", sourceAddr, err)
			}

			if ipNet.Contains(tcpAddr.IP) {
				return nil
			}
		}
	}

	return fmt.Errorf("ssh: remote address %v is not allowed because of source-address restriction", addr)
}

func gssExchangeToken(gssapiConfig *GSSAPIWithMICConfig, firstToken []byte, s *connection,
	sessionID []byte, userAuthReq userAuthRequestMsg) (authErr error, perms *Permissions, err error) {
	gssAPIServer := gssapiConfig.Server
	defer gssAPIServer.DeleteSecContext()
	var srcName string
	for {
		var (
			outToken     []byte
			needContinue bool
		)
		outToken, srcName, needContinue, err = gssAPIServer.AcceptSecContext(firstToken)
		if err != nil {
			return err, nil, nil
		}
		if len(outToken) != 0 {
			if err := s.transport.writePacket(Marshal(&userAuthGSSAPIToken{
				Token: outToken,
			})); err != nil {
				return nil, nil, err
			}
		}
		if !needContinue {
			break
		}
		packet, err := s.transport.readPacket()
		if err != nil {
			return nil, nil, err
		}
		userAuthGSSAPITokenReq := &userAuthGSSAPIToken{}
		if err := Unmarshal(packet, userAuthGSSAPITokenReq); err != nil {
			return nil, nil, err
		}
	}
	packet, err := s.transport.readPacket()
	if err != nil {
		return nil, nil, err
	}
	userAuthGSSAPIMICReq := &userAuthGSSAPIMIC{}
	if err := Unmarshal(packet, userAuthGSSAPIMICReq); err != nil {
		return nil, nil, err
	}
	mic := buildMIC(string(sessionID), userAuthReq.User, userAuthReq.Service, userAuthReq.Method)
	if err := gssAPIServer.VerifyMIC(mic, userAuthGSSAPIMICReq.MIC); err != nil {
		return err, nil, nil
	}
	perms, authErr = gssapiConfig.AllowLogin(s, srcName)
	return authErr, perms, nil
}

// ServerAuthError represents server authentication errors and is
// sometimes returned by NewServerConn. It appends any authentication
// errors that may occur, and is returned if all of the authentication
// methods provided by the user failed to authenticate.
type ServerAuthError struct {
	// Errors contains authentication errors returned by the authentication
	// callback methods. The first entry is typically ErrNoAuth.
	Errors []error
}

func (l ServerAuthError) Error() string {
	var errs []string
	for _, err := range l.Errors {
		errs = append(errs, err.Error())
	}
	return "[" + strings.Join(errs, ", ") + "]"
}

// ErrNoAuth is the error value returned if no
// authentication method has been passed yet. This happens as a normal
// part of the authentication loop, since the client first tries
// 'none' authentication to discover available methods.
// It is returned in ServerAuthError.Errors from NewServerConn.
var ErrNoAuth = errors.New("ssh: no auth passed yet")

func (s *connection) serverAuthenticate(config *ServerConfig) (*Permissions, error) {
	sessionID := s.transport.getSessionID()
	var cache pubKeyCache
	var perms *Permissions

	authFailures := 0
	var authErrs []error
	var displayedBanner bool

userAuthLoop:
	for {
		if authFailures >= config.MaxAuthTries && config.MaxAuthTries > 0 {
			discMsg := &disconnectMsg{
				Reason:  2,
				Message: "too many authentication failures",
			}

			if err := s.transport.writePacket(Marshal(discMsg)); err != nil {
				return nil, err
			}

			return nil, discMsg
		}

		var userAuthReq userAuthRequestMsg
		if packet, err := s.transport.readPacket(); err != nil {
			if err == io.EOF {
				return nil, &ServerAuthError{Errors: authErrs}
			}
			return nil, err
		} else if err = Unmarshal(packet, &userAuthReq); err != nil {
			return nil, err
		}

		if userAuthReq.Service != serviceSSH {
			return nil, errors.New("ssh: client attempted to negotiate for unknown service: " + userAuthReq.Service)
		}

		s.user = userAuthReq.User

		if !displayedBanner && config.BannerCallback != nil {
			displayedBanner = true
			msg := config.BannerCallback(s)
			if msg != "" {
				bannerMsg := &userAuthBannerMsg{
					Message: msg,
				}
				if err := s.transport.writePacket(Marshal(bannerMsg)); err != nil {
					return nil, err
				}
			}
		}

		perms = nil
		authErr := ErrNoAuth

		switch userAuthReq.Method {
		case "none":
			if config.NoClientAuth {
				if config.NoClientAuthCallback != nil {
					perms, authErr = config.NoClientAuthCallback(s)
				} else {
					authErr = nil
				}
			}

			// allow initial attempt of 'none' without penalty
			if authFailures == 0 {
				authFailures--
			}
		case "password":
			if config.PasswordCallback == nil {
				authErr = errors.New("ssh: password auth not configured")
				break
			}
			payload := userAuthReq.Payload
			if len(payload) < 1 || payload[0] != 0 {
				return nil, parseError(msgUserAuthRequest)
			}
			payload = payload[1:]
			password, payload, ok := parseString(payload)
			if !ok || len(payload) > 0 {
				return nil, parseError(msgUserAuthRequest)
			}

			perms, authErr = config.PasswordCallback(s, password)
		case "keyboard-interactive":
			if config.KeyboardInteractiveCallback == nil {
				authErr = errors.New("ssh: keyboard-interactive auth not configured")
				break
			}

			prompter := &sshClientKeyboardInteractive{s}
			perms, authErr = config.KeyboardInteractiveCallback(s, prompter.Challenge)
		case "publickey":
			if config.PublicKeyCallback == nil {
				authErr = errors.New("ssh: publickey auth not configured")
				break
			}
			payload := userAuthReq.Payload
			if len(payload) < 1 {
				return nil, parseError(msgUserAuthRequest)
			}
			isQuery := payload[0] == 0
			payload = payload[1:]
			algoBytes, payload, ok := parseString(payload)
			if !ok {
				return nil, parseError(msgUserAuthRequest)
			}
			algo := string(algoBytes)
			if !contains(supportedPubKeyAuthAlgos, underlyingAlgo(algo)) {
				authErr = fmt.Errorf("ssh: algorithm %q not accepted", algo)
				break
			}

			pubKeyData, payload, ok := parseString(payload)
			if !ok {
				return nil, parseError(msgUserAuthRequest)
			}

			pubKey, err := ParsePublicKey(pubKeyData)
			if err != nil {
				return nil, err
			}

			candidate, ok := cache.get(s.user, pubKeyData)
			if !ok {
				candidate.user = s.user
				candidate.pubKeyData = pubKeyData
				candidate.perms, candidate.result = config.PublicKeyCallback(s, pubKey)
				if candidate.result == nil && candidate.perms != nil && candidate.perms.CriticalOptions != nil && candidate.perms.CriticalOptions[sourceAddressCriticalOption] != "" {
					candidate.result = checkSourceAddress(
						s.RemoteAddr(),
						candidate.perms.CriticalOptions[sourceAddressCriticalOption])
				}
				cache.add(candidate)
			}

			if isQuery {
				// The client can query if the given public key
				// would be okay.

				if len(payload) > 0 {
					return nil, parseError(msgUserAuthRequest)
				}

				if candidate.result == nil {
					okMsg := userAuthPubKeyOkMsg{
						Algo:   algo,
						PubKey: pubKeyData,
					}
					if err = s.transport.writePacket(Marshal(&okMsg)); err != nil {
						return nil, err
					}
					continue userAuthLoop
				}
				authErr = candidate.result
			} else {
				sig, payload, ok := parseSignature(payload)
				if !ok || len(payload) > 0 {
					return nil, parseError(msgUserAuthRequest)
				}

				// Ensure the public key algo and signature algo
				// are supported.  Compare the private key
				// algorithm name that corresponds to algo with
				// sig.Format.  This is usually the same, but
				// for certs, the names differ.
				if !contains(supportedPubKeyAuthAlgos, sig.Format) {
					authErr = fmt.Errorf("ssh: algorithm %q not accepted", sig.Format)
					break
				}
				if underlyingAlgo(algo) != sig.Format {
					authErr = fmt.Errorf("ssh: signature %q not compatible with selected algorithm %q", sig.Format, algo)
					break
				}

				signedData := buildDataSignedForAuth(sessionID, userAuthReq, algo, pubKeyData)

				if err := pubKey.Verify(signedData, sig); err != nil {
					return nil, err
				}

				authErr = candidate.result
				perms = candidate.perms
			}
		case "gssapi-with-mic":
			if config.GSSAPIWithMICConfig == nil {
				authErr = errors.New("ssh: gssapi-with-mic auth not configured")
				break
			}
			gssapiConfig := config.GSSAPIWithMICConfig
			userAuthRequestGSSAPI, err := parseGSSAPIPayload(userAuthReq.Payload)
			if err != nil {
				return nil, parseError(msgUserAuthRequest)
			}
			// OpenSSH supports Kerberos V5 mechanism only for GSS-API authentication.
			if userAuthRequestGSSAPI.N == 0 {
				authErr = fmt.Errorf("ssh: Mechanism negotiation is not supported")
				break
			}
			var i uint32
			present := false
			for i = 0; i < userAuthRequestGSSAPI.N; i++ {
				if userAuthRequestGSSAPI.OIDS[i].Equal(krb5Mesh) {
					present = true
					break
				}
			}
			if !present {
				authErr = fmt.Errorf("ssh: GSSAPI authentication must use the Kerberos V5 mechanism")
				break
			}
			// Initial server response, see RFC 4462 section 3.3.
			if err := s.transport.writePacket(Marshal(&userAuthGSSAPIResponse{
				SupportMech: krb5OID,
			})); err != nil {
				return nil, err
			}
			// Exchange token, see RFC 4462 section 3.4.
			packet, err := s.transport.readPacket()
			if err != nil {
				return nil, err
			}
			userAuthGSSAPITokenReq := &userAuthGSSAPIToken{}
			if err := Unmarshal(packet, userAuthGSSAPITokenReq); err != nil {
				return nil, err
			}
			authErr, perms, err = gssExchangeToken(gssapiConfig, userAuthGSSAPITokenReq.Token, s, sessionID,
				userAuthReq)
			if err != nil {
				return nil, err
			}
		default:
			authErr = fmt.Errorf("ssh: unknown method %q", userAuthReq.Method)
		}

		authErrs = append(authErrs, authErr)

		if config.AuthLogCallback != nil {
			config.AuthLogCallback(s, userAuthReq.Method, authErr)
		}

		if authErr == nil {
			break userAuthLoop
		}

		authFailures++
		if config.MaxAuthTries > 0 && authFailures >= config.MaxAuthTries {
			// If we have hit the max attempts, don't bother sending the
			// final SSH_MSG_USERAUTH_FAILURE message, since there are
			// no more authentication methods which can be attempted,
			// and this message may cause the client to re-attempt
			// authentication while we send the disconnect message.
			// Continue, and trigger the disconnect at the start of
			// the loop.
			//
			// The SSH specification is somewhat confusing about this,
			// RFC 4252 Section 5.1 requires each authentication failure
			// be responded to with a respective SSH_MSG_USERAUTH_FAILURE
			// message, but Section 4 says the server should disconnect
			// after some number of attempts, but it isn't explicit which
			// message should take precedence (i.e. should there be a failure
			// message than a disconnect message, or if we are going to
			// disconnect, should we only send that message.)
			//
			// Either way, OpenSSH disconnects immediately after the last
			// failed authnetication attempt, and given they are typically
			// considered the golden implementation it seems reasonable
			// to match that behavior.
			continue
		}

		var failureMsg userAuthFailureMsg
		if config.PasswordCallback != nil {
			failureMsg.Methods = append(failureMsg.Methods, "password")
		}
		if config.PublicKeyCallback != nil {
			failureMsg.Methods = append(failureMsg.Methods, "publickey")
		}
		if config.KeyboardInteractiveCallback != nil {
			failureMsg.Methods = append(failureMsg.Methods, "keyboard-interactive")
		}
		if config.GSSAPIWithMICConfig != nil && config.GSSAPIWithMICConfig.Server != nil &&
			config.GSSAPIWithMICConfig.AllowLogin != nil {
			failureMsg.Methods = append(failureMsg.Methods, "gssapi-with-mic")
		}

		if len(failureMsg.Methods) == 0 {
			return nil, errors.New("ssh: no authentication methods configured but NoClientAuth is also false")
		}

		if err := s.transport.writePacket(Marshal(&failureMsg)); err != nil {
			return nil, err
		}
	}

	if err := s.transport.writePacket([]byte{msgUserAuthSuccess}); err != nil {
		return nil, err
	}
	return perms, nil
}

// sshClientKeyboardInteractive implements a ClientKeyboardInteractive by
// asking the client on the other side of a ServerConn.
type sshClientKeyboardInteractive struct {
	*connection
}

func (c *sshClientKeyboardInteractive) Challenge(name, instruction string, questions []string, echos []bool) (answers []string, err error) {
	if len(questions) != len(echos) {
		return nil, errors.New("ssh: echos and questions must have equal length")
	}

	var prompts []byte
	for i := range questions {
		prompts = appendString(prompts, questions[i])
		prompts = appendBool(prompts, echos[i])
	}

	if err := c.transport.writePacket(Marshal(&userAuthInfoRequestMsg{
		Name:        name,
		Instruction: instruction,
		NumPrompts:  uint32(len(questions)),
		Prompts:     prompts,
	})); err != nil {
		return nil, err
	}

	packet, err := c.transport.readPacket()
	if err != nil {
		return nil, err
	}
	if packet[0] != msgUserAuthInfoResponse {
		return nil, unexpectedMessageError(msgUserAuthInfoResponse, packet[0])
	}
	packet = packet[1:]

	n, packet, ok := parseUint32(packet)
	if !ok || int(n) != len(questions) {
		return nil, parseError(msgUserAuthInfoResponse)
	}

	for i := uint32(0); i < n; i++ {
		ans, rest, ok := parseString(packet)
		if !ok {
			return nil, parseError(msgUserAuthInfoResponse)
		}

		answers = append(answers, string(ans))
		packet = rest
	}
	if len(packet) != 0 {
		return nil, errors.New("ssh: junk at end of message")
	}

	return answers, nil
}
