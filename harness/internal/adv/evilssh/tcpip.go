// Copyright 2011 The Go Authors. All rights reserved.
// Use of this source code is governed by a BSD-style
// license that can be found in the LICENSE file.

package ssh

import (
	"errors"
	"fmt"
	"io"
	"math/rand"
	"net"
	"strconv"
	"strings"
	"sync"
	"time"
)

// Listen requests the remote peer open a listening socket on
// addr. Incoming connections will be available by calling Accept on
// the returned net.Listener. The listener must be serviced, or the
// SSH connection may hang.
// N must be "tcp", "tcp4", "tcp6", or "unix".
func (c *Client) Listen(n, addr string) (net.Listener, error) {
	switch n {
	case "tcp", "tcp4", "tcp6":
		laddr, err := net.ResolveTCPAddr(n, addr)
		if err != nil {
			return nil, err
		}
		return c.ListenTCP(laddr)
	case "unix":
		return c.ListenUnix(addr)
	default:
		return nil, fmt.Errorf("ssh: unsupported protocol: %s", n)
	}
}

// Automatic port allocation is broken with OpenSSH before 6.0. See
// also https://bugzilla.mindrot.org/show_bug.cgi?id=2017.  In
// particular, OpenSSH 5.9 sends a channelOpenMsg with port number 0,
// rather than the actual port number. This means you can never open
// two different listeners with auto allocated ports. We work around
// this by trying explicit ports until we succeed.

const openSSHPrefix = "OpenSSH_"

var portRandomizer = rand.New(rand.NewSource(time.Now().UnixNano()))

// isBrokenOpenSSHVersion returns true if the given version string
// specifies a version of OpenSSH that is known to have a bug in port
// forwarding.
func isBrokenOpenSSHVersion(versionStr string) bool {
	i := strings.Index(versionStr, openSSHPrefix)
	if i < 0 {
		return false
	}
	i += len(openSSHPrefix)
	j := i
	for ; j < len(versionStr); j++ {
		if versionStr[j] < '0' || versionStr[j] > '9' {
			break
		}
	}
	version, _ := strconv.Atoi(versionStr[i:j])
	return version < 6
}

// autoPortListenWorkaround simulates automatic port allocation by
// trying random ports repeatedly.
func (c *Client) autoPortListenWorkaround(laddr *net.TCPAddr) (net.Listener, error) {
	var sshListener net.Listener
	var err error
	const tries = 10
	for i := 0; i < tries; i++ {
		addr := *laddr
		addr.Port = 1024 + portRandomizer.Intn(60000)
		sshListener, err = c.ListenTCP(&addr)
		if err == nil {
			laddr.Port = addr.Port
			return sshListener, err
		}
	}
	return nil, fmt.Errorf("ssh: listen on random port failed after %d tries: %v", tries, err)
}

// RFC 4254 7.1
type channelForwardMsg struct {
	addr  string
	rport uint32
}

// handleForwards starts goroutines handling forwarded connections.
// It's called on first use by (*Client).ListenTCP to not launch
// goroutines until needed.
func (c *Client) handleForwards() {
	go c.forwards.handleChannels(c.HandleChannelOpen("forwarded-tcpip"))
	go c.forwards.handleChannels(c.HandleChannelOpen("forwarded-streamlocal@openssh.com"))
}

// ListenTCP requests the remote peer open a listening socket
// on laddr. Incoming connections will be available by calling
// Accept on the returned net.Listener.
func (c *Client) ListenTCP(laddr *net.TCPAddr) (net.Listener, error) {
	c.handleForwardsOnce.Do(c.handleForwards)
	if laddr.Port == 0 && isBrokenOpenSSHVersion(string(c.ServerVersion())) {
		return c.autoPortListenWorkaround(laddr)
	}

	m := channelForwardMsg{
		laddr.IP.String(),
		uint32(laddr.Port),
	}
	// send message
	ok, resp, err := c.SendRequest("tcpip-forward", true, Marshal(&m))
	if err != nil {
		return nil, err
	}
	if !ok {
		return nil, errors.New("ssh: tcpip-forward request denied by peer")
	}

	// If the original port was 0, then the remote side will
	// supply a real port number in the response.
	if laddr.Port == 0 {
		var p struct {
			Port uint32
		}
		if err := Unmarshal(resp, &p); err != nil {
			return nil, err
		}
		laddr.Port = int(p.Port)
	}

	// Register this forward, using the port number we obtained.
	ch := c.forwards.add(laddr)

	return &tcpListener{laddr, c, ch}, nil
}

// forwardList stores a mapping between remote
// forward requests and the tcpListeners.
type forwardList struct {
	sync.Mutex
	entries []forwardEntry
}

// forwardEntry represents an established mapping of a laddr on a
// remote ssh server to a channel connected to a tcpListener.
type forwardEntry struct {
	laddr net.Addr
	c     chan forward
}

// forward represents an incoming forwarded tcpip connection. The
// arguments to add/remove/lookup should be address as specified in
// the original forward-request.
type forward struct {
	newCh NewChannel // the ssh client channel underlying this forward
	raddr net.Addr   // the raddr of the incoming connection
}

func (l *forwardList) add(addr net.Addr) chan forward {
	l.Lock()
	defer l.Unlock()
	f := forwardEntry{
		laddr: addr,
		c:     make(chan forward, 1),
	}
	l.entries = append(l.entries, f)
	return f.c
}

// See RFC 4254, section 7.2
type forwardedTCPPayload struct {
	Addr       string
	Port       uint32
	OriginAddr string
	OriginPort uint32
}

// parseTCPAddr parses the originating address from the remote into a *net.TCPAddr.
func parseTCPAddr(addr string, port uint32) (*net.TCPAddr, error) {
	if port == 0 || port > 65535 {
		return nil, fmt.Errorf("ssh: port number out of range: %d", port)
	}
	ip := net.ParseIP(string(addr))
	if ip == nil {
		return nil, fmt.Errorf("ssh: cannot parse IP address %q", addr)
	}
	return &net.TCPAddr{IP: ip, Port: int(port)}, nil
}

func (l *forwardList) handleChannels(in <-chan NewChannel) {
	for ch := range in {
		var (
			laddr net.Addr
			raddr net.Addr
			err   error
		)
		switch channelType := ch.ChannelType(); channelType {
		case "forwarded-tcpip":
			var payload forwardedTCPPayload
			if err = Unmarshal(ch.ExtraData(), &payload); err != nil {
				ch.Reject(ConnectionFailed, "could not parse forwarded-tcpip payload: "+err.Error())
				continue
			}

			// RFC 4254 section 7.2 specifies that incoming
			// addresses should list the address, in string
			// format. It is implied that this should be an IP
			// address, as it would be impossible to connect to it
			// otherwise.
			laddr, err = parseTCPAddr(payload.Addr, payload.Port)
			if err != nil {
				ch.Reject(ConnectionFailed, err.Error())
				continue
			}
			raddr, err = parseTCPAddr(payload.OriginAddr, payload.OriginPort)
			if err != nil {
				ch.Reject(ConnectionFailed, err.Error())
				continue
			}

		case "forwarded-streamlocal@openssh.com":
			var payload forwardedStreamLocalPayload
			if err = Unmarshal(ch.ExtraData(), &payload); err != nil {
				ch.Reject(ConnectionFailed, "could not parse forwarded-streamlocal@openssh.com payload: "+err.Error())
				continue
			}
			laddr = &net.UnixAddr{
				Name: payload.SocketPath,
				Net:  "unix",
			}
			raddr = &net.UnixAddr{
				Name: "@",
				Net:  "unix",
			}
		default:
			panic(fmt.Errorf("ssh: unknown channel type %s", channelType))
		}
		if ok := l.forward(laddr, raddr, ch); !ok {
			// Section 7.2, implementations MUST reject spurious incoming
			// connections.
			ch.Reject(Prohibited, "no forward for address")
			continue
		}

	}
}

// remove removes the forward entry, and the channel feeding its
// listener.
func (l *forwardList) remove(addr net.Addr) {
	l.Lock()
	defer l.Unlock()
	for i, f := range l.entries {
		if addr.Network() == f.laddr.Network() && addr.String() == f.laddr.String() {
			l.entries = append(l.entries[:i], l.entries[i+1:]...)
			close(f.c)
			return
		}
	}
}

// closeAll closes and clears all forwards.
func (l *forwardList) closeAll() {
	l.Lock()
	defer l.Unlock()
	for _, f := range l.entries {
		close(f.c)
	}
	l.entries = nil
}

func (l *forwardList) forward(laddr, raddr net.Addr, ch NewChannel) bool {
	l.Lock()
	defer l.Unlock()
	for _, f := range l.entries {
		if laddr.Network() == f.laddr.Network() && laddr.String() == f.laddr.String() {
			f.c <- forward{newCh: ch, raddr: raddr}
			return true
		}
	}
	return false
}

type tcpListener struct {
	laddr *net.TCPAddr

	conn *Client
	in   <-chan forward
}

// Accept waits for and returns the next connection to the listener.
func (l *tcpListener) Accept() (net.Conn, error) {
	s, ok := <-l.in
	if !ok {
		return nil, io.EOF
	}
	ch, incoming, err := s.newCh.Accept()
	if err != nil {
		return nil, err
	}
	go DiscardRequests(incoming)

	return &chanConn{
		Channel: ch,
		laddr:   l.laddr,
		raddr:   s.raddr,
	}, nil
}

// Close closes the listener.
func (l *tcpListener) Close() error {
	m := channelForwardMsg{
		l.laddr.IP.String(),
		uint32(l.laddr.Port),
	}

	// this also closes the listener.
	l.conn.forwards.remove(l.laddr)
	ok, _, err := l.conn.SendRequest("cancel-tcpip-forward", true, Marshal(&m))
	if err == nil && !ok {
		err = errors.New("ssh: cancel-tcpip-forward failed")
	}
	return err
}

// Addr returns the listener's network address.
func (l *tcpListener) Addr() net.Addr {
	return l.laddr
}

// Dial initiates a connection to the addr from the remote host.
// The resulting connection has a zero LocalAddr() and RemoteAddr().
func (c *Client) Dial(n, addr string) (net.Conn, error) {
	var ch Channel
	switch n {
	case "tcp", "tcp4", "tcp6":
		// Parse the address into host and numeric port.
		host, portString, err := net.SplitHostPort(addr)
		if err != nil {
			return nil, err
		}
		port, err := strconv.ParseUint(portString, 10, 16)
		if err != nil {
			return nil, err
		}
		ch, err = c.dial(net.IPv4zero.String(), 0, host, int(port))
		if err != nil {
			return nil, err
		}
		// Use a zero address for local and remote address.
		zeroAddr := &net.TCPAddr{
			IP:   net.IPv4zero,
			Port: 0,
		}
		return &chanConn{
			Channel: ch,
			laddr:   zeroAddr,
			raddr:   zeroAddr,
		}, nil
	case "unix":
		var err error
		ch, err = c.dialStreamLocal(addr)
		if err != nil {
			return nil, err
		}
		return &chanConn{
			Channel: ch,
			laddr: &net.UnixAddr{
				Name: "@",
				Net:  "unix",
			},
			raddr: &net.UnixAddr{
				Name: addr,
				Net:  "unix",
			},
		}, nil
	default:
		return nil, fmt.Errorf("ssh: unsupported protocol: %s", n)
	}
}

// DialTCP connects to the remote address raddr on the network net,
// which must be "tcp", "tcp4", or "tcp6".  If laddr is not nil, it is used
// as the local address for the connection.
func (c *Client) DialTCP(n string, laddr, raddr *net.TCPAddr) (net.Conn, error) {
	if laddr == nil {
		laddr = &net.TCPAddr{
			IP:   net.IPv4zero,
			Port: 0,
		}
	}
	ch, err := c.dial(laddr.IP.String(), laddr.Port, raddr.IP.String(), raddr.Port)
	if err != nil {
		return nil, err
	}
	return &chanConn{
		Channel: ch,
		laddr:   laddr,
		raddr:   raddr,
	}, nil
}

// RFC 4254 7.2
type channelOpenDirectMsg struct {
	raddr string
	rport uint32
	laddr string
	lport uint32
}

func (c *Client) dial(laddr string, lport int, raddr string, rport int) (Channel, error) {
	msg := channelOpenDirectMsg{
		raddr: raddr,
		rport: uint32(rport),
		laddr: laddr,
		lport: uint32(lport),
	}
	ch, in, err := c.OpenChannel("direct-tcpip", Marshal(&msg))
	if err != nil {
		return nil, err
	}
	go DiscardRequests(in)
	return ch, err
}

type tcpChan struct {
	Channel // the backing channel
}

// chanConn fulfills the net.Conn interface without
// the tcpChan having to hold laddr or raddr directly.
type chanConn struct {
	Channel
	laddr, raddr net.Addr
}

// LocalAddr returns the local network address.
func (t *chanConn) LocalAddr() net.Addr {
	return t.laddr
}

// RemoteAddr returns the remote network address.
func (t *chanConn) RemoteAddr() net.Addr {
	return t.raddr
}

// SetDeadline sets the read and write deadlines associated
// with the connection.
func (t *chanConn) SetDeadline(deadline time.Time) error {
	if err := t.SetReadDeadline(deadline); err != nil {
		return err
	}
	return t.SetWriteDeadline(deadline)
}

// SetReadDeadline sets the read deadline.
// A zero value for t means Read will not time out.
// After the deadline, the error from Read will implement net.Error
// with Timeout() == true.
func (t *chanConn) SetReadDeadline(deadline time.Time) error {
	// for compatibility with previous version,
	// the error message contains "tcpChan"
	return errors.New("ssh: tcpChan: deadline not supported")
}

// SetWriteDeadline exists to satisfy the net.Conn interface
// but is not implemented by this type.  It always returns an error.
func (t *chanConn) SetWriteDeadline(deadline time.Time) error {
	return errors.New("ssh: tcpChan: deadline not supported")
}
