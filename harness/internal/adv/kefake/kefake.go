// Package kefake is a Dolev-Yao style forger for the P2PKE wire protocol, built from first
// principles. It only ever signs with the private key of the identity index it is told to act as.
package kefake

import (
	"encoding/binary"
	"io"
	"time"

	"github.com/flynn/noise"
	"go.brendoncarroll.net/p2p/f/x509"
	"go.brendoncarroll.net/p2p/p/p2pke"
	"go.brendoncarroll.net/tai64"
	"golang.org/x/crypto/blake2b"
	"google.golang.org/protobuf/proto"

	"verif/harness/internal/stack"
)

// The forger builds P2PKE messages from first principles (flynn/noise NN with
// 25519/ChaChaPoly/BLAKE2b, the exported protobuf message types, the documented
// purpose-tagged pre-hash). It only ever signs with its own private key.

var suite = noise.NewCipherSuite(noise.DH25519, noise.CipherChaChaPoly, noise.HashBLAKE2b)

const (
	PurposeCB = "p2pke/channel-binding"
	PurposeTS = "p2pke/timestamp"
)

func Header(counter uint32) []byte {
	h := make([]byte, 4)
	binary.BigEndian.PutUint32(h, counter)
	return h
}

func PreSig(purpose string, msg []byte) []byte {
	h, err := blake2b.NewXOF(64, nil)
	if err != nil {
		panic(err)
	}
	h.Write([]byte{uint8(len(purpose))})
	h.Write([]byte(purpose))
	h.Write(msg)
	out := make([]byte, 64)
	if _, err := io.ReadFull(h, out); err != nil {
		panic(err)
	}
	return out
}

// signAs signs with the private key of test identity i (the forger only calls
// this with its own identity).
func SignAs(i int, purpose string, msg []byte) []byte {
	priv := stack.PrivKey(i)
	signer, err := stack.Registry.LoadSigner(&priv)
	if err != nil {
		panic(err)
	}
	sig, err := signer.Sign(nil, PreSig(purpose, msg))
	if err != nil {
		panic(err)
	}
	return sig
}

func MarshalKey(i int) []byte {
	pub := stack.PubOf(i)
	return x509.MarshalPublicKey(nil, &pub)
}

func pb(m proto.Message) []byte {
	b, err := proto.Marshal(m)
	if err != nil {
		panic(err)
	}
	return b
}

// Peer is the attacker's side of one handshake with the honest session.
type Peer struct {
	IsInit  bool
	HS      *noise.HandshakeState
	Out, In noise.Cipher
	Counter uint32
}

func NewPeer(isInit bool) *Peer {
	hs, err := noise.NewHandshakeState(noise.Config{Initiator: isInit, Pattern: noise.HandshakeNN, CipherSuite: suite})
	if err != nil {
		panic(err)
	}
	return &Peer{IsInit: isInit, HS: hs, Counter: 16}
}

// initHello builds an InitHello carrying the given claim.
func (f *Peer) InitHello(ts []byte, keyX509, sig []byte) []byte {
	body := pb(&p2pke.InitHello{Version: 1, TimestampTai64N: ts, KeyX509: keyX509, Sig: sig})
	body = append(body, byte(len(body)>>8), byte(len(body)))
	msg, _, _, err := f.HS.WriteMessage(Header(0), body)
	if err != nil {
		panic(err)
	}
	return msg
}

// readInitHello consumes the honest initiator's InitHello (as responder) and
// returns the channel binding a RespHello signature must cover.
func (f *Peer) ReadInitHello(msg []byte) (cb []byte, ok bool) {
	if _, _, _, err := f.HS.ReadMessage(nil, msg[4:]); err != nil {
		return nil, false
	}
	return append([]byte{}, f.HS.ChannelBinding()...), true
}

// respHello builds the RespHello and derives the transport ciphers.
func (f *Peer) RespHello(keyX509, sig []byte) []byte {
	msg, cs1, cs2, err := f.HS.WriteMessage(Header(1), pb(&p2pke.RespHello{KeyX509: keyX509, Sig: sig}))
	if err != nil {
		panic(err)
	}
	// responder: out = cs2, in = cs1
	f.Out, f.In = cs2.Cipher(), cs1.Cipher()
	return msg
}

// readRespHello consumes the honest responder's RespHello (as initiator) and
// returns the channel binding an InitDone signature must cover.
func (f *Peer) ReadRespHello(msg []byte) (cb []byte, ok bool) {
	_, cs1, cs2, err := f.HS.ReadMessage(nil, msg[4:])
	if err != nil || cs1 == nil {
		return nil, false
	}
	f.Out, f.In = cs1.Cipher(), cs2.Cipher()
	return append([]byte{}, f.HS.ChannelBinding()...), true
}

func (f *Peer) InitDone(sig []byte) []byte {
	h := Header(2)
	return f.Out.Encrypt(h, 2, h, pb(&p2pke.InitDone{Sig: sig}))
}

func (f *Peer) RespDone() []byte {
	h := Header(3)
	return f.Out.Encrypt(h, 3, h, nil)
}

func (f *Peer) Data(pt []byte) []byte {
	c := f.Counter
	f.Counter++
	h := Header(c)
	return f.Out.Encrypt(h, uint64(c), h, pt)
}

func (f *Peer) HasCiphers() bool { return f.Out != nil }

func TSBytes(sec int64) []byte {
	ts := tai64.FromGoTime(time.Unix(1_700_000_000, 0)).Marshal()
	_ = sec
	return ts[:]
}

// TSNow is the current time as a TAI64N hello timestamp.
func TSNow() []byte {
	ts := tai64.FromGoTime(time.Now()).Marshal()
	return ts[:]
}

type constReader byte

func (c constReader) Read(p []byte) (int, error) {
	for i := range p {
		p[i] = byte(c) + byte(i)
	}
	return len(p), nil
}

// NewTwinPeers returns two peers whose noise states use the same ephemeral key, so that
// the first handshake message they write is byte-identical: the adversary can run one
// handshake against the victim and the other against its target with the same hello.
func NewTwinPeers(isInit bool, seed byte) (*Peer, *Peer) {
	mk := func() *Peer {
		hs, err := noise.NewHandshakeState(noise.Config{Initiator: isInit, Pattern: noise.HandshakeNN, CipherSuite: suite, Random: constReader(seed)})
		if err != nil {
			panic(err)
		}
		return &Peer{IsInit: isInit, HS: hs, Counter: 16}
	}
	return mk(), mk()
}

// RespHelloSig extracts the responder's signature from a RespHello (as initiator, after InitHello).
func (f *Peer) RespHelloSig(msg []byte) (sig []byte, cb []byte, ok bool) {
	payload, cs1, cs2, err := f.HS.ReadMessage(nil, msg[4:])
	if err != nil || cs1 == nil {
		return nil, nil, false
	}
	f.Out, f.In = cs1.Cipher(), cs2.Cipher()
	var rh p2pke.RespHello
	if err := proto.Unmarshal(payload, &rh); err != nil {
		return nil, nil, false
	}
	return rh.Sig, append([]byte{}, f.HS.ChannelBinding()...), true
}
