// Package ev collects evidence counters from the property checks: how many
// cases were evaluated, how many were distinct and non-trivial, class
// histograms and written-out samples. It also gives checks read-only access to
// the known-findings file. Results are flushed to the file named by
// $VERIF_STATS when the test binary exits (see Main).
package ev

import (
	"bufio"
	"encoding/json"
	"fmt"
	"hash/fnv"
	"os"
	"sort"
	"strings"
	"sync"
	"testing"
)

const maxSamples = 6

type sub struct {
	Evaluations int64            `json:"evaluations"`
	Hashes      map[uint64]bool  `json:"-"`
	HashList    []uint64         `json:"hashes"`
	Classes     map[string]int64 `json:"classes"`
	Samples     []any            `json:"samples"`
	Known       map[string]int64 `json:"known"`
	Rule        string           `json:"rule"`
	Exhaustive  bool             `json:"exhaustive"`
	Notes       []string         `json:"notes"`
	Extra       map[string]any   `json:"extra"`
}

var (
	mu   sync.Mutex
	subs = map[string]*sub{}
)

func get(name string) *sub {
	s := subs[name]
	if s == nil {
		s = &sub{Hashes: map[uint64]bool{}, Classes: map[string]int64{}, Known: map[string]int64{}, Extra: map[string]any{}}
		subs[name] = s
	}
	return s
}

// Rule records the generation / non-triviality rule of a sub-property.
func Rule(name, rule string) {
	mu.Lock()
	defer mu.Unlock()
	get(name).Rule = rule
}

// Eval counts one executed case.
func Eval(name string) {
	mu.Lock()
	defer mu.Unlock()
	get(name).Evaluations++
}

// EvalN counts n executed cases.
func EvalN(name string, n int64) {
	mu.Lock()
	defer mu.Unlock()
	get(name).Evaluations += n
}

func hash(key string) uint64 {
	h := fnv.New64a()
	h.Write([]byte(key))
	return h.Sum64()
}

// NonTrivial records that a case, identified by its canonical description
// key, was non-trivial under the sub-property's rule. Returns true when the
// key was new.
func NonTrivial(name, key string) bool {
	h := hash(key)
	mu.Lock()
	defer mu.Unlock()
	s := get(name)
	if s.Hashes[h] {
		return false
	}
	if len(s.Hashes) >= maxHashes {
		// very long campaigns: the set stops growing, the reported number of distinct cases is then a lower bound
		s.Extra["distinct_set_capped_at"] = maxHashes
		return false
	}
	s.Hashes[h] = true
	return true
}

// maxHashes bounds the memory of the distinct-case set of one process (and the size of its statistics file).
const maxHashes = 1500000

// Class increments a histogram bucket.
func Class(name, class string) {
	mu.Lock()
	defer mu.Unlock()
	get(name).Classes[class]++
}

// ClassN adds n to a histogram bucket.
func ClassN(name, class string, n int64) {
	mu.Lock()
	defer mu.Unlock()
	get(name).Classes[class] += n
}

// Sample stores a written-out case (only the first few are kept).
func Sample(name string, v any) {
	mu.Lock()
	defer mu.Unlock()
	s := get(name)
	if len(s.Samples) < maxSamples {
		s.Samples = append(s.Samples, v)
	}
}

// WantSample tells whether another sample would be kept (to avoid the cost of
// rendering it otherwise).
func WantSample(name string) bool {
	mu.Lock()
	defer mu.Unlock()
	return len(get(name).Samples) < maxSamples
}

// Exhaustive marks the sub-property as having enumerated its finite space.
func Exhaustive(name string, note string) {
	mu.Lock()
	defer mu.Unlock()
	s := get(name)
	s.Exhaustive = true
	if note != "" {
		s.Notes = append(s.Notes, note)
	}
}

// Note attaches a free-text observation.
func Note(name, note string) {
	mu.Lock()
	defer mu.Unlock()
	s := get(name)
	for _, n := range s.Notes {
		if n == note {
			return
		}
	}
	s.Notes = append(s.Notes, note)
}

// Extra attaches a named value.
func Extra(name, k string, v any) {
	mu.Lock()
	defer mu.Unlock()
	get(name).Extra[k] = v
}

// ---- known findings ----

var (
	knownOnce sync.Once
	known     map[string]bool // "<property> <key>"
)

func loadKnown() {
	known = map[string]bool{}
	path := os.Getenv("VERIF_KNOWN")
	if path == "" {
		return
	}
	f, err := os.Open(path)
	if err != nil {
		return
	}
	defer f.Close()
	sc := bufio.NewScanner(f)
	for sc.Scan() {
		line := strings.TrimSpace(sc.Text())
		if !strings.HasPrefix(line, "finding:") {
			continue
		}
		var prop, key string
		for _, f := range strings.Fields(line) {
			if strings.HasPrefix(f, "property=") {
				prop = strings.TrimPrefix(f, "property=")
			}
			if strings.HasPrefix(f, "key=") {
				key = strings.TrimPrefix(f, "key=")
			}
		}
		if prop != "" && key != "" {
			known[prop+" "+key] = true
		}
	}
}

// Known reports whether a violation with this signature is listed in the
// known-findings file for the property. If so it is counted (and excluded by
// the caller) rather than reported.
func Known(name, property, key string) bool {
	knownOnce.Do(loadKnown)
	if !known[property+" "+key] {
		return false
	}
	mu.Lock()
	defer mu.Unlock()
	get(name).Known[key]++
	return true
}

// ---- replay artefacts for non-rapid checks ----

// SaveReplay writes a JSON case description into $VERIF_REPLAY_DIR and returns
// its path ("" if the directory is not configured).
func SaveReplay(name string, v any) string {
	dir := os.Getenv("VERIF_REPLAY_DIR")
	if dir == "" {
		return ""
	}
	os.MkdirAll(dir, 0o755)
	b, _ := json.MarshalIndent(map[string]any{"sub": name, "case": v}, "", " ")
	p := fmt.Sprintf("%s/%s-%d.json", dir, name, os.Getpid())
	if err := os.WriteFile(p, b, 0o644); err != nil {
		return ""
	}
	return p
}

// ReplayCase loads the "case" member of the JSON replay file named by
// $VERIF_REPLAY_FILE into v. It returns false when no replay is requested.
func ReplayCase(name string, v any) bool {
	p := os.Getenv("VERIF_REPLAY_FILE")
	if p == "" {
		return false
	}
	b, err := os.ReadFile(p)
	if err != nil {
		return false
	}
	var w struct {
		Sub  string          `json:"sub"`
		Case json.RawMessage `json:"case"`
	}
	if json.Unmarshal(b, &w) != nil || w.Sub != name {
		return false
	}
	return json.Unmarshal(w.Case, v) == nil
}

// Tier returns "quick" or "thorough".
func Tier() string {
	if os.Getenv("VERIF_TIER") == "thorough" {
		return "thorough"
	}
	return "quick"
}

// Thorough is shorthand for Tier()=="thorough".
func Thorough() bool { return Tier() == "thorough" }

// Flush writes the collected statistics.
func Flush() {
	path := os.Getenv("VERIF_STATS")
	if path == "" {
		return
	}
	mu.Lock()
	defer mu.Unlock()
	for _, s := range subs {
		s.HashList = s.HashList[:0]
		for h := range s.Hashes {
			s.HashList = append(s.HashList, h)
		}
		sort.Slice(s.HashList, func(i, j int) bool { return s.HashList[i] < s.HashList[j] })
	}
	b, err := json.Marshal(subs)
	if err != nil {
		fmt.Fprintln(os.Stderr, "ev: marshal:", err)
		return
	}
	tmp := path + ".tmp"
	if err := os.WriteFile(tmp, b, 0o644); err == nil {
		os.Rename(tmp, path)
	}
}

// Main wraps testing.M so that statistics are flushed on exit.
func Main(m *testing.M) {
	code := m.Run()
	Flush()
	os.Exit(code)
}

// Tag marks a harness failure message as inconclusive when it stems from the environment rather than
// from the code under test (no free port, descriptor or memory limits); the driver then exits 2 instead
// of reporting a violation.
func Tag(msg string) string {
	for _, p := range []string{"address already in use", "too many open files", "cannot assign requested address", "no buffer space", "cannot allocate memory", "bind:", "listen udp", "listen tcp", "connection refused", "i/o timeout", "harness: dial"} {
		if strings.Contains(msg, p) {
			return "VERIF-INCONCLUSIVE " + msg
		}
	}
	return msg
}
