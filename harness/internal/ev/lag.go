package ev

import (
	"sync"
	"time"
)

// Scheduling-lag probe.
//
// Several checks use wall-clock limits to tell "returns promptly" from "never returns". On a machine
// that is busy with other work a goroutine can wait tens or hundreds of milliseconds for a CPU, which
// says nothing about the code under test. The probe measures how late 1 ms sleeps of a goroutine in this
// process wake up; verdicts that depend on a time limit consult it and either wait longer or abstain.

type lagSample struct {
	at  time.Time
	lag time.Duration
}

var (
	lagOnce sync.Once
	lagMu   sync.Mutex
	lagRing [32768]lagSample // at least 30 s of history
	lagPos  int
)

// The probe runs from process start: a verdict must never find it without samples for the period it asks
// about (a child worker's first case did, at load average 300, and a time-out was reported as a refusal).
func init() { startLagProbe() }

var lagStarted time.Time

func startLagProbe() {
	lagOnce.Do(func() {
		lagStarted = time.Now()
		go func() {
			for {
				t0 := time.Now()
				time.Sleep(time.Millisecond)
				now := time.Now()
				lag := now.Sub(t0) - time.Millisecond
				lagMu.Lock()
				lagRing[lagPos%len(lagRing)] = lagSample{at: now, lag: lag}
				lagPos++
				lagMu.Unlock()
			}
		}()
	})
}

// MaxLagSince returns the largest wake-up delay the probe saw since t (0 if the probe has no sample yet).
// A gap in the probe's own samples counts as lag: if the probe itself could not run, nothing could.
func MaxLagSince(t time.Time) time.Duration {
	startLagProbe()
	lagMu.Lock()
	defer lagMu.Unlock()
	var worst time.Duration
	var last time.Time
	if lagPos == 0 && time.Since(lagStarted) > 2*time.Millisecond+Responsive {
		// the probe goroutine has not produced a single sample although it had time to: that is lag
		return time.Since(lagStarted)
	}
	n := min(lagPos, len(lagRing))
	for i := 0; i < n; i++ {
		s := lagRing[(lagPos-1-i)%len(lagRing)]
		if s.at.Before(t) {
			break
		}
		if s.lag > worst {
			worst = s.lag
		}
		if last.IsZero() {
			last = s.at
		}
	}
	if !last.IsZero() {
		if d := time.Since(last) - time.Millisecond; d > worst {
			worst = d
		}
	}
	return worst
}

// Responsive is the lag below which the machine is considered to have been responsive.
const Responsive = 20 * time.Millisecond

// Patient polls cond until it holds. It gives up after base if the machine was responsive all along;
// if it was not, it keeps waiting up to max(10*base, 20 s) before it gives up. The result says whether
// cond became true. A limit that is hit therefore means "the code did not get there although it had the
// CPU", not "the machine was busy".
func Patient(base time.Duration, cond func() bool) bool {
	startLagProbe()
	start := time.Now()
	ext := 10 * base
	if ext < 20*time.Second {
		ext = 20 * time.Second
	}
	step := base / 200
	if step < 200*time.Microsecond {
		step = 200 * time.Microsecond
	}
	if step > 5*time.Millisecond {
		step = 5 * time.Millisecond
	}
	for {
		if cond() {
			return true
		}
		el := time.Since(start)
		if el > ext {
			return false
		}
		if el > base && MaxLagSince(start) < Responsive {
			return false
		}
		time.Sleep(step)
	}
}

// Stalled reports whether the machine was unresponsive at some point since t; verdicts that rest on a
// short time allowance abstain when it was.
func Stalled(t time.Time) bool { return MaxLagSince(t) >= Responsive }

// PatientCh is Patient for a channel that is closed (or receives) when the awaited event happens.
func PatientCh[T any](base time.Duration, ch <-chan T) bool {
	startLagProbe()
	start := time.Now()
	ext := 10 * base
	if ext < 20*time.Second {
		ext = 20 * time.Second
	}
	select {
	case <-ch:
		return true
	case <-time.After(base):
	}
	for {
		if MaxLagSince(start) < Responsive || time.Since(start) > ext {
			return false
		}
		select {
		case <-ch:
			return true
		case <-time.After(base / 4):
		}
	}
}

// PatientRecv waits for a value on ch the way Patient waits for a condition.
func PatientRecv[T any](base time.Duration, ch <-chan T) (v T, ok bool) {
	startLagProbe()
	start := time.Now()
	ext := 10 * base
	if ext < 20*time.Second {
		ext = 20 * time.Second
	}
	select {
	case v = <-ch:
		return v, true
	case <-time.After(base):
	}
	for {
		if MaxLagSince(start) < Responsive || time.Since(start) > ext {
			return v, false
		}
		select {
		case v = <-ch:
			return v, true
		case <-time.After(base / 4):
		}
	}
}

// Extended is the longest time Patient, PatientCh and PatientRecv wait for a limit of base.
func Extended(base time.Duration) time.Duration {
	ext := 10 * base
	if ext < 20*time.Second {
		ext = 20 * time.Second
	}
	return ext
}
