package swarms

import (
	"bytes"
	"context"
	"fmt"
	"sort"
	"strings"
	"sync"
	"testing"
	"time"

	"go.brendoncarroll.net/p2p"
	"pgregory.net/rapid"

	"verif/harness/internal/ev"
	"verif/harness/internal/ledger"
	"verif/harness/internal/stack"
)

type send struct {
	src, dst  int
	size      int
	class     string
	vec       int  // number of iovec buffers
	overwrite bool // scribble over the buffers right after Tell returns
	group     int  // sends of a group are issued concurrently
}

type received struct {
	node     int
	src, dst string
	payload  []byte
}

// sizeFor picks a payload length for a class relative to the stack's MTU.
func sizeFor(class string, mtu int, part int) int {
	switch class {
	case "0":
		return 0
	case "1":
		return 1
	case "15":
		return min(15, mtu)
	case "16":
		return min(16, mtu)
	case "small":
		return min(100, mtu)
	case "part-1":
		return clamp(part-1, 0, mtu)
	case "part":
		return clamp(part, 0, mtu)
	case "part+1":
		return clamp(part+1, 0, mtu)
	case "2part+1":
		return clamp(2*part+1, 0, mtu)
	case "mtu-1":
		return max(0, mtu-1)
	case "mtu":
		return mtu
	case "half":
		return mtu / 2
	case "mtu+1":
		return mtu + 1
	case "mtu+part":
		return mtu + part
	case "mtu+2part":
		return mtu + 2*part
	case "mtu+5part+1":
		return mtu + 5*part + 1
	}
	return min(64, mtu)
}

func clamp(x, lo, hi int) int {
	if x < lo {
		return lo
	}
	if x > hi {
		return hi
	}
	return x
}

var sizeClasses = []string{"0", "1", "15", "16", "small", "small", "part-1", "part", "part+1", "2part+1", "mtu-1", "mtu", "half"}

// c01Classes additionally probes just above the advertised MTU: such a payload must either be refused or,
// if Tell accepts it, arrive intact like any other.
var c01Classes = append(append([]string{}, sizeClasses...), "mtu+1", "mtu+part", "mtu+2part", "mtu+5part+1")

func addrText(a p2p.Addr) string {
	b, err := a.MarshalText()
	if err != nil {
		return "ERR:" + err.Error()
	}
	return string(b)
}

// runWorkload executes the sends on a world and returns everything received.
var scribbleTail = bytes.Repeat([]byte{0xEE}, 48)

func runWorkload(w *stack.World, led *ledger.Ledger, sends []send, recvLoops int, scribble bool, settle time.Duration) (recvd []received, entries []*ledger.Entry, sendErrs []error, problems []string) {
	ctx, cancel := context.WithCancel(context.Background())
	var mu sync.Mutex
	var rwg sync.WaitGroup
	for i, nd := range w.Nodes {
		for k := 0; k < recvLoops; k++ {
			i, nd := i, nd
			rwg.Add(1)
			go func() {
				defer rwg.Done()
				for {
					err := nd.S.Receive(ctx, func(m stack.Msg) {
						r := received{node: i, src: addrText(m.Src), dst: addrText(m.Dst), payload: append([]byte{}, m.Payload...)}
						if scribble {
							for j := range m.Payload {
								m.Payload[j] = 0xEE
							}
							// "All of the message's fields may be modified inside fn": growing the payload in place
							// (as a handler that appends a trailer does) must not reach another message's bytes
							m.Payload = append(m.Payload, scribbleTail...)
						}
						mu.Lock()
						recvd = append(recvd, r)
						mu.Unlock()
					})
					if err != nil {
						return
					}
				}
			}()
		}
	}
	entries = make([]*ledger.Entry, len(sends))
	sendErrs = make([]error, len(sends))
	// issue sends group by group
	groups := map[int][]int{}
	var order []int
	for i, s := range sends {
		if _, ok := groups[s.group]; !ok {
			order = append(order, s.group)
		}
		groups[s.group] = append(groups[s.group], i)
	}
	sort.Ints(order)
	for _, g := range order {
		var wg sync.WaitGroup
		for _, i := range groups[g] {
			i := i
			s := sends[i]
			e := led.Make(s.src, s.dst, s.size)
			entries[i] = e
			wg.Add(1)
			go func() {
				defer wg.Done()
				// private copy split into iovec buffers
				priv := append([]byte{}, e.Data...)
				var vec p2p.IOVec
				n := max(1, s.vec)
				for k := 0; k < n; k++ {
					lo, hi := len(priv)*k/n, len(priv)*(k+1)/n
					vec = append(vec, priv[lo:hi:hi])
				}
				bufs := append(p2p.IOVec{}, vec...)
				tctx, cf := context.WithTimeout(context.Background(), 10*time.Second)
				err := w.Nodes[s.src].S.Tell(tctx, w.Nodes[s.dst].Local(), vec)
				cf()
				sendErrs[i] = err
				if p2p.IsErrMTUExceeded(err) {
					// a payload refused for its size must never arrive; any other error (a deadline, a closing swarm)
					// leaves open whether the message was already on its way
					led.Refuse(e)
				}
				// the library must not have modified the sender's buffers
				if !bytes.Equal(bytes.Join(bufs, nil), e.Data) {
					mu.Lock()
					problems = append(problems, fmt.Sprintf("Tell modified the sender's buffers of message %d", e.ID))
					mu.Unlock()
				}
				if s.overwrite {
					for _, b := range bufs {
						for j := range b {
							b[j] = 0xDD
						}
					}
				}
			}()
		}
		wg.Wait()
	}
	// wait until deliveries stop arriving
	last, lastChange := -1, time.Now()
	deadline := time.Now().Add(settle * 20)
	for time.Now().Before(deadline) {
		mu.Lock()
		n := len(recvd)
		mu.Unlock()
		if n != last {
			last, lastChange = n, time.Now()
		}
		expected := 0
		for i := range sends {
			if sendErrs[i] == nil {
				expected++
			}
		}
		if n >= expected || time.Since(lastChange) > settle {
			break
		}
		time.Sleep(time.Millisecond)
	}
	// Close while the receivers are still draining, then cancel them. Both are bounded: a Close or a
	// Receive that does not come back is C12's subject, not C01's.
	closed := make(chan struct{})
	go func() { w.Close(); close(closed) }()
	select {
	case <-closed:
	case <-time.After(5 * time.Second):
	}
	cancel()
	done := make(chan struct{})
	go func() { rwg.Wait(); close(done) }()
	select {
	case <-done:
	case <-time.After(5 * time.Second):
	}
	mu.Lock()
	defer mu.Unlock()
	return append([]received{}, recvd...), entries, sendErrs, problems
}

func partSizeOf(s stack.Spec) int {
	// the smallest fragment payload size of any fragmenting layer (for boundary-aware lengths)
	cur := s.BaseMTU
	if s.Base != "mem" {
		cur = 1280
	}
	part := 0
	for _, l := range s.Layers {
		switch l.Kind {
		case "frag":
			part = cur - 15
			cur = l.MTU
		case "mbapp":
			part = cur - 24
			cur = l.MTU
		case "mux":
			cur -= stack.HeaderLen(l)
		case "p2pke":
			cur -= 20
		case "quic":
			cur = l.MTU
		}
	}
	if part <= 0 {
		part = 64
	}
	return part
}

func multiPart(s stack.Spec) bool {
	for _, l := range s.Layers {
		if l.Kind == "frag" || l.Kind == "mbapp" {
			return true
		}
	}
	return false
}

func checkC01(t *rapid.T, sub string, bases []string, maxDepth int, noKinds map[string]bool, maxSends int, settle time.Duration) {
	spec := genSpec(t, specOpts{maxDepth: maxDepth, bases: bases, noKinds: noKinds, smallMTUs: true, honestFrag: false, smallQueues: true, transform: true, dupBase: true})
	if bases[0] == "mem" && rapid.IntRange(0, 5).Draw(t, "oversizeFragTop") == 0 {
		// a fragmenting layer on top whose configured MTU needs more parts than its 8-bit fields can count:
		// MTU() must be honest about it and Tell must refuse what lies between MTU() and the configured value
		inner := rapid.SampledFrom([]int{64, 100, 256}).Draw(t, "innerMTU")
		spec = stack.Spec{Base: "mem", BaseMTU: inner, QueueLen: 4096, Layers: []stack.Layer{{Kind: "frag", MTU: (inner-15)*256 + rapid.IntRange(inner, 40*inner).Draw(t, "over")}}}
	}
	nNodes := rapid.IntRange(2, 4).Draw(t, "nodes")
	w, err := stack.Build(spec, nNodes, 0)
	if err != nil {
		t.Fatalf("%s", ev.Tag(fmt.Sprintf("harness: cannot build %v: %v", spec, err)))
	}
	mtu := w.Nodes[0].S.MTU()
	part := partSizeOf(spec)
	nSends := rapid.IntRange(1, maxSends).Draw(t, "sends")
	var sends []send
	group := 0
	var classes []string
	if rapid.IntRange(0, 3).Draw(t, "fanIn") == 0 && nNodes >= 3 {
		// fan-in burst: every other node tells node 0 a multi-part message of the same shape at the same
		// moment, as the first thing it ever sends (equal per-sender counters and timestamps)
		class := rapid.SampledFrom([]string{"2part+1", "part+1", "half", "mtu"}).Draw(t, "fanInSize")
		for src := 1; src < nNodes; src++ {
			sz := sizeFor(class, mtu, part)
			if sz > 300000 {
				sz = 300000
			}
			sends = append(sends, send{src: src, dst: 0, class: class, size: sz, vec: 1, group: group})
			classes = append(classes, "fanin:"+class)
		}
		group++
	}
	for i := 0; i < nSends; i++ {
		s := send{}
		s.src = rapid.IntRange(0, nNodes-1).Draw(t, "src")
		s.dst = (s.src + rapid.IntRange(1, nNodes-1).Draw(t, "dstOff")) % nNodes
		s.class = rapid.SampledFrom(c01Classes).Draw(t, "size")
		s.size = sizeFor(s.class, mtu, part)
		if s.size > 300000 {
			s.size = 300000 // keep the huge QUIC MTU cases affordable
		}
		s.vec = rapid.IntRange(1, 3).Draw(t, "iovec")
		s.overwrite = rapid.Bool().Draw(t, "overwrite")
		if !rapid.Bool().Draw(t, "sameGroup") {
			group++
		}
		s.group = group
		sends = append(sends, s)
		classes = append(classes, s.class)
	}
	recvLoops := rapid.IntRange(1, 3).Draw(t, "recvLoops")
	scribble := rapid.Bool().Draw(t, "scribble")
	led := ledger.New()
	desc := fmt.Sprintf("%v nodes=%d recv=%d scribble=%v sizes=%s", spec, nNodes, recvLoops, scribble, strings.Join(classes, ","))
	recvd, entries, sendErrs, problems := runWorkload(w, led, sends, recvLoops, scribble, settle)
	ev.Eval(sub)
	fail := func(f string, a ...any) { t.Fatalf("%s\ncase: %s", fmt.Sprintf(f, a...), desc) }
	if len(problems) > 0 {
		fail("%s", strings.Join(problems, "; "))
	}
	locals := make([]map[string]bool, nNodes)
	for i, nd := range w.Nodes {
		locals[i] = map[string]bool{}
		for _, a := range nd.S.LocalAddrs() {
			locals[i][addrText(a)] = true
		}
	}
	delivered := 0
	nontrivial := false
	for _, r := range recvd {
		if bytes.Contains(r.payload, bytes.Repeat([]byte{0xDD}, 8)) && len(r.payload) >= 8 {
			// the overwrite pattern of a sender's buffer
			allDD := true
			for _, b := range r.payload {
				if b != 0xDD {
					allDD = false
				}
			}
			if allDD || bytes.Contains(r.payload, bytes.Repeat([]byte{0xDD}, 16)) {
				fail("node %d received bytes of a sender buffer that was overwritten after Tell returned (%d bytes)", r.node, len(r.payload))
			}
		}
		e, p := led.CheckFrom(r.node, r.payload, func(e *ledger.Entry) bool { return addrText(w.Nodes[e.Src].Local()) == r.src })
		if p != "" {
			fail("node %d: %s (src %s)", r.node, p, r.src)
		}
		delivered++
		want := addrText(w.Nodes[e.Src].Local())
		if r.src != want {
			fail("message %d from node %d arrived with Src=%s, the sender's address is %s", e.ID, e.Src, r.src, want)
		}
		if !locals[r.node][r.dst] {
			fail("message %d arrived at node %d with Dst=%s which is not one of its addresses", e.ID, r.node, r.dst)
		}
	}
	grouped := map[int]int{}
	for _, s := range sends {
		grouped[s.group]++
	}
	for i, s := range sends {
		_ = i
		if entries[i] != nil && entries[i].Received > 0 {
			if (multiPart(spec) && s.size > part) || grouped[s.group] > 1 || s.overwrite || len(spec.Layers) >= 2 {
				nontrivial = true
			}
		}
	}
	_ = sendErrs
	if delivered > 0 {
		ev.Class(sub, "delivered")
	}
	ev.Class(sub, fmt.Sprintf("depth=%d", len(spec.Layers)))
	if nontrivial {
		if ev.NonTrivial(sub, desc) {
			ev.Sample(sub, desc)
		}
	}
}

func TestC01Mem(t *testing.T) {
	const sub = "C01.mem_stacks"
	ev.Rule(sub, "rapid: stack spec over the in-memory transport (base MTU 64..65536, depth 0-3 of fragmenting / message-box / five multiplexer kinds / multi-transport / address-mapped / whitelisted layers), 2-4 nodes, 1-30 sends with boundary-aware lengths (0, 1, 15, 16, part size +-1, 2 parts+1, MTU-1, MTU), 1-3 iovec buffers, buffers overwritten right after Tell, concurrency groups, 1-3 receive loops per node, callbacks that scribble over the message. Oracle: ledger (byte-identical to one payload told to this receiver, Src = sender's address, Dst one of the receiver's addresses), sender buffers unmodified, overwrite pattern never delivered. non-trivial = a delivered message that is multi-part for some layer, or sent concurrently with another, or with buffer overwrite, or across >= 2 layers; distinct by (spec, length classes, grouping)")
	rapid.Check(t, func(t *rapid.T) {
		checkC01(t, sub, []string{"mem"}, 3, map[string]bool{"p2pke": true, "quic": true}, 30, 30*time.Millisecond)
	})
}

func TestC01Net(t *testing.T) {
	const sub = "C01.secure_and_udp_stacks"
	ev.Rule(sub, "rapid: as mem_stacks but over UDP loopback (IPv4 and IPv6) and in-memory bases with P2PKE and QUIC layers in the nesting (depth 0-3), 1-12 sends; same ledger oracle; non-trivial as in mem_stacks")
	rapid.Check(t, func(t *rapid.T) {
		checkC01(t, sub, []string{"udp", "udp6", "mem", "mem"}, 3, nil, 12, 150*time.Millisecond)
	})
}
