package swarms

import (
	"context"
	"fmt"
	"strings"
	"testing"
	"time"

	"go.brendoncarroll.net/p2p"
	"go.brendoncarroll.net/p2p/p/p2pmux"
	"go.brendoncarroll.net/p2p/s/memswarm"
	"pgregory.net/rapid"

	"verif/harness/internal/ev"
)

type reopenHandle struct {
	id     int
	gen    int
	closed bool
	recv   func(ctx context.Context) error
	serve  func(ctx context.Context) error // nil for tell-only multiplexers
	close  func() error
	parked []chan error
}

// TestC12ChannelReopen: Close on a multiplexer channel, in histories where a channel id is closed and opened again
// and older handles of the same id are closed once more (a deferred Close next to an explicit one).
func TestC12ChannelReopen(t *testing.T) {
	const sub = "C12.channel_reopen"
	ev.Rule(sub, "rapid: a string (tell) or uint16 (ask) multiplexer on an in-memory swarm; 3-14 operations over 1-3 channel ids: open(id) when no live handle holds it, park(handle) (a goroutine blocked in Receive, and in ServeAsk on ask multiplexers, with a non-expiring context), close(handle) on any handle ever returned, live or already closed (stale). Oracle after every close(h): the calls parked on h return a non-nil error within 2 s (patient) and a fresh Receive/ServeAsk on h returns a non-nil error within 1 s; at the end every live handle is closed and the same holds. non-trivial = a stale close of an older handle while a newer handle of the same id is live; distinct by operation sequence")
	rapid.Check(t, func(t *rapid.T) {
		askKind := rapid.Bool().Draw(t, "askMultiplexer")
		realm := memswarm.NewRealm()
		base := realm.NewSwarm()
		defer base.Close()
		var open func(id int) *reopenHandle
		gens := map[int]int{}
		if askKind {
			m := p2pmux.NewUint16AskMux[memswarm.Addr](base)
			open = func(id int) *reopenHandle {
				s := m.Open(uint16(id + 1))
				return &reopenHandle{id: id,
					recv:  func(ctx context.Context) error { return s.Receive(ctx, func(p2p.Message[memswarm.Addr]) {}) },
					serve: func(ctx context.Context) error { return s.ServeAsk(ctx, func(context.Context, []byte, p2p.Message[memswarm.Addr]) int { return 0 }) },
					close: s.Close}
			}
		} else {
			m := p2pmux.NewStringMux[memswarm.Addr](base)
			open = func(id int) *reopenHandle {
				s := m.Open(fmt.Sprintf("chan-%d", id))
				return &reopenHandle{id: id,
					recv:  func(ctx context.Context) error { return s.Receive(ctx, func(p2p.Message[memswarm.Addr]) {}) },
					close: s.Close}
			}
		}
		ctx, cancel := context.WithCancel(context.Background())
		defer cancel()
		var handles []*reopenHandle
		live := map[int]*reopenHandle{}
		var trace []string
		staleWhileLive := false
		checkClosed := func(h *reopenHandle) {
			for i, ch := range h.parked {
				err, ok := ev.PatientRecv(2*time.Second, ch)
				if !ok {
					t.Fatalf("a call parked on channel %d (handle generation %d) is still blocked 2 s after Close of that handle returned (parked call %d)\nhistory: %s", h.id, h.gen, i, strings.Join(trace, "; "))
				}
				if err == nil {
					t.Fatalf("a call parked on channel %d returned nil after Close\nhistory: %s", h.id, strings.Join(trace, "; "))
				}
			}
			h.parked = nil
			fresh := []func(context.Context) error{h.recv}
			if h.serve != nil {
				fresh = append(fresh, h.serve)
			}
			for _, f := range fresh {
				ch := make(chan error, 1)
				fctx, cf := context.WithCancel(ctx)
				go func() { ch <- f(fctx) }()
				err, ok := ev.PatientRecv(time.Second, ch)
				cf()
				if !ok {
					t.Fatalf("a Receive/ServeAsk made after Close of channel %d (generation %d) blocks\nhistory: %s", h.id, h.gen, strings.Join(trace, "; "))
				}
				if err == nil {
					t.Fatalf("a Receive/ServeAsk made after Close of channel %d returned nil\nhistory: %s", h.id, strings.Join(trace, "; "))
				}
			}
		}
		doClose := func(h *reopenHandle) {
			if h.closed {
				if l := live[h.id]; l != nil && l != h {
					staleWhileLive = true
				}
				trace = append(trace, fmt.Sprintf("stale close(%d.%d)", h.id, h.gen))
			} else {
				trace = append(trace, fmt.Sprintf("close(%d.%d)", h.id, h.gen))
			}
			done := make(chan struct{})
			go func() { defer close(done); defer func() { recover() }(); h.close() }()
			if !ev.PatientCh(3*time.Second, done) {
				t.Fatalf("Close of channel %d does not return\nhistory: %s", h.id, strings.Join(trace, "; "))
			}
			if !h.closed {
				h.closed = true
				if live[h.id] == h {
					delete(live, h.id)
				}
			}
			checkClosed(h)
		}
		n := rapid.IntRange(3, 14).Draw(t, "ops")
		for i := 0; i < n; i++ {
			switch rapid.SampledFrom([]string{"open", "open", "park", "park", "close", "close", "close"}).Draw(t, "op") {
			case "open":
				id := rapid.IntRange(0, 2).Draw(t, "id")
				if live[id] != nil {
					continue
				}
				h := open(id)
				gens[id]++
				h.gen = gens[id]
				handles = append(handles, h)
				live[id] = h
				trace = append(trace, fmt.Sprintf("open(%d.%d)", id, h.gen))
			case "park":
				if len(handles) == 0 {
					continue
				}
				h := handles[rapid.IntRange(0, len(handles)-1).Draw(t, "handle")]
				if h.closed {
					continue
				}
				fs := []func(context.Context) error{h.recv}
				if h.serve != nil && rapid.Bool().Draw(t, "serveAsk") {
					fs = []func(context.Context) error{h.serve}
				}
				for _, f := range fs {
					f := f
					ch := make(chan error, 1)
					go func() { ch <- f(ctx) }()
					h.parked = append(h.parked, ch)
				}
				time.Sleep(200 * time.Microsecond)
				trace = append(trace, fmt.Sprintf("park(%d.%d)", h.id, h.gen))
			case "close":
				if len(handles) == 0 {
					continue
				}
				// bias towards older handles so that stale closes happen
				doClose(handles[rapid.IntRange(0, len(handles)-1).Draw(t, "handle")])
			}
		}
		for _, h := range handles {
			if !h.closed {
				doClose(h)
			}
		}
		ev.Eval(sub)
		if staleWhileLive {
			ev.Class(sub, "stale-close-while-newer-handle-live")
			key := strings.Join(trace, ";")
			if ev.NonTrivial(sub, key) {
				ev.Sample(sub, key)
			}
		}
	})
}
