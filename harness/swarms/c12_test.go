package swarms

import (
	"context"
	"fmt"
	"regexp"
	"runtime"
	"strings"
	"sync"
	"sync/atomic"
	"testing"
	"time"

	"go.brendoncarroll.net/p2p"
	"pgregory.net/rapid"

	"verif/harness/internal/ev"
	"verif/harness/internal/stack"
)

var goroutineHeader = regexp.MustCompile(`(?m)^goroutine (\d+) \[([^\]]*)\]:`)

// libGoroutines returns id -> first library frame for every live goroutine
// whose stack contains a frame of the library.
func libGoroutines() map[string]string {
	buf := make([]byte, 1<<20)
	for {
		n := runtime.Stack(buf, true)
		if n < len(buf) {
			buf = buf[:n]
			break
		}
		buf = make([]byte, 2*len(buf))
	}
	out := map[string]string{}
	for _, block := range strings.Split(string(buf), "\n\n") {
		m := goroutineHeader.FindStringSubmatch(block)
		if m == nil {
			continue
		}
		for _, line := range strings.Split(block, "\n") {
			if strings.HasPrefix(line, "go.brendoncarroll.net/p2p/") || strings.HasPrefix(line, "created by go.brendoncarroll.net/p2p/") {
				f := strings.TrimPrefix(line, "created by ")
				if i := strings.Index(f, "("); i > 0 && !strings.HasPrefix(line, "created by") {
					f = f[:i]
				}
				out[m[1]] = f + " [" + m[2] + "]"
				break
			}
		}
	}
	return out
}

type callReturn struct {
	kind string
	err  error
	at   time.Time
}

// baseline holds the library goroutines that existed before the case's swarms were built: whatever the swarms
// start, at construction or later, has to be gone after Close.
func c12Case(t *rapid.T, sub string, baseline map[string]string, w *stack.World, desc string, timing string, nRecv, nServe int, traffic bool, cbDelay time.Duration) {
	fail := func(f string, a ...any) { t.Fatalf("%s\ncase: %s", fmt.Sprintf(f, a...), desc) }
	victim, sender := w.Nodes[0], w.Nodes[1]
	var mu sync.Mutex
	var returns []callReturn
	var lastCallbackStart atomic.Int64
	var callbacks atomic.Int64
	bg := context.Background()
	var wg sync.WaitGroup
	for i := 0; i < nRecv; i++ {
		wg.Add(1)
		go func() {
			defer wg.Done()
			for {
				err := victim.S.Receive(bg, func(m stack.Msg) {
					lastCallbackStart.Store(time.Now().UnixNano())
					callbacks.Add(1)
					if cbDelay > 0 {
						time.Sleep(cbDelay) // a callback that is still running when Close is called
					}
				})
				if err != nil {
					mu.Lock()
					returns = append(returns, callReturn{"Receive", err, time.Now()})
					mu.Unlock()
					return
				}
			}
		}()
	}
	if victim.A != nil {
		for i := 0; i < nServe; i++ {
			wg.Add(1)
			go func() {
				defer wg.Done()
				for {
					err := victim.A.ServeAsk(bg, func(_ context.Context, resp []byte, m stack.Msg) int {
						lastCallbackStart.Store(time.Now().UnixNano())
						callbacks.Add(1)
						return copy(resp, "ok")
					})
					if err != nil {
						mu.Lock()
						returns = append(returns, callReturn{"ServeAsk", err, time.Now()})
						mu.Unlock()
						return
					}
				}
			}()
		}
	} else {
		nServe = 0
	}
	// traffic towards the victim until told to stop
	stopTraffic := make(chan struct{})
	var twg sync.WaitGroup
	if traffic {
		twg.Add(1)
		go func() {
			defer twg.Done()
			payload := []byte("in-flight-0123456789")
			for i := 0; ; i++ {
				select {
				case <-stopTraffic:
					return
				default:
				}
				ctx, cf := context.WithTimeout(bg, 200*time.Millisecond)
				if sender.A != nil && i%3 == 2 {
					resp := make([]byte, 8)
					sender.A.Ask(ctx, resp, victim.Local(), p2p.IOVec{payload})
				} else {
					sender.S.Tell(ctx, victim.Local(), p2p.IOVec{payload})
				}
				cf()
				time.Sleep(200 * time.Microsecond)
			}
		}()
	}
	switch timing {
	case "immediately":
	case "after-deliveries":
		waitFor(500*time.Millisecond, func() bool { return callbacks.Load() >= 3 })
	default:
		time.Sleep(2 * time.Millisecond)
	}
	// Close
	closeDone := make(chan struct{})
	var closePanic atomic.Value
	doClose := func() {
		defer func() {
			if r := recover(); r != nil {
				closePanic.Store(fmt.Sprint(r))
			}
		}()
		victim.S.Close()
	}
	go func() {
		switch timing {
		case "concurrent":
			var cw sync.WaitGroup
			for i := 0; i < 2; i++ {
				cw.Add(1)
				go func() { defer cw.Done(); doClose() }()
			}
			cw.Wait()
		case "twice":
			doClose()
			doClose()
		default:
			doClose()
		}
		close(closeDone)
	}()
	const threshold = 3 * time.Second
	// all limits are patient (ev.Patient): they are what a responsive machine is given; a stalled one gets longer
	if !ev.PatientCh(threshold, closeDone) {
		close(stopTraffic)
		fail("Close did not return within %v (receivers blocked=%d, serve loops=%d, traffic=%v)", threshold, nRecv, nServe, traffic)
	}
	closedAt := time.Now()
	if p := closePanic.Load(); p != nil {
		close(stopTraffic)
		fail("Close panicked: %v", p)
	}
	// every blocked call returns a non-nil error promptly
	done := make(chan struct{})
	go func() { wg.Wait(); close(done) }()
	if !ev.PatientCh(threshold, done) {
		close(stopTraffic)
		mu.Lock()
		n := len(returns)
		mu.Unlock()
		stuck := ""
		for _, f := range libGoroutines() {
			if strings.Contains(f, "Receive") || strings.Contains(f, "ServeAsk") {
				stuck = f
			}
		}
		fail("%d of %d calls blocked in Receive/ServeAsk at the moment of Close had not returned %v after Close returned (e.g. %s)", nRecv+nServe-n, nRecv+nServe, threshold, stuck)
	}
	// sentinel for "no callback starts after Close returned": keep the traffic going a little longer
	time.Sleep(60 * time.Millisecond)
	close(stopTraffic)
	trafficDone := make(chan struct{})
	go func() { twg.Wait(); close(trafficDone) }()
	select {
	case <-trafficDone:
	case <-time.After(2 * time.Second):
		// a Tell of the peer that does not honour its context is not this property's subject
	}
	// A hand-off that was committed just before Close may reach its callback a scheduling delay after Close
	// returned; that is not a delivery after Close. Traffic continues for 60 ms, so a swarm that really keeps
	// delivering shows callbacks far beyond the 20 ms allowance.
	// The allowance grows with the scheduling lag observed around Close: a goroutine that was handed the
	// message before Close may simply not have been given a CPU yet.
	inFlightAllowance := 20*time.Millisecond + 2*ev.MaxLagSince(closedAt.Add(-50*time.Millisecond))
	if last := lastCallbackStart.Load(); last > closedAt.Add(inFlightAllowance).UnixNano() {
		if inFlightAllowance >= 60*time.Millisecond {
			ev.Class(sub, "not-judged:late-callback-on-stalled-machine")
		} else {
			fail("a callback started %v after Close had returned (allowance %v)", time.Duration(last-closedAt.UnixNano()), inFlightAllowance)
		}
	}
	// calls made afterwards fail promptly, never succeed, never block
	for i := 0; i < 8; i++ {
		for _, kind := range []string{"Receive", "ServeAsk"} {
			if kind == "ServeAsk" && victim.A == nil {
				continue
			}
			ctx, cf := context.WithTimeout(bg, 2*time.Second)
			t0 := time.Now()
			var err error
			if kind == "Receive" {
				err = victim.S.Receive(ctx, func(stack.Msg) {})
			} else {
				err = victim.A.ServeAsk(ctx, func(context.Context, []byte, stack.Msg) int { return 0 })
			}
			cf()
			switch {
			case err == nil:
				fail("%s called after Close returned nil (call %d)", kind, i)
			case time.Since(t0) > time.Second && !ev.Stalled(t0):
				fail("%s called after Close blocked for %v (returned %v)", kind, time.Since(t0), err)
			}
		}
	}
	// release of goroutines: close everything and diff the goroutines that carry library frames
	allClosed := make(chan struct{})
	go func() { w.Close(); close(allClosed) }()
	if !ev.PatientCh(threshold, allClosed) {
		fail("Close of the peer node did not return within %v", threshold)
	}
	var leaked map[string]string
	ok := waitFor(3*time.Second, func() bool {
		leaked = map[string]string{}
		for id, f := range libGoroutines() {
			if _, old := baseline[id]; !old {
				leaked[id] = f
			}
		}
		return len(leaked) == 0
	})
	if !ok {
		var fs []string
		seen := map[string]int{}
		for _, f := range leaked {
			seen[f]++
		}
		for f, n := range seen {
			fs = append(fs, fmt.Sprintf("%dx %s", n, f))
		}
		fail("goroutines started by the swarm are still alive 3 s after Close: %s", strings.Join(fs, "; "))
	}
	ev.Eval(sub)
	if nRecv+nServe > 0 {
		key := fmt.Sprintf("%s recv=%d serve=%d timing=%s traffic=%v cbDelay=%v", desc, nRecv, nServe, timing, traffic, cbDelay)
		if ev.NonTrivial(sub, key) {
			ev.Sample(sub, key)
		}
		ev.Class(sub, "timing:"+timing)
	}
}

const c12Rule = "k in 0..4 goroutines blocked in Receive and in ServeAsk with non-expiring contexts, optional continuous tells/asks in flight from a peer, receive callbacks that take 0-5 ms (so that Close lands while a callback runs), optionally a transport beneath whose Close reports an error, Close at a generated point (immediately, after the 3rd delivery, a moment later, concurrently from two goroutines, twice). Oracle: Close returns within 3 s and does not panic; every blocked call returns a non-nil error within 3 s; no callback starts later than 20 ms after Close returned (traffic continues for 60 ms as the sentinel; the allowance covers hand-offs committed before Close); 8 further Receive/ServeAsk calls each return a non-nil error within 1 s; after closing all nodes no goroutine that carries a library frame and was started during the case is alive after a 3 s grace period (stack-dump diff). non-trivial = >= 1 call blocked at the moment of Close; distinct by (spec, blocked-call vector, timing)"

func TestC12Close(t *testing.T) {
	const sub = "C12.close_generated_stacks"
	ev.Rule(sub, "rapid: every stack spec (memory and UDP bases; fragmenting, message-box, multiplexer, multi-transport, address-mapped, whitelisted, P2PKE and QUIC layers to depth 3); "+c12Rule)
	rapid.Check(t, func(t *rapid.T) {
		spec := genSpec(t, specOpts{maxDepth: 3, bases: []string{"mem", "mem", "mem", "udp"}, honestFrag: true, errClose: true})
		special := rapid.IntRange(0, 6).Draw(t, "channelOnTop")
		if special == 1 {
			// the bare in-memory swarm (or a thin wrapper on it), closed while a slow callback is running and the peer keeps telling
			spec = stack.Spec{Base: "mem", BaseMTU: 1500, QueueLen: rapid.SampledFrom([]int{2, 16, 256}).Draw(t, "bareQueue")}
			if rapid.Bool().Draw(t, "thinWrapper") {
				spec.Layers = []stack.Layer{{Kind: "wl"}}
			}
		}
		if special == 2 {
			// a multi-transport swarm over a transport whose Close reports an error: everything above must still be closed
			spec = stack.Spec{Base: "mem", BaseMTU: 1500, QueueLen: 256, Layers: []stack.Layer{{Kind: "errclose"}, {Kind: "multi", Name: "t"}}}
		}
		if special == 3 {
			// a multi-transport swarm over a transport that reports its shutdown with an error of its own, or over
			// a fragmenting swarm (which ends its loops by cancelling its own context): the loops the multi-transport
			// swarm started must end, whatever non-nil error the transport returns
			under := stack.Layer{Kind: "odderr"}
			if rapid.Bool().Draw(t, "fragBeneath") {
				under = stack.Layer{Kind: "frag", MTU: 1485 * 4}
			}
			spec = stack.Spec{Base: "mem", BaseMTU: 1500, QueueLen: 256, Layers: []stack.Layer{under, {Kind: "multi", Name: "t"}}}
		}
		if special == 0 {
			// the swarm that is closed is one channel of a multiplexer: Close must not depend on the multiplexer's
			// loop getting rid of a message that nobody is receiving
			kind := rapid.SampledFrom(muxKinds).Draw(t, "muxKind")
			spec = stack.Spec{Base: "mem", BaseMTU: 1500, QueueLen: rapid.SampledFrom([]int{4, 256}).Draw(t, "muxQueue"), Layers: []stack.Layer{{Kind: "mux", Mux: kind, Chan: genChan(t, kind)}}}
		}
		baseline := libGoroutines()
		w, err := stack.Build(spec, 2, 0)
		if err != nil {
			t.Fatalf("%s", ev.Tag(fmt.Sprintf("harness: %v: %v", spec, err)))
		}
		timing := rapid.SampledFrom([]string{"immediately", "after-deliveries", "later", "concurrent", "twice"}).Draw(t, "timing")
		nRecv, nServe := rapid.IntRange(0, 4).Draw(t, "receivers"), rapid.IntRange(0, 4).Draw(t, "servers")
		traffic := rapid.Bool().Draw(t, "traffic")
		cbDelay := time.Duration(rapid.SampledFrom([]int{0, 0, 1, 5}).Draw(t, "callbackMs")) * time.Millisecond
		if special == 1 {
			nRecv, traffic, timing = max(nRecv, 1), true, "after-deliveries"
			if cbDelay == 0 {
				cbDelay = 2 * time.Millisecond
			}
		}
		c12Case(t, sub, baseline, w, spec.String(), timing, nRecv, nServe, traffic, cbDelay)
	})
}

func TestC12CloseSSH(t *testing.T) {
	const sub = "C12.close_ssh"
	ev.Rule(sub, "rapid: stand-alone SSH swarms on TCP loopback; "+c12Rule)
	rapid.Check(t, func(t *rapid.T) {
		baseline := libGoroutines()
		w, err := buildSSH(2)
		if err != nil {
			t.Fatalf("%s", ev.Tag(fmt.Sprintf("harness: %v", err)))
		}
		timing := rapid.SampledFrom([]string{"immediately", "after-deliveries", "later", "concurrent", "twice"}).Draw(t, "timing")
		c12Case(t, sub, baseline, w, "ssh", timing, rapid.IntRange(0, 4).Draw(t, "receivers"), rapid.IntRange(0, 4).Draw(t, "servers"), rapid.Bool().Draw(t, "traffic"), time.Duration(rapid.SampledFrom([]int{0, 1}).Draw(t, "callbackMs"))*time.Millisecond)
	})
}
