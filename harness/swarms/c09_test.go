package swarms

import (
	"bytes"
	"context"
	"errors"
	"fmt"
	"sort"
	"sync"
	"testing"
	"time"

	"go.brendoncarroll.net/p2p"
	"pgregory.net/rapid"

	"verif/harness/internal/ev"
	"verif/harness/internal/ledger"
	"verif/harness/internal/stack"
)

// recordersAboveQUIC returns the recorders whose observations count for the
// "no layer beneath rejected it for size" rule. QUIC probes the path MTU with
// its own oversize packets by design (and its packet conn drops them), so
// recorders beneath a QUIC layer are excluded.
func recordersAboveQUIC(spec stack.Spec, nd *stack.Node) []*stack.Recorder {
	idx := -1
	rec := 0
	lastQuicRec := 0
	for _, l := range spec.Layers {
		if l.Kind == "rec" {
			rec++
		}
		if l.Kind == "quic" {
			lastQuicRec = rec
			idx = 1
		}
	}
	if idx < 0 {
		return nd.Recs
	}
	return nd.Recs[lastQuicRec:]
}

func TestC09MTU(t *testing.T) {
	const sub = "C09.mtu_honest"
	ev.Rule(sub, "rapid: stack spec with small inner MTUs (64..4096, so that fragmentation happens) and a recording decorator under every layer, every multiplexer kind with channel ids of differing header size, payload lengths L in {0, 1, MTU-1, MTU, MTU+1, MTU+k, part and part-count boundaries +-1}, via Tell and (where the stack offers it) Ask. Oracle: L <= MTU(): error is not ErrMTUExceeded, no recorder beneath saw a size rejection, whatever is delivered is byte-identical to the payload (loss is allowed); L > MTU(): IsErrMTUExceeded(err) and (sentinel) nothing of the refused payload is ever delivered. non-trivial = L in {MTU-1, MTU, MTU+1} on a stack with a layer that adds a header or fragments; distinct by (spec, L-MTU, verb)")
	rapid.Check(t, func(t *rapid.T) {
		spec := genSpec(t, specOpts{maxDepth: 3, bases: []string{"mem", "mem", "mem", "udp"}, smallMTUs: true, withRec: true, honestFrag: false, twoSchemes: true, transform: true})
		switch rapid.IntRange(0, 7).Draw(t, "streamStack") {
		case 1:
			// two transports with different MTUs under one multi-transport swarm: MTU() must be the limit for both
			spec = stack.Spec{Base: "mem", BaseMTU: rapid.SampledFrom([]int{64, 256, 1500, 4096}).Draw(t, "multiBaseMTU"), QueueLen: 256, Layers: []stack.Layer{{Kind: "rec"}, {Kind: "multi", Name: "big", N: 2}, {Kind: "rec"}}}
		case 0:
			// a stream transport on top: the one place where a payload of exactly MTU() bytes shares a frame with a length prefix
			spec = stack.Spec{Base: rapid.SampledFrom([]string{"mem", "udp"}).Draw(t, "streamBase"), BaseMTU: 1500, QueueLen: 64, Layers: []stack.Layer{{Kind: "rec"}, {Kind: "quic", MTU: rapid.SampledFrom([]int{0, 1000, 3000, 100000, 2 << 20}).Draw(t, "quicMTU")}}}
		}
		w, err := stack.Build(spec, 2, 0)
		if err != nil {
			t.Fatalf("%s", ev.Tag(fmt.Sprintf("harness: cannot build %v: %v", spec, err)))
		}
		defer w.Close()
		a, b := w.Nodes[0], w.Nodes[1]
		mtu := a.S.MTU()
		part := partSizeOf(spec)
		// the destination address is drawn (a multi-transport layer offers one per scheme, in map order)
		dsts := b.S.LocalAddrs()
		sort.Slice(dsts, func(i, j int) bool { return addrText(dsts[i]) < addrText(dsts[j]) })
		bLocal := dsts[rapid.IntRange(0, len(dsts)-1).Draw(t, "dstAddr")]
		choice := rapid.SampledFrom([]string{"0", "1", "mtu-1", "mtu", "mtu", "mtu+1", "mtu+1", "mtu+k", "part", "part+1", "255part", "255part+1", "256part+1"}).Draw(t, "L")
		var L int
		switch choice {
		case "0":
			L = 0
		case "1":
			L = 1
		case "mtu-1":
			L = mtu - 1
		case "mtu":
			L = mtu
		case "mtu+1":
			L = mtu + 1
		case "mtu+k":
			L = mtu + rapid.IntRange(2, 5000).Draw(t, "k")
		case "part":
			L = part
		case "part+1":
			L = part + 1
		case "255part":
			L = 255 * part
		case "255part+1":
			L = 255*part + 1
		case "256part+1":
			L = 256*part + 1
		}
		if L < 0 {
			L = 0
		}
		if L > 4<<20 {
			t.Skip("length too large to be affordable")
		}
		useAsk := a.A != nil && rapid.Bool().Draw(t, "ask")
		verb := "tell"
		if useAsk {
			verb = "ask"
		}
		desc := fmt.Sprintf("%v L=%d (%s, MTU()=%d) verb=%s", spec, L, choice, mtu, verb)
		ev.Eval(sub)
		hasHeaderLayer := false
		for _, l := range spec.Layers {
			if l.Kind != "rec" && l.Kind != "map" && l.Kind != "wl" && l.Kind != "multi" {
				hasHeaderLayer = true
			}
		}
		if hasHeaderLayer && L >= mtu-1 && L <= mtu+1 {
			key := fmt.Sprintf("%v d=%d %s", spec, L-mtu, verb)
			if ev.NonTrivial(sub, key) {
				ev.Sample(sub, desc)
			}
			ev.Class(sub, fmt.Sprintf("L-MTU=%+d", L-mtu))
		}
		fail := func(f string, args ...any) { t.Fatalf("%s\ncase: %s", fmt.Sprintf(f, args...), desc) }

		led := ledger.New()
		var mu sync.Mutex
		var got [][]byte
		ctx, cancel := context.WithCancel(context.Background())
		defer cancel()
		// receiver / server on b
		go func() {
			for {
				if err := b.S.Receive(ctx, func(m stack.Msg) {
					mu.Lock()
					got = append(got, append([]byte{}, m.Payload...))
					mu.Unlock()
				}); err != nil {
					return
				}
			}
		}()
		if b.A != nil {
			go func() {
				for {
					if err := b.A.ServeAsk(ctx, func(_ context.Context, resp []byte, m stack.Msg) int {
						mu.Lock()
						got = append(got, append([]byte{}, m.Payload...))
						mu.Unlock()
						return copy(resp, "ok")
					}); err != nil {
						return
					}
				}
			}()
		}
		e := led.Make(0, 1, L)
		recsBefore := make([]int, 0)
		recs := recordersAboveQUIC(spec, a)
		for _, r := range recs {
			recsBefore = append(recsBefore, r.SizeRejections())
		}
		sendStart := time.Now()
		sctx, scf := context.WithTimeout(context.Background(), 10*time.Second)
		var sendErr error
		if useAsk {
			resp := make([]byte, 16)
			_, sendErr = a.A.Ask(sctx, resp, bLocal, p2p.IOVec{e.Data})
		} else {
			sendErr = a.S.Tell(sctx, bLocal, p2p.IOVec{e.Data})
		}
		scf()
		have := func(p []byte) bool {
			mu.Lock()
			defer mu.Unlock()
			for _, g := range got {
				if bytes.Equal(g, p) {
					return true
				}
			}
			return false
		}
		if L <= mtu {
			if p2p.IsErrMTUExceeded(sendErr) {
				fail("%s of %d bytes <= MTU() %d was rejected with the MTU error: %v", verb, L, mtu, sendErr)
			}
			if reliableOverQUIC(spec) {
				// QUIC streams neither lose nor reorder, the layers above it add no queue that could overflow and
				// this is the only message in flight: here "sendable intact" means that it arrives.
				ev.Class(sub, "reliable-stack")
				if sendErr != nil {
					if ev.Stalled(sendStart) && errors.Is(sendErr, context.DeadlineExceeded) {
						ev.Class(sub, "not-judged:deadline-on-stalled-machine")
						return
					}
					fail("%s of %d bytes <= MTU() %d over a reliable stack failed: %v", verb, L, mtu, sendErr)
				}
				if !ev.Patient(5*time.Second, func() bool { return have(e.Data) }) {
					fail("%s of %d bytes <= MTU() %d over a reliable stack returned nil but the payload did not arrive", verb, L, mtu)
				}
			}
			for i, r := range recs {
				if n := r.SizeRejections(); n > recsBefore[i] {
					fail("%s of %d bytes <= MTU() %d: a layer beneath (recorder %d of %d, bottom first) refused %d call(s) for size although the top-level call returned %v", verb, L, mtu, i, len(recs), n-recsBefore[i], sendErr)
				}
			}
			if sendErr == nil {
				// Loss is allowed (queues overflow, reassembly state is garbage collected); what is
				// delivered must be the complete payload and nothing else.
				arrived := waitFor(300*time.Millisecond, func() bool { return have(e.Data) })
				if arrived {
					ev.Class(sub, "accepted-and-delivered")
				} else {
					ev.Class(sub, "accepted-not-delivered")
				}
				mu.Lock()
				for _, g := range got {
					if !bytes.Equal(g, e.Data) {
						mu.Unlock()
						fail("%s of %d bytes <= MTU() %d: a delivery of %d bytes arrived that is not the payload (incomplete or wrongly assembled)", verb, L, mtu, len(g))
					}
				}
				mu.Unlock()
			}
		} else {
			if !p2p.IsErrMTUExceeded(sendErr) {
				fail("%s of %d bytes > MTU() %d returned %v, want the MTU error", verb, L, mtu, sendErr)
			}
			// sentinel: a valid small message after it; nothing of the refused payload may have arrived by then
			s := led.Make(0, 1, min(mtu, 24))
			tctx, tcf := context.WithTimeout(context.Background(), 5*time.Second)
			a.S.Tell(tctx, bLocal, p2p.IOVec{s.Data})
			tcf()
			waitFor(time.Second, func() bool { return have(s.Data) })
			mu.Lock()
			for _, g := range got {
				if bytes.Equal(g, s.Data) {
					continue
				}
				if len(g) > 0 {
					mu.Unlock()
					fail("%s of %d bytes > MTU() %d was refused, yet %d bytes were delivered (a partial or wrongly split delivery)", verb, L, mtu, len(g))
				}
			}
			mu.Unlock()
		}
	})
}

func waitFor(timeout time.Duration, cond func() bool) bool {
	return ev.Patient(timeout, cond)
}

// TestC09MuxChannels: several channels of one multiplexer have different header sizes; each must
// report and honour its own MTU regardless of the order in which the channels are used.
func TestC09MuxChannels(t *testing.T) {
	const sub = "C09.mux_several_channels"
	ev.Rule(sub, "rapid: one multiplexer (string or varint kind, whose header size depends on the channel id) over an in-memory transport of MTU 64-1500 with a recording decorator beneath; 2-5 channels with ids of differing encoded length; the channels are used in a generated order, each probed with Tell/Ask at MTU()-1, MTU(), MTU()+1. Oracle as mtu_honest, per channel: <= MTU() never refused for size here or beneath and delivered intact; > MTU() refused with the MTU error. non-trivial = channels with >= 2 distinct header sizes; distinct by (kind, ids, order, inner MTU)")
	rapid.Check(t, func(t *rapid.T) {
		kind := rapid.SampledFrom([]string{"string", "varint"}).Draw(t, "kind")
		inner := rapid.SampledFrom([]int{64, 100, 300, 1500}).Draw(t, "innerMTU")
		n := rapid.IntRange(2, 5).Draw(t, "channels")
		var ids []string
		seen := map[string]bool{}
		for len(ids) < n {
			var id string
			if kind == "string" {
				id = string(bytes.Repeat([]byte{byte('a' + len(ids))}, rapid.SampledFrom([]int{0, 1, 3, 9, 20, 40}).Draw(t, "nameLen")))
			} else {
				id = fmt.Sprint(rapid.SampledFrom([]uint64{0, 1, 127, 128, 16383, 16384, 1 << 21, 1 << 35, 1 << 63}).Draw(t, "id"))
			}
			if seen[id] {
				id += "x"
				if kind == "varint" {
					id = fmt.Sprint(len(ids) + 2)
				}
			}
			if seen[id] {
				continue
			}
			seen[id] = true
			ids = append(ids, id)
		}
		spec := stack.Spec{Base: "mem", BaseMTU: inner, QueueLen: 1024, Layers: []stack.Layer{{Kind: "rec"}}}
		w, err := stack.Build(spec, 2, 0)
		if err != nil {
			t.Fatalf("%s", ev.Tag(fmt.Sprintf("harness: %v", err)))
		}
		a, b := w.Nodes[0], w.Nodes[1]
		ca, err := stack.OpenMux(kind, p2p.ComposeAskSwarm[stack.Addr](a.S, a.A), true, ids)
		if err != nil {
			t.Fatalf("OpenMux: %v", err)
		}
		cb, err := stack.OpenMux(kind, p2p.ComposeAskSwarm[stack.Addr](b.S, b.A), true, ids)
		if err != nil {
			t.Fatalf("OpenMux: %v", err)
		}
		ctx, cancel := context.WithCancel(context.Background())
		// shut down top-down while the receivers are still draining, then stop the receivers
		defer func() {
			for _, c := range append(append([]stack.Swarm{}, ca...), cb...) {
				c.Close()
			}
			w.Close()
			cancel()
		}()
		cr := serveChannels(ctx, cb)
		order := rapid.Permutation(indices(n)).Draw(t, "order")
		hdr := map[int]bool{}
		for _, id := range ids {
			hdr[stack.HeaderLen(stack.Layer{Mux: kind, Chan: id})] = true
		}
		desc := fmt.Sprintf("kind=%s inner=%d ids=%q order=%v", kind, inner, shortIDs(ids), order)
		ev.Eval(sub)
		if len(hdr) >= 2 {
			if ev.NonTrivial(sub, desc) {
				ev.Sample(sub, desc)
			}
		}
		fail := func(f string, args ...any) { t.Fatalf("%s\ncase: %s", fmt.Sprintf(f, args...), desc) }
		for _, ci := range order {
			ch := ca[ci]
			mtu := ch.MTU()
			want := inner - stack.HeaderLen(stack.Layer{Mux: kind, Chan: ids[ci]})
			_ = want
			for _, d := range []int{-1, 0, 1} {
				L := mtu + d
				if L < 0 {
					continue
				}
				payload := bytes.Repeat([]byte{byte('A' + ci)}, L)
				useAsk := rapid.Bool().Draw(t, "ask")
				before := a.Recs[0].SizeRejections()
				tctx, cf := context.WithTimeout(ctx, 2*time.Second)
				var err error
				if useAsk {
					_, err = ch.(stack.AskBidi).Ask(tctx, make([]byte, 16), b.Local(), p2p.IOVec{payload})
				} else {
					err = ch.Tell(tctx, b.Local(), p2p.IOVec{payload})
				}
				cf()
				if d <= 0 {
					if p2p.IsErrMTUExceeded(err) {
						fail("channel %q: %d bytes <= MTU() %d refused with the MTU error", ids[ci], L, mtu)
					}
					if a.Recs[0].SizeRejections() > before {
						fail("channel %q: %d bytes <= MTU() %d was refused for size by the transport beneath (inner MTU %d)", ids[ci], L, mtu, inner)
					}
				} else if !p2p.IsErrMTUExceeded(err) {
					fail("channel %q: %d bytes > MTU() %d returned %v, want the MTU error", ids[ci], L, mtu, err)
				}
			}
		}
		time.Sleep(5 * time.Millisecond)
		tells, asks := cr.snapshot()
		for ci := range ids {
			for _, p := range append(tells[ci], asks[ci]...) {
				for _, c := range p {
					if c != byte('A'+ci) {
						fail("channel %q received a payload that was told on another channel or damaged", ids[ci])
					}
				}
			}
		}
	})
}

// reliableOverQUIC: the stack has a QUIC layer and above it only layers that pass messages through
// (recorders, address maps, whitelists, the multi-transport swarm, multiplexers).
func reliableOverQUIC(spec stack.Spec) bool {
	q := -1
	for i, l := range spec.Layers {
		if l.Kind == "quic" {
			q = i
		}
	}
	if q < 0 {
		return false
	}
	for _, l := range spec.Layers[q+1:] {
		switch l.Kind {
		case "rec", "map", "wl", "multi", "mux":
		default:
			return false
		}
	}
	return true
}
