package swarms

import (
	"bytes"
	"context"
	"fmt"
	"sync"
	"sync/atomic"
	"testing"
	"time"

	"go.brendoncarroll.net/p2p"

	"verif/harness/internal/ev"
	"verif/harness/internal/stack"
)

// TestC10Exhaustive enumerates, for two concurrent multi-part messages from two sources, every interleaving
// of their fragments and every loss / duplication pattern (each fragment delivered 0, 1 or 2 times) in a
// small scope, for the fragmenting swarm and the message-box swarm.
func TestC10Exhaustive(t *testing.T) {
	const sub = "C10.two_message_interleavings"
	partsPer := 2
	if ev.Thorough() {
		partsPer = 3
	}
	ev.Rule(sub, fmt.Sprintf("exhaustive: two sources each tell one %d-part message (distinct contents, equal length, so that the first message of each source has the same id and shape) to one receiver on a harness-owned transport; every interleaving of the two fragment sequences that keeps each source's duplicates adjacent to a chosen position x every multiplicity vector in {0,1,2}^fragments, for the fragmenting and the message-box swarm. Oracle: every delivered payload is byte-for-byte one of the two messages and is attributed to its source; a message one of whose fragments was never delivered is not delivered (complete messages that do not arrive are counted, not judged). Every case is distinct; non-trivial = a loss or duplicate present", partsPer))
	type frag struct {
		src  stack.Addr
		data []byte
		msg  int
		idx  int
	}
	var total, nontrivial, undelivered atomic.Int64
	var firstProblem atomic.Value
	for _, kind := range []string{"frag", "mbapp"} {
		innerMTU := 64
		hdr := 15
		if kind == "mbapp" {
			hdr = 24
		}
		part := innerMTU - hdr
		size := part*(partsPer-1) + part/2
		var msgs [2][]byte
		var frags [2][]frag
		for s := 0; s < 2; s++ {
			snd := newFragInst(kind, s+1, innerMTU, part*20, 1)
			msgs[s] = bytes.Repeat([]byte{byte('A' + s)}, size)
			for i := range msgs[s] {
				msgs[s][i] ^= byte(i * 7)
			}
			ctx, cf := context.WithTimeout(context.Background(), 5*time.Second)
			if err := snd.top.Tell(ctx, stack.SAddr{N: 100}, p2p.IOVec{msgs[s]}); err != nil {
				t.Fatalf("%s", ev.Tag(fmt.Sprintf("harness: %v", err)))
			}
			cf()
			for i, o := range snd.script.Take() {
				frags[s] = append(frags[s], frag{src: snd.script.Local, data: o.Data, msg: s, idx: i})
			}
			snd.top.Close()
			if len(frags[s]) != partsPer {
				t.Fatalf("%s", ev.Tag(fmt.Sprintf("harness: expected %d fragments, got %d", partsPer, len(frags[s]))))
			}
		}
		// all interleavings of the two sequences (merge orders)
		var orders [][]int // sequence of source indices
		var rec func(a, b int, cur []int)
		rec = func(a, b int, cur []int) {
			if a == 0 && b == 0 {
				orders = append(orders, append([]int{}, cur...))
				return
			}
			if a > 0 {
				rec(a-1, b, append(cur, 0))
			}
			if b > 0 {
				rec(a, b-1, append(cur, 1))
			}
		}
		rec(partsPer, partsPer, nil)
		nf := 2 * partsPer
		mults := 1
		for i := 0; i < nf; i++ {
			mults *= 3
		}
		sem := make(chan struct{}, 12)
		var wg sync.WaitGroup
		for _, order := range orders {
			for mv := 0; mv < mults; mv++ {
				if firstProblem.Load() != nil {
					break
				}
				order, mv := order, mv
				wg.Add(1)
				sem <- struct{}{}
				go func() {
					defer wg.Done()
					defer func() { <-sem }()
					var mult [2][]int
					x := mv
					for s := 0; s < 2; s++ {
						for i := 0; i < partsPer; i++ {
							mult[s] = append(mult[s], x%3)
							x /= 3
						}
					}
					recv := newFragInst(kind, 100, innerMTU, part*20, 2)
					defer recv.top.Close()
					ctx, cancel := context.WithCancel(context.Background())
					defer cancel()
					var mu sync.Mutex
					type dl struct {
						src     string
						payload []byte
					}
					var got []dl
					go func() {
						for recv.top.Receive(ctx, func(m stack.Msg) {
							mu.Lock()
							got = append(got, dl{m.Src.String(), append([]byte{}, m.Payload...)})
							mu.Unlock()
						}) == nil {
						}
					}()
					next := [2]int{}
					for _, s := range order {
						f := frags[s][next[s]]
						for k := 0; k < mult[s][next[s]]; k++ {
							if p, ok := recv.script.Inject(f.src, f.data, 2*time.Second); !ok || p != "" {
								firstProblem.CompareAndSwap(nil, fmt.Sprintf("%s: the layer failed on a genuine fragment: %q handled=%v", kind, p, ok))
								return
							}
						}
						next[s]++
					}
					complete := [2]bool{true, true}
					faulty := false
					for s := 0; s < 2; s++ {
						for _, m := range mult[s] {
							if m == 0 {
								complete[s] = false
							}
							if m != 1 {
								faulty = true
							}
						}
					}
					want := 0
					for s := 0; s < 2; s++ {
						if complete[s] {
							want++
						}
					}
					have := func(s int) bool {
						mu.Lock()
						defer mu.Unlock()
						for _, g := range got {
							if bytes.Equal(g.payload, msgs[s]) {
								return true
							}
						}
						return false
					}
					ev.Patient(time.Second, func() bool {
						return (!complete[0] || have(0)) && (!complete[1] || have(1))
					})
					total.Add(1)
					if faulty {
						nontrivial.Add(1)
					}
					desc := fmt.Sprintf("%s order=%v multiplicities=%v", kind, order, mult)
					mu.Lock()
					defer mu.Unlock()
					for _, g := range got {
						s := -1
						for k := 0; k < 2; k++ {
							if bytes.Equal(g.payload, msgs[k]) {
								s = k
							}
						}
						switch {
						case s < 0:
							firstProblem.CompareAndSwap(nil, fmt.Sprintf("a delivered payload (%d bytes) is neither of the two messages: %x...\ncase: %s", len(g.payload), g.payload[:min(24, len(g.payload))], desc))
						case g.src != frags[s][0].src.String():
							firstProblem.CompareAndSwap(nil, fmt.Sprintf("message of source %d attributed to %s\ncase: %s", s, g.src, desc))
						case !complete[s]:
							firstProblem.CompareAndSwap(nil, fmt.Sprintf("message of source %d was delivered although one of its fragments never arrived\ncase: %s", s, desc))
						}
					}
					for s := 0; s < 2; s++ {
						found := false
						for _, g := range got {
							found = found || bytes.Equal(g.payload, msgs[s])
						}
						if complete[s] && !found {
							// Not a violation of C10 (which forbids wrong deliveries, not losses). It does happen: the
							// message-box swarm sweeps all partial messages when it starts and once a minute.
							undelivered.Add(1)
						}
					}
					if faulty && ev.WantSample(sub) {
						ev.Sample(sub, desc)
					}
				}()
			}
		}
		wg.Wait()
	}
	ev.EvalN(sub, total.Load())
	ev.Extra(sub, "distinct_nontrivial_counted", nontrivial.Load())
	ev.Extra(sub, "complete_but_not_delivered", undelivered.Load())
	if p := firstProblem.Load(); p != nil {
		t.Fatalf("%s", p)
	}
	ev.Exhaustive(sub, fmt.Sprintf("%d cases: 2 kinds x all merge orders x {0,1,2}^%d multiplicities", total.Load(), 2*partsPer))
}
