package swarms

import (
	"fmt"

	"pgregory.net/rapid"

	"verif/harness/internal/stack"
)

type specOpts struct {
	maxDepth    int
	bases       []string
	needAsk     bool // every layer must preserve the ask facet
	noKinds     map[string]bool
	smallMTUs   bool // prefer small inner MTUs so that fragmentation happens
	withRec     bool // insert a recording decorator under every layer
	honestFrag  bool // only generate fragmenting MTUs whose part count fits the header field
	errClose    bool // sometimes put a transport beneath whose Close reports an error
	smallQueues bool // include very short receive queues (buffers are recycled after a few messages)
	transform   bool // the in-memory realm may carry a (pass-through) tell transform
	twoSchemes  bool // a multi-transport layer may have two schemes with different MTUs
	dupBase     bool // the base transport sometimes delivers every datagram twice (tell-only stacks)
}

var muxKinds = []string{"string", "uint16", "uint32", "uint64", "varint"}

func genChan(t *rapid.T, kind string) string {
	switch kind {
	case "string":
		switch rapid.IntRange(0, 4).Draw(t, "chanKind") {
		case 0:
			return ""
		case 1:
			return rapid.StringMatching(`[a-z]{1,12}`).Draw(t, "chan")
		case 2:
			return string(rapid.SliceOfN(rapid.Byte(), 1, 8).Draw(t, "chanBytes"))
		case 3:
			n := rapid.SampledFrom([]int{126, 127, 128, 129, 300}).Draw(t, "chanLen")
			b := make([]byte, n)
			for i := range b {
				b[i] = byte('a' + i%26)
			}
			return string(b)
		}
		return "foo-channel"
	case "uint16":
		return fmt.Sprint(rapid.SampledFrom([]uint64{0, 1, 255, 256, 65535}).Draw(t, "chan"))
	case "uint32":
		return fmt.Sprint(rapid.SampledFrom([]uint64{0, 1, 65536, 1<<32 - 1}).Draw(t, "chan"))
	case "uint64":
		return fmt.Sprint(rapid.SampledFrom([]uint64{0, 1, 1 << 32, 1<<64 - 1}).Draw(t, "chan"))
	}
	return fmt.Sprint(rapid.SampledFrom([]uint64{0, 1, 127, 128, 16383, 16384, 1 << 32, 1 << 63, 1<<64 - 1}).Draw(t, "chan"))
}

// genSpec draws a stack that is valid by construction. It tracks the MTU each
// level will really have so that only layers that fit are offered.
func genSpec(t *rapid.T, o specOpts) stack.Spec {
	var s stack.Spec
	s.Base = rapid.SampledFrom(o.bases).Draw(t, "base")
	cur := 1280
	hasAsk, hasSec := false, false
	if s.Base == "mem" {
		mtus := []int{65536, 4096, 1500, 1000, 256, 100, 64}
		if o.smallMTUs {
			mtus = []int{64, 100, 256, 256, 1000, 1500, 4096}
		}
		s.BaseMTU = rapid.SampledFrom(mtus).Draw(t, "baseMTU")
		qs := []int{4096, 1024, 256}
		if o.smallQueues {
			qs = []int{4096, 256, 16, 4, 2}
		}
		s.QueueLen = rapid.SampledFrom(qs).Draw(t, "queueLen")
		if o.transform {
			s.Transform = rapid.IntRange(0, 2).Draw(t, "tellTransform") == 0
		}
		cur = s.BaseMTU
		hasAsk, hasSec = true, true
	}
	if o.errClose && rapid.IntRange(0, 3).Draw(t, "errClose") == 0 {
		s.Layers = append(s.Layers, stack.Layer{Kind: "errclose"})
	}
	if o.dupBase && !o.needAsk && rapid.IntRange(0, 4).Draw(t, "duplicatingTransport") == 0 {
		s.Layers = append(s.Layers, stack.Layer{Kind: "dup"})
		hasAsk = false
	}
	depth := rapid.IntRange(0, o.maxDepth).Draw(t, "depth")
	for d := 0; d < depth; d++ {
		var kinds []string
		add := func(k string, ok bool) {
			if ok && !o.noKinds[k] {
				kinds = append(kinds, k)
			}
		}
		add("frag", cur > 40 && !o.needAsk)
		add("mbapp", cur > 64)
		add("mux", cur > 16)
		add("multi", !o.needAsk || (hasAsk && hasSec))
		add("map", !o.needAsk)
		add("wl", !o.needAsk || (hasAsk && hasSec))
		add("p2pke", cur >= 400 && !o.needAsk)
		hasQuic := false
		for _, pl := range s.Layers {
			if pl.Kind == "quic" {
				hasQuic = true
			}
		}
		// at most one QUIC layer: QUIC over QUIC multiplies handshake time-outs (each outer packet may wait
		// for an inner dial), which makes cases take minutes without exercising anything new
		add("quic", cur >= 1400 && !hasQuic)
		if len(kinds) == 0 {
			break
		}
		if o.withRec {
			s.Layers = append(s.Layers, stack.Layer{Kind: "rec"})
		}
		l := stack.Layer{Kind: rapid.SampledFrom(kinds).Draw(t, "layer")}
		switch l.Kind {
		case "frag":
			under := cur - 15
			mult := rapid.SampledFrom([]int{1, 2, 3, 10, 40, 255}).Draw(t, "fragParts")
			l.MTU = under * mult
			if !o.honestFrag && rapid.IntRange(0, 7).Draw(t, "fragOver") == 0 {
				l.MTU = under*256 + 1 // needs more parts than the 8-bit field holds
			}
			if l.MTU > 1<<20 {
				l.MTU = 1 << 20
				if l.MTU > under*255 {
					l.MTU = under * 255
				}
			}
			cur, hasAsk = l.MTU, false
		case "mbapp":
			part := cur - 24
			mult := rapid.SampledFrom([]int{1, 2, 3, 10, 40}).Draw(t, "mbParts")
			l.MTU = part * mult
			if l.MTU > 1<<20 {
				l.MTU = 1 << 20
			}
			l.N = rapid.IntRange(1, 4).Draw(t, "workers")
			cur, hasAsk = l.MTU, true
		case "mux":
			l.Mux = rapid.SampledFrom(muxKinds).Draw(t, "muxKind")
			l.Chan = genChan(t, l.Mux)
			h := stack.HeaderLen(l)
			if h+8 >= cur {
				l.Mux, l.Chan = "uint16", "7"
				h = 2
			}
			cur -= h
			hasSec = false
		case "multi":
			l.Name = rapid.StringMatching(`[a-z][a-z0-9]{0,5}`).Draw(t, "scheme")
			if o.twoSchemes && !o.needAsk && cur >= 4 && rapid.Bool().Draw(t, "twoSchemes") {
				l.N = 2 // the multi-transport swarm then reports the smaller of two MTUs
				cur /= 2
				hasAsk, hasSec = false, false
			}
			if !(hasAsk && hasSec) {
				hasAsk, hasSec = false, false
			}
		case "map":
			hasAsk = false
		case "wl":
			if !(hasAsk && hasSec) {
				hasAsk = false
			}
		case "p2pke":
			cur -= 20
			if cur > 65535-20 {
				cur = 65535 - 20
			}
			hasAsk, hasSec = false, true
		case "quic":
			l.MTU = rapid.SampledFrom([]int{1 << 16, 1 << 14, 100000}).Draw(t, "quicMTU")
			cur, hasAsk, hasSec = l.MTU, true, true
		}
		s.Layers = append(s.Layers, l)
	}
	if o.withRec {
		s.Layers = append(s.Layers, stack.Layer{Kind: "rec"})
	}
	return s
}
