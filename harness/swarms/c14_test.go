package swarms

import (
	"bytes"
	"context"
	"fmt"
	"hash/crc32"
	"runtime"
	"strings"
	"sync"
	"sync/atomic"
	"testing"
	"time"

	"go.brendoncarroll.net/p2p"
	"pgregory.net/rapid"

	"verif/harness/internal/ev"
	"verif/harness/internal/ledger"
	"verif/harness/internal/stack"
)

// TestC14Stress is built with -race by the driver. The race detector is the
// oracle for the memory-model part; the callback-ownership part is checked by
// the callbacks themselves.
func TestC14Stress(t *testing.T) {
	const sub = "C14.contention_workloads"
	ev.Rule(sub, "rapid, binary built with -race: generated stack (memory/UDP bases, every layer kind to depth 2, P2PKE and QUIC included), 2-3 nodes, 4-12 goroutines per node mixing Tell, Ask, Receive, ServeAsk, LookupPublicKey, LocalAddrs, MTU for ~150 ms, then Close while calls are still running. Every receive callback checksums its payload at entry, overwrites it with its own pattern (the interface allows modification), yields, and verifies its own pattern at exit; deliveries are checked against the C01 ledger. Oracle: no race report with a frame of the library (reports confined to third-party packages are logged, not counted), callback views stable from entry to exit, ledger holds. non-trivial = >= 2 goroutines per method on one swarm; distinct by (spec, goroutine mix)")
	rapid.Check(t, func(t *rapid.T) {
		spec := genSpec(t, specOpts{maxDepth: 2, bases: []string{"mem", "mem", "mem", "udp"}, honestFrag: true, smallQueues: true, transform: true, dupBase: true})
		switch rapid.IntRange(0, 3).Draw(t, "shortQueueFragmenting") {
		case 0:
			// a fragmenting / message-box layer directly on a transport that recycles its few receive buffers quickly
			top := stack.Layer{Kind: "frag", MTU: 2000}
			if rapid.Bool().Draw(t, "mbappTop") {
				top = stack.Layer{Kind: "mbapp", MTU: 2000, N: 2}
			}
			spec = stack.Spec{Base: "mem", BaseMTU: rapid.SampledFrom([]int{100, 256}).Draw(t, "innerMTU"), QueueLen: rapid.SampledFrom([]int{2, 4, 8}).Draw(t, "shortQueue"), Layers: []stack.Layer{top}}
		case 1:
			// a decrypting layer on top: its receive workers run concurrently and hand their plaintext straight to the callbacks
			spec = stack.Spec{Base: rapid.SampledFrom([]string{"mem", "mem", "udp"}).Draw(t, "secBase"), BaseMTU: 1500, QueueLen: rapid.SampledFrom([]int{4, 64}).Draw(t, "secQueue"), Layers: []stack.Layer{{Kind: "p2pke"}}}
		}
		cbWork := time.Duration(rapid.SampledFrom([]int{0, 0, 200, 1000}).Draw(t, "callbackMicros")) * time.Microsecond
		nNodes := rapid.IntRange(2, 3).Draw(t, "nodes")
		tellers := rapid.IntRange(1, 4).Draw(t, "tellers")
		if len(spec.Layers) == 1 && spec.Layers[0].Kind == "p2pke" {
			// several plaintexts of one peer in flight while a callback is still looking at an earlier one
			tellers = max(tellers, 2)
			if cbWork == 0 {
				cbWork = 500 * time.Microsecond
			}
		}
		askers := rapid.IntRange(0, 3).Draw(t, "askers")
		receivers := rapid.IntRange(1, 3).Draw(t, "receivers")
		servers := rapid.IntRange(1, 3).Draw(t, "servers")
		misc := rapid.IntRange(0, 2).Draw(t, "misc")
		w, err := stack.Build(spec, nNodes, 0)
		if err != nil {
			t.Fatalf("%s", ev.Tag(fmt.Sprintf("harness: %v: %v", spec, err)))
		}
		desc := fmt.Sprintf("%v nodes=%d tellers=%d askers=%d receivers=%d servers=%d misc=%d", spec, nNodes, tellers, askers, receivers, servers, misc)
		led := ledger.New()
		mtu := w.Nodes[0].S.MTU()
		part := partSizeOf(spec)
		var problems sync.Map
		problem := func(f string, a ...any) { problems.LoadOrStore(fmt.Sprintf(f, a...), true) }
		ctx, cancel := context.WithCancel(context.Background())
		var wg sync.WaitGroup
		var delivered atomic.Int64
		warm := make(chan struct{})
		locals := make([]stack.Addr, nNodes)
		for i, nd := range w.Nodes {
			locals[i] = nd.Local()
		}
		for i, nd := range w.Nodes {
			i, nd := i, nd
			for r := 0; r < receivers; r++ {
				r := r
				wg.Add(1)
				go func() {
					defer wg.Done()
					pattern := byte(0x40 + 16*i + r)
					for {
						err := nd.S.Receive(ctx, func(m stack.Msg) {
							sum := crc32.ChecksumIEEE(m.Payload)
							copyOf := append([]byte{}, m.Payload...)
							for j := range m.Payload {
								m.Payload[j] = pattern
							}
							runtime.Gosched()
							if cbWork > 0 {
								time.Sleep(cbWork)
							}
							for j := range m.Payload {
								if m.Payload[j] != pattern {
									problem("node %d: the message buffer changed while the callback was running (byte %d of %d)", i, j, len(m.Payload))
									break
								}
							}
							if crc32.ChecksumIEEE(copyOf) != sum {
								problem("node %d: payload changed between entry and copy", i)
							}
							if _, p := led.Check(i, copyOf); p != "" {
								problem("node %d: %s", i, p)
							}
							delivered.Add(1)
						})
						if err != nil {
							return
						}
					}
				}()
			}
			if nd.A != nil {
				for s := 0; s < servers; s++ {
					wg.Add(1)
					go func() {
						defer wg.Done()
						for {
							err := nd.A.ServeAsk(ctx, func(_ context.Context, resp []byte, m stack.Msg) int {
								sum := crc32.ChecksumIEEE(m.Payload)
								runtime.Gosched()
								if crc32.ChecksumIEEE(m.Payload) != sum {
									problem("node %d: ask request buffer changed while the handler was running", i)
								}
								return copy(resp, m.Payload[:min(len(m.Payload), len(resp), 32)])
							})
							if err != nil {
								return
							}
						}
					}()
				}
			}
			for k := 0; k < tellers; k++ {
				k := k
				wg.Add(1)
				go func() {
					defer wg.Done()
					<-warm
					for n := 0; ctx.Err() == nil; n++ {
						dst := (i + 1 + (n+k)%(nNodes-1)) % nNodes
						size := sizeFor(sizeClasses[(n*7+k*3)%len(sizeClasses)], mtu, part)
						if size > 20000 {
							size = 20000
						}
						e := led.Make(i, dst, size)
						buf := append([]byte{}, e.Data...)
						tctx, cf := context.WithTimeout(ctx, 200*time.Millisecond)
						if err := nd.S.Tell(tctx, locals[dst], p2p.IOVec{buf}); p2p.IsErrMTUExceeded(err) {
							// only a refusal for size rules out delivery; a deadline or a closing swarm does not
							led.Refuse(e)
						}
						cf()
						if !bytes.Equal(buf, e.Data) {
							problem("Tell modified the sender's buffer")
						}
						for j := range buf {
							buf[j] = 0xDD
						}
					}
				}()
			}
			if nd.A != nil {
				for k := 0; k < askers; k++ {
					k := k
					wg.Add(1)
					go func() {
						defer wg.Done()
						for n := 0; ctx.Err() == nil; n++ {
							dst := (i + 1 + (n+k)%(nNodes-1)) % nNodes
							req := []byte(fmt.Sprintf("ask-%d-%d-%d-0123456789", i, k, n))
							resp := make([]byte, 64)
							actx, cf := context.WithTimeout(ctx, 200*time.Millisecond)
							rn, err := nd.A.Ask(actx, resp, locals[dst], p2p.IOVec{req})
							cf()
							if err == nil && !bytes.Equal(resp[:rn], req[:min(len(req), 32)]) {
								problem("ask %q was answered with %q", req, resp[:rn])
							}
						}
					}()
				}
			}
			for k := 0; k < misc; k++ {
				wg.Add(1)
				go func() {
					defer wg.Done()
					for n := 0; ctx.Err() == nil; n++ {
						nd.S.LocalAddrs()
						nd.S.MTU()
						if nd.Sec != nil {
							lctx, cf := context.WithTimeout(ctx, 50*time.Millisecond)
							nd.Sec.LookupPublicKey(lctx, locals[(i+1)%nNodes])
							nd.Sec.PublicKey()
							cf()
						}
						time.Sleep(200 * time.Microsecond)
					}
				}()
			}
		}
		// Warm-up: one message per pair with a generous deadline, so that layers that need a handshake (with
		// its 250 ms retransmission interval) have their sessions before the short contention phase begins.
		for i := range w.Nodes {
			for j := i + 1; j < nNodes; j++ {
				e := led.Make(i, j, 24)
				wctx, wcf := context.WithTimeout(ctx, 3*time.Second)
				if err := w.Nodes[i].S.Tell(wctx, locals[j], p2p.IOVec{append([]byte{}, e.Data...)}); p2p.IsErrMTUExceeded(err) {
					// only a refusal for size rules out delivery; a deadline or a closing swarm does not
					led.Refuse(e)
				}
				wcf()
			}
		}
		close(warm)
		time.Sleep(time.Duration(rapid.IntRange(60, 200).Draw(t, "runMs")) * time.Millisecond)
		// Close while everything is still running, then stop the callers
		closed := make(chan struct{})
		go func() { w.Close(); close(closed) }()
		select {
		case <-closed:
		case <-time.After(5 * time.Second):
		}
		cancel()
		done := make(chan struct{})
		go func() { wg.Wait(); close(done) }()
		select {
		case <-done:
		case <-time.After(5 * time.Second):
		}
		ev.Eval(sub)
		ev.Class(sub, fmt.Sprintf("delivered>0=%v", delivered.Load() > 0))
		if tellers >= 2 && receivers >= 2 {
			if ev.NonTrivial(sub, desc) {
				ev.Sample(sub, desc)
			}
		}
		var ps []string
		problems.Range(func(k, _ any) bool { ps = append(ps, k.(string)); return len(ps) < 3 })
		if len(ps) > 0 {
			t.Fatalf("%s\ncase: %s", strings.Join(ps, "; "), desc)
		}
	})
}

// TestC14ChannelClose: one channel of a multiplexer is closed while its receive callback is running
// and traffic for the other channels keeps arriving on the same inner swarm.
func TestC14ChannelClose(t *testing.T) {
	const sub = "C14.channel_close_during_callback"
	ev.Rule(sub, "rapid, binary built with -race: two nodes on an in-memory transport with a short receive queue (1-8 buffers), one multiplexer each with 2-3 channels (or a fragmenting / message-box layer with short queues and interleaved traffic), receivers whose callbacks checksum the payload at entry, hold it for 0.2-2 ms and verify it at exit, a sender flooding all channels; one channel is closed while its callbacks are running and the flood continues. Oracle: the callback's view of its payload is stable from entry to exit and equals a told payload; no race report with a library frame. non-trivial = close landed while a callback of that channel was running; distinct by (kind, queue, timing)")
	rapid.Check(t, func(t *rapid.T) {
		kind := rapid.SampledFrom(muxKinds).Draw(t, "kind")
		q := rapid.SampledFrom([]int{1, 2, 4, 8}).Draw(t, "queueLen")
		hold := time.Duration(rapid.SampledFrom([]int{200, 1000, 2000}).Draw(t, "holdMicros")) * time.Microsecond
		nch := rapid.IntRange(2, 3).Draw(t, "channels")
		closeAfter := time.Duration(rapid.IntRange(2, 15).Draw(t, "closeAfterMs")) * time.Millisecond
		spec := stack.Spec{Base: "mem", BaseMTU: 1500, QueueLen: q}
		w, err := stack.Build(spec, 2, 0)
		if err != nil {
			t.Fatalf("%s", ev.Tag(fmt.Sprintf("harness: %v", err)))
		}
		a, b := w.Nodes[0], w.Nodes[1]
		ids := []string{"1", "2", "3"}[:nch]
		ca, err := stack.OpenMux(kind, a.S, false, ids)
		if err != nil {
			t.Fatalf("OpenMux: %v", err)
		}
		cb, err := stack.OpenMux(kind, b.S, false, ids)
		if err != nil {
			t.Fatalf("OpenMux: %v", err)
		}
		var problems sync.Map
		var inCallback [3]atomic.Int32
		var closedDuring atomic.Bool
		ctx, cancel := context.WithCancel(context.Background())
		var wg sync.WaitGroup
		for ci, ch := range cb {
			for r := 0; r < 2; r++ {
				ci, ch := ci, ch
				wg.Add(1)
				go func() {
					defer wg.Done()
					for {
						err := ch.Receive(ctx, func(m stack.Msg) {
							inCallback[ci].Add(1)
							defer inCallback[ci].Add(-1)
							before := append([]byte{}, m.Payload...)
							time.Sleep(hold)
							if !bytes.Equal(before, m.Payload) {
								problems.LoadOrStore(fmt.Sprintf("channel %s: the payload changed while the callback was running (%q -> %q)", ids[ci], clip(before), clip(m.Payload)), true)
							}
							want := bytes.Repeat([]byte{byte('A' + ci)}, len(before))
							if !bytes.Equal(before, want) {
								problems.LoadOrStore(fmt.Sprintf("channel %s received %q, which was not told on it", ids[ci], clip(before)), true)
							}
						})
						if err != nil {
							return
						}
					}
				}()
			}
		}
		// flood
		for ci, ch := range ca {
			ci, ch := ci, ch
			wg.Add(1)
			go func() {
				defer wg.Done()
				payload := bytes.Repeat([]byte{byte('A' + ci)}, 200+50*ci)
				for ctx.Err() == nil {
					tctx, cf := context.WithTimeout(ctx, 50*time.Millisecond)
					ch.Tell(tctx, b.Local(), p2p.IOVec{payload})
					cf()
					time.Sleep(50 * time.Microsecond)
				}
			}()
		}
		time.Sleep(closeAfter)
		if inCallback[0].Load() > 0 {
			closedDuring.Store(true)
		}
		cb[0].Close()
		time.Sleep(10 * time.Millisecond) // the flood on the other channels continues
		for _, c := range append(append([]stack.Swarm{}, ca...), cb[1:]...) {
			c.Close()
		}
		closed := make(chan struct{})
		go func() { w.Close(); close(closed) }()
		select {
		case <-closed:
		case <-time.After(3 * time.Second):
		}
		cancel()
		done := make(chan struct{})
		go func() { wg.Wait(); close(done) }()
		select {
		case <-done:
		case <-time.After(3 * time.Second):
		}
		ev.Eval(sub)
		desc := fmt.Sprintf("kind=%s queue=%d hold=%v channels=%d closeAfter=%v", kind, q, hold, nch, closeAfter)
		if closedDuring.Load() {
			if ev.NonTrivial(sub, desc) {
				ev.Sample(sub, desc)
			}
		}
		var ps []string
		problems.Range(func(k, _ any) bool { ps = append(ps, k.(string)); return len(ps) < 3 })
		if len(ps) > 0 {
			t.Fatalf("%s\ncase: %s", strings.Join(ps, "; "), desc)
		}
	})
}
