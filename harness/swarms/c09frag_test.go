package swarms

import (
	"bytes"
	"context"
	"fmt"
	"sync"
	"testing"
	"time"

	"go.brendoncarroll.net/p2p"
	"pgregory.net/rapid"

	"verif/harness/internal/ev"
	"verif/harness/internal/stack"
)

// TestC09FragmentBoundaries: payload lengths at and next to every multiple of the fragment capacity, one message at a
// time over a loss-free in-memory realm with a long queue. Nothing can legitimately lose such a message (no competing
// traffic, queue of 4096, the fragmenting layer discards partial messages only after ten seconds), so an accepted
// payload must arrive, and arrive intact.
func TestC09FragmentBoundaries(t *testing.T) { fragmentBoundaries(t, "C09.fragment_boundaries") }

// The same histories decide C10's first clause without any loss: whatever the fragmenting layer delivers is exactly a
// payload that was sent, for every number of fragments the header can express.
func TestC10FragmentCounts(t *testing.T) { fragmentBoundaries(t, "C10.fragment_counts") }

func fragmentBoundaries(t *testing.T, sub string) {
	ev.Rule(sub, "rapid: fragmenting swarm (announced MTU = capacity x {2,3,10,40,127,129,200,255}: every part count the one-byte header field can express, on both sides of 127/128) over an in-memory realm (MTU from {64,100,256,1000,1500}, queue 4096), two nodes, one message at a time, lengths k x capacity + {-1,0,+1} for generated k up to the announced MTU, plus 0, 1 and MTU; each accepted payload is awaited (patient limit 2 s). Oracle: every length <= MTU() is accepted, arrives exactly as sent and nothing else arrives; lengths above MTU() are refused. non-trivial = a length that is an exact non-zero multiple of the fragment capacity; distinct by (inner MTU, multiple, length list)")
	rapid.Check(t, func(t *rapid.T) {
		inner := rapid.SampledFrom([]int{64, 100, 256, 1000, 1500}).Draw(t, "innerMTU")
		capPart := inner - 15
		mult := rapid.SampledFrom([]int{2, 3, 10, 40, 127, 129, 200, 255}).Draw(t, "parts")
		spec := stack.Spec{Base: "mem", BaseMTU: inner, QueueLen: 4096, Layers: []stack.Layer{{Kind: "frag", MTU: capPart * mult}}}
		w, err := stack.Build(spec, 2, 0)
		if err != nil {
			t.Fatalf("%s", ev.Tag(fmt.Sprintf("harness: build %v: %v", spec, err)))
		}
		defer w.Close()
		a, b := w.Nodes[0], w.Nodes[1]
		mtu := a.S.MTU()
		var mu sync.Mutex
		var got [][]byte
		ctx, cancel := context.WithCancel(context.Background())
		defer cancel()
		go func() {
			for b.S.Receive(ctx, func(m stack.Msg) {
				mu.Lock()
				got = append(got, append([]byte{}, m.Payload...))
				mu.Unlock()
			}) == nil {
			}
		}()
		lens := []int{0, 1, mtu}
		n := rapid.IntRange(2, 6).Draw(t, "lengths")
		exact := false
		for i := 0; i < n; i++ {
			k := rapid.IntRange(1, mult).Draw(t, "k")
			if rapid.Bool().Draw(t, "nearTop") {
				k = rapid.IntRange(max(1, mult-3), mult).Draw(t, "kTop")
			}
			d := rapid.SampledFrom([]int{0, 0, -1, 1}).Draw(t, "delta")
			l := k*capPart + d
			if l > mtu+1 {
				l = mtu + 1
			}
			if d == 0 {
				exact = true
			}
			lens = append(lens, l)
		}
		ev.Eval(sub)
		for i, l := range lens {
			p := make([]byte, l)
			for j := range p {
				p[j] = byte(j*7 + i*31 + l)
			}
			mu.Lock()
			before := len(got)
			mu.Unlock()
			tctx, cf := context.WithTimeout(ctx, ev.Extended(2*time.Second))
			err := a.S.Tell(tctx, b.Local(), p2p.IOVec{p})
			cf()
			if l > mtu {
				if err == nil {
					t.Fatalf("a payload of %d bytes was accepted although MTU() is %d (%v)", l, mtu, spec)
				}
				continue
			}
			if err != nil {
				t.Fatalf("a payload of %d bytes was refused although MTU() is %d: %v (%v, fragment capacity %d)", l, mtu, err, spec, capPart)
			}
			arrived := ev.Patient(2*time.Second, func() bool {
				mu.Lock()
				defer mu.Unlock()
				return len(got) > before
			})
			if !arrived {
				t.Fatalf("a payload of %d bytes (%d x fragment capacity %d %+d) was accepted and never delivered, on a loss-free transport with nothing else in flight (%v)", l, l/capPart, capPart, l-l/capPart*capPart, spec)
			}
			mu.Lock()
			last := got[len(got)-1]
			cnt := len(got) - before
			mu.Unlock()
			if cnt != 1 || !bytes.Equal(last, p) {
				t.Fatalf("told %d bytes, %d message(s) arrived, the last of %d bytes, equal=%v (%v)", l, cnt, len(last), bytes.Equal(last, p), spec)
			}
		}
		if exact {
			key := fmt.Sprintf("%v %v", spec, lens)
			if ev.NonTrivial(sub, key) {
				ev.Sample(sub, key)
			}
		}
	})
}
