package swarms

import (
	"bytes"
	"context"
	"encoding/binary"
	"fmt"
	"sync"
	"sync/atomic"
	"testing"
	"time"

	"go.brendoncarroll.net/p2p"
	"pgregory.net/rapid"

	"verif/harness/internal/ev"
	"verif/harness/internal/stack"
)

// stormResp is what the storm handlers answer: the request's 8-byte id repeated up to the wanted length, so that
// every byte of a response names the ask it belongs to.
func stormResp(dst []byte, id uint64, n int) int {
	var b [8]byte
	binary.BigEndian.PutUint64(b[:], id)
	for i := 0; i < n; i++ {
		dst[i] = b[i%8]
	}
	return n
}

// TestC11AskStorm: "even when many asks to many peers are outstanding concurrently".
func TestC11AskStorm(t *testing.T) { askStorm(t, "C11.ask_storm") }

// The same histories decide C14's ownership clause for asks: the message a handler is given is its own (it scribbles over
// it), and nothing the handler does reaches memory the asker owns.
func TestC14AskStormBuffers(t *testing.T) { askStorm(t, "C14.ask_storm_buffers") }

func askStorm(t *testing.T, sub string) {
	ev.Rule(sub, "rapid: ask-capable stacks over the in-memory transport (message-box with 1-3 receive workers on the default single-packet fast path, multiplexers, bare virtual swarm; depth 0-2; in one case of four a message-box swarm over a transport that delivers every datagram twice), 2-4 nodes each serving with 1-8 ServeAsk loops; 4-12 asker goroutines spread over the nodes issue 20-100 asks each without pause to generated destinations, reusing their response buffer from ask to ask; a request is (8-byte id, wanted response length: one packet, near the packet limit or multi-part); the handler scribbles over the message it was given and answers with the id repeated to that length. Oracle: the asker's request buffer is unchanged after Ask; a successful Ask returns exactly the wanted length and every byte belongs to its own id; the handler saw the asker's address; the response buffer holds nothing else after Ask returned. non-trivial = at least 4 asks were outstanding at one node at some moment; distinct by (spec, nodes, askers, sizes)")
	rapid.Check(t, func(t *rapid.T) {
		spec := genSpec(t, specOpts{maxDepth: 2, bases: []string{"mem"}, needAsk: true, noKinds: map[string]bool{"quic": true, "frag": true, "p2pke": true}, honestFrag: true})
		if rapid.IntRange(0, 3).Draw(t, "duplicatingTransport") == 0 {
			// a message-box swarm over a datagram transport that delivers every datagram twice (as UDP may)
			base := rapid.SampledFrom([]int{256, 1000, 1500, 4096}).Draw(t, "dupBaseMTU")
			spec = stack.Spec{Base: "mem", BaseMTU: base, QueueLen: 1024, Layers: []stack.Layer{{Kind: "dup"}, {Kind: "mbapp", MTU: (base - 24) * rapid.SampledFrom([]int{3, 10, 40}).Draw(t, "dupParts"), N: rapid.IntRange(1, 3).Draw(t, "dupWorkers")}}}
		}
		n := rapid.IntRange(2, 4).Draw(t, "nodes")
		w, err := stack.Build(spec, n, 0)
		if err != nil {
			t.Fatalf("%s", ev.Tag(fmt.Sprintf("harness: %v: %v", spec, err)))
		}
		defer w.Close()
		mtu := w.Nodes[0].S.MTU()
		part := partSizeOf(spec)
		serveLoops := rapid.IntRange(1, 8).Draw(t, "serveLoops")
		askers := rapid.IntRange(4, 12).Draw(t, "askers")
		perAsker := rapid.IntRange(20, 100).Draw(t, "asksPerAsker")
		sizes := []int{16, 64}
		if part > 64 {
			sizes = append(sizes, part-40, part-24, part-8, part)
		}
		if mtu > 3*part && part > 0 {
			sizes = append(sizes, 2*part+1, 3*part)
		}
		var ok []int
		for _, s := range sizes {
			if s > 0 && s <= mtu && s <= 1<<16 {
				ok = append(ok, s)
			}
		}
		sizes = ok
		sizeSel := rapid.SliceOfN(rapid.IntRange(0, len(sizes)-1), 1, 4).Draw(t, "sizeMix")
		ctx, cancel := context.WithCancel(context.Background())
		defer cancel()
		var outstanding [8]atomic.Int64
		var peak atomic.Int64
		var pmu sync.Mutex
		var problems []string
		problem := func(f string, a ...any) {
			pmu.Lock()
			if len(problems) < 5 {
				problems = append(problems, fmt.Sprintf(f, a...))
			}
			pmu.Unlock()
		}
		askerAddr := make([]string, n)
		for i, nd := range w.Nodes {
			askerAddr[i] = addrText(nd.Local())
		}
		for i, nd := range w.Nodes {
			for k := 0; k < serveLoops; k++ {
				i, nd := i, nd
				go func() {
					for {
						err := nd.A.ServeAsk(ctx, func(_ context.Context, resp []byte, req stack.Msg) int {
							if len(req.Payload) != 16 {
								problem("node %d: handler saw a request of %d bytes, every request told has 16", i, len(req.Payload))
								return -1
							}
							id := binary.BigEndian.Uint64(req.Payload)
							want := int(binary.BigEndian.Uint64(req.Payload[8:]))
							from := int(id >> 56)
							if from < n && addrText(req.Src) != askerAddr[from] {
								problem("node %d: request %x of node %d arrived with source %s", i, id, from, addrText(req.Src))
							}
							// the message belongs to the handler: it may scribble over it
							for j := range req.Payload {
								req.Payload[j] = 0xEE
							}
							if want > len(resp) {
								return -1
							}
							return stormResp(resp, id, want)
						})
						if err != nil {
							return
						}
					}
				}()
			}
		}
		var wg sync.WaitGroup
		var done, failed atomic.Int64
		for a := 0; a < askers; a++ {
			a := a
			from := a % n
			wg.Add(1)
			go func() {
				defer wg.Done()
				resp := make([]byte, mtu+64)
				want := make([]byte, mtu+64)
				for k := 0; k < perAsker && ctx.Err() == nil; k++ {
					to := (from + 1 + (a+k)%(n-1)) % n
					size := sizes[sizeSel[(a+k)%len(sizeSel)]]
					id := uint64(from)<<56 | uint64(a)<<32 | uint64(k)
					req := make([]byte, 16)
					binary.BigEndian.PutUint64(req, id)
					binary.BigEndian.PutUint64(req[8:], uint64(size))
					for j := range resp {
						resp[j] = 0xA5
					}
					cur := outstanding[from].Add(1)
					for {
						p := peak.Load()
						if cur <= p || peak.CompareAndSwap(p, cur) {
							break
						}
					}
					actx, cf := context.WithTimeout(ctx, 10*time.Second)
					reqCopy := append([]byte{}, req...)
					nn, err := w.Nodes[from].A.Ask(actx, resp[:mtu], w.Nodes[to].Local(), p2p.IOVec{req})
					cf()
					outstanding[from].Add(-1)
					if !bytes.Equal(req, reqCopy) {
						problem("ask %x (node %d -> %d): the asker's request buffer reads % x after Ask, it held % x (the handler's writes to its own message reached the asker's memory)", id, from, to, req, reqCopy)
					}
					if err != nil {
						failed.Add(1)
						continue
					}
					done.Add(1)
					stormResp(want, id, size)
					if nn != size {
						problem("ask %x (node %d -> %d): Ask returned %d bytes, its handler produced %d", id, from, to, nn, size)
					} else if !bytes.Equal(resp[:nn], want[:size]) {
						j := 0
						for j < nn && resp[j] == want[j] {
							j++
						}
						problem("ask %x (node %d -> %d, %d bytes): the response differs from what its handler produced from byte %d on: % x (another ask's id?)", id, from, to, size, j, resp[j:min(nn, j+16)])
					}
					for j := nn; j < len(resp); j++ {
						if resp[j] != 0xA5 {
							problem("ask %x: the response buffer was written beyond the %d bytes reported (byte %d)", id, nn, j)
							break
						}
					}
				}
			}()
		}
		wg.Wait()
		cancel()
		ev.Eval(sub)
		ev.ClassN(sub, "asks-answered", done.Load())
		if failed.Load() > 0 {
			ev.ClassN(sub, "asks-failed (allowed: queue overflow / time-out)", failed.Load())
		}
		desc := fmt.Sprintf("%v nodes=%d serve=%d askers=%d x %d sizes=%v", spec, n, serveLoops, askers, perAsker, sizeSel)
		if len(problems) > 0 {
			t.Fatalf("%s\ncase: %s", problems[0], desc)
		}
		if peak.Load() >= 4 && done.Load() > 0 {
			ev.Class(sub, "peak-outstanding>=4")
			if ev.NonTrivial(sub, desc) {
				ev.Sample(sub, desc)
			}
		}
	})
}
