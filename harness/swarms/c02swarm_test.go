package swarms

import (
	"context"
	"fmt"
	"strings"
	"sync"
	"testing"
	"time"

	"go.brendoncarroll.net/p2p"
	"pgregory.net/rapid"

	"verif/harness/internal/ev"
	"verif/harness/internal/stack"
)

// TestC02SwarmBurst: the P2PKE swarm decrypts with several workers at once. A burst of distinct messages
// from one peer, handled by callbacks that take a while, must come out as those plaintexts: each at most
// once, and unchanged for as long as its callback runs.
func TestC02SwarmBurst(t *testing.T) {
	const sub = "C02.swarm_burst"
	ev.Rule(sub, "rapid: two P2PKE swarms on a memory or UDP transport; after the handshake one peer tells a burst of 20-200 distinct tagged plaintexts (16-600 bytes, same or mixed sizes) from 1-4 goroutines while 1-3 receivers run callbacks that take 0-2 ms and copy the payload at entry and at exit. Oracle: every copy (entry and exit) is byte-for-byte a plaintext the peer sent, entry and exit copies of one callback are equal, and no plaintext is delivered twice. non-trivial = >= 2 messages in flight (burst from >= 2 goroutines or a slow callback); distinct by parameters")
	rapid.Check(t, func(t *rapid.T) {
		base := rapid.SampledFrom([]string{"mem", "mem", "udp"}).Draw(t, "base")
		n := rapid.IntRange(20, 200).Draw(t, "messages")
		senders := rapid.IntRange(1, 4).Draw(t, "senders")
		receivers := rapid.IntRange(1, 3).Draw(t, "receivers")
		cbMicros := rapid.SampledFrom([]int{0, 200, 1000, 2000}).Draw(t, "callbackMicros")
		sizeMode := rapid.SampledFrom([]string{"same", "mixed", "shrinking"}).Draw(t, "sizes")
		spec := stack.Spec{Base: base, BaseMTU: 1500, QueueLen: 256, Layers: []stack.Layer{{Kind: "p2pke"}}}
		w, err := stack.Build(spec, 2, 0)
		if err != nil {
			t.Fatalf("%s", ev.Tag(fmt.Sprintf("harness: %v", err)))
		}
		defer w.Close()
		desc := fmt.Sprintf("%s messages=%d senders=%d receivers=%d callback=%dus sizes=%s", base, n, senders, receivers, cbMicros, sizeMode)
		a, b := w.Nodes[0], w.Nodes[1]
		mkPayload := func(i int) []byte {
			size := 64
			switch sizeMode {
			case "mixed":
				size = 16 + (i*37)%585
			case "shrinking":
				size = 600 - (i*3)%580
			}
			head := fmt.Sprintf("burst-%05d|", i)
			p := []byte(head + strings.Repeat(string(rune('a'+i%26)), max(0, size-len(head))))
			return p
		}
		sent := map[string]bool{"warm-up": true}
		for i := 0; i < n; i++ {
			sent[string(mkPayload(i))] = true
		}
		var mu sync.Mutex
		seen := map[string]int{}
		var problems []string
		problem := func(f string, args ...any) {
			mu.Lock()
			defer mu.Unlock()
			if len(problems) < 4 {
				problems = append(problems, fmt.Sprintf(f, args...))
			}
		}
		ctx, cancel := context.WithCancel(context.Background())
		defer cancel()
		var rwg sync.WaitGroup
		for r := 0; r < receivers; r++ {
			rwg.Add(1)
			go func() {
				defer rwg.Done()
				for {
					err := b.S.Receive(ctx, func(m stack.Msg) {
						entry := string(m.Payload)
						if cbMicros > 0 {
							time.Sleep(time.Duration(cbMicros) * time.Microsecond)
						}
						exit := string(m.Payload)
						if entry != exit {
							problem("a payload changed while its callback was running: %q became %q", clipS(entry), clipS(exit))
						}
						if !sent[entry] {
							problem("a delivered plaintext is not one the peer sent: %q", clipS(entry))
							return
						}
						mu.Lock()
						seen[entry]++
						c := seen[entry]
						mu.Unlock()
						if c > 1 {
							problem("plaintext %q was delivered %d times", clipS(entry), c)
						}
					})
					if err != nil {
						return
					}
				}
			}()
		}
		tctx, tcf := context.WithTimeout(ctx, ev.Extended(2*time.Second))
		err = a.S.Tell(tctx, b.Local(), p2p.IOVec{[]byte("warm-up")})
		tcf()
		if err != nil {
			ev.Class(sub, "not-judged:handshake-did-not-complete")
			return
		}
		var swg sync.WaitGroup
		for s := 0; s < senders; s++ {
			s := s
			swg.Add(1)
			go func() {
				defer swg.Done()
				for i := s; i < n; i += senders {
					c, cf := context.WithTimeout(ctx, 5*time.Second)
					a.S.Tell(c, b.Local(), p2p.IOVec{mkPayload(i)})
					cf()
				}
			}()
		}
		swg.Wait()
		ev.Patient(300*time.Millisecond, func() bool {
			mu.Lock()
			defer mu.Unlock()
			return len(seen) >= n+1
		})
		cancel()
		w.Close()
		ev.PatientCh(2*time.Second, waitCh(&rwg))
		ev.Eval(sub)
		mu.Lock()
		ps := append([]string{}, problems...)
		got := len(seen)
		mu.Unlock()
		ev.Class(sub, fmt.Sprintf("delivered>=half=%v", got*2 >= n))
		if senders >= 2 || cbMicros > 0 {
			if ev.NonTrivial(sub, desc) {
				ev.Sample(sub, fmt.Sprintf("%s delivered=%d", desc, got))
			}
		}
		if len(ps) > 0 {
			t.Fatalf("%s\ncase: %s", strings.Join(ps, "\n"), desc)
		}
	})
}

func clipS(s string) string {
	if len(s) > 40 {
		return s[:40] + fmt.Sprintf("..(%dB)", len(s))
	}
	return s
}

func waitCh(wg *sync.WaitGroup) <-chan struct{} {
	ch := make(chan struct{})
	go func() { wg.Wait(); close(ch) }()
	return ch
}
