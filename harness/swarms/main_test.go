package swarms

import (
	"io"
	"log"
	"testing"

	"verif/harness/internal/ev"
)

func TestMain(m *testing.M) {
	log.SetOutput(io.Discard) // several layers log every dropped message
	ev.Main(m)
}
