package swarms

import (
	"context"
	"fmt"
	"strings"
	"sync"
	"testing"
	"time"

	"go.brendoncarroll.net/p2p"
	"pgregory.net/rapid"

	"go.brendoncarroll.net/p2p/s/sshswarm"
	"verif/harness/internal/ev"

	"verif/harness/internal/stack"
)

// TestC14SSH (built with -race): concurrent use of an SSH swarm, including the calls that only read
// (LocalAddrs, MTU, LookupPublicKey) and callers that modify the slices they were handed.
func TestC14SSH(t *testing.T) {
	const sub = "C14.ssh_concurrent"
	ev.Rule(sub, "rapid, binary built with -race: two SSH swarms on TCP loopback; 2-8 goroutines per swarm start at a barrier and call LocalAddrs (each overwrites the slice it was handed with a pattern of its own and checks it afterwards), MTU, Tell and Ask concurrently for 10-40 rounds while incoming connections are accepted. Oracle: no race report with a frame of the library; a slice returned by LocalAddrs belongs to its caller (nobody else's pattern shows up in it); LocalAddrs keeps returning the swarm's real addresses. non-trivial = >= 2 goroutines calling LocalAddrs from the first instant; distinct by parameters")
	rapid.Check(t, func(t *rapid.T) {
		var nodes []*sshswarm.Swarm
		for i := 0; i < 2; i++ {
			signer, err := sshswarm.NewSignerFromSigner(stack.StdKey(i))
			if err != nil {
				t.Fatalf("%s", ev.Tag(fmt.Sprintf("harness: %v", err)))
			}
			sw, err := sshswarm.New("127.0.0.1:0", signer)
			if err != nil {
				t.Fatalf("%s", ev.Tag(fmt.Sprintf("harness: %v", err)))
			}
			defer sw.Close()
			nodes = append(nodes, sw)
		}
		warm := rapid.Bool().Draw(t, "addressesKnownBefore")
		g := rapid.IntRange(2, 8).Draw(t, "goroutines")
		rounds := rapid.IntRange(10, 40).Draw(t, "rounds")
		desc := fmt.Sprintf("goroutines=%d rounds=%d", g, rounds)
		ctx, cancel := context.WithCancel(context.Background())
		defer cancel()
		for _, nd := range nodes {
			nd := nd
			go func() {
				for nd.Receive(ctx, func(p2p.Message[sshswarm.Addr]) {}) == nil {
				}
			}()
			go func() {
				for nd.ServeAsk(ctx, func(_ context.Context, resp []byte, m p2p.Message[sshswarm.Addr]) int { return copy(resp, "ok") }) == nil {
				}
			}()
		}

		var mu sync.Mutex
		var problems []string
		problem := func(f string, a ...any) {
			mu.Lock()
			defer mu.Unlock()
			if len(problems) < 3 {
				problems = append(problems, fmt.Sprintf(f, a...))
			}
		}
		start := make(chan struct{})
		var wg sync.WaitGroup
		// In half of the cases nobody has called LocalAddrs before the concurrent phase (the very first calls race with
		// each other and with accepted connections); the peers' addresses are then unknown and tells go nowhere.
		peerAddr := make([]sshswarm.Addr, 2)
		if warm {
			for i, nd := range nodes {
				peerAddr[i] = nd.LocalAddrs()[0]
			}
		}
		for ni, nd := range nodes {
			_ = nodes[1-ni]
			for k := 0; k < g; k++ {
				ni, nd, k := ni, nd, k
				wg.Add(1)
				go func() {
					defer wg.Done()
					<-start
					for r := 0; r < rounds; r++ {
						addrs := nd.LocalAddrs()
						if len(addrs) == 0 {
							problem("node %d: LocalAddrs returned nothing", ni)
							return
						}
						for _, a := range addrs {
							if a.Port >= 60000+100 && a.Port < 60000+100+64 {
								problem("node %d: LocalAddrs returned an entry that another caller had overwritten (port %d)", ni, a.Port)
							}
						}
						// the slice is the caller's: overwrite it, do other work, look again
						stamp := uint16(60000 + 100 + ni*8 + k)
						for i := range addrs {
							addrs[i].Port = stamp
						}
						nd.MTU()
						if r%4 == k%4 {
							c, cf := context.WithTimeout(ctx, 2*time.Second)
							dst := peerAddr[1-ni]
							if r%8 < 4 {
								nd.Tell(c, dst, p2p.IOVec{[]byte("x")})
							} else {
								nd.Ask(c, make([]byte, 8), dst, p2p.IOVec{[]byte("x")})
							}
							cf()
						}
						for i := range addrs {
							if addrs[i].Port != stamp {
								problem("node %d: the slice LocalAddrs handed to one caller was changed by someone else", ni)
							}
						}
					}
				}()
			}
		}
		close(start)
		wg.Wait()
		ev.Eval(sub)
		if ev.NonTrivial(sub, desc) {
			ev.Sample(sub, desc)
		}
		if len(problems) > 0 {
			t.Fatalf("%s\ncase: %s", strings.Join(problems, "\n"), desc)
		}
	})
}
