package swarms

import (
	"bytes"
	"context"
	"fmt"
	"strings"
	"sync"
	"testing"
	"time"

	"go.brendoncarroll.net/p2p"
	"go.brendoncarroll.net/p2p/p/mbapp"
	"go.brendoncarroll.net/p2p/s/fragswarm"
	"pgregory.net/rapid"

	"verif/harness/internal/ev"
	"verif/harness/internal/ledger"
	"verif/harness/internal/stack"
)

type fragLayerInst struct {
	script *stack.Script
	top    stack.Swarm
	ask    stack.AskBidi
}

func newFragInst(kind string, n, innerMTU, mtu, workers int) *fragLayerInst {
	sc := stack.NewScript(n, innerMTU)
	fi := &fragLayerInst{script: sc}
	switch kind {
	case "frag":
		fi.top = fragswarm.New[stack.Addr](stack.TellOnly{Swarm: sc}, mtu)
	case "mbapp":
		sw := mbapp.New[stack.Addr, stack.PubKey](p2p.ComposeSecureSwarm[stack.Addr, stack.PubKey](stack.TellOnly{Swarm: sc}, sc), mtu, mbapp.WithNumWorkers(workers))
		fi.top, fi.ask = sw, sw
	}
	return fi
}

type fragment struct {
	src  stack.Addr
	data []byte
	msg  uint64 // ledger id of the message it belongs to
}

type delivered struct {
	src     string
	payload []byte
}

func c10Check(t *rapid.T, sub, kind string) {
	innerMTU := rapid.SampledFrom([]int{40, 64, 100, 300, 1500}).Draw(t, "innerMTU")
	if kind == "mbapp" && innerMTU < 64 {
		innerMTU = 64
	}
	hdr := 15
	if kind == "mbapp" {
		hdr = 24
	}
	part := innerMTU - hdr
	mtu := part * 20
	workers := rapid.IntRange(1, 3).Draw(t, "workers")
	nSenders := rapid.IntRange(1, 4).Draw(t, "senders")
	recv := newFragInst(kind, 100, innerMTU, mtu, workers)
	defer recv.top.Close()
	led := ledger.New()
	var frags []fragment
	msgParts := map[uint64]int{}
	var senders []*fragLayerInst
	var sizes []string
	for s := 0; s < nSenders; s++ {
		snd := newFragInst(kind, s+1, innerMTU, mtu, 1)
		senders = append(senders, snd)
		nMsgs := rapid.IntRange(1, 5).Draw(t, "msgs")
		for m := 0; m < nMsgs; m++ {
			parts := rapid.SampledFrom([]int{1, 2, 2, 3, 5, 10, 20}).Draw(t, "parts")
			size := part*(parts-1) + rapid.IntRange(1, part).Draw(t, "lastPart")
			e := led.Make(s, 100, size)
			tctx, cf := context.WithTimeout(context.Background(), 2*time.Second)
			err := snd.top.Tell(tctx, recv.script.Local, p2p.IOVec{e.Data})
			cf()
			if err != nil {
				t.Fatalf("sender Tell(%d bytes, mtu %d): %v", size, mtu, err)
			}
			out := snd.script.Take()
			msgParts[e.ID] = len(out)
			sizes = append(sizes, fmt.Sprintf("s%d:%dp", s+1, len(out)))
			for _, o := range out {
				frags = append(frags, fragment{src: snd.script.Local, data: o.Data, msg: e.ID})
			}
		}
	}
	defer func() {
		for _, s := range senders {
			s.top.Close()
		}
	}()
	// schedule: multiplicity per fragment, then a permutation
	type slot struct {
		f fragment
	}
	var sched []fragment
	lost := map[uint64]bool{}
	dups := 0
	for _, f := range frags {
		mult := rapid.SampledFrom([]int{1, 1, 1, 1, 1, 0, 2, 3}).Draw(t, "mult")
		if mult == 0 {
			lost[f.msg] = true
		}
		if mult > 1 {
			dups++
		}
		for i := 0; i < mult; i++ {
			sched = append(sched, f)
		}
	}
	if len(sched) > 1 {
		perm := rapid.Permutation(indices(len(sched))).Draw(t, "order")
		shuffled := make([]fragment, len(sched))
		for i, p := range perm {
			shuffled[i] = sched[p]
		}
		// keep some schedules in order
		if !rapid.Bool().Draw(t, "inOrder") {
			sched = shuffled
		}
	}
	parallel := rapid.Bool().Draw(t, "parallel")
	desc := fmt.Sprintf("%s innerMTU=%d workers=%d senders=%d msgs=%s frags=%d lostMsgs=%d dups=%d parallel=%v", kind, innerMTU, workers, nSenders, strings.Join(sizes, ","), len(sched), len(lost), dups, parallel)
	// receiver application
	ctx, cancel := context.WithCancel(context.Background())
	defer cancel()
	var mu sync.Mutex
	var got []delivered
	go func() {
		for {
			if err := recv.top.Receive(ctx, func(m stack.Msg) {
				mu.Lock()
				got = append(got, delivered{addrText(m.Src), append([]byte{}, m.Payload...)})
				mu.Unlock()
			}); err != nil {
				return
			}
		}
	}()
	feed := func(f fragment) string {
		p, handled := recv.script.Inject(f.src, f.data, 2*time.Second)
		if !handled {
			return "the layer stopped receiving from its transport"
		}
		return p
	}
	var problems []string
	if parallel {
		var wg sync.WaitGroup
		var pmu sync.Mutex
		ch := make(chan fragment)
		for g := 0; g < 4; g++ {
			wg.Add(1)
			go func() {
				defer wg.Done()
				for f := range ch {
					if p := feed(f); p != "" {
						pmu.Lock()
						problems = append(problems, p)
						pmu.Unlock()
					}
				}
			}()
		}
		for _, f := range sched {
			ch <- f
		}
		close(ch)
		wg.Wait()
	} else {
		for _, f := range sched {
			if p := feed(f); p != "" {
				problems = append(problems, p)
			}
		}
	}
	time.Sleep(10 * time.Millisecond)
	ev.Eval(sub)
	fail := func(f string, a ...any) { t.Fatalf("%s\ncase: %s", fmt.Sprintf(f, a...), desc) }
	if len(problems) > 0 {
		fail("layer failed on genuine fragments: %s", problems[0])
	}
	mu.Lock()
	defer mu.Unlock()
	deliveredCount := 0
	for _, d := range got {
		e, p := led.Check(100, d.payload)
		if p != "" {
			fail("delivered payload is not a message that was sent: %s", p)
		}
		deliveredCount++
		if want := senders[e.Src].script.Local.String(); d.src != want {
			fail("message %d was sent by %s but attributed to %s", e.ID, want, d.src)
		}
		if lost[e.ID] {
			fail("message %d was delivered although one of its %d fragments was never delivered to the layer", e.ID, msgParts[e.ID])
		}
	}
	multiMsg := 0
	for _, n := range msgParts {
		if n >= 2 {
			multiMsg++
		}
	}
	if deliveredCount > 0 {
		ev.Class(sub, "some-delivered")
	}
	if multiMsg >= 2 && (len(lost) > 0 || dups > 0) {
		if ev.NonTrivial(sub, desc) {
			ev.Sample(sub, desc)
		}
	}
}

func indices(n int) []int {
	out := make([]int, n)
	for i := range out {
		out[i] = i
	}
	return out
}

func TestC10Frag(t *testing.T) {
	const sub = "C10.fragswarm"
	ev.Rule(sub, c10Rule)
	rapid.Check(t, func(t *rapid.T) { c10Check(t, sub, "frag") })
}

func TestC10Mbapp(t *testing.T) {
	const sub = "C10.mbapp"
	ev.Rule(sub, c10Rule)
	rapid.Check(t, func(t *rapid.T) { c10Check(t, sub, "mbapp") })
}

const c10Rule = "rapid: 1-4 sender instances and one receiver instance of the layer, all on scripted transports (inner MTU 40-1500); each sender tells 1-5 tagged messages of 1-20 parts; the harness collects the emitted fragments and draws a schedule: a permutation of the multiset with per-fragment multiplicity 0 (lost), 1, 2 or 3, fed one at a time or from 4 goroutines. Oracle: every delivered payload equals one ledger payload of the source it is attributed to, and a message with a lost fragment is never delivered. non-trivial = fragments of >= 2 multi-part messages interleaved with a loss or a duplicate; distinct by schedule description"

// TestC10MbappBidi: a multi-part reply and a multi-part tell from the same peer, interleaved.
func TestC10MbappBidi(t *testing.T) {
	const sub = "C10.mbapp_reply_vs_tell"
	ev.Rule(sub, "rapid: two fresh message-box instances R and S on scripted transports; R asks S (S's handler answers with a tagged multi-part response) while S tells R a tagged multi-part message, so both fragment streams come from the same peer with coinciding message counters; the harness interleaves the reply fragments and the tell fragments by a generated permutation. Oracle: R's Ask returns exactly the handler's response (or an error), every tell delivered to R is exactly S's tell, never a mixture. non-trivial = both streams multi-part and interleaved; distinct by (sizes, order)")
	rapid.Check(t, func(t *rapid.T) {
		innerMTU := rapid.SampledFrom([]int{100, 200, 300}).Draw(t, "innerMTU")
		part := innerMTU - 24
		mtu := part * 20
		respParts := rapid.IntRange(2, 8).Draw(t, "respParts")
		tellParts := rapid.IntRange(2, 8).Draw(t, "tellParts")
		r := newFragInst("mbapp", 1, innerMTU, mtu, rapid.IntRange(1, 3).Draw(t, "workers"))
		s := newFragInst("mbapp", 2, innerMTU, mtu, 1)
		defer r.top.Close()
		defer s.top.Close()
		led := ledger.New()
		resp := led.Make(2, 1, part*(respParts-1)+rapid.IntRange(1, part).Draw(t, "respLast"))
		tell := led.Make(2, 1, part*(tellParts-1)+rapid.IntRange(1, part).Draw(t, "tellLast"))
		desc := fmt.Sprintf("innerMTU=%d resp=%dB/%dp tell=%dB/%dp", innerMTU, len(resp.Data), respParts, len(tell.Data), tellParts)
		fail := func(f string, a ...any) { t.Fatalf("%s\ncase: %s", fmt.Sprintf(f, a...), desc) }
		ctx, cancel := context.WithCancel(context.Background())
		defer cancel()
		// S serves asks with the tagged response
		go func() {
			for {
				if err := s.ask.ServeAsk(ctx, func(_ context.Context, out []byte, m stack.Msg) int {
					return copy(out, resp.Data)
				}); err != nil {
					return
				}
			}
		}()
		// R receives tells
		var mu sync.Mutex
		var tells [][]byte
		go func() {
			for {
				if err := r.top.Receive(ctx, func(m stack.Msg) {
					mu.Lock()
					tells = append(tells, append([]byte{}, m.Payload...))
					mu.Unlock()
				}); err != nil {
					return
				}
			}
		}()
		// R asks S; S tells R at (nearly) the same moment
		type askOut struct {
			n   int
			err error
			buf []byte
		}
		askDone := make(chan askOut, 1)
		go func() {
			buf := make([]byte, mtu)
			actx, cf := context.WithTimeout(ctx, 3*time.Second)
			defer cf()
			n, err := r.ask.Ask(actx, buf, s.script.Local, p2p.IOVec{[]byte("request")})
			askDone <- askOut{n, err, buf}
		}()
		tctx, tcf := context.WithTimeout(ctx, 2*time.Second)
		if err := s.top.Tell(tctx, r.script.Local, p2p.IOVec{tell.Data}); err != nil {
			fail("S.Tell: %v", err)
		}
		tcf()
		tellFrags := s.script.Take()
		// carry R's request to S
		var reqFrags []stack.Sent
		if !waitFor(time.Second, func() bool { reqFrags = append(reqFrags, r.script.Take()...); return len(reqFrags) > 0 }) {
			fail("R's ask produced no request on the transport")
		}
		for _, f := range reqFrags {
			if p, ok := s.script.Inject(r.script.Local, f.Data, 2*time.Second); !ok || p != "" {
				fail("S failed on R's request: %q handled=%v", p, ok)
			}
		}
		var replyFrags []stack.Sent
		waitFor(time.Second, func() bool { replyFrags = append(replyFrags, s.script.Take()...); return len(replyFrags) >= respParts })
		if len(replyFrags) == 0 {
			fail("S produced no reply fragments")
		}
		all := append(append([]stack.Sent{}, replyFrags...), tellFrags...)
		perm := rapid.Permutation(indices(len(all))).Draw(t, "order")
		for _, i := range perm {
			if p, ok := r.script.Inject(s.script.Local, all[i].Data, 2*time.Second); !ok || p != "" {
				fail("R failed on a genuine fragment: %q handled=%v", p, ok)
			}
		}
		ev.Eval(sub)
		if ev.NonTrivial(sub, desc+fmt.Sprint(perm)) {
			ev.Sample(sub, desc+" order="+fmt.Sprint(perm))
		}
		if a, returned := ev.PatientRecv(4*time.Second, askDone); !returned {
			fail("Ask did not return")
		} else {
			if a.err == nil && !bytes.Equal(a.buf[:a.n], resp.Data) {
				_, why := led.Check(1, a.buf[:a.n])
				fail("Ask returned success with %d bytes that are not the handler's %d-byte response (%s)", a.n, len(resp.Data), why)
			}
			if a.err == nil {
				ev.Class(sub, "ask-succeeded")
			}
		}
		time.Sleep(5 * time.Millisecond)
		mu.Lock()
		defer mu.Unlock()
		for _, p := range tells {
			if !bytes.Equal(p, tell.Data) {
				_, why := led.Check(1, p)
				fail("R received a tell of %d bytes that is not S's tell of %d bytes (%s)", len(p), len(tell.Data), why)
			}
		}
	})
}
