package swarms

import (
	"bytes"
	"context"
	"crypto/sha256"
	"fmt"
	"sync"
	"testing"
	"time"

	"go.brendoncarroll.net/p2p"
	"go.brendoncarroll.net/p2p/p/mbapp"
	"pgregory.net/rapid"

	"verif/harness/internal/ev"
	"verif/harness/internal/stack"
)

// TestC14BufferReuse: "once the callback returns the library may reuse the buffer but never exposes its old
// contents as part of another message". Honest multi-part messages with high-entropy contents pass through a
// message-box swarm first; then a peer that writes the wire format itself sends messages of the same sizes whose
// parts do not cover the whole message. Whatever is delivered for those must not contain bytes of the earlier ones.
func TestC14BufferReuse(t *testing.T) {
	const sub = "C14.recycled_buffer_exposure"
	ev.Rule(sub, "rapid: a message-box swarm R on a harness-owned transport (inner MTU 64-300). Phase 1: an honest message-box sender delivers 1-6 multi-part messages of generated sizes with pseudo-random contents (the callbacks return). Phase 2: a raw peer sends 1-6 messages in R's wire format, as tell or ask request, claiming a total size equal to (or near) one of the earlier sizes with 2-5 parts whose bodies are much shorter than the part size, so that the parts are accepted but leave holes; honest messages may be interleaved. Oracle: no payload handed to a callback for the raw peer's messages contains an 8-byte window of an earlier message's contents; honest messages arrive intact. non-trivial = a raw message with holes was delivered; distinct by (sizes, part shapes)")
	rapid.Check(t, func(t *rapid.T) {
		innerMTU := rapid.SampledFrom([]int{64, 100, 300}).Draw(t, "innerMTU")
		part := innerMTU - mbapp.HeaderSize
		r := newFragInst("mbapp", 1, innerMTU, 1<<16, rapid.IntRange(1, 3).Draw(t, "workers"))
		s := newFragInst("mbapp", 2, innerMTU, 1<<16, 1)
		defer r.top.Close()
		defer s.top.Close()
		type got struct {
			src     string
			payload []byte
		}
		var mu sync.Mutex
		var gots []got
		ctx, cancel := context.WithCancel(context.Background())
		defer cancel()
		go func() {
			for r.top.Receive(ctx, func(m stack.Msg) {
				mu.Lock()
				gots = append(gots, got{m.Src.String(), append([]byte{}, m.Payload...)})
				mu.Unlock()
			}) == nil {
			}
		}()
		go func() {
			for r.ask.ServeAsk(ctx, func(_ context.Context, resp []byte, m stack.Msg) int {
				mu.Lock()
				gots = append(gots, got{m.Src.String(), append([]byte{}, m.Payload...)})
				mu.Unlock()
				return 0
			}) == nil {
			}
		}()
		secret := func(i, size int) []byte {
			out := make([]byte, 0, size+32)
			for c := 0; len(out) < size; c++ {
				h := sha256.Sum256([]byte(fmt.Sprintf("secret-%d-%d", i, c)))
				out = append(out, h[:]...)
			}
			return out[:size]
		}
		nSecrets := rapid.IntRange(1, 6).Draw(t, "secrets")
		var sizes []int
		var secrets [][]byte
		for i := 0; i < nSecrets; i++ {
			size := rapid.IntRange(2*part+1, 6*part).Draw(t, "secretSize")
			if i > 0 && rapid.Bool().Draw(t, "sameSize") {
				size = sizes[0]
			}
			sizes = append(sizes, size)
			sec := secret(i, size)
			secrets = append(secrets, sec)
			tctx, cf := context.WithTimeout(ctx, ev.Extended(2*time.Second))
			err := s.top.Tell(tctx, r.script.Local, p2p.IOVec{sec})
			cf()
			if err != nil {
				t.Fatalf("%s", ev.Tag(fmt.Sprintf("harness: honest tell failed: %v", err)))
			}
			for _, f := range s.script.Take() {
				if p, ok := r.script.Inject(s.script.Local, f.Data, 2*time.Second); !ok || p != "" {
					t.Fatalf("R failed on a genuine fragment: %q handled=%v", p, ok)
				}
			}
		}
		ok := ev.Patient(time.Second, func() bool {
			mu.Lock()
			defer mu.Unlock()
			return len(gots) >= nSecrets
		})
		mu.Lock()
		for _, g := range gots {
			known := false
			for _, sec := range secrets {
				known = known || bytes.Equal(g.payload, sec)
			}
			if !known {
				mu.Unlock()
				t.Fatalf("an honest message arrived altered (%d bytes)", len(g.payload))
			}
		}
		mu.Unlock()
		if !ok {
			ev.Class(sub, "not-judged:honest-messages-not-delivered")
			return
		}
		// phase 2
		raw := stack.SAddr{N: 9}
		nRaw := rapid.IntRange(1, 6).Draw(t, "rawMessages")
		var shapes []string
		for k := 0; k < nRaw; k++ {
			total := sizes[rapid.IntRange(0, len(sizes)-1).Draw(t, "like")] + rapid.SampledFrom([]int{0, 0, 0, -1, 1, -part}).Draw(t, "delta")
			if total < 2 {
				total = 2
			}
			parts := rapid.IntRange(2, 5).Draw(t, "parts")
			isAsk := rapid.Bool().Draw(t, "ask")
			bodyLen := rapid.IntRange(0, 8).Draw(t, "bodyLen")
			shapes = append(shapes, fmt.Sprintf("total=%d parts=%d body=%d ask=%v", total, parts, bodyLen, isAsk))
			order := rapid.Permutation(seq(parts)).Draw(t, "order")
			for _, pi := range order {
				h := mbapp.Header(make([]byte, mbapp.HeaderSize))
				h.SetIsAsk(isAsk)
				h.SetOriginTime(mbapp.PhaseTime32(1000 + k))
				h.SetCounter(uint32(7000 + k))
				h.SetTotalSize(uint32(total))
				h.SetPartIndex(uint16(pi))
				h.SetPartCount(uint16(parts))
				h.SetTimeout(1000)
				body := bytes.Repeat([]byte{0}, bodyLen)
				if p, ok := r.script.Inject(raw, append(append([]byte{}, h...), body...), 2*time.Second); !ok || p != "" {
					t.Fatalf("R panicked or stalled on a raw fragment: %q handled=%v", p, ok)
				}
			}
			r.script.Take() // error replies to the raw peer are not of interest
		}
		time.Sleep(5 * time.Millisecond)
		ev.Eval(sub)
		mu.Lock()
		defer mu.Unlock()
		holes := false
		for _, g := range gots[nSecrets:] {
			if g.src != raw.String() {
				continue
			}
			holes = true
			for si, sec := range secrets {
				for off := 0; off+8 <= len(sec); off += 8 {
					if bytes.Contains(g.payload, sec[off:off+8]) {
						t.Fatalf("a %d-byte message from the raw peer (whose parts carried only zero bytes) was delivered containing bytes %d..%d of honest message %d, which had been handed to a callback earlier\ncase: innerMTU=%d secrets=%v raw=%v", len(g.payload), off, off+8, si, innerMTU, sizes, shapes)
					}
				}
			}
		}
		desc := fmt.Sprintf("innerMTU=%d secrets=%v raw=%v", innerMTU, sizes, shapes)
		if holes {
			if ev.NonTrivial(sub, desc) {
				ev.Sample(sub, desc)
			}
			ev.Class(sub, "raw-message-with-holes-delivered")
		}
	})
}

func seq(n int) []int {
	out := make([]int, n)
	for i := range out {
		out[i] = i
	}
	return out
}

// TestC14AskBufferAfterReturn: once Ask has returned the response buffer belongs to the caller again; a reply
// that arrives at the very moment the asker's context ends must either be returned or be dropped - never
// written into the buffer behind the caller's back.
func TestC14AskBufferAfterReturn(t *testing.T) {
	const sub = "C14.ask_buffer_after_return"
	ev.Rule(sub, "rapid: a message-box swarm on a harness-owned transport asks a peer 100-400 times per case with context deadlines of 1-3 ms; the harness answers each request with a well-formed reply injected within +-300 us of that deadline (a few clearly early and clearly late ones mixed in). Oracle: if Ask returns nil the buffer holds the reply; whatever it returns, the buffer is byte-for-byte unchanged 2 ms after the return. non-trivial = case with replies on both sides of the deadline; distinct by parameters")
	rapid.Check(t, func(t *rapid.T) {
		inner := rapid.SampledFrom([]int{100, 300}).Draw(t, "innerMTU")
		part := inner - mbapp.HeaderSize
		r := newFragInst("mbapp", 1, inner, part*20, rapid.IntRange(1, 3).Draw(t, "workers"))
		defer r.top.Close()
		sAddr := stack.SAddr{N: 2}
		trials := rapid.IntRange(100, 400).Draw(t, "trials")
		deadlineUs := rapid.SampledFrom([]int{1000, 2000, 3000}).Draw(t, "deadlineMicros")
		answerLen := rapid.SampledFrom([]int{8, part, part + 9}).Draw(t, "answerLen")
		desc := fmt.Sprintf("innerMTU=%d trials=%d deadline=%dus answer=%dB", inner, trials, deadlineUs, answerLen)
		okCount, errCount := 0, 0
		for k := 0; k < trials; k++ {
			offset := time.Duration((k*37)%600-300) * time.Microsecond // deterministic spread around the deadline
			if k%10 == 0 {
				offset = -time.Duration(deadlineUs/2) * time.Microsecond
			}
			if k%10 == 5 {
				offset = 2 * time.Millisecond
			}
			answer := bytes.Repeat([]byte{byte('a' + k%26)}, answerLen)
			type out struct {
				n     int
				err   error
				buf   []byte
				atRet []byte
			}
			done := make(chan out, 1)
			start := time.Now()
			deadline := start.Add(time.Duration(deadlineUs) * time.Microsecond)
			go func() {
				buf := make([]byte, part*20)
				ctx, cf := context.WithDeadline(context.Background(), deadline)
				defer cf()
				n, err := r.ask.Ask(ctx, buf, sAddr, p2p.IOVec{[]byte("question")})
				done <- out{n, err, buf, append([]byte{}, buf...)}
			}()
			var req []stack.Sent
			for len(req) == 0 && time.Since(start) < 500*time.Millisecond {
				req = append(req, r.script.Take()...)
			}
			if len(req) == 0 {
				<-done
				continue // the deadline was over before the request left
			}
			reqHdr := mbapp.Header(append([]byte{}, req[0].Data[:mbapp.HeaderSize]...))
			var pkts [][]byte
			nParts := (len(answer) + part - 1) / part
			for i := 0; i < nParts; i++ {
				h := mbapp.Header(append([]byte{}, reqHdr...))
				h.SetIsAsk(true)
				h.SetIsReply(true)
				h.SetErrorCode(0)
				h.SetPartIndex(uint16(i))
				h.SetPartCount(uint16(nParts))
				h.SetTotalSize(uint32(len(answer)))
				lo, hi := i*part, min((i+1)*part, len(answer))
				pkts = append(pkts, append([]byte(h), answer[lo:hi]...))
			}
			for time.Now().Before(deadline.Add(offset)) {
			}
			for _, p := range pkts {
				r.script.Inject(sAddr, p, time.Second)
			}
			o := <-done
			time.Sleep(2 * time.Millisecond)
			if o.err == nil {
				okCount++
				if o.n != len(answer) || !bytes.Equal(o.buf[:o.n], answer) {
					t.Fatalf("trial %d: Ask returned nil with %d bytes that are not the reply\ncase: %s", k, o.n, desc)
				}
			} else {
				errCount++
			}
			if !bytes.Equal(o.buf, o.atRet) {
				t.Fatalf("trial %d (reply %v relative to the deadline): the response buffer changed after Ask had returned (n=%d err=%v): the library wrote into memory the caller owns again\ncase: %s", k, offset, o.n, o.err, desc)
			}
			r.script.Take()
		}
		ev.EvalN(sub, int64(trials))
		ev.Class(sub, fmt.Sprintf("answered>0=%v expired>0=%v", okCount > 0, errCount > 0))
		if okCount > 0 && errCount > 0 {
			if ev.NonTrivial(sub, desc) {
				ev.Sample(sub, fmt.Sprintf("%s answered=%d expired=%d", desc, okCount, errCount))
			}
		}
	})
}
