package swarms

import (
	"bytes"
	"context"
	"encoding/binary"
	"fmt"
	"runtime"
	"sort"
	"strings"
	"sync"
	"testing"
	"time"

	"go.brendoncarroll.net/p2p"
	"pgregory.net/rapid"

	"verif/harness/internal/ev"
	"verif/harness/internal/stack"
)

// refUnframe is an independent decoder of each multiplexer's framing.
func refUnframe(kind string, b []byte) (id string, body []byte, ok bool) {
	switch kind {
	case "string":
		l, n := binary.Uvarint(b)
		if n < 1 {
			return "", nil, false
		}
		rest := b[n:]
		if uint64(len(rest)) < l {
			return "", nil, false
		}
		return string(rest[:l]), rest[l:], true
	case "uint16":
		if len(b) < 2 {
			return "", nil, false
		}
		return fmt.Sprint(binary.BigEndian.Uint16(b)), b[2:], true
	case "uint32":
		if len(b) < 4 {
			return "", nil, false
		}
		return fmt.Sprint(binary.BigEndian.Uint32(b)), b[4:], true
	case "uint64":
		if len(b) < 8 {
			return "", nil, false
		}
		return fmt.Sprint(binary.BigEndian.Uint64(b)), b[8:], true
	case "varint":
		v, n := binary.Uvarint(b)
		if n < 1 {
			return "", nil, false
		}
		return fmt.Sprint(v), b[n:], true
	}
	return "", nil, false
}

// genChanSet draws 1-6 distinct channel ids with near misses (prefixes of one
// another, ids whose encodings share bytes, extremes).
func genChanSet(t *rapid.T, kind string) []string {
	n := rapid.IntRange(1, 6).Draw(t, "channels")
	seen := map[string]bool{}
	var ids []string
	for len(ids) < n {
		var id string
		if kind == "string" && len(ids) > 0 && rapid.Bool().Draw(t, "nearMiss") {
			base := ids[rapid.IntRange(0, len(ids)-1).Draw(t, "baseChan")]
			switch rapid.IntRange(0, 3).Draw(t, "missKind") {
			case 0:
				id = base + "x"
			case 1:
				if len(base) > 0 {
					id = base[:len(base)-1]
				}
			case 2:
				id = string([]byte{byte(len(base))}) + base // looks like an encoded header of base
			case 3:
				id = base + base
			}
		} else {
			id = genChan(t, kind)
			if kind != "string" && rapid.Bool().Draw(t, "smallInt") {
				id = fmt.Sprint(rapid.IntRange(0, 300).Draw(t, "chanInt"))
				if kind == "uint16" {
					id = fmt.Sprint(stack.ParseUint(id) & 0xffff)
				}
			}
		}
		if seen[id] {
			if len(seen) > 40 {
				break
			}
			seen[id+"#"] = true
			continue
		}
		seen[id] = true
		ids = append(ids, id)
	}
	return ids
}

type chanRecv struct {
	mu   sync.Mutex
	got  map[int][][]byte // channel index -> payloads
	asks map[int][][]byte
}

func (c *chanRecv) snapshot() (map[int][][]byte, map[int][][]byte) {
	c.mu.Lock()
	defer c.mu.Unlock()
	g, a := map[int][][]byte{}, map[int][][]byte{}
	for k, v := range c.got {
		g[k] = append([][]byte{}, v...)
	}
	for k, v := range c.asks {
		a[k] = append([][]byte{}, v...)
	}
	return g, a
}

// serveChannels starts a receive loop and a serve loop on every opened channel.
func serveChannels(ctx context.Context, chans []stack.Swarm) *chanRecv {
	cr := &chanRecv{got: map[int][][]byte{}, asks: map[int][][]byte{}}
	for i, sw := range chans {
		i, sw := i, sw
		go func() {
			for {
				if err := sw.Receive(ctx, func(m stack.Msg) {
					cr.mu.Lock()
					cr.got[i] = append(cr.got[i], append([]byte{}, m.Payload...))
					cr.mu.Unlock()
				}); err != nil {
					return
				}
			}
		}()
		if as, ok := sw.(stack.AskBidi); ok {
			go func() {
				for {
					if err := as.ServeAsk(ctx, func(_ context.Context, resp []byte, m stack.Msg) int {
						cr.mu.Lock()
						cr.asks[i] = append(cr.asks[i], append([]byte{}, m.Payload...))
						cr.mu.Unlock()
						return copy(resp, fmt.Sprintf("chan%d", i))
					}); err != nil {
						return
					}
				}
			}()
		}
	}
	return cr
}

var (
	frameMu   sync.Mutex
	frameSeen = map[string]map[string]string{} // kind -> frame bytes -> "(chan,payload)"
)

func TestC15Framing(t *testing.T) {
	const sub = "C15.framing"
	ev.Rule(sub, "rapid: each multiplexer kind on a scripted transport (the harness sees the exact framed bytes Tell/Ask hand down and injects arbitrary bytes); 1-6 open channels with near-miss ids (prefixes of one another, ids that look like encoded headers, empty string, 126-300 byte strings, integer extremes 0 / max / 127 / 128 / 2^63 / 2^64-1), payloads incl. empty. Oracle: (1) injecting frame(c,x) delivers exactly x to exactly channel c (tell and ask path); (2) frames of different (channel,payload) pairs are never equal (checked pairwise over everything generated in the run); (3) frames agree with an independent reference decoder; (4) mutated/truncated/random bytes are delivered only where the reference decoder says, never elsewhere, and an ask that does not unframe is answered with an error. non-trivial = >= 2 open channels with prefix-related or extreme ids, or an empty payload; distinct by (kind, ids, payload, mutation)")
	rapid.Check(t, func(t *rapid.T) {
		kind := rapid.SampledFrom(muxKinds).Draw(t, "kind")
		ids := genChanSet(t, kind)
		sender := stack.NewScript(1, 1<<20)
		recvr := stack.NewScript(2, 1<<20)
		sendChans, err := stack.OpenMux(kind, sender, true, ids)
		if err != nil {
			t.Fatalf("OpenMux: %v (ids %q)", err, ids)
		}
		recvChans, err := stack.OpenMux(kind, recvr, true, ids)
		if err != nil {
			t.Fatalf("OpenMux: %v (ids %q)", err, ids)
		}
		ctx, cancel := context.WithCancel(context.Background())
		defer func() {
			cancel()
			sender.Close()
			recvr.Close()
			for _, c := range sendChans {
				c.Close()
			}
			for _, c := range recvChans {
				c.Close()
			}
		}()
		cr := serveChannels(ctx, recvChans)
		ci := rapid.IntRange(0, len(ids)-1).Draw(t, "chan")
		payload := rapid.OneOf(rapid.Just([]byte{}), rapid.SliceOfN(rapid.Byte(), 0, 40), rapid.SliceOfN(rapid.Byte(), 200, 400)).Draw(t, "payload")
		useAsk := rapid.Bool().Draw(t, "ask")
		mutation := rapid.SampledFrom([]string{"none", "none", "truncate", "flip", "prepend", "random"}).Draw(t, "mutation")
		desc := fmt.Sprintf("kind=%s ids=%q chan=%d payload=%x ask=%v mutation=%s", kind, shortIDs(ids), ci, clip(payload), useAsk, mutation)
		fail := func(f string, a ...any) { t.Fatalf("%s\ncase: %s", fmt.Sprintf(f, a...), desc) }
		ev.Eval(sub)
		nearMiss := false
		for i := range ids {
			for j := range ids {
				if i != j && kind == "string" && strings.HasPrefix(ids[j], ids[i]) {
					nearMiss = true
				}
			}
			if kind != "string" {
				v := stack.ParseUint(ids[i])
				if v == 0 || v >= 1<<16-1 || v == 127 || v == 128 {
					nearMiss = nearMiss || len(ids) >= 2
				}
			}
		}
		if nearMiss || len(payload) == 0 {
			if ev.NonTrivial(sub, desc) {
				ev.Sample(sub, desc)
			}
		}
		// frame(c, x): what the multiplexer hands to the transport
		sender.AskReply = func(req []byte) ([]byte, error) { return []byte("r"), nil }
		tctx, tcf := context.WithTimeout(ctx, ev.Extended(2*time.Second)) // the scripted transport answers at once
		defer tcf()
		if useAsk {
			resp := make([]byte, 8)
			if _, err := sendChans[ci].(stack.AskBidi).Ask(tctx, resp, recvr.Local, p2p.IOVec{payload}); err != nil {
				fail("Ask on channel failed: %v", err)
			}
		} else {
			if err := sendChans[ci].Tell(tctx, recvr.Local, p2p.IOVec{payload}); err != nil {
				fail("Tell on channel failed: %v", err)
			}
		}
		sent := sender.Take()
		if len(sent) != 1 {
			fail("expected one framed message on the transport, saw %d", len(sent))
		}
		frame := sent[0].Data
		// (3) reference decoder agrees
		rid, rbody, ok := refUnframe(kind, frame)
		if !ok || rid != ids[ci] || !bytes.Equal(rbody, payload) {
			fail("frame %x does not decode (reference) to (%q, %x): got (%q, %x, ok=%v)", clip(frame), ids[ci], clip(payload), rid, clip(rbody), ok)
		}
		// (2) injectivity across everything generated so far
		key := fmt.Sprintf("(%q,%x)", ids[ci], payload)
		frameMu.Lock()
		if frameSeen[kind] == nil {
			frameSeen[kind] = map[string]string{}
		}
		if prev, dup := frameSeen[kind][string(frame)]; dup && prev != key {
			frameMu.Unlock()
			fail("two different (channel,payload) pairs produce the same bytes %x: %s and %s", clip(frame), prev, key)
		}
		if len(frameSeen[kind]) < 200000 {
			frameSeen[kind][string(frame)] = key
		}
		frameMu.Unlock()
		// mutate
		wire := append([]byte{}, frame...)
		switch mutation {
		case "truncate":
			wire = wire[:rapid.IntRange(0, len(wire)).Draw(t, "cut")]
		case "flip":
			if len(wire) > 0 {
				i := rapid.IntRange(0, min(len(wire)-1, 12)).Draw(t, "flipAt")
				wire[i] ^= 1 << rapid.IntRange(0, 7).Draw(t, "bit")
			}
		case "prepend":
			wire = append(rapid.SliceOfN(rapid.Byte(), 1, 3).Draw(t, "pre"), wire...)
		case "random":
			wire = rapid.SliceOfN(rapid.Byte(), 0, 24).Draw(t, "wire")
			if rapid.Bool().Draw(t, "hugeVarint") {
				wire = append(binary.AppendUvarint(nil, rapid.SampledFrom([]uint64{1 << 63, 1<<64 - 1, 1 << 32, 1 << 31}).Draw(t, "huge")), wire...)
			}
		}
		wid, wbody, wok := refUnframe(kind, wire)
		wantChan := -1
		if wok {
			for i, id := range ids {
				if id == wid {
					wantChan = i
				}
			}
		}
		// (1)/(4) unframe by injection
		var askN int
		var panicText string
		var handled bool
		if useAsk {
			askN, _, panicText, handled = recvr.InjectAsk(stack.SAddr{N: 1}, wire, 2*time.Second)
		} else {
			panicText, handled = recvr.Inject(stack.SAddr{N: 1}, wire, 2*time.Second)
		}
		if !handled {
			fail("the multiplexer did not take the injected message (no Receive/ServeAsk pending)")
		}
		if panicText != "" {
			fail("the multiplexer panicked on %x: %s", clip(wire), panicText)
		}
		time.Sleep(2 * time.Millisecond)
		tells, asks := cr.snapshot()
		seen := tells
		if useAsk {
			seen = asks
		}
		var where []int
		for i, ps := range seen {
			if len(ps) > 0 {
				where = append(where, i)
			}
		}
		sort.Ints(where)
		if wantChan < 0 {
			if len(where) > 0 {
				fail("bytes %x do not unframe to an open channel (reference: id=%q ok=%v) but were delivered to channel(s) %v %q", clip(wire), wid, wok, where, ids[where[0]])
			}
			if useAsk && askN >= 0 {
				fail("an ask that does not unframe to an open channel was answered with success (n=%d)", askN)
			}
		} else {
			if len(where) != 1 || where[0] != wantChan {
				fail("bytes %x unframe to channel %d %q but were delivered to %v", clip(wire), wantChan, ids[wantChan], where)
			}
			if len(seen[wantChan]) != 1 || !bytes.Equal(seen[wantChan][0], wbody) {
				fail("channel %q received %x, want %x", ids[wantChan], clip(seen[wantChan][0]), clip(wbody))
			}
		}
		// other path stays silent
		other := asks
		if useAsk {
			other = tells
		}
		for i, ps := range other {
			if len(ps) > 0 {
				fail("message appeared on the other path of channel %d", i)
			}
		}
	})
}

func shortIDs(ids []string) []string {
	out := make([]string, len(ids))
	for i, s := range ids {
		if len(s) > 16 {
			out[i] = fmt.Sprintf("%s..[%d]", s[:8], len(s))
		} else {
			out[i] = s
		}
	}
	return out
}

func clip(b []byte) []byte {
	if len(b) > 24 {
		return b[:24]
	}
	return b
}

func TestC15Isolation(t *testing.T) { muxIsolation(t, "C15.isolation") }

// The same histories decide C11 for asks through a multiplexer: an ask on a channel the destination does not
// serve must fail, an ask on a served channel is answered by that channel's handler.
func TestC11MuxChannels(t *testing.T) { muxIsolation(t, "C11.mux_channels") }

func muxIsolation(t *testing.T, sub string) {
	ev.Rule(sub, "rapid: two nodes on the in-memory transport, one multiplexer of a generated kind each, 1-6 channels open at the destination and a (possibly larger) set at the sender, 1-20 tagged tells/asks on generated channels incl. channels the destination has not opened. Oracle: a message told/asked on channel c is seen only by the swarm opened for c at the destination, unchanged; messages for unopened channels reach nobody (asks fail) and later messages keep flowing. non-trivial = >= 2 open channels and at least one message to an unopened or near-miss channel; distinct by (kind, ids, message list)")
	rapid.Check(t, func(t *rapid.T) {
		kind := rapid.SampledFrom(muxKinds).Draw(t, "kind")
		ids := genChanSet(t, kind)
		nOpenDst := rapid.IntRange(1, len(ids)).Draw(t, "openAtDst")
		spec := stack.Spec{Base: "mem", BaseMTU: 4096, QueueLen: 1024}
		w, err := stack.Build(spec, 2, 0)
		if err != nil {
			t.Fatalf("%s", ev.Tag(fmt.Sprintf("harness: %v", err)))
		}
		defer w.Close()
		a, b := w.Nodes[0], w.Nodes[1]
		sendChans, err := stack.OpenMux(kind, p2p.ComposeAskSwarm[stack.Addr](a.S, a.A), true, ids)
		if err != nil {
			t.Fatalf("OpenMux: %v", err)
		}
		recvChans, err := stack.OpenMux(kind, p2p.ComposeAskSwarm[stack.Addr](b.S, b.A), true, ids[:nOpenDst])
		if err != nil {
			t.Fatalf("OpenMux: %v", err)
		}
		ctx, cancel := context.WithCancel(context.Background())
		defer cancel()
		cr := serveChannels(ctx, recvChans)
		n := rapid.IntRange(1, 20).Draw(t, "messages")
		type sentMsg struct {
			ch      int
			payload []byte
			ask     bool
		}
		var msgs []sentMsg
		type usedVec struct {
			vec, before p2p.IOVec
			i, ch       int
		}
		var usedVecs []usedVec
		toUnopened := false
		desc := fmt.Sprintf("kind=%s ids=%q openAtDst=%d", kind, shortIDs(ids), nOpenDst)
		fail := func(f string, args ...any) { t.Fatalf("%s\ncase: %s", fmt.Sprintf(f, args...), desc) }
		for i := 0; i < n; i++ {
			m := sentMsg{ch: rapid.IntRange(0, len(ids)-1).Draw(t, "ch"), ask: rapid.Bool().Draw(t, "ask")}
			m.payload = []byte(fmt.Sprintf("msg-%d-on-%d-%s", i, m.ch, strings.Repeat("z", rapid.IntRange(0, 30).Draw(t, "pad"))))
			if rapid.IntRange(0, 9).Draw(t, "empty") == 0 {
				m.payload = []byte{}
			}
			msgs = append(msgs, m)
			// an operation on a channel the destination serves has no reason to run into its deadline; the
			// long limit only keeps a stalled machine from turning into a failed ask
			limit := 2 * time.Second
			if m.ch < nOpenDst {
				limit = ev.Extended(limit)
			}
			tctx, tcf := context.WithTimeout(ctx, limit)
			// the payload is handed over as a vector of 1-3 buffers that the caller keeps and may use again
			vec := p2p.IOVec{m.payload}
			if len(m.payload) >= 2 && i%2 == 1 {
				vec = p2p.IOVec{m.payload[:1], m.payload[1:]}
			}
			usedVecs = append(usedVecs, usedVec{vec, append(p2p.IOVec{}, vec...), i, m.ch})
			if m.ask {
				resp := make([]byte, 32)
				rn, err := sendChans[m.ch].(stack.AskBidi).Ask(tctx, resp, b.Local(), vec)
				if m.ch < nOpenDst {
					if err != nil {
						fail("ask %d on open channel %q failed: %v", i, ids[m.ch], err)
					}
					if string(resp[:rn]) != fmt.Sprintf("chan%d", m.ch) {
						fail("ask %d on channel %q was answered by %q", i, ids[m.ch], resp[:rn])
					}
				} else {
					toUnopened = true
					if err == nil {
						fail("ask %d on channel %q, which the destination has not opened, succeeded with %q", i, ids[m.ch], resp[:rn])
					}
				}
			} else {
				if err := sendChans[m.ch].Tell(tctx, b.Local(), vec); err != nil {
					fail("tell %d on channel %q failed: %v", i, ids[m.ch], err)
				}
				if m.ch >= nOpenDst {
					toUnopened = true
				}
			}
			tcf()
		}
		// the caller's vectors are unchanged (it may send the same vector again)
		for _, u := range usedVecs {
			if len(u.vec) != len(u.before) {
				fail("message %d on channel %q: the caller's vector has %d buffers after the call, it had %d", u.i, ids[u.ch], len(u.vec), len(u.before))
			}
			for k := range u.vec {
				if !bytes.Equal(u.vec[k], u.before[k]) {
					fail("message %d on channel %q: buffer %d of the caller's vector was changed by the call (now %d bytes, was %d): sending the same vector again would send something else", u.i, ids[u.ch], k, len(u.vec[k]), len(u.before[k]))
				}
			}
		}
		// wait for the tells to open channels
		wantTells := map[int]int{}
		for _, m := range msgs {
			if !m.ask && m.ch < nOpenDst {
				wantTells[m.ch]++
			}
		}
		waitFor(2*time.Second, func() bool {
			tells, _ := cr.snapshot()
			for ch, c := range wantTells {
				if len(tells[ch]) < c {
					return false
				}
			}
			return true
		})
		tells, asks := cr.snapshot()
		check := func(got map[int][][]byte, ask bool, label string) {
			for ch, ps := range got {
				var want [][]byte
				for _, m := range msgs {
					if m.ask == ask && m.ch == ch {
						want = append(want, m.payload)
					}
				}
				if len(ps) != len(want) {
					fail("%s: channel %q received %d messages, %d were sent on it", label, ids[ch], len(ps), len(want))
				}
				for i := range ps {
					if !bytes.Equal(ps[i], want[i]) {
						fail("%s: channel %q received %q, expected %q", label, ids[ch], ps[i], want[i])
					}
				}
			}
			for ch, c := range wantTells {
				if !ask && len(got[ch]) != c {
					fail("%s: channel %q received %d of %d messages", label, ids[ch], len(got[ch]), c)
				}
			}
		}
		check(tells, false, "tell")
		check(asks, true, "ask")
		ev.Eval(sub)
		if len(ids) >= 2 && toUnopened {
			key := fmt.Sprintf("%s n=%d", desc, n)
			if ev.NonTrivial(sub, key) {
				ev.Sample(sub, key)
			}
		}
	})
}

// yieldSwarm delays every Tell/Ask a little before passing it on, so that concurrent callers of the
// layer above overlap between building a frame and the transport copying it.
type yieldSwarm struct {
	stack.Swarm
	ask stack.AskBidi
}

func (y yieldSwarm) Tell(ctx context.Context, dst stack.Addr, v p2p.IOVec) error {
	runtime.Gosched()
	time.Sleep(20 * time.Microsecond)
	return y.Swarm.Tell(ctx, dst, v)
}
func (y yieldSwarm) Ask(ctx context.Context, resp []byte, dst stack.Addr, v p2p.IOVec) (int, error) {
	runtime.Gosched()
	time.Sleep(20 * time.Microsecond)
	return y.ask.Ask(ctx, resp, dst, v)
}
func (y yieldSwarm) ServeAsk(ctx context.Context, fn func(context.Context, []byte, stack.Msg) int) error {
	return y.ask.ServeAsk(ctx, fn)
}

// TestC15Concurrent: framing stays per call when several goroutines use the same channels at once.
func TestC15Concurrent(t *testing.T) {
	const sub = "C15.concurrent_senders"
	ev.Rule(sub, "rapid: two nodes on the in-memory transport (sender side wrapped so that the transport call yields), one multiplexer of a generated kind each with 1-4 channels open on both sides; 2-8 goroutines each tell/ask 10-60 distinct short payloads (1-40 bytes, mostly <= 12) on generated channels concurrently. Oracle: the multiset of payloads each channel's swarm received is a sub-multiset of what was sent on that channel (nothing altered, nothing crossed over, nothing duplicated), and every ask is answered by its own channel. non-trivial = >= 2 goroutines on one channel; distinct by parameters")
	rapid.Check(t, func(t *rapid.T) {
		kind := rapid.SampledFrom(muxKinds).Draw(t, "kind")
		ids := genChanSet(t, kind)
		if len(ids) > 4 {
			ids = ids[:4]
		}
		senders := rapid.IntRange(2, 8).Draw(t, "goroutines")
		per := rapid.IntRange(10, 60).Draw(t, "perGoroutine")
		spec := stack.Spec{Base: "mem", BaseMTU: 4096, QueueLen: 4096}
		w, err := stack.Build(spec, 2, 0)
		if err != nil {
			t.Fatalf("%s", ev.Tag(fmt.Sprintf("harness: %v", err)))
		}
		defer w.Close()
		a, b := w.Nodes[0], w.Nodes[1]
		sendChans, err := stack.OpenMux(kind, p2p.ComposeAskSwarm[stack.Addr](yieldSwarm{a.S, a.A}, yieldSwarm{a.S, a.A}), true, ids)
		if err != nil {
			t.Fatalf("OpenMux: %v", err)
		}
		recvChans, err := stack.OpenMux(kind, p2p.ComposeAskSwarm[stack.Addr](b.S, b.A), true, ids)
		if err != nil {
			t.Fatalf("OpenMux: %v", err)
		}
		ctx, cancel := context.WithCancel(context.Background())
		defer cancel()
		cr := serveChannels(ctx, recvChans)
		type plan struct {
			ch  int
			ask bool
			len int
		}
		plans := make([][]plan, senders)
		perChan := map[int]int{}
		for g := range plans {
			ch := rapid.IntRange(0, len(ids)-1).Draw(t, "chan")
			perChan[ch]++
			for i := 0; i < per; i++ {
				l := rapid.IntRange(1, 12).Draw(t, "len")
				if rapid.IntRange(0, 5).Draw(t, "longer") == 0 {
					l = rapid.IntRange(13, 40).Draw(t, "longLen")
				}
				plans[g] = append(plans[g], plan{ch: ch, ask: rapid.IntRange(0, 3).Draw(t, "ask") == 0, len: l})
			}
		}
		desc := fmt.Sprintf("kind=%s ids=%q goroutines=%d per=%d", kind, shortIDs(ids), senders, per)
		sentTell := map[int]map[string]int{}
		sentAsk := map[int]map[string]int{}
		payloadOf := func(g, i, l int) []byte {
			p := []byte(fmt.Sprintf("%c%02d%03d", 'A'+g, g, i))
			for len(p) < l {
				p = append(p, byte('a'+(g+i)%26))
			}
			return p[:max(l, 6)]
		}
		for g := range plans {
			for i, p := range plans[g] {
				m := sentTell
				if p.ask {
					m = sentAsk
				}
				if m[p.ch] == nil {
					m[p.ch] = map[string]int{}
				}
				m[p.ch][string(payloadOf(g, i, p.len))]++
			}
		}
		var wg sync.WaitGroup
		var pmu sync.Mutex
		var problems []string
		for g := range plans {
			g := g
			wg.Add(1)
			go func() {
				defer wg.Done()
				for i, p := range plans[g] {
					pl := payloadOf(g, i, p.len)
					c, cf := context.WithTimeout(ctx, ev.Extended(2*time.Second))
					if p.ask {
						resp := make([]byte, 32)
						n, err := sendChans[p.ch].(stack.AskBidi).Ask(c, resp, b.Local(), p2p.IOVec{pl})
						if err == nil && string(resp[:n]) != fmt.Sprintf("chan%d", p.ch) {
							pmu.Lock()
							problems = append(problems, fmt.Sprintf("an ask on channel %q was answered by %q", ids[p.ch], resp[:n]))
							pmu.Unlock()
						}
					} else {
						sendChans[p.ch].Tell(c, b.Local(), p2p.IOVec{pl})
					}
					cf()
				}
			}()
		}
		wg.Wait()
		total := 0
		for _, m := range sentTell {
			for _, c := range m {
				total += c
			}
		}
		ev.Patient(300*time.Millisecond, func() bool {
			tells, _ := cr.snapshot()
			n := 0
			for _, ps := range tells {
				n += len(ps)
			}
			return n >= total
		})
		tells, asks := cr.snapshot()
		check := func(got map[int][][]byte, sent map[int]map[string]int, verb string) {
			for ch, ps := range got {
				seen := map[string]int{}
				for _, p := range ps {
					seen[string(p)]++
					if seen[string(p)] > sent[ch][string(p)] {
						where := "was never sent"
						for oc, m := range sent {
							if m[string(p)] > 0 && oc != ch {
								where = fmt.Sprintf("was sent on channel %q", ids[oc])
							}
						}
						if sent[ch][string(p)] > 0 {
							where = "was sent once on this channel"
						}
						pmu.Lock()
						problems = append(problems, fmt.Sprintf("channel %q received the %s payload %q (%d times) which %s", ids[ch], verb, p, seen[string(p)], where))
						pmu.Unlock()
						return
					}
				}
			}
		}
		check(tells, sentTell, "tell")
		check(asks, sentAsk, "ask")
		ev.Eval(sub)
		shared := false
		for _, c := range perChan {
			shared = shared || c >= 2
		}
		if shared {
			if ev.NonTrivial(sub, desc) {
				ev.Sample(sub, desc)
			}
		}
		if len(problems) > 0 {
			t.Fatalf("%s\ncase: %s", strings.Join(problems[:min(3, len(problems))], "\n"), desc)
		}
	})
}
