package swarms

import (
	"context"
	"fmt"
	"strings"
	"sync"
	"testing"
	"time"

	"go.brendoncarroll.net/p2p"
	"pgregory.net/rapid"

	"verif/harness/internal/ev"
	"verif/harness/internal/ledger"
	"verif/harness/internal/stack"
)

// TestC01Deadline: a Tell whose context ends while the payload is still being handed to the transport fails;
// the part that was already written must not reach a receiver as a message.
func TestC01Deadline(t *testing.T) { deadlineDuringTell(t, "C01.deadline_during_tell") }

// The same histories decide C09's "never silently truncated ... or delivered in part".
func TestC09Deadline(t *testing.T) { deadlineDuringTell(t, "C09.deadline_during_tell") }

func deadlineDuringTell(t *testing.T, sub string) {
	ev.Rule(sub, "rapid: stacks whose top or middle layer streams or fragments a payload over time (QUIC, fragmenting, message-box, P2PKE over memory/UDP bases), two nodes, 3-12 tells of 20 KB-2 MB (capped by MTU; QUIC layers with the default and with a 2 MiB MTU) from 1-4 goroutines with context deadlines of 0-30 ms (so that many end mid-payload) mixed with tells that have time to finish. Oracle (ledger): every payload a receiver is handed is byte-for-byte a payload that was told to it - never a truncation, concatenation or mixture - whatever the Tell returned. non-trivial = at least one Tell ended by its deadline; distinct by (spec, sizes, deadlines)")
	rapid.Check(t, func(t *rapid.T) {
		var spec stack.Spec
		switch rapid.IntRange(0, 3).Draw(t, "shape") {
		case 0, 1:
			spec = stack.Spec{Base: rapid.SampledFrom([]string{"mem", "udp"}).Draw(t, "base"), BaseMTU: 1500, QueueLen: 256, Layers: []stack.Layer{{Kind: "quic", MTU: rapid.SampledFrom([]int{0, 0, 2 << 20}).Draw(t, "quicMTU")}}}
		case 2:
			spec = stack.Spec{Base: "mem", BaseMTU: 1500, QueueLen: 256, Layers: []stack.Layer{{Kind: "p2pke"}, {Kind: "quic"}}}
		default:
			spec = genSpec(t, specOpts{maxDepth: 2, bases: []string{"mem", "udp"}, honestFrag: true})
		}
		w, err := stack.Build(spec, 2, 0)
		if err != nil {
			t.Fatalf("%s", ev.Tag(fmt.Sprintf("harness: %v: %v", spec, err)))
		}
		defer w.Close()
		a, b := w.Nodes[0], w.Nodes[1]
		mtu := a.S.MTU()
		led := ledger.New()
		var mu sync.Mutex
		var problems []string
		got := 0
		ctx, cancel := context.WithCancel(context.Background())
		defer cancel()
		for r := 0; r < 2; r++ {
			go func() {
				for b.S.Receive(ctx, func(m stack.Msg) {
					_, why := led.Check(1, m.Payload)
					mu.Lock()
					got++
					if why != "" && len(problems) < 3 {
						problems = append(problems, why)
					}
					mu.Unlock()
				}) == nil {
				}
			}()
		}
		// sessions first, so that the deadlines below hit the payload and not the handshake
		wctx, wcf := context.WithTimeout(ctx, ev.Extended(3*time.Second))
		warm := led.Make(0, 1, 32)
		a.S.Tell(wctx, b.Local(), p2p.IOVec{warm.Data})
		wcf()
		n := rapid.IntRange(3, 12).Draw(t, "tells")
		senders := rapid.IntRange(1, 4).Draw(t, "senders")
		type plan struct {
			e        *ledger.Entry
			deadline time.Duration
		}
		var plans []plan
		var ds []string
		for i := 0; i < n; i++ {
			size := rapid.SampledFrom([]int{20000, 65536, 200000, 1 << 20, 1<<20 + 4096, 2 << 20}).Draw(t, "size")
			size = min(size, mtu)
			if size < 32 {
				size = 32
			}
			d := time.Duration(rapid.SampledFrom([]int{0, 1, 2, 5, 10, 30, 3000}).Draw(t, "deadlineMs")) * time.Millisecond
			plans = append(plans, plan{led.Make(0, 1, size), d})
			ds = append(ds, fmt.Sprintf("%dB/%v", size, d))
		}
		desc := fmt.Sprintf("%v senders=%d tells=[%s]", spec, senders, strings.Join(ds, " "))
		var wg sync.WaitGroup
		var ended int
		for s := 0; s < senders; s++ {
			s := s
			wg.Add(1)
			go func() {
				defer wg.Done()
				for i := s; i < len(plans); i += senders {
					c, cf := context.WithTimeout(ctx, plans[i].deadline)
					err := a.S.Tell(c, b.Local(), p2p.IOVec{append([]byte{}, plans[i].e.Data...)})
					cf()
					if err != nil {
						mu.Lock()
						ended++
						mu.Unlock()
					}
				}
			}()
		}
		wg.Wait()
		time.Sleep(50 * time.Millisecond)
		ev.Eval(sub)
		mu.Lock()
		ps := append([]string{}, problems...)
		e, g := ended, got
		mu.Unlock()
		if e > 0 {
			ev.Class(sub, "some-tells-ended-by-deadline")
			if ev.NonTrivial(sub, desc) {
				ev.Sample(sub, fmt.Sprintf("%s failedTells=%d delivered=%d", desc, e, g))
			}
		}
		if len(ps) > 0 {
			t.Fatalf("%s\ncase: %s", strings.Join(ps, "\n"), desc)
		}
	})
}
