package swarms

import (
	"bytes"
	"context"
	"encoding/binary"
	"fmt"
	"sort"
	"strings"
	"sync"
	"testing"
	"time"

	"go.brendoncarroll.net/p2p"
	"go.brendoncarroll.net/p2p/p/mbapp"
	"go.brendoncarroll.net/p2p/s/sshswarm"
	"pgregory.net/rapid"

	"verif/harness/internal/ev"
	"verif/harness/internal/ledger"
	"verif/harness/internal/stack"
)

type askPlan struct {
	asker, server int
	reqLen        int
	respLen       int
	bufLen        int    // asker's response buffer
	behaviour     string // answer | negative | block
	deadline      time.Duration
	group         int
	closeServer   bool          // close the server node right before this ask
	closeDuring   bool          // close the server node while this ask's (slow) handler is running
	lateBy        time.Duration // late-answer: how long after the deadline the handler answers
	desc          string
}

type invocation struct {
	src      string
	reqOK    bool
	response []byte
}

type askResult struct {
	n     int
	err   error
	resp  []byte
	took  time.Duration
	start time.Time
	atRet []byte // copy of the caller's buffer at the moment Ask returned
}

// buildSSH builds stand-alone SSH swarms on TCP loopback.
func buildSSH(n int) (*stack.World, error) {
	w := &stack.World{Spec: stack.Spec{Base: "ssh"}}
	for i := 0; i < n; i++ {
		signer, err := sshswarm.NewSignerFromSigner(stack.StdKey(i))
		if err != nil {
			return nil, err
		}
		sw, err := sshswarm.New("127.0.0.1:0", signer)
		if err != nil {
			w.Close()
			return nil, err
		}
		w.Nodes = append(w.Nodes, &stack.Node{S: stack.Erase[sshswarm.Addr](sw), A: stack.EraseAsk[sshswarm.Addr](sw), Key: i})
	}
	return w, nil
}

func runAsks(w *stack.World, plans []askPlan, serveLoops int) (results []askResult, invs map[uint64][]invocation, reqs []*ledger.Entry) {
	led := ledger.New()
	invs = map[uint64][]invocation{}
	var mu sync.Mutex
	planByID := map[uint64]askPlan{}
	reqByID := map[uint64]*ledger.Entry{}
	nonce := uint64(0)
	ctx, cancel := context.WithCancel(context.Background())
	defer cancel()
	var swg sync.WaitGroup
	for i, nd := range w.Nodes {
		for k := 0; k < serveLoops; k++ {
			i, nd := i, nd
			swg.Add(1)
			go func() {
				defer swg.Done()
				for {
					err := nd.A.ServeAsk(ctx, func(hctx context.Context, resp []byte, m stack.Msg) int {
						var id uint64
						if len(m.Payload) >= 16 && m.Payload[0] == 0xA5 {
							id = binary.BigEndian.Uint64(m.Payload) &^ (0xFF << 56)
						}
						mu.Lock()
						plan, known := planByID[id]
						req := reqByID[id]
						nonce++
						myNonce := nonce
						mu.Unlock()
						if !known {
							return -1
						}
						inv := invocation{src: addrText(m.Src), reqOK: req != nil && bytes.Equal(req.Data, m.Payload) && plan.server == i}
						switch plan.behaviour {
						case "negative":
							mu.Lock()
							invs[id] = append(invs[id], inv)
							mu.Unlock()
							// any negative value signals failure, not only -1
							return []int{-1, -1, -2, -255, -256, -257, -512, -65536, -1 << 31}[int(id)%9]
						case "block":
							mu.Lock()
							invs[id] = append(invs[id], inv)
							mu.Unlock()
							select {
							case <-hctx.Done():
							case <-ctx.Done():
							case <-time.After(1500 * time.Millisecond):
							}
							return -1
						}
						if plan.behaviour == "slow-answer" {
							time.Sleep(30 * time.Millisecond)
						}
						if plan.behaviour == "late-answer" {
							// answers after the asker has given up: the answer must not surface in a later ask
							time.Sleep(plan.deadline + plan.lateBy)
						}
						// answer: response bytes unique to this invocation
						out := make([]byte, plan.respLen)
						seed := make([]byte, 16)
						binary.BigEndian.PutUint64(seed, id)
						binary.BigEndian.PutUint64(seed[8:], myNonce)
						for j := range out {
							out[j] = seed[j%16] ^ byte(j*7)
						}
						if len(out) > len(resp) {
							mu.Lock()
							invs[id] = append(invs[id], inv)
							mu.Unlock()
							return -1 // does not fit the buffer the swarm offers
						}
						inv.response = out
						mu.Lock()
						invs[id] = append(invs[id], inv)
						mu.Unlock()
						return copy(resp, out)
					})
					if err != nil {
						return
					}
				}
			}()
		}
	}
	results = make([]askResult, len(plans))
	reqs = make([]*ledger.Entry, len(plans))
	groups := map[int][]int{}
	var order []int
	for i, p := range plans {
		if _, ok := groups[p.group]; !ok {
			order = append(order, p.group)
		}
		groups[p.group] = append(groups[p.group], i)
	}
	sort.Ints(order)
	for _, g := range order {
		var wg sync.WaitGroup
		for _, i := range groups[g] {
			i := i
			p := plans[i]
			if p.closeServer {
				w.Nodes[p.server].S.Close()
			}
			e := led.Make(p.asker, p.server, p.reqLen)
			reqs[i] = e
			mu.Lock()
			planByID[e.ID] = p
			reqByID[e.ID] = e
			mu.Unlock()
			wg.Add(1)
			go func() {
				defer wg.Done()
				buf := make([]byte, p.bufLen)
				actx, cf := context.WithTimeout(context.Background(), p.deadline)
				t0 := time.Now()
				n, err := w.Nodes[p.asker].A.Ask(actx, buf, w.Nodes[p.server].Local(), p2p.IOVec{e.Data})
				cf()
				results[i] = askResult{n: n, err: err, resp: buf, took: time.Since(t0), start: t0, atRet: append([]byte{}, buf...)}
			}()
		}
		for _, i := range groups[g] {
			if plans[i].closeDuring {
				srv := plans[i].server
				time.Sleep(8 * time.Millisecond)
				w.Nodes[srv].S.Close()
			}
		}
		wg.Wait()
	}
	cancel()
	closed := make(chan struct{})
	go func() { w.Close(); swg.Wait(); close(closed) }()
	select {
	case <-closed:
	case <-time.After(time.Second):
	}
	mu.Lock()
	defer mu.Unlock()
	return results, invs, reqs
}

func genAskPlans(t *rapid.T, nNodes, mtu, part, maxAsks int, allowClose bool) []askPlan {
	n := rapid.IntRange(1, maxAsks).Draw(t, "asks")
	var plans []askPlan
	group := 0
	blocks := 0
	closed := map[int]bool{}
	followUp := false
	for i := 0; i < n; i++ {
		var p askPlan
		p.asker = rapid.IntRange(0, nNodes-1).Draw(t, "asker")
		p.server = (p.asker + rapid.IntRange(1, nNodes-1).Draw(t, "serverOff")) % nNodes
		if i > 0 && rapid.IntRange(0, 4).Draw(t, "symmetric") == 0 {
			// symmetric burst: the previous ask's server asks back with the same shape, concurrently
			prev := plans[len(plans)-1]
			p = prev
			p.asker, p.server = prev.server, prev.asker
			p.closeServer = false
		} else {
			p.reqLen = max(16, sizeFor(rapid.SampledFrom([]string{"16", "small", "small", "part+1", "2part+1", "half"}).Draw(t, "reqSize"), mtu, part))
			p.respLen = sizeFor(rapid.SampledFrom([]string{"0", "1", "small", "small", "part+1", "2part+1", "half"}).Draw(t, "respSize"), mtu, part)
			if p.reqLen > 200000 {
				p.reqLen = 200000
			}
			if p.respLen > 200000 {
				p.respLen = 200000
			}
			p.bufLen = p.respLen + rapid.SampledFrom([]int{0, 0, 1, 100}).Draw(t, "bufSlack")
			if p.respLen > 0 && rapid.IntRange(0, 5).Draw(t, "shortBuf") == 0 {
				p.bufLen = rapid.IntRange(0, p.respLen-1).Draw(t, "shortBufLen")
			}
			p.behaviour = rapid.SampledFrom([]string{"answer", "answer", "answer", "answer", "negative", "block"}).Draw(t, "behaviour")
			if p.behaviour == "block" {
				blocks++
				if blocks > 2 {
					p.behaviour = "negative"
				}
			}
			p.deadline = 5 * time.Second
			if p.behaviour == "block" {
				p.deadline = time.Duration(rapid.IntRange(60, 200).Draw(t, "deadlineMs")) * time.Millisecond
			}
			if p.behaviour == "answer" && p.bufLen >= p.respLen && blocks < 2 && rapid.IntRange(0, 5).Draw(t, "lateAnswer") == 0 {
				// the handler answers after the asker's deadline; a follow-up ask on the same pair comes next
				blocks++
				p.behaviour = "late-answer"
				p.deadline = time.Duration(rapid.IntRange(40, 120).Draw(t, "lateDeadlineMs")) * time.Millisecond
				// clearly late, or within a millisecond or two of the deadline (the reply then races with Ask's return)
				p.lateBy = time.Duration(rapid.SampledFrom([]int{40000, 40000, -1500, -500, 0, 300, 1000}).Draw(t, "lateByMicros")) * time.Microsecond
				followUp = true
			}
			if !rapid.Bool().Draw(t, "sameGroup") {
				group++
			}
		}
		p.group = group
		if allowClose && !closed[p.server] && !closed[p.asker] && p.behaviour == "answer" && p.bufLen >= p.respLen && rapid.IntRange(0, 9).Draw(t, "closeDuring") == 0 {
			// the server is closed while its handler is still working on this ask
			p.behaviour = "slow-answer"
			if p.respLen == 0 {
				p.respLen, p.bufLen = 8, 8
			}
			p.closeDuring = true
			group++
			p.group = group
			group++
			closed[p.server] = true
			p.deadline = 2 * time.Second
		} else if allowClose && !closed[p.server] && !closed[p.asker] && rapid.IntRange(0, 11).Draw(t, "closeServer") == 0 {
			p.closeServer = true
			group++
			p.group = group
			group++
			closed[p.server] = true
			p.deadline = 400 * time.Millisecond
		}
		if closed[p.server] && !p.closeServer {
			p.deadline = 400 * time.Millisecond
		}
		if closed[p.asker] {
			continue // a closed node does not ask
		}
		p.desc = fmt.Sprintf("%d->%d req=%d resp=%d buf=%d %s g%d", p.asker, p.server, p.reqLen, p.respLen, p.bufLen, p.behaviour, p.group)
		if p.closeDuring {
			p.desc += " [server closed while handling]"
		} else if p.closeServer {
			p.desc += " [server closed]"
		} else if closed[p.server] {
			p.desc += " [to closed]"
		}
		plans = append(plans, p)
		if followUp && !p.closeDuring && !p.closeServer && !closed[p.server] {
			followUp = false
			f := p
			f.behaviour, f.deadline = "answer", 5*time.Second
			f.respLen = max(1, p.respLen/2+1)
			f.bufLen = f.respLen + 100
			group++
			f.group = group
			group++
			f.desc = fmt.Sprintf("%d->%d req=%d resp=%d buf=%d %s g%d [follows a late answer]", f.asker, f.server, f.reqLen, f.respLen, f.bufLen, f.behaviour, f.group)
			plans = append(plans, f)
		}
		followUp = false
	}
	return plans
}

func checkAsks(t *rapid.T, sub string, w *stack.World, desc string, plans []askPlan, results []askResult, invs map[uint64][]invocation, reqs []*ledger.Entry, closedBefore map[int]int) {
	fail := func(f string, a ...any) { t.Fatalf("%s\ncase: %s", fmt.Sprintf(f, a...), desc) }
	concurrent := map[int]int{}
	for _, p := range plans {
		concurrent[p.group]++
	}
	classes := map[string]bool{}
	for i, p := range plans {
		r := results[i]
		e := reqs[i]
		if e == nil {
			continue
		}
		serverClosed := false
		if ci, ok := closedBefore[p.server]; ok && ci <= i {
			serverClosed = true
		}
		// one second of slack on a responsive machine, more when the machine stalled while the ask ran
		slack := time.Second + 20*ev.MaxLagSince(r.start)
		if r.took > p.deadline+slack {
			fail("ask %d (%s) returned after %v, its context ended at %v", i, p.desc, r.took, p.deadline)
		}
		// the response buffer belongs to the caller again once Ask has returned: a late reply must not be written into it
		if !bytes.Equal(r.resp, r.atRet) {
			fail("ask %d (%s): the caller's response buffer changed after Ask had returned (n=%d err=%v)", i, p.desc, r.n, r.err)
		}
		if r.err == nil {
			if r.n < 0 || r.n > len(r.resp) {
				fail("ask %d (%s) returned n=%d outside its %d-byte buffer", i, p.desc, r.n, len(r.resp))
			}
			if serverClosed {
				fail("ask %d (%s) to a node that had been closed returned success with %d bytes", i, p.desc, r.n)
			}
			switch {
			case p.behaviour != "answer" && p.behaviour != "slow-answer" && p.behaviour != "late-answer":
				fail("ask %d (%s): the handler signalled failure / never answered, yet Ask returned success with %d bytes", i, p.desc, r.n)
			case p.bufLen < p.respLen:
				fail("ask %d (%s): the %d-byte response does not fit the %d-byte buffer, yet Ask returned success with n=%d (truncated)", i, p.desc, p.respLen, p.bufLen, r.n)
			}
			// the answer must be the bytes one invocation for this very request produced
			got := r.resp[:r.n]
			matched := false
			for _, inv := range invs[e.ID] {
				if inv.response != nil && bytes.Equal(inv.response, got) {
					matched = true
					if !inv.reqOK {
						fail("ask %d (%s): the handler that produced this answer did not see exactly the request payload at the intended server", i, p.desc)
					}
					if want := addrText(w.Nodes[p.asker].Local()); !sameSender(w, inv.src, want) {
						fail("ask %d (%s): the handler saw Src=%s, the asker's address is %s", i, p.desc, inv.src, want)
					}
				}
			}
			if !matched {
				origin := "no handler invocation produced these bytes"
				for id, list := range invs {
					for _, inv := range list {
						if inv.response != nil && bytes.Equal(inv.response, got) {
							origin = fmt.Sprintf("they are the answer to request %d", id)
						}
					}
				}
				fail("ask %d (%s, request %d) returned %d bytes that its own handler invocation(s) did not produce: %s", i, p.desc, e.ID, r.n, origin)
			}
			classes["success"] = true
		} else {
			switch {
			case serverClosed:
				classes["to-closed-node"] = true
			case p.behaviour == "negative":
				classes["negative-handler"] = true
			case p.behaviour == "block":
				classes["context-ended"] = true
			case p.behaviour == "late-answer":
				classes["abandoned-before-late-answer"] = true
			case p.bufLen < p.respLen:
				classes["short-buffer"] = true
			}
		}
		if concurrent[p.group] >= 2 {
			classes["concurrent"] = true
		}
	}
	for c := range classes {
		ev.Class(sub, c)
	}
	if classes["concurrent"] || classes["negative-handler"] || classes["short-buffer"] || classes["context-ended"] || classes["to-closed-node"] || classes["abandoned-before-late-answer"] {
		var ds []string
		for _, p := range plans {
			ds = append(ds, p.desc)
		}
		key := desc + " :: " + strings.Join(ds, "; ")
		if ev.NonTrivial(sub, key) {
			ev.Sample(sub, key)
		}
	}
}

func closedIndex(plans []askPlan) map[int]int {
	m := map[int]int{}
	for i, p := range plans {
		if p.closeServer {
			m[p.server] = i
		}
		if p.closeDuring {
			m[p.server] = i + 1 // this very ask may still be answered by the handler that was running
		}
	}
	return m
}

const c11Rule = "2-4 nodes, 1-N asks: (asker, server, request length incl. multi-part, response length incl. multi-part and empty, asker buffer >= or < the response, handler behaviour in {answer with bytes unique to the invocation, negative return, block until its context ends, answer only after the asker's deadline - followed by a fresh ask on the same pair}, context deadline, concurrency group), symmetric bursts (A asks B while B asks A with equal shapes), optional Close of a server before an ask or while its (slow) handler is working on one. Oracle: err == nil implies resp[:n] is exactly what a handler invocation produced for exactly this request from exactly this asker; a negative handler, a closed destination, a response larger than the buffer or an ended context imply err != nil no later than the deadline plus slack. non-trivial = concurrent asks, or a failure class; distinct by (spec, plan list)"

func TestC11Mem(t *testing.T) {
	const sub = "C11.mem_stacks"
	ev.Rule(sub, "rapid: ask-capable stacks over the in-memory transport (virtual swarm, message-box, every ask multiplexer, secure-ask multi-transport, ask whitelist wrapper and nestings to depth 3); "+c11Rule)
	rapid.Check(t, func(t *rapid.T) {
		spec := genSpec(t, specOpts{maxDepth: 3, bases: []string{"mem"}, needAsk: true, smallMTUs: true, noKinds: map[string]bool{"quic": true}, honestFrag: true})
		n := rapid.IntRange(2, 4).Draw(t, "nodes")
		w, err := stack.Build(spec, n, 0)
		if err != nil {
			t.Fatalf("%s", ev.Tag(fmt.Sprintf("harness: %v: %v", spec, err)))
		}
		plans := genAskPlans(t, n, w.Nodes[0].S.MTU(), partSizeOf(spec), 20, true)
		desc := fmt.Sprintf("%v nodes=%d", spec, n)
		results, invs, reqs := runAsks(w, plans, rapid.IntRange(1, 3).Draw(t, "serveLoops"))
		ev.Eval(sub)
		checkAsks(t, sub, w, desc, plans, results, invs, reqs, closedIndex(plans))
	})
}

func TestC11Net(t *testing.T) {
	const sub = "C11.quic_ssh_stacks"
	ev.Rule(sub, "rapid: QUIC over memory/UDP (with optional message-box / multiplexer layers above) and stand-alone SSH swarms on TCP loopback; "+c11Rule)
	rapid.Check(t, func(t *rapid.T) {
		n := rapid.IntRange(2, 3).Draw(t, "nodes")
		var w *stack.World
		var err error
		var desc string
		mtu, part := 1<<17, 4096
		if rapid.IntRange(0, 2).Draw(t, "ssh") == 0 {
			w, err = buildSSH(n)
			desc = fmt.Sprintf("ssh nodes=%d", n)
		} else {
			spec := stack.Spec{Base: rapid.SampledFrom([]string{"mem", "udp"}).Draw(t, "base"), BaseMTU: 4096, QueueLen: 4096}
			spec.Layers = append(spec.Layers, stack.Layer{Kind: "quic", MTU: 1 << 16})
			switch rapid.IntRange(0, 2).Draw(t, "above") {
			case 1:
				spec.Layers = append(spec.Layers, stack.Layer{Kind: "mbapp", MTU: 300000, N: 2})
			case 2:
				spec.Layers = append(spec.Layers, stack.Layer{Kind: "mux", Mux: "string", Chan: "c"})
			}
			w, err = stack.Build(spec, n, 0)
			desc = fmt.Sprintf("%v nodes=%d", spec, n)
			if err == nil {
				mtu, part = w.Nodes[0].S.MTU(), partSizeOf(spec)
			}
		}
		if err != nil {
			t.Fatalf("%s", ev.Tag(fmt.Sprintf("harness: %v", err)))
		}
		plans := genAskPlans(t, n, mtu, part, 8, true)
		results, invs, reqs := runAsks(w, plans, 2)
		ev.Eval(sub)
		checkAsks(t, sub, w, desc, plans, results, invs, reqs, closedIndex(plans))
	})
}

// sameSender compares an observed source address with the sender's address. On stacks whose
// outgoing connections use an ephemeral source port (SSH over TCP) only the identity and the host
// are comparable.
func sameSender(w *stack.World, got, want string) bool {
	if w.Spec.Base == "ssh" {
		cut := func(s string) string {
			if i := strings.LastIndex(s, ":"); i >= 0 {
				return s[:i]
			}
			return s
		}
		return cut(got) == cut(want)
	}
	return got == want
}

// TestC11MbappReplyOrigin: a reply is only accepted from the peer that was asked.
func TestC11MbappReplyOrigin(t *testing.T) {
	const sub = "C11.mbapp_reply_origin"
	ev.Rule(sub, "rapid: a message-box swarm R on a scripted transport asks peer S; the harness sees the request on the wire and injects, in a generated order and possibly several times, well-formed reply packets that echo the request's id: from S (the genuine answer, single- or multi-part) and from other addresses (a third peer's bytes). Oracle: a successful Ask returns exactly S's answer; bytes sent by any other address are never returned. non-trivial = a foreign reply injected before S's; distinct by (sizes, order)")
	rapid.Check(t, func(t *rapid.T) {
		inner := rapid.SampledFrom([]int{100, 300}).Draw(t, "innerMTU")
		part := inner - mbapp.HeaderSize
		r := newFragInst("mbapp", 1, inner, part*20, rapid.IntRange(1, 3).Draw(t, "workers"))
		defer r.top.Close()
		sAddr, cAddr := stack.SAddr{N: 2}, stack.SAddr{N: 3}
		genuine := bytes.Repeat([]byte("S"), rapid.SampledFrom([]int{1, 20, part, part + 5, 3 * part}).Draw(t, "answerLen"))
		foreign := bytes.Repeat([]byte("C"), rapid.SampledFrom([]int{1, 20, len(genuine)}).Draw(t, "foreignLen"))
		type out struct {
			n   int
			err error
			buf []byte
		}
		done := make(chan out, 1)
		go func() {
			buf := make([]byte, part*20)
			ctx, cf := context.WithTimeout(context.Background(), 800*time.Millisecond)
			defer cf()
			n, err := r.ask.Ask(ctx, buf, sAddr, p2p.IOVec{[]byte("question")})
			done <- out{n, err, buf}
		}()
		var req []stack.Sent
		if !waitFor(time.Second, func() bool { req = append(req, r.script.Take()...); return len(req) > 0 }) {
			t.Fatalf("the ask produced no request on the transport")
		}
		reqHdr := mbapp.Header(append([]byte{}, req[0].Data[:mbapp.HeaderSize]...))
		mkReply := func(body []byte) [][]byte {
			n := (len(body) + part - 1) / part
			if n == 0 {
				n = 1
			}
			var pkts [][]byte
			for i := 0; i < n; i++ {
				h := mbapp.Header(append([]byte{}, reqHdr...))
				h.SetIsAsk(true)
				h.SetIsReply(true)
				h.SetErrorCode(0)
				h.SetPartIndex(uint16(i))
				h.SetPartCount(uint16(n))
				h.SetTotalSize(uint32(len(body)))
				lo, hi := i*part, min((i+1)*part, len(body))
				pkts = append(pkts, append([]byte(h), body[lo:hi]...))
			}
			return pkts
		}
		type inj struct {
			from stack.Addr
			data []byte
		}
		var sched []inj
		for _, p := range mkReply(genuine) {
			sched = append(sched, inj{sAddr, p})
		}
		foreignFirst := false
		for k := 0; k < rapid.IntRange(1, 3).Draw(t, "foreignCopies"); k++ {
			for _, p := range mkReply(foreign) {
				sched = append(sched, inj{cAddr, p})
			}
		}
		perm := rapid.Permutation(indices(len(sched))).Draw(t, "order")
		if sched[perm[0]].from == cAddr {
			foreignFirst = true
		}
		for _, i := range perm {
			if p, ok := r.script.Inject(sched[i].from, sched[i].data, time.Second); !ok || p != "" {
				t.Fatalf("the swarm failed on a well-formed reply: %q handled=%v", p, ok)
			}
		}
		ev.Eval(sub)
		desc := fmt.Sprintf("inner=%d answer=%dB foreign=%dB order=%v", inner, len(genuine), len(foreign), perm)
		if foreignFirst {
			if ev.NonTrivial(sub, desc) {
				ev.Sample(sub, desc)
			}
		}
		if o, returned := ev.PatientRecv(3*time.Second, done); !returned {
			t.Fatalf("Ask did not return\ncase: %s", desc)
		} else {
			if o.err == nil && !bytes.Equal(o.buf[:o.n], genuine) {
				who := "bytes nobody sent"
				if bytes.Contains(o.buf[:o.n], []byte("C")) {
					who = "bytes sent by a peer that was not asked"
				}
				t.Fatalf("Ask to %v succeeded with %d bytes that are not the asked peer's %d-byte answer: %s\ncase: %s", sAddr, o.n, len(genuine), who, desc)
			}
		}
	})
}
