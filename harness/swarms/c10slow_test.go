package swarms

import (
	"context"
	"fmt"
	"sort"
	"strings"
	"sync"
	"testing"
	"time"

	"go.brendoncarroll.net/p2p"
	"pgregory.net/rapid"

	"verif/harness/internal/ev"
	"verif/harness/internal/ledger"
	"verif/harness/internal/stack"
)

// TestC10SlowEpochs: the fragmenting layers forget partial messages (and whatever else they keep per peer) on a
// once-a-minute sweep with a ten-second horizon. Reassembly must stay sound across those sweeps: what was
// forgotten on one side and is still remembered on the other must never be combined. One rapid case is a batch
// of scenarios that run concurrently in real time (about two minutes); thorough tier only.
func TestC10SlowEpochs(t *testing.T) {
	const sub = "C10.slow_gc_epochs"
	ev.Rule(sub, "rapid, real time, thorough tier only: a batch of 12-20 concurrent scenarios per case. Each scenario: a receiver and (5-40 s later, so that their sweeps are out of phase) a sender of the fragmenting or message-box swarm on harness-owned transports; a multi-part message M1 is told at a generated time (biased to the window in which the sender's sweep forgets what the receiver still remembers) and loses 1..all-1 fragments; after the sender's first sweep 1-3 further messages with the same number of parts are told and delivered completely, the previously lost fragment index first; late fragments of M1 may arrive after the receiver's sweep. Oracle (ledger): every payload handed to the receiver's callback is byte-for-byte one of the messages told by that sender; a message that lost a fragment for good is never delivered. non-trivial = scenario in which the receiver still held a partial message when the sender had swept; distinct by scenario parameters")
	if !ev.Thorough() {
		t.Skip("thorough tier only (two minutes of real time)")
	}
	rapid.Check(t, func(t *rapid.T) {
		type scenario struct {
			kind                  string
			innerMTU, parts       int
			stagger, t1           time.Duration // sender creation delay; M1 time (since receiver creation)
			lose                  []int
			followUps             int
			lateAfterRecvSweep    bool
			desc                  string
			problems              []string
			delivered, nontrivial bool
		}
		n := rapid.IntRange(12, 20).Draw(t, "scenarios")
		scs := make([]*scenario, n)
		for i := range scs {
			sc := &scenario{kind: rapid.SampledFrom([]string{"frag", "frag", "mbapp"}).Draw(t, "kind")}
			sc.innerMTU = rapid.SampledFrom([]int{64, 100, 300}).Draw(t, "innerMTU")
			sc.parts = rapid.IntRange(2, 6).Draw(t, "parts")
			sc.stagger = time.Duration(rapid.IntRange(5, 40).Draw(t, "staggerSec")) * time.Second
			// the sender's sweep at stagger+60 forgets destinations idle since before stagger+50; the receiver's
			// sweep at 60 keeps partial messages younger than 10 s: t1 in (50, min(60, stagger+50)) hits both
			if rapid.IntRange(0, 3).Draw(t, "inWindow") > 0 {
				hi := min(59, int(sc.stagger/time.Second)+49)
				sc.t1 = time.Duration(rapid.IntRange(51, max(51, hi)).Draw(t, "t1Sec")) * time.Second
			} else {
				sc.t1 = sc.stagger + time.Duration(rapid.IntRange(1, 15).Draw(t, "t1AfterSender"))*time.Second
			}
			if sc.t1 < sc.stagger+time.Second {
				sc.t1 = sc.stagger + time.Second
			}
			k := rapid.IntRange(1, sc.parts-1).Draw(t, "lost")
			sc.lose = rapid.Permutation(seq(sc.parts)).Draw(t, "lostIdx")[:k]
			sort.Ints(sc.lose)
			sc.followUps = rapid.IntRange(1, 3).Draw(t, "followUps")
			sc.lateAfterRecvSweep = rapid.Bool().Draw(t, "lateFragment")
			sc.desc = fmt.Sprintf("%s innerMTU=%d parts=%d senderAt=%v M1At=%v lost=%v followUps=%d late=%v", sc.kind, sc.innerMTU, sc.parts, sc.stagger, sc.t1, sc.lose, sc.followUps, sc.lateAfterRecvSweep)
			scs[i] = sc
		}
		start := time.Now()
		at := func(d time.Duration) { time.Sleep(time.Until(start.Add(d))) }
		var wg sync.WaitGroup
		for i, sc := range scs {
			i, sc := i, sc
			wg.Add(1)
			go func() {
				defer wg.Done()
				hdr := 15
				if sc.kind == "mbapp" {
					hdr = 24
				}
				part := sc.innerMTU - hdr
				r := newFragInst(sc.kind, 100+i, sc.innerMTU, part*20, 2)
				defer r.top.Close()
				led := ledger.New()
				var mu sync.Mutex
				var got [][]byte
				ctx, cancel := context.WithCancel(context.Background())
				defer cancel()
				go func() {
					for r.top.Receive(ctx, func(m stack.Msg) {
						mu.Lock()
						got = append(got, append([]byte{}, m.Payload...))
						mu.Unlock()
					}) == nil {
					}
				}()
				at(sc.stagger)
				s := newFragInst(sc.kind, 1, sc.innerMTU, part*20, 1)
				defer s.top.Close()
				tell := func(size int) (*ledger.Entry, [][]byte) {
					e := led.Make(0, 1, size)
					c, cf := context.WithTimeout(ctx, 5*time.Second)
					defer cf()
					if err := s.top.Tell(c, r.script.Local, p2p.IOVec{e.Data}); err != nil {
						sc.problems = append(sc.problems, "harness: Tell failed: "+err.Error())
						return e, nil
					}
					var fr [][]byte
					for _, o := range s.script.Take() {
						fr = append(fr, o.Data)
					}
					return e, fr
				}
				inject := func(f []byte) {
					if p, ok := r.script.Inject(s.script.Local, f, 2*time.Second); !ok || p != "" {
						sc.problems = append(sc.problems, fmt.Sprintf("receiver failed on a genuine fragment: %q handled=%v", p, ok))
					}
				}
				size := part*(sc.parts-1) + part/2 + 1
				at(sc.t1)
				m1, f1 := tell(size)
				lost := map[int]bool{}
				for _, l := range sc.lose {
					lost[l] = true
				}
				for idx, f := range f1 {
					if !lost[idx] {
						inject(f)
					}
				}
				senderSweep := sc.stagger + 60*time.Second
				recvSweeps := []time.Duration{60 * time.Second, 120 * time.Second}
				_ = recvSweeps
				// was the receiver still holding M1's partial state when the sender had swept? (M1 younger than 10 s at the
				// receiver's sweep before that moment, or no receiver sweep in between)
				held := sc.t1 > 50*time.Second || senderSweep < 60*time.Second
				forgot := sc.t1 < senderSweep-10*time.Second
				sc.nontrivial = held && forgot
				at(senderSweep + 1500*time.Millisecond)
				var sent []*ledger.Entry
				for k := 0; k < sc.followUps; k++ {
					e, fr := tell(size)
					sent = append(sent, e)
					// the index that M1 lost goes first
					order := append(append([]int{}, sc.lose...), func() (rest []int) {
						for idx := range fr {
							if !lost[idx] {
								rest = append(rest, idx)
							}
						}
						return
					}()...)
					for _, idx := range order {
						if idx < len(fr) {
							inject(fr[idx])
						}
					}
				}
				if sc.lateAfterRecvSweep && len(f1) > 0 {
					at(121500 * time.Millisecond)
					for idx, f := range f1 {
						if lost[idx] && idx != sc.lose[0] {
							inject(f)
						}
					}
				}
				time.Sleep(50 * time.Millisecond)
				mu.Lock()
				defer mu.Unlock()
				for _, g := range got {
					sc.delivered = true
					if _, why := led.Check(1, g); why != "" {
						sc.problems = append(sc.problems, "delivered payload is not a message that was sent: "+why)
					}
					if string(g) == string(m1.Data) {
						sc.problems = append(sc.problems, fmt.Sprintf("M1 was delivered although fragment %d never arrived", sc.lose[0]))
					}
				}
				_ = sent
			}()
		}
		wg.Wait()
		ev.EvalN(sub, int64(n))
		var bad []string
		for _, sc := range scs {
			if sc.nontrivial {
				if ev.NonTrivial(sub, sc.desc) {
					ev.Sample(sub, sc.desc)
				}
				ev.Class(sub, "receiver-remembers-what-sender-forgot")
			}
			if sc.delivered {
				ev.Class(sub, "follow-up-delivered")
			}
			for _, p := range sc.problems {
				if strings.HasPrefix(p, "harness:") {
					continue
				}
				bad = append(bad, p+"\n  scenario: "+sc.desc)
			}
		}
		if len(bad) > 0 {
			t.Fatalf("%s", strings.Join(bad[:min(3, len(bad))], "\n"))
		}
	})
}
