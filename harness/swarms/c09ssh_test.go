package swarms

import (
	"bytes"
	"context"
	"fmt"
	"sync"
	"testing"
	"time"

	"go.brendoncarroll.net/p2p"
	"pgregory.net/rapid"

	"verif/harness/internal/ev"
	"verif/harness/internal/stack"
)

// TestC09SSH: the SSH swarm's MTU at its boundary, for tells and asks, with the payload handed over as one
// or several buffers (the size that counts is the total).
func TestC09SSH(t *testing.T) {
	const sub = "C09.ssh_boundary"
	ev.Rule(sub, "rapid: two SSH swarms on TCP loopback; 1-6 operations per connection: tell or ask of L in {0, 1, MTU-1, MTU, MTU+1, MTU+k} bytes handed over as 1-4 buffers, ask answers of 0..MTU bytes. Oracle: L <= MTU(): never refused with the MTU error, and what arrives is the whole payload (the transport is a TCP stream: it arrives); L > MTU(): refused with the MTU error and nothing of it arrives. non-trivial = L within 1 of MTU; distinct by operation list")
	rapid.Check(t, func(t *rapid.T) {
		w, err := buildSSH(2)
		if err != nil {
			t.Fatalf("%s", ev.Tag(fmt.Sprintf("harness: %v", err)))
		}
		defer w.Close()
		a, b := w.Nodes[0], w.Nodes[1]
		mtu := a.S.MTU()
		var mu sync.Mutex
		var got [][]byte
		ctx, cancel := context.WithCancel(context.Background())
		defer cancel()
		go func() {
			for b.S.Receive(ctx, func(m stack.Msg) {
				mu.Lock()
				got = append(got, append([]byte{}, m.Payload...))
				mu.Unlock()
			}) == nil {
			}
		}()
		go func() {
			for b.A.ServeAsk(ctx, func(_ context.Context, resp []byte, m stack.Msg) int {
				mu.Lock()
				got = append(got, append([]byte{}, m.Payload...))
				mu.Unlock()
				return copy(resp, "ok")
			}) == nil {
			}
		}()
		have := func(p []byte) bool {
			mu.Lock()
			defer mu.Unlock()
			for _, g := range got {
				if bytes.Equal(g, p) {
					return true
				}
			}
			return false
		}
		n := rapid.IntRange(1, 6).Draw(t, "ops")
		var descs []string
		near := false
		for i := 0; i < n; i++ {
			var L int
			switch c := rapid.SampledFrom([]string{"0", "1", "mtu-1", "mtu", "mtu", "mtu+1", "mtu+1", "mtu+k"}).Draw(t, "L"); c {
			case "0":
				L = 0
			case "1":
				L = 1
			case "mtu-1":
				L = mtu - 1
			case "mtu":
				L = mtu
			case "mtu+1":
				L = mtu + 1
			default:
				L = mtu + rapid.IntRange(2, 70000).Draw(t, "k")
			}
			near = near || (L >= mtu-1 && L <= mtu+1)
			ask := rapid.Bool().Draw(t, "ask")
			segs := rapid.IntRange(1, 4).Draw(t, "buffers")
			payload := make([]byte, L)
			for j := range payload {
				payload[j] = byte(i*31 + j*7)
			}
			if L >= 8 {
				copy(payload, fmt.Sprintf("op%05d|", i))
			}
			var vec p2p.IOVec
			for k := 0; k < segs; k++ {
				lo, hi := L*k/segs, L*(k+1)/segs
				vec = append(vec, append([]byte{}, payload[lo:hi]...))
			}
			verb := "tell"
			if ask {
				verb = "ask"
			}
			desc := fmt.Sprintf("%s(%d bytes in %d buffers)", verb, L, segs)
			descs = append(descs, desc)
			start := time.Now()
			c, cf := context.WithTimeout(ctx, ev.Extended(5*time.Second))
			var err error
			if ask {
				_, err = a.A.Ask(c, make([]byte, 16), b.Local(), vec)
			} else {
				err = a.S.Tell(c, b.Local(), vec)
			}
			cf()
			fail := func(f string, args ...any) {
				t.Fatalf("%s\ncase: MTU()=%d ops=%v", fmt.Sprintf(f, args...), mtu, descs)
			}
			if L <= mtu {
				if p2p.IsErrMTUExceeded(err) {
					fail("%s <= MTU() was refused with the MTU error: %v", desc, err)
				}
				if err != nil {
					if ev.Stalled(start) {
						ev.Class(sub, "not-judged:machine-stalled")
						return
					}
					fail("%s <= MTU() failed over a TCP connection: %v", desc, err)
				}
				if L > 0 && !ev.Patient(3*time.Second, func() bool { return have(payload) }) {
					fail("%s returned nil but the payload did not arrive intact", desc)
				}
			} else {
				if !p2p.IsErrMTUExceeded(err) {
					fail("%s > MTU() returned %v, want the MTU error", desc, err)
				}
			}
		}
		time.Sleep(5 * time.Millisecond)
		mu.Lock()
		for _, g := range got {
			if len(g) > mtu {
				mu.Unlock()
				t.Fatalf("a payload of %d bytes > MTU() %d was delivered\ncase: ops=%v", len(g), mtu, descs)
			}
		}
		mu.Unlock()
		ev.Eval(sub)
		if near {
			d := fmt.Sprint(descs)
			if ev.NonTrivial(sub, d) {
				ev.Sample(sub, d)
			}
		}
	})
}
