package swarms

import (
	"context"
	"fmt"
	"reflect"
	"sync"
	"testing"
	"time"

	"go.brendoncarroll.net/p2p"
	"pgregory.net/rapid"

	"verif/harness/internal/ev"
	"verif/harness/internal/stack"
)

// TestC16Harvested round-trips addresses that live swarms really hand out:
// local addresses at every level of a generated stack and the source and
// destination of real messages, each with the ParseAddr of the swarm at that level.
func TestC16Harvested(t *testing.T) {
	const sub = "C16.harvested"
	ev.Rule(sub, "rapid: generated live stacks (memory, UDP on 127.0.0.1 / [::1] / 0.0.0.0 / [::], SSH on TCP loopback; every layer kind to depth 3); harvested = LocalAddrs() of every level of every node and the Src/Dst of messages really exchanged at the top level. Oracle: for every harvested address a of a swarm s: s.ParseAddr(a.MarshalText()) deep-equals a. non-trivial = address that is not a bare IPv4-loopback or memory address (nested, IPv6, IPv4-mapped, unspecified-expanded or carrying an identity); distinct by (level type, text)")
	rapid.Check(t, func(t *rapid.T) {
		var w *stack.World
		var err error
		var desc string
		if rapid.IntRange(0, 5).Draw(t, "ssh") == 0 {
			w, err = buildSSH(2)
			desc = "ssh"
		} else {
			spec := genSpec(t, specOpts{maxDepth: 3, bases: []string{"mem", "udp", "udp6", "udp-any", "udp6-any"}, honestFrag: true})
			w, err = stack.Build(spec, 2, 0)
			desc = spec.String()
		}
		if err != nil {
			t.Fatalf("%s", ev.Tag(fmt.Sprintf("harness: %v", err)))
		}
		defer w.Close()
		ev.Eval(sub)
		type harvested struct {
			sw   stack.Swarm
			a    stack.Addr
			from string
		}
		var hs []harvested
		for ni, nd := range w.Nodes {
			levels := nd.Levels
			if len(levels) == 0 {
				levels = []stack.Swarm{nd.S}
			}
			for li, sw := range levels {
				for _, a := range sw.LocalAddrs() {
					hs = append(hs, harvested{sw, a, fmt.Sprintf("node%d level%d LocalAddrs", ni, li)})
				}
			}
		}
		// exchange one message each way at the top and harvest Src/Dst
		var mu sync.Mutex
		ctx, cancel := context.WithTimeout(context.Background(), 2*time.Second)
		defer cancel()
		var wg sync.WaitGroup
		if w.Spec.Base != "udp-any" && w.Spec.Base != "udp6-any" {
			for i, nd := range w.Nodes {
				i, nd := i, nd
				wg.Add(1)
				go func() {
					defer wg.Done()
					nd.S.Receive(ctx, func(m stack.Msg) {
						mu.Lock()
						hs = append(hs, harvested{nd.S, m.Src, fmt.Sprintf("node%d message Src", i)}, harvested{nd.S, m.Dst, fmt.Sprintf("node%d message Dst", i)})
						mu.Unlock()
					})
				}()
			}
			for i, nd := range w.Nodes {
				tctx, cf := context.WithTimeout(ctx, time.Second)
				nd.S.Tell(tctx, w.Nodes[1-i].Local(), p2p.IOVec{[]byte("hello-0123456789")})
				cf()
			}
			done := make(chan struct{})
			go func() { wg.Wait(); close(done) }()
			select {
			case <-done:
			case <-time.After(1500 * time.Millisecond):
				cancel()
				<-done
			}
		}
		mu.Lock()
		defer mu.Unlock()
		for _, h := range hs {
			text, err := h.a.MarshalText()
			if err != nil {
				t.Fatalf("%s: MarshalText(%#v): %v (%s)", h.from, h.a, err, desc)
			}
			s := string(text)
			trivial := len(s) < 3 || (len(s) > 10 && s[:10] == "127.0.0.1:")
			if !trivial {
				key := fmt.Sprintf("%T %s", h.a, s)
				if ev.NonTrivial(sub, key) {
					ev.Sample(sub, fmt.Sprintf("%s: %s", h.from, s))
				}
			}
			back, err := h.sw.ParseAddr(text)
			if err != nil {
				t.Fatalf("%s: the swarm's own ParseAddr rejects the address it handed out: %q: %v (%s)", h.from, text, err, desc)
			}
			if !reflect.DeepEqual(back, h.a) {
				t.Fatalf("%s: %q parses back to %#v, the swarm handed out %#v (%s)", h.from, text, back, h.a, desc)
			}
		}
	})
}
