package secure

// C04 over QUIC with an adversary that builds its own TLS credentials: the identity of a QUIC peer must be
// the key of the certificate whose private half signed the handshake (the leaf), whatever else the peer
// puts into its certificate chain.

import (
	"bytes"
	"context"
	"crypto/ed25519"
	"crypto/rand"
	"crypto/tls"
	stdx509 "crypto/x509"
	"fmt"
	"io"
	"math/big"
	"strings"
	"sync"
	"testing"
	"time"

	"github.com/quic-go/quic-go"
	"go.brendoncarroll.net/p2p"
	"go.brendoncarroll.net/p2p/s/quicswarm"
	"go.brendoncarroll.net/p2p/s/swarmutil"
	"go.brendoncarroll.net/p2p/s/udpswarm"
	"pgregory.net/rapid"

	"verif/harness/internal/ev"
	"verif/harness/internal/stack"
)

type qsAddr = quicswarm.Addr[udpswarm.Addr]

// forgedCert is a certificate naming pub, issued (signed) with the adversary's own key: anybody can make one.
func forgedCert(pub ed25519.PublicKey, signer ed25519.PrivateKey) []byte {
	serial, _ := rand.Int(rand.Reader, big.NewInt(1<<62))
	tmpl := stdx509.Certificate{
		SerialNumber: serial, NotBefore: time.Now().Add(-time.Hour), NotAfter: time.Now().Add(24 * time.Hour),
		KeyUsage: stdx509.KeyUsageDigitalSignature | stdx509.KeyUsageCertSign, BasicConstraintsValid: true, IsCA: true,
		ExtKeyUsage: []stdx509.ExtKeyUsage{stdx509.ExtKeyUsageClientAuth, stdx509.ExtKeyUsageServerAuth},
	}
	der, err := stdx509.CreateCertificate(rand.Reader, &tmpl, &tmpl, pub, signer)
	if err != nil {
		panic(err)
	}
	return der
}

func TestC04QuicCertChain(t *testing.T) {
	const sub = "C04.quic_certificate_chain_adversary"
	ev.Rule(sub, "rapid: a QUIC swarm N (key 0), an honest swarm V (key 1, the victim identity) and an adversary M built directly on quic-go, holding only its own key. M's TLS chain is generated: its own self-signed leaf, followed and/or preceded by 0-2 certificates it minted for V's (or N's) public key, or a minted certificate alone (which it cannot sign for). As a client M tells and asks N; as a server M is dialled by N under V's identity, M's identity or a random one (1-8 operations, honest traffic from V in between). Oracle inside N's callbacks: a message attributed to V's fingerprint (Src and LookupPublicKey) carries a payload V sent; M's payloads are attributed to M's own fingerprint or not delivered; N hands no payload bytes to M when the identity N was told is not M's. non-trivial = chain with a minted certificate for V; distinct by (chain, operations)")
	rapid.Check(t, func(t *rapid.T) {
		n, err := quicswarm.NewOnUDP("127.0.0.1:0", stack.PrivKey(0))
		if err != nil {
			t.Fatalf("VERIF-INCONCLUSIVE harness: %v", err)
		}
		defer n.Close()
		v, err := quicswarm.NewOnUDP("127.0.0.1:0", stack.PrivKey(1))
		if err != nil {
			t.Fatalf("VERIF-INCONCLUSIVE harness: %v", err)
		}
		defer v.Close()
		nAddr, vAddr := n.LocalAddrs()[0], v.LocalAddrs()[0]
		mKey := stack.StdKey(7)
		mID := quicswarm.DefaultFingerprinter(stack.PubOf(7))
		// the chain
		own := swarmutil.GenerateSelfSigned(mKey).Certificate[0]
		forV := forgedCert(stack.StdKey(1).Public().(ed25519.PublicKey), mKey)
		forN := forgedCert(stack.StdKey(0).Public().(ed25519.PublicKey), mKey)
		var chain [][]byte
		var chainDesc []string
		mintedV := false
		for i, k := 0, rapid.IntRange(1, 3).Draw(t, "chainLen"); i < k; i++ {
			switch rapid.SampledFrom([]string{"own", "own", "forV", "forV", "forN"}).Draw(t, "cert") {
			case "own":
				chain, chainDesc = append(chain, own), append(chainDesc, "own")
			case "forV":
				chain, chainDesc = append(chain, forV), append(chainDesc, "minted-for-V")
				mintedV = true
			case "forN":
				chain, chainDesc = append(chain, forN), append(chainDesc, "minted-for-N")
			}
		}
		tlsCert := tls.Certificate{Certificate: chain, PrivateKey: mKey}
		role := rapid.SampledFrom([]string{"client", "client", "server"}).Draw(t, "role")
		nOps := rapid.IntRange(1, 8).Draw(t, "ops")

		var mu sync.Mutex
		var problems []string
		problem := func(f string, a ...any) {
			mu.Lock()
			defer mu.Unlock()
			if len(problems) < 4 {
				problems = append(problems, fmt.Sprintf(f, a...))
			}
		}
		delivered := 0
		onMsg := func(m p2p.Message[qsAddr], verb string) {
			pl := string(m.Payload)
			mu.Lock()
			delivered++
			mu.Unlock()
			lctx, lcf := context.WithTimeout(context.Background(), 100*time.Millisecond)
			pk, lerr := n.LookupPublicKey(lctx, m.Src)
			lcf()
			switch {
			case strings.HasPrefix(pl, "from-V"):
				if m.Src.ID != vAddr.ID {
					problem("%s %q from V is attributed to %v", verb, pl, m.Src.ID)
				}
			case strings.HasPrefix(pl, "from-M"):
				if m.Src.ID != mID {
					who := "an unknown identity"
					if m.Src.ID == vAddr.ID {
						who = "V's identity"
					} else if m.Src.ID == nAddr.ID {
						who = "N's own identity"
					}
					problem("%s %q was sent by the adversary (whose handshake key has fingerprint %v) but is attributed to %s", verb, pl, mID, who)
				}
			default:
				problem("unknown payload %q", pl)
			}
			if lerr == nil && quicswarm.DefaultFingerprinter(pk) != m.Src.ID {
				problem("LookupPublicKey(Src) returns a key with another fingerprint than Src names")
			}
			if lerr == nil && strings.HasPrefix(pl, "from-M") && quicswarm.DefaultFingerprinter(pk) != mID {
				problem("LookupPublicKey(Src) for the adversary's message returns a key the adversary does not hold")
			}
		}
		ctx, cancel := context.WithCancel(context.Background())
		defer cancel()
		go func() {
			for n.Receive(ctx, func(m p2p.Message[qsAddr]) { onMsg(m, "tell") }) == nil {
			}
		}()
		go func() {
			for n.ServeAsk(ctx, func(_ context.Context, resp []byte, m p2p.Message[qsAddr]) int {
				onMsg(m, "ask")
				return copy(resp, "ok")
			}) == nil {
			}
		}()
		honest := func(i int) {
			c, cf := context.WithTimeout(ctx, 2*time.Second)
			defer cf()
			v.Tell(c, nAddr, p2p.IOVec{[]byte(fmt.Sprintf("from-V-%d", i))})
		}
		var opDesc []string
		leaked := 0
		switch role {
		case "client":
			tc := &tls.Config{Certificates: []tls.Certificate{tlsCert}, InsecureSkipVerify: true, NextProtos: []string{"p2p"}}
			dctx, dcf := context.WithTimeout(ctx, 2*time.Second)
			conn, derr := quic.DialAddr(dctx, nAddr.Addr.String(), tc, &quic.Config{EnableDatagrams: true})
			dcf()
			for i := 0; i < nOps; i++ {
				kind := rapid.SampledFrom([]string{"tell", "ask", "honest"}).Draw(t, "op")
				opDesc = append(opDesc, kind)
				if kind == "honest" {
					honest(i)
					continue
				}
				if derr != nil {
					continue
				}
				pl := []byte(fmt.Sprintf("from-M-%d", i))
				if kind == "tell" {
					if s, err := conn.OpenUniStream(); err == nil {
						s.Write(pl)
						s.Close()
					}
				} else if s, err := conn.OpenStream(); err == nil {
					hdr := []byte{0, 0, 0, byte(len(pl))}
					s.Write(append(hdr, pl...))
					s.Close()
					s.SetReadDeadline(time.Now().Add(300 * time.Millisecond))
					io.Copy(io.Discard, io.LimitReader(s, 1<<16))
				}
			}
			if derr == nil {
				time.Sleep(20 * time.Millisecond)
				go conn.CloseWithError(0, "")
			} else {
				opDesc = append(opDesc, "(handshake refused)")
			}
		case "server":
			tc := &tls.Config{Certificates: []tls.Certificate{tlsCert}, NextProtos: []string{"p2p"}, ClientAuth: tls.RequireAnyClientCert, InsecureSkipVerify: true}
			ln, err := quic.ListenAddr("127.0.0.1:0", tc, &quic.Config{EnableDatagrams: true})
			if err != nil {
				t.Fatalf("VERIF-INCONCLUSIVE harness: %v", err)
			}
			defer ln.Close()
			var gotData []byte // everything the adversary's server received on its streams
			go func() {
				for {
					conn, err := ln.Accept(ctx)
					if err != nil {
						return
					}
					go func() {
						for {
							s, err := conn.AcceptUniStream(ctx)
							if err != nil {
								return
							}
							go func() {
								d, _ := io.ReadAll(io.LimitReader(s, 1<<16))
								mu.Lock()
								gotData = append(gotData, d...)
								mu.Unlock()
							}()
						}
					}()
					go func() {
						for {
							s, err := conn.AcceptStream(ctx)
							if err != nil {
								return
							}
							go func() {
								d, _ := io.ReadAll(io.LimitReader(s, 1<<16))
								mu.Lock()
								gotData = append(gotData, d...)
								mu.Unlock()
								s.Write([]byte{0, 0, 0, 2, 'o', 'k'})
								s.Close()
							}()
						}
					}()
				}
			}()
			for i := 0; i < nOps; i++ {
				kind := rapid.SampledFrom([]string{"tell", "ask", "honest"}).Draw(t, "op")
				claim := rapid.SampledFrom([]string{"V", "V", "M", "random"}).Draw(t, "claim")
				if kind == "honest" {
					opDesc = append(opDesc, kind)
					honest(i)
					continue
				}
				opDesc = append(opDesc, kind+"->"+claim)
				id := mID
				switch claim {
				case "V":
					id = vAddr.ID
				case "random":
					id = p2p.PeerID{9, 9, 9}
				}
				dst, err := n.ParseAddr([]byte(id.String() + "@" + ln.Addr().String()))
				if err != nil {
					t.Fatalf("VERIF-INCONCLUSIVE harness: %v", err)
				}
				c, cf := context.WithTimeout(ctx, 400*time.Millisecond)
				pl := []byte(fmt.Sprintf("to-%s-secret-%d", claim, i))
				if kind == "tell" {
					n.Tell(c, dst, p2p.IOVec{pl})
				} else {
					n.Ask(c, make([]byte, 16), dst, p2p.IOVec{pl})
				}
				cf()
			}
			time.Sleep(30 * time.Millisecond)
			// payloads name the identity they were addressed to: the server may hold only those addressed to M
			mu.Lock()
			for _, tag := range []string{"to-V-secret", "to-random-secret"} {
				leaked += bytes.Count(gotData, []byte(tag))
			}
			mu.Unlock()
			if leaked > 0 {
				problem("N handed %d payload(s) addressed to another identity to the adversary's server (its handshake key has fingerprint %v)", leaked, mID)
			}
		}
		time.Sleep(20 * time.Millisecond)
		desc := fmt.Sprintf("role=%s chain=[%s] ops=[%s]", role, strings.Join(chainDesc, ","), strings.Join(opDesc, " "))
		ev.Eval(sub)
		mu.Lock()
		ps := append([]string{}, problems...)
		nd := delivered
		mu.Unlock()
		if nd > 0 {
			ev.Class(sub, "some-delivered")
		}
		ev.Class(sub, "leaf:"+chainDesc[0])
		if mintedV {
			if ev.NonTrivial(sub, desc) {
				ev.Sample(sub, fmt.Sprintf("%s delivered=%d", desc, nd))
			}
		}
		if len(ps) > 0 {
			t.Fatalf("%s\ncase: %s", strings.Join(ps, "\n"), desc)
		}
	})
}
