package secure

// C04 address takeover: the transport address of a peer is re-used by a node holding a different key
// (a restarted host with a new identity, a NAT rebinding, an attacker who grabbed the port). Whatever a
// swarm remembers per transport address (channels, sessions, cached identities) must not leak the old
// identity into the attribution of the new node's messages, nor hand the new node payloads addressed
// to the old identity.

import (
	"context"
	"fmt"
	"strings"
	"sync"
	"sync/atomic"
	"testing"
	"time"

	"go.brendoncarroll.net/p2p"
	"go.brendoncarroll.net/p2p/f/x509"
	"go.brendoncarroll.net/p2p/s/p2pkeswarm"
	"go.brendoncarroll.net/p2p/s/quicswarm"
	"go.brendoncarroll.net/p2p/s/udpswarm"
	"pgregory.net/rapid"

	"verif/harness/internal/ev"
	"verif/harness/internal/stack"
)

type tkNode struct {
	key   int
	s     stack.Swarm
	a     stack.AskBidi
	sec   stack.Sec
	inner stack.Swarm
	port  string
	stop  context.CancelFunc
	gone  atomic.Bool // set before the node is closed: a look-up racing with Close may fail
}

func tkID(kind string, key int) p2p.PeerID {
	pub := stack.PubOf(key)
	if kind == "p2pke" {
		return p2pkeswarm.DefaultFingerprinter(&pub)
	}
	return quicswarm.DefaultFingerprinter(pub)
}

func newTkNode(kind, laddr string, key int) (*tkNode, error) {
	var u *udpswarm.Swarm
	var err error
	for i := 0; i < 100; i++ { // the port of a node that was just closed may take a moment to be free
		if u, err = udpswarm.New(laddr); err == nil {
			break
		}
		time.Sleep(10 * time.Millisecond)
	}
	if err != nil {
		return nil, err
	}
	inner := stack.Erase[udpswarm.Addr](u)
	nd := &tkNode{key: key, inner: inner, port: u.LocalAddrs()[0].String()}
	if kind == "p2pke" {
		sw := p2pkeswarm.New[stack.Addr](inner, stack.PrivKey(key))
		nd.s, nd.sec = stack.Erase[p2pkeswarm.Addr[stack.Addr]](sw), stack.EraseSec[p2pkeswarm.Addr[stack.Addr]](sw)
	} else {
		sw, err := quicswarm.New[stack.Addr](inner, stack.PrivKey(key))
		if err != nil {
			u.Close()
			return nil, err
		}
		nd.s, nd.a, nd.sec = stack.Erase[quicswarm.Addr[stack.Addr]](sw), stack.EraseAsk[quicswarm.Addr[stack.Addr]](sw), stack.EraseSec[quicswarm.Addr[stack.Addr]](sw)
	}
	return nd, nil
}

func (n *tkNode) close() {
	n.gone.Store(true)
	if n.stop != nil {
		n.stop()
	}
	func() {
		defer func() { recover() }()
		n.s.Close()
	}()
	func() {
		defer func() { recover() }()
		n.inner.Close()
	}()
}

func TestC04AddressTakeover(t *testing.T) { addressTakeover(t, "C04.address_takeover") }

// The same histories decide C01's "to whom it was told / from whom it came" for secure stacks whose
// peers change identity behind an unchanged transport address.
func TestC01AddressTakeover(t *testing.T) { addressTakeover(t, "C01.address_takeover") }

func addressTakeover(t *testing.T, sub string) {
	ev.Rule(sub, "rapid: P2PKE or QUIC over UDP on 127.0.0.1. Slot A is an observer with key 0; slot X is a UDP port held in turn by nodes with keys 1, 2, 1, ... (take-over: the holder is closed and a node with another key binds the same port). Generated histories: 0-3 tells/asks with the first holder, then 1-2 take-overs each followed by tells/asks A->X naming the current holder's identity or the previous holder's and tells/asks X->A (both directions after every take-over). Every payload names the key of its real sender and the key it is addressed to. Oracle inside every callback: Src's identity is the fingerprint of the real sender's key; LookupPublicKeyInHandler(Src) is that key; a payload addressed to identity K is delivered only to a node holding K. non-trivial = a take-over followed by traffic in both directions; distinct by (kind, operation list)")
	rapid.Check(t, func(t *rapid.T) {
		kind := rapid.SampledFrom([]string{"p2pke", "p2pke", "quic"}).Draw(t, "kind")
		type op struct {
			what string // a2x | a2x-old | x2a | takeover
			ask  bool
		}
		var ops []op
		var descs []string
		add := func(what string) {
			o := op{what: what}
			o.ask = kind == "quic" && what != "takeover" && rapid.Bool().Draw(t, "ask")
			ops = append(ops, o)
			d := what
			if o.ask {
				d += ":ask"
			}
			descs = append(descs, d)
		}
		// phases: traffic with the first holder, a take-over, traffic in both directions with the new holder
		// (A speaks first, so that A's state for the address is replaced before the new holder's messages arrive),
		// possibly a second take-over back to the first key
		for i, n := 0, rapid.IntRange(0, 3).Draw(t, "before"); i < n; i++ {
			add(rapid.SampledFrom([]string{"a2x", "x2a"}).Draw(t, "what"))
		}
		for round, rounds := 0, rapid.IntRange(1, 2).Draw(t, "takeovers"); round < rounds; round++ {
			add("takeover")
			if rapid.IntRange(0, 3).Draw(t, "oldFirst") == 0 {
				add("a2x-old")
			}
			add("a2x")
			for i, n := 0, rapid.IntRange(1, 4).Draw(t, "after"); i < n; i++ {
				add(rapid.SampledFrom([]string{"x2a", "x2a", "a2x", "a2x-old"}).Draw(t, "what"))
			}
			add("x2a")
		}
		desc := fmt.Sprintf("%s ops=[%s]", kind, strings.Join(descs, " "))

		var mu sync.Mutex
		var problems []string
		problem := func(f string, a ...any) {
			mu.Lock()
			defer mu.Unlock()
			if len(problems) < 4 {
				problems = append(problems, fmt.Sprintf(f, a...))
			}
		}
		delivered := 0
		onMsg := func(r *tkNode, m stack.Msg, verb string) {
			var opn, fromKey, toKey int
			if _, err := fmt.Sscanf(string(m.Payload), "op%d from-key%d to-key%d", &opn, &fromKey, &toKey); err != nil {
				problem("node with key %d received an unknown payload %q", r.key, m.Payload)
				return
			}
			mu.Lock()
			delivered++
			mu.Unlock()
			var got p2p.PeerID
			if kind == "p2pke" {
				got = m.Src.(p2pkeswarm.Addr[stack.Addr]).ID
			} else {
				got = m.Src.(quicswarm.Addr[stack.Addr]).ID
			}
			if got != tkID(kind, fromKey) {
				who := "an unknown identity"
				for k := 0; k < 3; k++ {
					if got == tkID(kind, k) {
						who = fmt.Sprintf("the identity of key %d", k)
					}
				}
				problem("%s %q was sent by the node holding key %d but is attributed to %s", verb, m.Payload, fromKey, who)
			}
			func() {
				defer func() {
					if rec := recover(); rec != nil {
						// The observer may itself have replaced its channel for this transport address by
						// telling another identity there before this callback ran; the look-up then finds
						// a channel that is not ready. C04 constrains the key a look-up returns, not
						// whether it succeeds, so this is recorded as a class only.
						ev.Class(sub, "lookup-failed-in-handler")
					}
				}()
				pub := p2p.LookupPublicKeyInHandler[stack.Addr, stack.PubKey](r.sec, m.Src)
				want := stack.PubOf(fromKey)
				if !x509.EqualPublicKeys(&pub, &want) {
					problem("LookupPublicKeyInHandler(Src) of %q returned key %d, the sender holds key %d", m.Payload, stack.KeyIndex(pub), fromKey)
				}
			}()
			if r.key != toKey {
				problem("%s %q, addressed to the identity of key %d, was delivered to the node holding key %d", verb, m.Payload, toKey, r.key)
			}
		}
		serve := func(nd *tkNode) {
			ctx, cancel := context.WithCancel(context.Background())
			nd.stop = cancel
			go func() {
				for nd.s.Receive(ctx, func(m stack.Msg) { onMsg(nd, m, "tell") }) == nil {
				}
			}()
			if nd.a != nil {
				go func() {
					for nd.a.ServeAsk(ctx, func(_ context.Context, resp []byte, m stack.Msg) int {
						onMsg(nd, m, "ask")
						return copy(resp, "ok")
					}) == nil {
					}
				}()
			}
		}
		a, err := newTkNode(kind, "127.0.0.1:0", 0)
		if err != nil {
			t.Fatalf("VERIF-INCONCLUSIVE harness: %v", err)
		}
		defer func() { a.close() }()
		x, err := newTkNode(kind, "127.0.0.1:0", 1)
		if err != nil {
			t.Fatalf("VERIF-INCONCLUSIVE harness: %v", err)
		}
		defer func() { x.close() }()
		serve(a)
		serve(x)
		mk := func(key int, inner stack.Addr) stack.Addr {
			if kind == "p2pke" {
				return p2pkeswarm.Addr[stack.Addr]{ID: tkID(kind, key), Addr: inner}
			}
			return quicswarm.Addr[stack.Addr]{ID: tkID(kind, key), Addr: inner}
		}
		xInner, aInner := x.inner.LocalAddrs()[0], a.inner.LocalAddrs()[0]
		takeovers, afterA2X, afterX2A := 0, false, false
		do := func(from *tkNode, dst stack.Addr, payload string, ask bool, timeout time.Duration) {
			ctx, cancel := context.WithTimeout(context.Background(), timeout)
			defer cancel()
			if ask {
				resp := make([]byte, 8)
				from.a.Ask(ctx, resp, dst, p2p.IOVec{[]byte(payload)})
			} else {
				from.s.Tell(ctx, dst, p2p.IOVec{[]byte(payload)})
			}
		}
		for i, o := range ops {
			switch o.what {
			case "a2x":
				do(a, mk(x.key, xInner), fmt.Sprintf("op%d from-key0 to-key%d", i, x.key), o.ask, 2*time.Second)
				afterA2X = afterA2X || takeovers > 0
			case "a2x-old":
				old := 3 - x.key // the other of keys 1, 2
				do(a, mk(old, xInner), fmt.Sprintf("op%d from-key0 to-key%d", i, old), o.ask, 150*time.Millisecond)
			case "x2a":
				do(x, mk(0, aInner), fmt.Sprintf("op%d from-key%d to-key0", i, x.key), o.ask, 2*time.Second)
				afterX2A = afterX2A || takeovers > 0
			case "takeover":
				newKey := 3 - x.key
				x.close()
				nx, err := newTkNode(kind, x.port, newKey)
				if err != nil {
					t.Fatalf("VERIF-INCONCLUSIVE harness could not rebind %s: %v", x.port, err)
				}
				x = nx
				serve(x)
				takeovers++
			}
		}
		time.Sleep(30 * time.Millisecond)
		ev.Eval(sub)
		mu.Lock()
		ps := append([]string{}, problems...)
		nDel := delivered
		mu.Unlock()
		if nDel > 0 {
			ev.Class(sub, "some-delivered")
		}
		if takeovers > 0 {
			ev.Class(sub, "takeover")
		}
		if takeovers > 0 && afterA2X && afterX2A {
			if ev.NonTrivial(sub, desc) {
				ev.Sample(sub, fmt.Sprintf("%s delivered=%d", desc, nDel))
			}
		}
		if len(ps) > 0 {
			t.Fatalf("%s\ncase: %s", strings.Join(ps, "\n"), desc)
		}
	})
}
