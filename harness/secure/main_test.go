package secure

import (
	"io"
	"log"
	"testing"

	"verif/harness/internal/ev"
)

func TestMain(m *testing.M) {
	log.SetOutput(io.Discard)
	ev.Main(m)
}
