package secure

// C17 at the level of the swarms that derive identities from keys: one key has one identity under a given
// fingerprinter, and a swarm advertises, attributes and accepts exactly that one.

import (
	"context"
	"crypto/sha256"
	"fmt"
	"testing"
	"time"

	"go.brendoncarroll.net/p2p"
	"go.brendoncarroll.net/p2p/f/x509"
	"go.brendoncarroll.net/p2p/s/memswarm"
	"go.brendoncarroll.net/p2p/s/p2pkeswarm"
	"go.brendoncarroll.net/p2p/s/quicswarm"
	"pgregory.net/rapid"

	"verif/harness/internal/ev"
	"verif/harness/internal/stack"
)

func TestC17SwarmIdentity(t *testing.T) {
	const sub = "C17.swarm_identity"
	ev.Rule(sub, "rapid: two P2PKE or QUIC swarms on the in-memory transport, each configured with the default fingerprinter or a generated one (SHA-256 of the marshalled key with a salt; a constant; the zero identity), keys drawn from the test identities. Oracle: the identity in LocalAddrs() is the configured fingerprint of PublicKey(); a peer that dials that advertised address reaches the swarm; the Src of a delivered message carries the configured fingerprint of the sender's key and Dst the receiver's advertised identity. non-trivial = non-default fingerprinter; distinct by (kind, fingerprinter, keys)")
	rapid.Check(t, func(t *rapid.T) {
		kind := rapid.SampledFrom([]string{"p2pke", "p2pke", "quic"}).Draw(t, "kind")
		fpKind := rapid.SampledFrom([]string{"default", "salted", "salted", "constant"}).Draw(t, "fingerprinter")
		salt := rapid.SliceOfN(rapid.Byte(), 1, 8).Draw(t, "salt")
		ka, kb := rapid.IntRange(0, 5).Draw(t, "keyA"), rapid.IntRange(6, 11).Draw(t, "keyB")
		desc := fmt.Sprintf("%s fingerprinter=%s salt=%x keys=%d,%d", kind, fpKind, salt, ka, kb)
		fp := func(pub *x509.PublicKey) p2p.PeerID {
			switch fpKind {
			case "salted":
				return sha256.Sum256(append(append([]byte{}, salt...), x509.MarshalPublicKey(nil, pub)...))
			case "constant":
				var id p2p.PeerID
				copy(id[:], salt)
				id[31] = pub.Data[0] // still distinguishes the two test keys in most cases
				return id
			}
			if kind == "p2pke" {
				return p2pkeswarm.DefaultFingerprinter(pub)
			}
			return quicswarm.DefaultFingerprinter(*pub)
		}
		realm := memswarm.NewRealm(memswarm.WithQueueLen(64), memswarm.WithMTU(1<<16))
		type node struct {
			s     stack.Swarm
			sec   stack.Sec
			local stack.Addr
			id    p2p.PeerID
			want  p2p.PeerID
		}
		mk := func(key int) (*node, error) {
			inner := stack.Erase[memswarm.Addr](realm.NewSwarm())
			pub := stack.PubOf(key)
			nd := &node{want: fp(&pub)}
			if kind == "p2pke" {
				var opts []p2pkeswarm.Option[stack.Addr]
				if fpKind != "default" {
					opts = append(opts, p2pkeswarm.WithFingerprinter[stack.Addr](fp))
				}
				sw := p2pkeswarm.New[stack.Addr](inner, stack.PrivKey(key), opts...)
				nd.s, nd.sec = stack.Erase[p2pkeswarm.Addr[stack.Addr]](sw), stack.EraseSec[p2pkeswarm.Addr[stack.Addr]](sw)
				nd.local = nd.s.LocalAddrs()[0]
				nd.id = nd.local.(p2pkeswarm.Addr[stack.Addr]).ID
			} else {
				var opts []quicswarm.Option[stack.Addr]
				if fpKind != "default" {
					opts = append(opts, quicswarm.WithFingerprinter[stack.Addr](func(k quicswarm.PublicKey) p2p.PeerID { return fp(&k) }))
				}
				sw, err := quicswarm.New[stack.Addr](inner, stack.PrivKey(key), opts...)
				if err != nil {
					return nil, err
				}
				nd.s, nd.sec = stack.Erase[quicswarm.Addr[stack.Addr]](sw), stack.EraseSec[quicswarm.Addr[stack.Addr]](sw)
				nd.local = nd.s.LocalAddrs()[0]
				nd.id = nd.local.(quicswarm.Addr[stack.Addr]).ID
			}
			return nd, nil
		}
		a, err := mk(ka)
		if err != nil {
			t.Fatalf("%s", ev.Tag(fmt.Sprintf("harness: %v", err)))
		}
		defer a.s.Close()
		b, err := mk(kb)
		if err != nil {
			t.Fatalf("%s", ev.Tag(fmt.Sprintf("harness: %v", err)))
		}
		defer b.s.Close()
		ev.Eval(sub)
		if fpKind != "default" {
			if ev.NonTrivial(sub, desc) {
				ev.Sample(sub, desc)
			}
		}
		for _, nd := range []*node{a, b} {
			if nd.id != nd.want {
				t.Fatalf("the swarm advertises identity %v, the configured fingerprint of its public key is %v\ncase: %s", nd.id, nd.want, desc)
			}
			pk := nd.sec.PublicKey()
			if got := fp(&pk); got != nd.want {
				t.Fatalf("PublicKey() has fingerprint %v, the key the swarm was given has %v\ncase: %s", got, nd.want, desc)
			}
		}
		if a.want == b.want {
			return // the constant fingerprinter collided: nothing more to say about reachability
		}
		got := make(chan stack.Msg, 1)
		ctx, cancel := context.WithCancel(context.Background())
		defer cancel()
		go b.s.Receive(ctx, func(m stack.Msg) {
			select {
			case got <- stack.Msg{Src: m.Src, Dst: m.Dst, Payload: append([]byte{}, m.Payload...)}:
			default:
			}
		})
		start := time.Now()
		tctx, cf := context.WithTimeout(ctx, ev.Extended(2*time.Second))
		terr := a.s.Tell(tctx, b.local, p2p.IOVec{[]byte("to the advertised address")})
		cf()
		if terr != nil {
			if ev.Stalled(start) {
				return
			}
			t.Fatalf("a Tell to the address the peer advertises failed: %v\ncase: %s", terr, desc)
		}
		m, ok := ev.PatientRecv(2*time.Second, got)
		if !ok {
			t.Fatalf("a Tell to the address the peer advertises was not delivered\ncase: %s", desc)
		}
		idOf := func(x stack.Addr) p2p.PeerID {
			if kind == "p2pke" {
				return x.(p2pkeswarm.Addr[stack.Addr]).ID
			}
			return x.(quicswarm.Addr[stack.Addr]).ID
		}
		if idOf(m.Src) != a.want {
			t.Fatalf("the message's Src carries identity %v, the configured fingerprint of the sender's key is %v\ncase: %s", idOf(m.Src), a.want, desc)
		}
		if idOf(m.Dst) != b.want {
			t.Fatalf("the message's Dst carries identity %v, the receiver's identity is %v\ncase: %s", idOf(m.Dst), b.want, desc)
		}
	})
}
