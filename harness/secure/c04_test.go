package secure

import (
	"context"
	"fmt"
	"strings"
	"sync"
	"testing"
	"time"

	"go.brendoncarroll.net/p2p"
	"go.brendoncarroll.net/p2p/f/x509"
	"go.brendoncarroll.net/p2p/s/memswarm"
	"go.brendoncarroll.net/p2p/s/p2pkeswarm"
	"go.brendoncarroll.net/p2p/s/quicswarm"
	"go.brendoncarroll.net/p2p/s/udpswarm"
	"go.brendoncarroll.net/p2p/s/wlswarm"
	"pgregory.net/rapid"

	"verif/harness/internal/ev"
	"verif/harness/internal/stack"
)

type secNode struct {
	idx     int
	s       stack.Swarm
	a       stack.AskBidi
	sec     stack.Sec
	id      p2p.PeerID // fingerprint of its key under this stack's fingerprinter
	inner   stack.Addr
	rejects map[int]bool
	local   stack.Addr
}

// liveRejects is the whitelist predicate's view of one node's reject set.
type liveRejects struct {
	w       *secWorld
	node    int
	idIndex map[p2p.PeerID]int
}

func (l liveRejects) has(id p2p.PeerID) bool {
	j, known := l.idIndex[id]
	if !known {
		return false
	}
	l.w.mu.RLock()
	defer l.w.mu.RUnlock()
	return l.w.rejects[l.node][j]
}

type secWorld struct {
	mu      sync.RWMutex
	rejects []map[int]bool
	kind    string // p2pke | quic
	nodes   []*secNode
	mkAddr  func(id p2p.PeerID, inner stack.Addr) stack.Addr
	idOf    func(a stack.Addr) p2p.PeerID
}

func buildSecure(kind, base string, n int, rejects []map[int]bool, wrap bool, dynamic bool) (*secWorld, error) {
	w := &secWorld{kind: kind, rejects: rejects}
	var realm *memswarm.Realm
	if base == "mem" {
		realm = memswarm.NewRealm(memswarm.WithQueueLen(1024), memswarm.WithMTU(1<<16))
	}
	ids := make([]p2p.PeerID, n)
	for i := 0; i < n; i++ {
		pub := stack.PubOf(i)
		if kind == "p2pke" {
			ids[i] = p2pkeswarm.DefaultFingerprinter(&pub)
		} else {
			ids[i] = quicswarm.DefaultFingerprinter(pub)
		}
	}
	for i := 0; i < n; i++ {
		nd := &secNode{idx: i, id: ids[i], rejects: rejects[i]}
		var inner stack.Swarm
		if base == "mem" {
			inner = stack.Erase[memswarm.Addr](realm.NewSwarm())
		} else {
			u, err := udpswarm.New("127.0.0.1:0")
			if err != nil {
				return nil, err
			}
			inner = stack.Erase[udpswarm.Addr](u)
		}
		nd.inner = inner.LocalAddrs()[0]
		// the predicate consults the live reject set of this node, so that a later revocation takes effect
		idIndex := map[p2p.PeerID]int{}
		for j, id := range ids {
			idIndex[id] = j
		}
		rejectIDs := liveRejects{w: w, node: i, idIndex: idIndex}
		hasRejects := len(nd.rejects) > 0 || dynamic
		if kind == "p2pke" {
			var opts []p2pkeswarm.Option[stack.Addr]
			if hasRejects && !wrap {
				opts = append(opts, p2pkeswarm.WithWhitelist[stack.Addr](func(a p2pkeswarm.Addr[stack.Addr]) bool { return !rejectIDs.has(a.ID) }))
			}
			sw := p2pkeswarm.New[stack.Addr](inner, stack.PrivKey(i), opts...)
			var sec p2p.SecureSwarm[p2pkeswarm.Addr[stack.Addr], x509.PublicKey] = sw
			if hasRejects && wrap {
				sec = wlswarm.WrapSecure[p2pkeswarm.Addr[stack.Addr], x509.PublicKey](sw, func(a p2pkeswarm.Addr[stack.Addr]) bool { return !rejectIDs.has(a.ID) })
			}
			nd.s, nd.sec = stack.Erase[p2pkeswarm.Addr[stack.Addr]](sec), stack.EraseSec[p2pkeswarm.Addr[stack.Addr]](sec)
		} else {
			var opts []quicswarm.Option[stack.Addr]
			if hasRejects && !wrap {
				opts = append(opts, quicswarm.WithWhilelist[stack.Addr](func(a p2p.Addr) bool {
					return !rejectIDs.has(a.(quicswarm.Addr[stack.Addr]).ID)
				}))
			}
			sw, err := quicswarm.New[stack.Addr](inner, stack.PrivKey(i), opts...)
			if err != nil {
				return nil, err
			}
			var sec p2p.SecureAskSwarm[quicswarm.Addr[stack.Addr], x509.PublicKey] = sw
			if hasRejects && wrap {
				sec = wlswarm.WrapSecureAsk[quicswarm.Addr[stack.Addr], x509.PublicKey](sw, func(a quicswarm.Addr[stack.Addr]) bool { return !rejectIDs.has(a.ID) })
			}
			nd.s, nd.a, nd.sec = stack.Erase[quicswarm.Addr[stack.Addr]](sec), stack.EraseAsk[quicswarm.Addr[stack.Addr]](sec), stack.EraseSec[quicswarm.Addr[stack.Addr]](sec)
		}
		nd.local = nd.s.LocalAddrs()[0]
		w.nodes = append(w.nodes, nd)
	}
	if kind == "p2pke" {
		w.mkAddr = func(id p2p.PeerID, inner stack.Addr) stack.Addr {
			return p2pkeswarm.Addr[stack.Addr]{ID: id, Addr: inner}
		}
		w.idOf = func(a stack.Addr) p2p.PeerID { return a.(p2pkeswarm.Addr[stack.Addr]).ID }
	} else {
		w.mkAddr = func(id p2p.PeerID, inner stack.Addr) stack.Addr {
			return quicswarm.Addr[stack.Addr]{ID: id, Addr: inner}
		}
		w.idOf = func(a stack.Addr) p2p.PeerID { return a.(quicswarm.Addr[stack.Addr]).ID }
	}
	return w, nil
}

func (w *secWorld) close() {
	for _, n := range w.nodes {
		func() {
			defer func() { recover() }()
			n.s.Close()
		}()
	}
}

type secOp struct {
	src, dst int
	claim    string // correct | other | random
	ask      bool
	tag      string
	revoke   bool // not a message: node dst starts rejecting node src
}

// sentAfterRevocation: the operation numbered opn (a message from src to dst) comes after the point from which dst
// rejects src - the start for a static whitelist, the revoke operation for a dynamic one.
func sentAfterRevocation(ops []secOp, opn, src, dst int) bool {
	revokedAt := -1
	static := true
	for _, o := range ops {
		if o.revoke && o.src == src && o.dst == dst {
			static = false
			var k int
			fmt.Sscanf(o.tag, "op%d:", &k)
			if revokedAt < 0 || k < revokedAt {
				revokedAt = k
			}
		}
	}
	if static {
		return true
	}
	return opn >= revokedAt
}

func TestC04Attribution(t *testing.T) { attribution(t, "C04.p2pke_quic_attribution") }

// The same histories decide C05 at the level of the P2PKE swarm: its channels are created with the
// predicate "the key's fingerprint is the identity the address names" and must never talk to another key.
func TestC05SwarmIdentity(t *testing.T) { attribution(t, "C05.swarm_wrong_identity") }

func attribution(t *testing.T, sub string) {
	ev.Rule(sub, "rapid: three nodes with known key pairs on P2PKE-over-{memory,UDP} or QUIC-over-{memory,UDP}; per-node whitelists drawn over the node set, configured through the swarm's own option or through the whitelist wrapper; 1-12 operations: tell/ask from any node to any other with the destination's identity part correct, replaced by another node's, or random (the transport part always names a real listener), so that both orders of first contact with a rejected peer occur. Oracle, evaluated inside every callback: Src's identity is the fingerprint of the key of the node that really sent the payload; LookupPublicKeyInHandler(Src) returns that key; a payload addressed to identity X is never seen by a node whose key is not X; no callback fires for a source the whitelist rejects. non-trivial = a wrong-identity destination or a rejecting whitelist involved; distinct by (stack, whitelists, operation list)")
	rapid.Check(t, func(t *rapid.T) {
		kind := rapid.SampledFrom([]string{"p2pke", "p2pke", "quic"}).Draw(t, "kind")
		base := rapid.SampledFrom([]string{"mem", "mem", "udp"}).Draw(t, "base")
		const n = 3
		rejects := make([]map[int]bool, n)
		anyReject := false
		var wl []string
		for i := range rejects {
			rejects[i] = map[int]bool{}
			switch rapid.IntRange(0, 3).Draw(t, "whitelist") {
			case 1:
				j := (i + 1 + rapid.IntRange(0, n-2).Draw(t, "rejected")) % n
				rejects[i][j] = true
				anyReject = true
				wl = append(wl, fmt.Sprintf("%d rejects %d", i, j))
			case 2:
				for j := 0; j < n; j++ {
					if j != i {
						rejects[i][j] = true
					}
				}
				anyReject = true
				wl = append(wl, fmt.Sprintf("%d rejects all", i))
			}
		}
		wrap := rapid.Bool().Draw(t, "viaWrapper")
		dynamic := rapid.IntRange(0, 2).Draw(t, "revocations") == 0
		w, err := buildSecure(kind, base, n, rejects, wrap, dynamic)
		if err != nil {
			t.Fatalf("%s", ev.Tag(fmt.Sprintf("harness: %v", err)))
		}
		defer w.close()
		nOps := rapid.IntRange(1, 12).Draw(t, "ops")
		var ops []secOp
		wrongID := false
		for i := 0; i < nOps; i++ {
			if dynamic && len(ops) > 0 && !ops[len(ops)-1].revoke && rapid.Bool().Draw(t, "revokeNow") {
				// the receiver of the previous message stops accepting its sender from here on (the predicate is
				// consulted live); the same sender then tries again
				prev := ops[len(ops)-1]
				r := secOp{src: prev.src, dst: prev.dst, revoke: true}
				r.tag = fmt.Sprintf("op%d:revoke:%d-rejects-%d", i, r.dst, r.src)
				again := prev
				again.claim = "correct"
				again.tag = fmt.Sprintf("op%d:%d->%d:%s", i, again.src, again.dst, again.claim)
				ops = append(ops, r, again)
				anyReject = true
				continue
			}
			op := secOp{src: rapid.IntRange(0, n-1).Draw(t, "src")}
			op.dst = (op.src + 1 + rapid.IntRange(0, n-2).Draw(t, "dstOff")) % n
			op.claim = rapid.SampledFrom([]string{"correct", "correct", "correct", "other", "random"}).Draw(t, "claim")
			op.ask = kind == "quic" && rapid.Bool().Draw(t, "ask")
			op.tag = fmt.Sprintf("op%d:%d->%d:%s", i, op.src, op.dst, op.claim)
			if op.claim != "correct" {
				wrongID = true
			}
			ops = append(ops, op)
		}
		var opDescs []string
		for _, o := range ops {
			d := o.tag
			if o.ask {
				d += ":ask"
			}
			opDescs = append(opDescs, d)
		}
		desc := fmt.Sprintf("%s over %s wrapper=%v whitelists=[%s] ops=[%s]", kind, base, wrap, strings.Join(wl, "; "), strings.Join(opDescs, " "))
		var mu sync.Mutex
		var problems []string
		seen := map[string]int{} // tag -> receiving node
		problem := func(f string, a ...any) {
			mu.Lock()
			defer mu.Unlock()
			if len(problems) < 4 {
				problems = append(problems, fmt.Sprintf(f, a...))
			}
		}
		ctx, cancel := context.WithCancel(context.Background())
		defer cancel()
		onMsg := func(r *secNode, m stack.Msg, verb string) {
			tag := string(m.Payload)
			var srcIdx, dstIdx int
			var opn int
			var claim string
			if _, err := fmt.Sscanf(strings.NewReplacer(":", " ", "->", " ", "op", "").Replace(tag), "%d %d %d %s", &opn, &srcIdx, &dstIdx, &claim); err != nil {
				problem("node %d received an unknown payload %q", r.idx, tag)
				return
			}
			mu.Lock()
			seen[tag] = r.idx
			mu.Unlock()
			sender := w.nodes[srcIdx]
			if got := w.idOf(m.Src); got != sender.id {
				problem("node %d: %s %q from node %d arrived with Src identity %v, the sender's key has fingerprint %v", r.idx, verb, tag, srcIdx, got, sender.id)
			}
			func() {
				defer func() {
					if rec := recover(); rec != nil {
						// The node may itself have replaced its channel for this transport address by telling a
						// wrong identity there before this callback ran (seen under load); C04 constrains the
						// key a look-up returns, not whether it succeeds.
						ev.Class(sub, "lookup-failed-in-handler")
					}
				}()
				pub := p2p.LookupPublicKeyInHandler[stack.Addr, stack.PubKey](r.sec, m.Src)
				want := stack.PubOf(srcIdx)
				if !x509.EqualPublicKeys(&pub, &want) {
					problem("node %d: LookupPublicKeyInHandler(Src) returned the key of node %d, the message was sent by node %d", r.idx, stack.KeyIndex(pub), srcIdx)
				}
			}()
			if dstIdx != r.idx {
				problem("node %d observed payload %q which was addressed to node %d's transport", r.idx, tag, dstIdx)
			}
			if claim != "correct" {
				problem("node %d received %q although it was addressed to an identity that is not this node's", r.idx, tag)
			}
			w.mu.RLock()
			rejected := w.rejects[r.idx][srcIdx]
			w.mu.RUnlock()
			if rejected && sentAfterRevocation(ops, opn, srcIdx, r.idx) {
				problem("node %d delivered %q from node %d which its whitelist rejects", r.idx, tag, srcIdx)
			}
		}
		for _, nd := range w.nodes {
			nd := nd
			go func() {
				for nd.s.Receive(ctx, func(m stack.Msg) { onMsg(nd, m, "tell") }) == nil {
				}
			}()
			if nd.a != nil {
				go func() {
					for nd.a.ServeAsk(ctx, func(_ context.Context, resp []byte, m stack.Msg) int {
						onMsg(nd, m, "ask")
						return copy(resp, "ok")
					}) == nil {
					}
				}()
			}
		}
		var randID p2p.PeerID
		for i := range randID {
			randID[i] = byte(0x30 + i)
		}
		for _, op := range ops {
			if op.revoke {
				time.Sleep(30 * time.Millisecond) // what was sent before the revocation has arrived by now
				w.mu.Lock()
				w.rejects[op.dst][op.src] = true
				w.mu.Unlock()
				continue
			}
			dst := w.nodes[op.dst]
			id := dst.id
			switch op.claim {
			case "other":
				id = w.nodes[(op.dst+1)%n].id
				if (op.dst+1)%n == op.src {
					id = w.nodes[(op.dst+2)%n].id
				}
			case "random":
				id = randID
			}
			addr := w.mkAddr(id, dst.inner)
			timeout := 2 * time.Second
			w.mu.RLock()
			blocked := dst.rejects[op.src] || w.nodes[op.src].rejects[op.dst]
			w.mu.RUnlock()
			if op.claim != "correct" || blocked {
				timeout = 150 * time.Millisecond
			}
			octx, cf := context.WithTimeout(ctx, timeout)
			if op.ask {
				resp := make([]byte, 8)
				w.nodes[op.src].a.Ask(octx, resp, addr, p2p.IOVec{[]byte(op.tag)})
			} else {
				w.nodes[op.src].s.Tell(octx, addr, p2p.IOVec{[]byte(op.tag)})
			}
			cf()
		}
		// let deliveries in flight arrive
		time.Sleep(30 * time.Millisecond)
		ev.Eval(sub)
		mu.Lock()
		nSeen := len(seen)
		ps := append([]string{}, problems...)
		mu.Unlock()
		if nSeen > 0 {
			ev.Class(sub, "some-delivered")
		}
		if wrongID {
			ev.Class(sub, "wrong-identity-destination")
		}
		if anyReject {
			ev.Class(sub, "rejecting-whitelist")
		}
		if wrongID || anyReject {
			if ev.NonTrivial(sub, desc) {
				ev.Sample(sub, desc)
			}
		}
		if len(ps) > 0 {
			t.Fatalf("%s\ncase: %s", strings.Join(ps, "\n"), desc)
		}
	})
}
