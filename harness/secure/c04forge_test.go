package secure

import (
	"bytes"
	"context"
	"fmt"
	"strings"
	"sync"
	"testing"
	"time"

	"go.brendoncarroll.net/p2p"
	"go.brendoncarroll.net/p2p/p/p2pke"
	"go.brendoncarroll.net/p2p/s/memswarm"
	"go.brendoncarroll.net/p2p/s/p2pkeswarm"
	"go.uber.org/zap"
	"pgregory.net/rapid"

	"verif/harness/internal/adv/kefake"
	"verif/harness/internal/ev"
	"verif/harness/internal/stack"
)

// TestC04P2PKEForger: an adversarial raw peer that claims the victim's public key.
func TestC04P2PKEForger(t *testing.T) {
	const sub = "C04.p2pke_claimed_key_adversary"
	ev.Rule(sub, "rapid: a P2PKE swarm S, an honest swarm V (the victim identity) and an adversary M that is a raw transport node speaking the P2PKE wire protocol from first principles. M knows V's public InitHello claim (key, timestamp, signature - anybody who saw a hello of V does) and holds only its own private key. Generated script of 1-10 steps: forged InitHello claiming V (with V's lifted claim) or M (fresh claim), with M's own ephemeral; after S's RespHello: forged InitDone signed by M / garbage / empty; a twin hello (same ephemeral, V's lifted claim) sent to V itself and to S with V's RespHello signature carried over into the InitDone for S; M's own claim dated long ago or now; data messages under the keys M derived (counters 2..20); replays; honest tells from V in between. Oracle inside S's callback: a message whose Src identity is V's fingerprint was sent by V (payload ledger); LookupPublicKeyInHandler agrees; M's own payloads are delivered only under M's fingerprint and only after M proved its own key. non-trivial = script containing a forged hello claiming V followed by data; distinct by script")
	vHelloOnce.Do(harvestVictimClaim)
	rapid.Check(t, func(t *rapid.T) {
		realm := memswarm.NewRealm(memswarm.WithQueueLen(1024), memswarm.WithMTU(1<<16))
		sInner, vInner, mInner := realm.NewSwarm(), realm.NewSwarm(), realm.NewSwarm()
		S := p2pkeswarm.New[memswarm.Addr](sInner, stack.PrivKey(0))
		V := p2pkeswarm.New[memswarm.Addr](vInner, stack.PrivKey(1))
		defer S.Close()
		defer V.Close()
		defer mInner.Close()
		pubV, pubM := stack.PubOf(1), stack.PubOf(2)
		fpV, fpM := p2pkeswarm.DefaultFingerprinter(&pubV), p2pkeswarm.DefaultFingerprinter(&pubM)
		var mu sync.Mutex
		var problems []string
		mProved := false
		ctx, cancel := context.WithCancel(context.Background())
		defer cancel()
		go func() {
			for S.Receive(ctx, func(m p2p.Message[p2pkeswarm.Addr[memswarm.Addr]]) {
				payload := string(m.Payload)
				mu.Lock()
				defer mu.Unlock()
				switch {
				case strings.HasPrefix(payload, "victim-"):
					if m.Src.ID != fpV {
						problems = append(problems, fmt.Sprintf("V's message %q arrived under identity %v", payload, m.Src.ID))
					}
				case strings.HasPrefix(payload, "attacker-"):
					if m.Src.ID == fpV {
						problems = append(problems, fmt.Sprintf("the adversary's payload %q was delivered as coming from the victim's identity %v", payload, fpV))
					} else if m.Src.ID != fpM {
						problems = append(problems, fmt.Sprintf("the adversary's payload %q was delivered under identity %v which nobody proved", payload, m.Src.ID))
					} else if !mProved {
						problems = append(problems, fmt.Sprintf("the adversary's payload %q was delivered before the adversary signed this handshake", payload))
					}
				default:
					problems = append(problems, fmt.Sprintf("unknown payload %q delivered", payload))
				}
				func() {
					defer func() {
						if r := recover(); r != nil {
							problems = append(problems, fmt.Sprintf("LookupPublicKeyInHandler failed: %v", r))
						}
					}()
					k := p2p.LookupPublicKeyInHandler[p2pkeswarm.Addr[memswarm.Addr]](S, m.Src)
					if p2pkeswarm.DefaultFingerprinter(&k) != m.Src.ID {
						problems = append(problems, "LookupPublicKeyInHandler(Src) does not match Src's identity")
					}
				}()
			}) == nil {
			}
		}()
		// the adversary collects what S sends to its transport address
		var sOut, vOut [][]byte
		sAddr, vAddr := sInner.LocalAddr(), vInner.LocalAddr()
		go func() {
			for mInner.Receive(ctx, func(m p2p.Message[memswarm.Addr]) {
				mu.Lock()
				if m.Src == vAddr {
					vOut = append(vOut, append([]byte{}, m.Payload...))
				} else {
					sOut = append(sOut, append([]byte{}, m.Payload...))
				}
				mu.Unlock()
			}) == nil {
			}
		}()
		send := func(b []byte) { mInner.Tell(ctx, sAddr, p2p.IOVec{b}) }
		var fp *kefake.Peer
		var cb []byte
		claimedV := false
		var script []string
		sawClaimVThenData := false
		n := rapid.IntRange(1, 10).Draw(t, "steps")
		seq := 0
		for i := 0; i < n; i++ {
			switch rapid.SampledFrom([]string{"helloV", "helloV", "helloM", "twinV", "done", "done", "data", "data", "data", "victimTell", "replayLast"}).Draw(t, "step") {
			case "helloV", "helloM":
				fp = kefake.NewPeer(true)
				cb = nil
				var m []byte
				if rapid.Bool().Draw(t, "claimV") {
					m = fp.InitHello(vClaim.ts, kefake.MarshalKey(1), vClaim.sig)
					claimedV = true
					script = append(script, "InitHello(claim=V, lifted)")
				} else {
					// the adversary's own claim is dated long ago or now (later than the claim lifted from V,
					// so that it supersedes a pending handshake opened with V's claim)
					ts := kefake.TSBytes(0)
					when := "old"
					if rapid.Bool().Draw(t, "datedNow") {
						ts, when = kefake.TSNow(), "now"
					}
					m = fp.InitHello(ts, kefake.MarshalKey(2), kefake.SignAs(2, kefake.PurposeTS, ts))
					claimedV = false
					script = append(script, "InitHello(claim=M, fresh, dated "+when+")")
				}
				mu.Lock()
				before := len(sOut)
				mu.Unlock()
				send(m)
				waitFor(100*time.Millisecond, func() bool { mu.Lock(); defer mu.Unlock(); return len(sOut) > before })
				mu.Lock()
				for _, o := range sOut[before:] {
					if len(o) >= 4 && o[3] == 1 && cb == nil {
						if c, ok := fp.ReadRespHello(o); ok {
							cb = c
						}
					}
				}
				mu.Unlock()
			case "twinV":
				// the same InitHello (V's lifted claim, one ephemeral key of M's) goes to V itself and to S;
				// what V signs in its RespHello is carried over into the InitDone for S
				p1, p2 := kefake.NewTwinPeers(true, byte(rapid.IntRange(1, 200).Draw(t, "ephemeralSeed")))
				h1 := p1.InitHello(vClaim.ts, kefake.MarshalKey(1), vClaim.sig)
				h2 := p2.InitHello(vClaim.ts, kefake.MarshalKey(1), vClaim.sig)
				if !bytes.Equal(h1, h2) {
					t.Fatalf("harness: twin hellos differ")
				}
				mu.Lock()
				vBefore, sBefore := len(vOut), len(sOut)
				mu.Unlock()
				mInner.Tell(ctx, vAddr, p2p.IOVec{h1})
				waitFor(100*time.Millisecond, func() bool { mu.Lock(); defer mu.Unlock(); return len(vOut) > vBefore })
				var vSig []byte
				mu.Lock()
				for _, o := range vOut[vBefore:] {
					if len(o) >= 4 && o[3] == 1 && vSig == nil {
						if sig, _, ok := p1.RespHelloSig(o); ok {
							vSig = sig
						}
					}
				}
				mu.Unlock()
				if vSig == nil {
					script = append(script, "twin hello: V did not answer")
					continue
				}
				send(h2)
				waitFor(100*time.Millisecond, func() bool { mu.Lock(); defer mu.Unlock(); return len(sOut) > sBefore })
				ok := false
				mu.Lock()
				for _, o := range sOut[sBefore:] {
					if len(o) >= 4 && o[3] == 1 && !ok {
						if c, k := p2.ReadRespHello(o); k {
							cb, ok = c, true
						}
					}
				}
				mu.Unlock()
				if !ok {
					script = append(script, "twin hello: S did not answer")
					continue
				}
				fp, claimedV = p2, true
				script = append(script, "twin InitHello(claim=V) to V and S, InitDone(sig=V's RespHello signature for the same hello)")
				send(fp.InitDone(vSig))
			case "done":
				if fp == nil || !fp.HasCiphers() {
					continue
				}
				src := rapid.SampledFrom([]string{"freshM", "garbage", "empty"}).Draw(t, "sig")
				var sig []byte
				switch src {
				case "freshM":
					sig = kefake.SignAs(2, kefake.PurposeCB, cb)
					if !claimedV {
						mu.Lock()
						mProved = true
						mu.Unlock()
					}
				case "garbage":
					sig = bytes.Repeat([]byte{0x5a}, 64)
				}
				script = append(script, "InitDone(sig="+src+")")
				send(fp.InitDone(sig))
			case "data":
				if fp == nil || !fp.HasCiphers() {
					continue
				}
				seq++
				if rapid.IntRange(0, 3).Draw(t, "lowCounter") == 0 {
					fp.Counter = uint32(rapid.IntRange(2, 15).Draw(t, "ctr"))
				}
				script = append(script, fmt.Sprintf("data#%d", fp.Counter))
				if claimedV {
					sawClaimVThenData = true
				}
				send(fp.Data([]byte(fmt.Sprintf("attacker-%d", seq))))
			case "victimTell":
				seq++
				script = append(script, "V.Tell")
				tctx, cf := context.WithTimeout(ctx, time.Second)
				V.Tell(tctx, S.LocalAddrs()[0], p2p.IOVec{[]byte(fmt.Sprintf("victim-%d", seq))})
				cf()
			case "replayLast":
				mu.Lock()
				var last []byte
				if len(sOut) > 0 {
					last = sOut[len(sOut)-1]
				}
				mu.Unlock()
				if last != nil {
					script = append(script, "reflect S's last message")
					send(last)
				}
			}
		}
		time.Sleep(10 * time.Millisecond)
		ev.Eval(sub)
		desc := strings.Join(script, ", ")
		if sawClaimVThenData {
			if ev.NonTrivial(sub, desc) {
				ev.Sample(sub, desc)
			}
		}
		mu.Lock()
		defer mu.Unlock()
		if len(problems) > 0 {
			t.Fatalf("%s\nscript: %s", strings.Join(problems, "\n"), desc)
		}
	})
}

var (
	vHelloOnce sync.Once
	vClaim     struct{ ts, sig []byte }
)

// harvestVictimClaim obtains what any observer of one of V's handshakes knows:
// V's key, a timestamp and V's signature over that timestamp.
func harvestVictimClaim() {
	s := p2pke.NewSession(p2pke.SessionConfig{Registry: stack.Registry, PrivateKey: stack.PrivKey(1), IsInit: true, Now: time.Now(), RejectAfter: time.Hour, Logger: zap.NewNop()})
	hello, err := p2pke.Message(s.Handshake(nil)).GetInitHello()
	if err != nil {
		panic(err)
	}
	vClaim.ts, vClaim.sig = hello.TimestampTai64N, hello.Sig
}
