package secure

import (
	"bytes"
	"context"
	"fmt"
	"net"
	"strings"
	"sync"
	"testing"
	"time"

	"go.brendoncarroll.net/p2p"
	"go.brendoncarroll.net/p2p/s/sshswarm"
	gossh "golang.org/x/crypto/ssh"
	"pgregory.net/rapid"

	evilssh "verif/harness/internal/adv/evilssh"
	"verif/harness/internal/ev"
	"verif/harness/internal/stack"
)

func TestC04SSHAdversary(t *testing.T) {
	const sub = "C04.ssh_auth_step_adversary"
	ev.Rule(sub, "rapid: an SSH swarm (victim server) and an adversarial client built from a fork of the SSH client library that executes a generated list of 1-8 authentication steps over the attacker's own key pair and the public keys of 1-2 other identities: query(key) (asks whether a key would be acceptable, no signature) and sign(attacker) in any order with repeats, ending with a valid signature by the attacker - with its plain key or with an OpenSSH certificate for its key whose issuer field names itself, a victim or the server (junk issuer signature); then the adversary sends tells and asks. Honest swarms with the queried identities send traffic concurrently. Oracle inside every callback: Src's fingerprint (and LookupPublicKey) is the fingerprint of the key that signed the connection the payload came through: the attacker's payloads are attributed to the attacker's key (or to the certificate it presented), never to an identity that was only queried or only named as issuer. non-trivial = step list containing a query of a victim key; distinct by step list")
	rapid.Check(t, func(t *rapid.T) {
		// identities: 0 = server, 1 = victim A, 2 = victim B, 3 = attacker
		mkSigner := func(i int) gossh.Signer {
			s, err := sshswarm.NewSignerFromSigner(stack.StdKey(i))
			if err != nil {
				t.Fatalf("%s", ev.Tag(fmt.Sprintf("harness: %v", err)))
			}
			return s
		}
		server, err := sshswarm.New("127.0.0.1:0", mkSigner(0))
		if err != nil {
			t.Fatalf("%s", ev.Tag(fmt.Sprintf("harness: %v", err)))
		}
		defer server.Close()
		honest, err := sshswarm.New("127.0.0.1:0", mkSigner(1))
		if err != nil {
			t.Fatalf("%s", ev.Tag(fmt.Sprintf("harness: %v", err)))
		}
		defer honest.Close()
		fp := func(i int) string { return gossh.FingerprintSHA256(mkSigner(i).PublicKey()) }
		evilSigner, err := evilssh.NewSignerFromSigner(stack.StdKey(3))
		if err != nil {
			t.Fatalf("%s", ev.Tag(fmt.Sprintf("harness: %v", err)))
		}
		evilPub := func(i int) evilssh.PublicKey {
			k, err := evilssh.ParsePublicKey(mkSigner(i).PublicKey().Marshal())
			if err != nil {
				t.Fatalf("%s", ev.Tag(fmt.Sprintf("harness: %v", err)))
			}
			return k
		}
		n := rapid.IntRange(0, 7).Draw(t, "steps")
		var steps []evilssh.ScriptStep
		var desc []string
		queriedVictim := false
		for i := 0; i < n; i++ {
			switch rapid.SampledFrom([]string{"query-attacker", "query-victimA", "query-victimA", "query-victimB", "sign-attacker-early"}).Draw(t, "step") {
			case "query-attacker":
				steps = append(steps, evilssh.ScriptStep{Query: true, Key: evilSigner.PublicKey()})
				desc = append(desc, "query(attacker)")
			case "query-victimA":
				steps = append(steps, evilssh.ScriptStep{Query: true, Key: evilPub(1)})
				desc = append(desc, "query(victimA)")
				queriedVictim = true
			case "query-victimB":
				steps = append(steps, evilssh.ScriptStep{Query: true, Key: evilPub(2)})
				desc = append(desc, "query(victimB)")
				queriedVictim = true
			case "sign-attacker-early":
				// a successful signature ends authentication; later steps are not reached
				steps = append(steps, evilssh.ScriptStep{Signer: evilSigner})
				desc = append(desc, "sign(attacker)")
			}
		}
		// the credential that finally authenticates: the attacker's plain key, or an OpenSSH certificate for the
		// attacker's key whose issuer field names the attacker itself or a victim (nobody checks the issuer's
		// signature during user authentication; the proof of possession is for the certified key only)
		certFP := ""
		switch cred := rapid.SampledFrom([]string{"plain", "plain", "cert-self", "cert-by-victimA", "cert-by-victimB", "cert-by-server"}).Draw(t, "finalCredential"); cred {
		case "plain":
			steps = append(steps, evilssh.ScriptStep{Signer: evilSigner})
			desc = append(desc, "sign(attacker)")
		default:
			issuer := evilSigner.PublicKey()
			switch cred {
			case "cert-by-victimA":
				issuer = evilPub(1)
				queriedVictim = true
			case "cert-by-victimB":
				issuer = evilPub(2)
				queriedVictim = true
			case "cert-by-server":
				issuer = evilPub(0)
			}
			cert := &evilssh.Certificate{
				Key: evilSigner.PublicKey(), Serial: 1, CertType: evilssh.UserCert, KeyId: "x", ValidPrincipals: []string{"x"},
				ValidBefore: evilssh.CertTimeInfinity, SignatureKey: issuer,
				Signature: &evilssh.Signature{Format: issuer.Type(), Blob: bytes.Repeat([]byte{0x5a}, 64)},
			}
			cs, err := evilssh.NewCertSigner(cert, evilSigner)
			if err != nil {
				t.Fatalf("%s", ev.Tag(fmt.Sprintf("harness: %v", err)))
			}
			if k, err := gossh.ParsePublicKey(cert.Marshal()); err == nil {
				certFP = gossh.FingerprintSHA256(k)
			}
			steps = append(steps, evilssh.ScriptStep{Signer: cs})
			desc = append(desc, "sign(attacker, "+cred+")")
		}
		script := strings.Join(desc, ", ")
		ev.Eval(sub)
		if queriedVictim {
			if ev.NonTrivial(sub, script) {
				ev.Sample(sub, script)
			}
		}
		var mu sync.Mutex
		var problems []string
		got := map[string]bool{}
		ctx, cancel := context.WithCancel(context.Background())
		defer cancel()
		check := func(m p2p.Message[sshswarm.Addr], verb string) {
			payload := string(m.Payload)
			want := ""
			switch {
			case strings.HasPrefix(payload, "attacker"):
				want = fp(3)
			case strings.HasPrefix(payload, "honest"):
				want = fp(1)
			}
			mu.Lock()
			defer mu.Unlock()
			got[payload] = true
			if m.Src.Fingerprint != want && !(certFP != "" && strings.HasPrefix(payload, "attacker") && m.Src.Fingerprint == certFP) {
				who := "an unknown key"
				for i, name := range []string{"the server", "victim A", "victim B", "the attacker"} {
					if m.Src.Fingerprint == fp(i) {
						who = name
					}
				}
				problems = append(problems, fmt.Sprintf("%s %q was attributed to %s (%s)", verb, payload, who, m.Src.Fingerprint))
			}
			pctx, cf := context.WithCancel(context.Background())
			cf()
			if pk, err := server.LookupPublicKey(pctx, m.Src); err != nil {
				problems = append(problems, fmt.Sprintf("LookupPublicKey(Src) inside the handler failed: %v", err))
			} else if gossh.FingerprintSHA256(pk) != want && !(certFP != "" && strings.HasPrefix(payload, "attacker") && gossh.FingerprintSHA256(pk) == certFP) {
				problems = append(problems, fmt.Sprintf("LookupPublicKey(Src) for %q returned a key with fingerprint %s, the connection was authenticated with %s", payload, gossh.FingerprintSHA256(pk), want))
			}
		}
		go func() {
			for server.Receive(ctx, func(m p2p.Message[sshswarm.Addr]) { check(m, "tell") }) == nil {
			}
		}()
		go func() {
			for server.ServeAsk(ctx, func(_ context.Context, resp []byte, m p2p.Message[sshswarm.Addr]) int {
				check(m, "ask")
				return copy(resp, "ok")
			}) == nil {
			}
		}()
		serverAddr := server.LocalAddrs()[0]
		// honest traffic from victim A, concurrently
		var wg sync.WaitGroup
		wg.Add(1)
		go func() {
			defer wg.Done()
			hctx, cf := context.WithTimeout(ctx, 2*time.Second)
			defer cf()
			honest.Tell(hctx, serverAddr, p2p.IOVec{[]byte("honest-tell")})
		}()
		// the adversary
		conn, err := net.Dial("tcp", fmt.Sprintf("127.0.0.1:%d", serverAddr.Port))
		if err != nil {
			t.Fatalf("%s", ev.Tag(fmt.Sprintf("harness: dial: %v", err)))
		}
		defer conn.Close()
		cfg := &evilssh.ClientConfig{
			User:            "x",
			Auth:            []evilssh.AuthMethod{evilssh.ScriptedPublicKeys(steps)},
			HostKeyCallback: evilssh.InsecureIgnoreHostKey(),
			Timeout:         2 * time.Second,
		}
		conn.SetDeadline(time.Now().Add(3 * time.Second))
		sconn, chans, reqs, err := evilssh.NewClientConn(conn, conn.RemoteAddr().String(), cfg)
		if err != nil {
			wg.Wait()
			ev.Class(sub, "adversary-connection-refused")
			return // the server may refuse the adversary; nothing to attribute then
		}
		go evilssh.DiscardRequests(reqs)
		go func() {
			for ch := range chans {
				ch.Reject(evilssh.Prohibited, "no")
			}
		}()
		conn.SetDeadline(time.Now().Add(3 * time.Second))
		sconn.SendRequest("", false, []byte("attacker-tell"))
		sconn.SendRequest("", true, []byte("attacker-ask"))
		wg.Wait()
		ok := waitFor(time.Second, func() bool {
			mu.Lock()
			defer mu.Unlock()
			return got["attacker-tell"] && got["attacker-ask"]
		})
		sconn.Close()
		if ok {
			ev.Class(sub, "adversary-traffic-delivered")
		}
		mu.Lock()
		defer mu.Unlock()
		if len(problems) > 0 {
			t.Fatalf("%s\nauthentication steps: %s", strings.Join(problems, "\n"), script)
		}
	})
}

func waitFor(timeout time.Duration, cond func() bool) bool {
	deadline := time.Now().Add(timeout)
	for {
		if cond() {
			return true
		}
		if time.Now().After(deadline) {
			return false
		}
		time.Sleep(time.Millisecond)
	}
}
