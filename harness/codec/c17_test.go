package codec

import (
	"bytes"
	"encoding/asn1"
	"encoding/hex"
	"fmt"
	"slices"
	"testing"

	"go.brendoncarroll.net/p2p"
	"go.brendoncarroll.net/p2p/f/x509"
	"go.brendoncarroll.net/p2p/f/x509/oids"
	"go.brendoncarroll.net/p2p/s/memswarm"
	"go.brendoncarroll.net/p2p/s/p2pkeswarm"
	"go.brendoncarroll.net/p2p/s/quicswarm"
	"pgregory.net/rapid"

	"verif/harness/internal/ev"
)

func hx(b []byte) string { return hex.EncodeToString(b) }

// genOID draws an object identifier that ASN.1 DER (and encoding/asn1's
// decoder, which limits arcs to 31 bits) can carry.
func genOID(t *rapid.T, label string) []int {
	if rapid.IntRange(0, 3).Draw(t, label+"known") == 0 {
		return []int{1, 3, 101, rapid.SampledFrom([]int{112, 113}).Draw(t, label+"ed")}
	}
	first := rapid.IntRange(0, 2).Draw(t, label+"a0")
	maxSecond := 39
	if first == 2 {
		maxSecond = 1 << 20
	}
	arcs := []int{first, rapid.IntRange(0, maxSecond).Draw(t, label+"a1")}
	// mostly short identifiers, sometimes long ones (private-enterprise identifiers run to 20 arcs and more)
	n := rapid.OneOf(rapid.IntRange(0, 6), rapid.IntRange(0, 6), rapid.IntRange(7, 30)).Draw(t, label+"n")
	for i := 0; i < n; i++ {
		arcs = append(arcs, rapid.OneOf(rapid.IntRange(0, 200), rapid.SampledFrom([]int{0, 127, 128, 16383, 16384, 1<<31 - 1}), rapid.IntRange(0, 1<<31-1)).Draw(t, label+"arc"))
	}
	return arcs
}

func genKey(t *rapid.T, label string) x509.PublicKey {
	var data []byte
	switch rapid.IntRange(0, 3).Draw(t, label+"kind") {
	case 0:
		data = rapid.SliceOfN(rapid.Byte(), 32, 32).Draw(t, label+"data")
	case 1:
		data = rapid.SliceOfN(rapid.Byte(), 0, 8).Draw(t, label+"data")
	case 2:
		data = rapid.SliceOfN(rapid.Byte(), 0, 600).Draw(t, label+"data")
	case 3:
		data = bytes.Repeat([]byte{rapid.SampledFrom([]byte{0, 0xff, 0x80, 1}).Draw(t, label+"fill")}, rapid.IntRange(0, 140).Draw(t, label+"len"))
	}
	arcs := genOID(t, label)
	k := x509.PublicKey{Algorithm: oids.New(arcs...), Data: data}
	// lossless: the identifier reports the arcs it was made from, and the key's encoding carries the identifier's
	// DER form as encoding/asn1 (an independent encoder) produces it
	if got := k.Algorithm.ASN1(); !slices.Equal([]int(got), arcs) {
		t.Fatalf("identifier made from arcs %v reports arcs %v", arcs, got)
	}
	if der, err := asn1.Marshal(asn1.ObjectIdentifier(arcs)); err == nil {
		if enc := x509.MarshalPublicKey(nil, &k); !bytes.Contains(enc, der) {
			t.Fatalf("encoding of a key with algorithm %v does not contain the identifier's DER form %x: %x", arcs, der, enc)
		}
	}
	return k
}

func keyStr(k x509.PublicKey) string { return fmt.Sprintf("%v:%s", k.Algorithm, hx(k.Data)) }

func TestC17KeyRoundTrip(t *testing.T) {
	const sub = "C17.key_roundtrip"
	ev.Rule(sub, "rapid: algorithm identifiers DER can carry (2-32 arcs, first 0-2, arcs up to 2^31-1) and key bodies of 0-600 bytes (random, constant fill, 32 bytes); pairs that differ in one byte, one arc, or only in length. Oracles: Parse(Marshal(k)) == k; re-marshal is byte-identical; EqualPublicKeys(a,b) iff Marshal(a)==Marshal(b); private-key codec likewise; both default fingerprinters are functions of (algorithm, body) only. non-trivial = identifier other than Ed25519 or body length != 32; distinct by key")
	rapid.Check(t, func(t *rapid.T) {
		a := genKey(t, "a")
		ev.Eval(sub)
		if a.Algorithm != x509.Algo_Ed25519 || len(a.Data) != 32 {
			if ev.NonTrivial(sub, keyStr(a)) {
				ev.Sample(sub, keyStr(a))
			}
		}
		wire := x509.MarshalPublicKey(nil, &a)
		if len(wire) == 0 {
			t.Fatalf("MarshalPublicKey produced nothing for %s", keyStr(a))
		}
		back, err := x509.ParsePublicKey(wire)
		if err != nil {
			t.Fatalf("ParsePublicKey(Marshal(%s)): %v", keyStr(a), err)
		}
		if back.Algorithm != a.Algorithm || !bytes.Equal(back.Data, a.Data) || !x509.EqualPublicKeys(&a, &back) {
			t.Fatalf("round trip changed the key: %s -> %s", keyStr(a), keyStr(back))
		}
		if w2 := x509.MarshalPublicKey(nil, &back); !bytes.Equal(w2, wire) {
			t.Fatalf("re-marshal differs: %s vs %s", hx(wire), hx(w2))
		}
		// prefix append semantics
		if w3 := x509.MarshalPublicKey([]byte("xy"), &a); !bytes.Equal(w3, append([]byte("xy"), wire...)) {
			t.Fatalf("MarshalPublicKey does not append to out")
		}
		// private key codec
		priv := x509.PrivateKey{Algorithm: a.Algorithm, Data: a.Data}
		pw := x509.MarshalPrivateKey(nil, &priv)
		pb, err := x509.ParsePrivateKey(pw)
		if err != nil || pb.Algorithm != priv.Algorithm || !bytes.Equal(pb.Data, priv.Data) {
			t.Fatalf("private key round trip: %v %v", pb, err)
		}
		// a near-miss second key
		b := a
		b.Data = append([]byte{}, a.Data...)
		mode := rapid.SampledFrom([]string{"same", "flipbyte", "arc", "longer", "shorter", "other"}).Draw(t, "pairMode")
		switch mode {
		case "flipbyte":
			if len(b.Data) > 0 {
				i := rapid.IntRange(0, len(b.Data)-1).Draw(t, "flipAt")
				b.Data[i] ^= 1 << rapid.IntRange(0, 7).Draw(t, "flipBit")
			}
		case "arc":
			arcs := a.Algorithm.ASN1()
			i := rapid.IntRange(1, len(arcs)-1).Draw(t, "arcAt")
			if i == 1 {
				arcs[i] = (arcs[i] + 1) % 40
			} else {
				arcs[i] = (arcs[i] + 1) % (1 << 31)
			}
			b.Algorithm = oids.New(arcs...)
		case "longer":
			b.Data = append(b.Data, 0)
		case "shorter":
			if len(b.Data) > 0 {
				b.Data = b.Data[:len(b.Data)-1]
			}
		case "other":
			b = genKey(t, "b")
		}
		ev.Class(sub, "pair:"+mode)
		wb := x509.MarshalPublicKey(nil, &b)
		eq := x509.EqualPublicKeys(&a, &b)
		if eq != bytes.Equal(wire, wb) {
			t.Fatalf("EqualPublicKeys=%v but encodings equal=%v for %s / %s", eq, bytes.Equal(wire, wb), keyStr(a), keyStr(b))
		}
		if eq != (a.Algorithm == b.Algorithm && bytes.Equal(a.Data, b.Data)) {
			t.Fatalf("EqualPublicKeys=%v for %s / %s", eq, keyStr(a), keyStr(b))
		}
		// fingerprints are functions of the key alone
		f1, f2 := p2pkeswarm.DefaultFingerprinter(&a), p2pkeswarm.DefaultFingerprinter(&back)
		q1, q2 := quicswarm.DefaultFingerprinter(a), quicswarm.DefaultFingerprinter(back)
		if f1 != f2 || q1 != q2 {
			t.Fatalf("fingerprint of the parsed key differs from that of the original %s", keyStr(a))
		}
		fb, qb := p2pkeswarm.DefaultFingerprinter(&b), quicswarm.DefaultFingerprinter(b)
		if (fb == f1) != eq || (qb == q1) != eq {
			t.Fatalf("fingerprint equality (%v,%v) disagrees with key equality %v for %s / %s", fb == f1, qb == q1, eq, keyStr(a), keyStr(b))
		}
		if f1 != q1 {
			ev.Note(sub, "observation: p2pkeswarm.DefaultFingerprinter (SHAKE256) and quicswarm.DefaultFingerprinter (SHA3-256) are different functions; cross-package equality is not asserted (DESIGN.md C17)")
		}
	})
}

// TestC17WireIndependence: two different DER wire forms of the same
// (algorithm, body) parse to equal keys with equal fingerprints.
func TestC17WireIndependence(t *testing.T) {
	const sub = "C17.wire_independence"
	ev.Rule(sub, "rapid: for a generated key, alternative DER wire forms (explicit NULL parameters, absent parameters, OCTET/other parameter values) are built with encoding/asn1; oracle: every form that parses yields a key equal to the canonical one with identical fingerprints under both default fingerprinters, and trailing bytes are rejected; non-trivial = alternative form parsed; distinct by wire bytes")
	type algID struct {
		Algorithm  asn1.ObjectIdentifier
		Parameters asn1.RawValue `asn1:"optional"`
	}
	type spki struct {
		Alg algID
		Key asn1.BitString
	}
	rapid.Check(t, func(t *rapid.T) {
		k := genKey(t, "k")
		ev.Eval(sub)
		canon := x509.MarshalPublicKey(nil, &k)
		var params asn1.RawValue
		form := rapid.SampledFrom([]string{"null", "octet", "int"}).Draw(t, "form")
		switch form {
		case "null":
			params = asn1.NullRawValue
		case "octet":
			params = asn1.RawValue{Tag: asn1.TagOctetString, Bytes: rapid.SliceOfN(rapid.Byte(), 0, 5).Draw(t, "pbytes")}
		case "int":
			params = asn1.RawValue{Tag: asn1.TagInteger, Bytes: []byte{1}}
		}
		alt, err := asn1.Marshal(spki{algID{k.Algorithm.ASN1(), params}, asn1.BitString{Bytes: k.Data, BitLength: 8 * len(k.Data)}})
		if err != nil {
			t.Fatalf("%s", ev.Tag(fmt.Sprintf("harness: %v", err)))
		}
		pk, err := x509.ParsePublicKey(alt)
		if err == nil {
			if ev.NonTrivial(sub, hx(alt)) {
				ev.Sample(sub, form+":"+hx(alt))
			}
			ev.Class(sub, "alt-form-parsed:"+form)
			if !x509.EqualPublicKeys(&pk, &k) {
				t.Fatalf("wire form %s parsed to %s, canonical key is %s", hx(alt), keyStr(pk), keyStr(k))
			}
			if p2pkeswarm.DefaultFingerprinter(&pk) != p2pkeswarm.DefaultFingerprinter(&k) || quicswarm.DefaultFingerprinter(pk) != quicswarm.DefaultFingerprinter(k) {
				t.Fatalf("fingerprint depends on the wire form: %s vs %s", hx(alt), hx(canon))
			}
		}
		// trailing garbage must not be accepted as the same key
		if _, err := x509.ParsePublicKey(append(append([]byte{}, canon...), 0)); err == nil {
			t.Fatalf("ParsePublicKey accepted trailing bytes after %s", hx(canon))
		}
	})
}

func TestC17PeerIDText(t *testing.T) {
	const sub = "C17.peerid_text"
	ev.Rule(sub, "rapid: 32-byte ids (random, all-zero, all-ones, adjacent pairs) and candidate texts (valid text with one character replaced by a byte outside the alphabet, by a character carrying non-zero padding bits, standard-base64 alphabets, wrong lengths 42/44, arbitrary bytes). Oracles: UnmarshalText(MarshalText(id)) == id; id1<id2 iff text1<text2 bytewise; invalid text is rejected with an error; any accepted text re-marshals to itself; quicswarm.ParseAddr and p2pkeswarm.ParseAddr of '<text>@<inner>' accept exactly the valid texts and report the same identity. non-trivial = invalid candidate text or an ordered pair differing late; distinct by text")
	alphabet := p2p.Base64Alphabet
	inAlpha := func(c byte) bool { return bytes.IndexByte([]byte(alphabet), c) >= 0 }
	rapid.Check(t, func(t *rapid.T) {
		ev.Eval(sub)
		var id p2p.PeerID
		switch rapid.IntRange(0, 4).Draw(t, "idKind") {
		case 0:
		case 1:
			for i := range id {
				id[i] = 0xff
			}
		default:
			copy(id[:], rapid.SliceOfN(rapid.Byte(), 32, 32).Draw(t, "id"))
		}
		text, err := id.MarshalText()
		if err != nil || len(text) != 43 {
			t.Fatalf("MarshalText: %q %v", text, err)
		}
		for _, c := range text {
			if !inAlpha(c) {
				t.Fatalf("MarshalText produced %q outside the alphabet", c)
			}
		}
		var back p2p.PeerID
		if err := back.UnmarshalText(text); err != nil || back != id {
			t.Fatalf("UnmarshalText(MarshalText(%s)) = %s, %v", hx(id[:]), hx(back[:]), err)
		}
		if id.String() != string(text) {
			t.Fatalf("String() != MarshalText()")
		}
		// order preservation against a near id
		id2 := id
		pos := rapid.IntRange(0, 31).Draw(t, "diffAt")
		id2[pos] = rapid.Byte().Draw(t, "diffByte")
		text2, _ := id2.MarshalText()
		if sgn(bytes.Compare(id[:], id2[:])) != sgn(bytes.Compare(text, text2)) || id.Compare(id2) != bytes.Compare(id[:], id2[:]) || id.Lt(id2) != (bytes.Compare(id[:], id2[:]) < 0) {
			t.Fatalf("order not preserved: ids %s %s texts %s %s", hx(id[:]), hx(id2[:]), text, text2)
		}
		// candidate texts
		cand := append([]byte{}, text...)
		kind := rapid.SampledFrom([]string{"outside", "padbits", "stdalpha", "short", "long", "arbitrary", "valid-other"}).Draw(t, "candKind")
		valid := false
		switch kind {
		case "outside":
			i := rapid.IntRange(0, 42).Draw(t, "at")
			c := rapid.Byte().Draw(t, "c")
			if inAlpha(c) {
				c = '+'
			}
			cand[i] = c
		case "padbits":
			// final character carries 4 data bits + 2 padding bits; choose one with non-zero padding
			idx := rapid.IntRange(0, 63).Draw(t, "last")
			cand[42] = alphabet[idx]
			valid = idx%4 == 0
		case "stdalpha":
			i := rapid.IntRange(0, 42).Draw(t, "at")
			cand[i] = rapid.SampledFrom([]byte{'+', '/', '=', '.', ' ', '\n', 0}).Draw(t, "c")
		case "short":
			cand = cand[:42]
		case "long":
			cand = append(cand, alphabet[rapid.IntRange(0, 63).Draw(t, "extra")])
		case "arbitrary":
			cand = rapid.SliceOfN(rapid.Byte(), 0, 50).Draw(t, "text")
			valid = len(cand) == 43
			for _, c := range cand {
				if !inAlpha(c) {
					valid = false
				}
			}
			if valid {
				valid = bytes.IndexByte([]byte(alphabet), cand[42])%4 == 0
			}
		case "valid-other":
			cand = text2
			valid = true
		}
		ev.Class(sub, "candidate:"+kind)
		if !valid {
			if ev.NonTrivial(sub, string(cand)) {
				ev.Sample(sub, fmt.Sprintf("%s:%q", kind, cand))
			}
		}
		var got p2p.PeerID
		err = got.UnmarshalText(cand)
		if valid && err != nil {
			t.Fatalf("valid text %q rejected: %v", cand, err)
		}
		if !valid && err == nil {
			t.Fatalf("invalid text %q (%s) accepted as id %s", cand, kind, hx(got[:]))
		}
		if err == nil {
			re, _ := got.MarshalText()
			if !bytes.Equal(re, cand) {
				t.Fatalf("accepted text %q re-marshals to %q", cand, re)
			}
		}
		// the same verdict wherever an identity is embedded in the text of an address
		if bytes.IndexByte(cand, '@') < 0 {
			full := append(append([]byte{}, cand...), []byte("@7")...)
			qa, qerr := quicswarm.ParseAddr[memswarm.Addr](memswarm.ParseAddr, full)
			pa, perr := p2pkeswarm.ParseAddr[memswarm.Addr](memswarm.ParseAddr, full)
			for _, x := range []struct {
				name string
				id   p2p.PeerID
				err  error
			}{{"quicswarm", qa.ID, qerr}, {"p2pkeswarm", pa.ID, perr}} {
				if valid && (x.err != nil || x.id != got) {
					t.Fatalf("%s.ParseAddr(%q): identity %s, error %v; the identity text alone parses to %s", x.name, full, hx(x.id[:]), x.err, hx(got[:]))
				}
				if !valid && x.err == nil {
					t.Fatalf("%s.ParseAddr accepted %q although its identity part is not a valid identity text (%s); it reports identity %s", x.name, full, kind, hx(x.id[:]))
				}
			}
		}
	})
}

func sgn(x int) int {
	if x < 0 {
		return -1
	}
	if x > 0 {
		return 1
	}
	return 0
}
