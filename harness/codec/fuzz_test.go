package codec

import (
	"bytes"
	"reflect"
	"testing"

	"go.brendoncarroll.net/p2p"
	"go.brendoncarroll.net/p2p/f/x509"
	"go.brendoncarroll.net/p2p/s/memswarm"
	"go.brendoncarroll.net/p2p/s/multiswarm"
	"go.brendoncarroll.net/p2p/s/p2pkeswarm"
	"go.brendoncarroll.net/p2p/s/quicswarm"
	"go.brendoncarroll.net/p2p/s/sshswarm"
	"go.brendoncarroll.net/p2p/s/udpswarm"
)

// FuzzKeyParse: Parse -> Marshal -> Parse is idempotent and fingerprints depend on the parsed key only.
func FuzzKeyParse(f *testing.F) {
	k := x509.PublicKey{Algorithm: x509.Algo_Ed25519, Data: bytes.Repeat([]byte{7}, 32)}
	f.Add(x509.MarshalPublicKey(nil, &k))
	f.Add([]byte{0x30, 0x00})
	f.Add([]byte{0x30, 0x80, 0x06, 0x03, 0x2b, 0x65, 0x70})
	f.Add(bytes.Repeat([]byte{0xff}, 40))
	f.Fuzz(func(t *testing.T, wire []byte) {
		k1, err := x509.ParsePublicKey(wire)
		if err != nil {
			return
		}
		w2 := x509.MarshalPublicKey(nil, &k1)
		if len(w2) == 0 {
			return // identifier that DER cannot re-encode (outside the stated domain)
		}
		k2, err := x509.ParsePublicKey(w2)
		if err != nil {
			t.Fatalf("re-parse of the canonical form of %x failed: %v", wire, err)
		}
		if !x509.EqualPublicKeys(&k1, &k2) {
			t.Fatalf("Parse(Marshal(Parse(w))) != Parse(w) for %x", wire)
		}
		if !bytes.Equal(x509.MarshalPublicKey(nil, &k2), w2) {
			t.Fatalf("canonical form is not a fixed point for %x", wire)
		}
		if p2pkeswarm.DefaultFingerprinter(&k1) != p2pkeswarm.DefaultFingerprinter(&k2) || quicswarm.DefaultFingerprinter(k1) != quicswarm.DefaultFingerprinter(k2) {
			t.Fatalf("fingerprint depends on the wire form for %x", wire)
		}
	})
}

// FuzzPeerIDText: accepted text re-marshals to itself.
func FuzzPeerIDText(f *testing.F) {
	var id p2p.PeerID
	txt, _ := id.MarshalText()
	f.Add(txt)
	f.Add([]byte("zzzzzzzzzzzzzzzzzzzzzzzzzzzzzzzzzzzzzzzzzzw"))
	f.Add([]byte("\n------------------------------------------"))
	f.Fuzz(func(t *testing.T, text []byte) {
		var id p2p.PeerID
		if err := id.UnmarshalText(text); err != nil {
			return
		}
		back, _ := id.MarshalText()
		if !bytes.Equal(back, text) {
			t.Fatalf("text %q was accepted as id %x, whose encoding is %q", text, id[:], back)
		}
	})
}

// FuzzAddrParse: whatever a parser accepts must survive marshal and parse.
func FuzzAddrParse(f *testing.F) {
	for _, s := range []string{"127.0.0.1:80", "[::1]:80", "[fe80::1%eth0]:1", "SHA256:AAAAAAAAAAAAAAAAAAAAAAAAAAAAAAAAAAAAAAAAAA+@::1:22", "------------------------------------------0@[::1]:1", "udp://1.2.3.4:5", "x://-12", "a://b://3"} {
		f.Add([]byte(s))
	}
	udp := func(x []byte) (p2p.Addr, error) { return udpswarm.ParseAddr(x) }
	mem := func(x []byte) (p2p.Addr, error) { return memswarm.ParseAddr(x) }
	inner := multiswarm.NewSchemaFromSwarms(map[string]multiswarm.DynSwarm{"b": parseOnlySwarm{mem}})
	schema := multiswarm.NewSchemaFromSwarms(map[string]multiswarm.DynSwarm{
		"udp": parseOnlySwarm{udp}, "x": parseOnlySwarm{mem},
		"a": parseOnlySwarm{func(x []byte) (p2p.Addr, error) { return inner.ParseAddr(x) }},
	})
	parsers := map[string]parser{
		"udp":   udp,
		"ssh":   func(x []byte) (p2p.Addr, error) { return sshswarm.ParseAddr(x) },
		"mem":   mem,
		"p2pke": func(x []byte) (p2p.Addr, error) { return p2pkeswarm.ParseAddr[p2p.Addr](udp, x) },
		"quic":  func(x []byte) (p2p.Addr, error) { return quicswarm.ParseAddr[p2p.Addr](udp, x) },
		"multi": func(x []byte) (p2p.Addr, error) { return schema.ParseAddr(x) },
	}
	f.Fuzz(func(t *testing.T, text []byte) {
		for name, parse := range parsers {
			a, err := parse(text)
			if err != nil {
				continue
			}
			again, err := a.MarshalText()
			if err != nil {
				t.Fatalf("%s: %q parsed to %#v which cannot be marshalled: %v", name, text, a, err)
			}
			b, err := parse(again)
			if err != nil {
				t.Fatalf("%s: %q parsed to %#v, marshalled to %q, which does not parse: %v", name, text, a, again, err)
			}
			if !reflect.DeepEqual(a, b) {
				t.Fatalf("%s: %q -> %#v -> %q -> %#v", name, text, a, again, b)
			}
		}
	})
}
