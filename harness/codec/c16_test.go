package codec

import (
	"context"
	"encoding/base64"
	"fmt"
	"net/netip"
	"reflect"
	"testing"

	"go.brendoncarroll.net/p2p"
	"go.brendoncarroll.net/p2p/s/memswarm"
	"go.brendoncarroll.net/p2p/s/multiswarm"
	"go.brendoncarroll.net/p2p/s/p2pkeswarm"
	"go.brendoncarroll.net/p2p/s/quicswarm"
	"go.brendoncarroll.net/p2p/s/sshswarm"
	"go.brendoncarroll.net/p2p/s/udpswarm"
	"pgregory.net/rapid"

	"verif/harness/internal/ev"
)

type parser = func([]byte) (p2p.Addr, error)

// addrCase is a generated address together with the parser of the (virtual)
// swarm stack that would produce it.
type addrCase struct {
	addr  p2p.Addr
	parse parser
	shape string
	depth int
}

// parseOnlySwarm lets multiswarm build its address schema from a parser alone.
type parseOnlySwarm struct{ parse parser }

func (s parseOnlySwarm) Tell(context.Context, p2p.Addr, p2p.IOVec) error { return nil }
func (s parseOnlySwarm) Receive(context.Context, func(p2p.Message[p2p.Addr])) error {
	return p2p.ErrClosed
}
func (s parseOnlySwarm) LocalAddrs() []p2p.Addr               { return nil }
func (s parseOnlySwarm) MTU() int                             { return 0 }
func (s parseOnlySwarm) Close() error                         { return nil }
func (s parseOnlySwarm) ParseAddr(x []byte) (p2p.Addr, error) { return s.parse(x) }

func genIP(t *rapid.T) netip.Addr {
	switch rapid.IntRange(0, 7).Draw(t, "ipKind") {
	case 0:
		return netip.AddrFrom4([4]byte{127, 0, 0, 1})
	case 1:
		var b [4]byte
		copy(b[:], rapid.SliceOfN(rapid.Byte(), 4, 4).Draw(t, "ip4"))
		return netip.AddrFrom4(b)
	case 2:
		return netip.MustParseAddr(rapid.SampledFrom([]string{"::", "::1", "fe80::1", "2001:db8::1", "ff02::1", "1:2:3:4:5:6:7:8", "::ffff:0:0", "64:ff9b::1.2.3.4"}).Draw(t, "ip6const"))
	case 3:
		var b [16]byte
		copy(b[:], rapid.SliceOfN(rapid.Byte(), 16, 16).Draw(t, "ip6"))
		return netip.AddrFrom16(b)
	case 4:
		// IPv4-mapped IPv6 (what a dual-stack socket reports)
		var b [4]byte
		copy(b[:], rapid.SliceOfN(rapid.Byte(), 4, 4).Draw(t, "ip4m"))
		return netip.AddrFrom16(netip.AddrFrom4(b).As16())
	case 5:
		// link-local with zone
		a := netip.MustParseAddr("fe80::1")
		return a.WithZone(rapid.SampledFrom([]string{"eth0", "lo", "1", "en0"}).Draw(t, "zone"))
	case 6:
		// sparse IPv6 with runs of zeros
		var b [16]byte
		for i := 0; i < 16; i += 2 {
			if rapid.Bool().Draw(t, "nz") {
				b[i+1] = rapid.Byte().Draw(t, "g")
			}
		}
		return netip.AddrFrom16(b)
	}
	return netip.AddrFrom4([4]byte{0, 0, 0, 0})
}

func genPort(t *rapid.T) uint16 {
	return uint16(rapid.OneOf(rapid.SampledFrom([]int{0, 1, 22, 80, 65535}), rapid.IntRange(0, 65535)).Draw(t, "port"))
}

func genPeerID(t *rapid.T) p2p.PeerID {
	var id p2p.PeerID
	switch rapid.IntRange(0, 3).Draw(t, "pidKind") {
	case 0:
	case 1:
		for i := range id {
			id[i] = 0xff
		}
	default:
		copy(id[:], rapid.SliceOfN(rapid.Byte(), 32, 32).Draw(t, "pid"))
	}
	return id
}

var schemeGen = rapid.StringMatching(`[a-zA-Z][a-zA-Z0-9+.\-]{0,11}`) // transport names are used as configured: mixed case included

func genAddr(t *rapid.T, depth int) addrCase {
	kinds := []string{"mem", "udp", "ssh"}
	if depth > 0 {
		kinds = append(kinds, "p2pke", "quic", "multi", "p2pke", "quic", "multi")
	}
	switch rapid.SampledFrom(kinds).Draw(t, "kind") {
	case "mem":
		n := rapid.OneOf(rapid.IntRange(0, 100), rapid.IntRange(-1<<31, 1<<31-1)).Draw(t, "n")
		return addrCase{memswarm.Addr{N: n}, func(x []byte) (p2p.Addr, error) { return memswarm.ParseAddr(x) }, "mem", 0}
	case "udp":
		a := udpswarm.Addr{IP: genIP(t), Port: genPort(t)}
		return addrCase{a, func(x []byte) (p2p.Addr, error) { return udpswarm.ParseAddr(x) }, "udp" + ipClass(a.IP), 0}
	case "ssh":
		fp := "SHA256:" + base64.RawStdEncoding.EncodeToString(rapid.SliceOfN(rapid.Byte(), 32, 32).Draw(t, "fp"))
		a := sshswarm.Addr{Fingerprint: fp, IP: genIP(t), Port: genPort(t)}
		return addrCase{a, func(x []byte) (p2p.Addr, error) { return sshswarm.ParseAddr(x) }, "ssh" + ipClass(a.IP), 0}
	case "p2pke":
		in := genAddr(t, depth-1)
		a := p2pkeswarm.Addr[p2p.Addr]{ID: genPeerID(t), Addr: in.addr}
		return addrCase{a, func(x []byte) (p2p.Addr, error) { return p2pkeswarm.ParseAddr[p2p.Addr](in.parse, x) }, "p2pke(" + in.shape + ")", in.depth + 1}
	case "quic":
		in := genAddr(t, depth-1)
		a := quicswarm.Addr[p2p.Addr]{ID: genPeerID(t), Addr: in.addr}
		return addrCase{a, func(x []byte) (p2p.Addr, error) { return quicswarm.ParseAddr[p2p.Addr](in.parse, x) }, "quic(" + in.shape + ")", in.depth + 1}
	default:
		in := genAddr(t, depth-1)
		scheme := schemeGen.Draw(t, "scheme")
		other := schemeGen.Draw(t, "otherScheme")
		m := map[string]multiswarm.DynSwarm{scheme: parseOnlySwarm{in.parse}}
		if other != scheme {
			m[other] = parseOnlySwarm{func(x []byte) (p2p.Addr, error) { return memswarm.ParseAddr(x) }}
		}
		schema := multiswarm.NewSchemaFromSwarms(m)
		a := multiswarm.Addr{Scheme: scheme, Addr: in.addr}
		return addrCase{a, func(x []byte) (p2p.Addr, error) { return schema.ParseAddr(x) }, "multi(" + in.shape + ")", in.depth + 1}
	}
}

func ipClass(ip netip.Addr) string {
	switch {
	case ip.Is4():
		return "/v4"
	case ip.Is4In6():
		return "/v4in6"
	case ip.Zone() != "":
		return "/v6zone"
	}
	return "/v6"
}

func TestC16Generated(t *testing.T) {
	const sub = "C16.generated"
	ev.Rule(sub, "rapid: addresses of every address type (memory ints incl. negative, UDP and SSH with IPv4 / IPv6 incl. ::, ::1, zone, full 8 groups / IPv4-mapped, ports 0-65535, SHA256 fingerprints over the whole base64 alphabet, peer ids incl. all-zero/all-ones, scheme names from the URI scheme alphabet) and nestings id@inner, scheme://inner to depth 3, each with the parser the corresponding swarm would use; oracle: ParseAddr(MarshalText(a)) deep-equals a and String() agrees with MarshalText; non-trivial = not (IPv4 UDP/SSH or memory) at depth 0; distinct by marshalled text")
	rapid.Check(t, func(t *rapid.T) {
		c := genAddr(t, rapid.IntRange(0, 3).Draw(t, "maxDepth"))
		ev.Eval(sub)
		text, err := c.addr.MarshalText()
		if err != nil {
			t.Fatalf("MarshalText(%#v): %v", c.addr, err)
		}
		ev.Class(sub, fmt.Sprintf("depth=%d", c.depth))
		if c.depth > 0 || (c.shape != "mem" && c.shape != "udp/v4" && c.shape != "ssh/v4") {
			if ev.NonTrivial(sub, string(text)) {
				ev.Sample(sub, c.shape+" "+string(text))
			}
		}
		if c.addr.String() != string(text) {
			t.Fatalf("String()=%q but MarshalText()=%q", c.addr.String(), text)
		}
		back, err := c.parse(text)
		if err != nil {
			t.Fatalf("%s: ParseAddr(%q) failed: %v", c.shape, text, err)
		}
		if !reflect.DeepEqual(back, c.addr) {
			t.Fatalf("%s: round trip of %q gave %#v, want %#v", c.shape, text, back, c.addr)
		}
	})
}

func TestC16ArbitraryText(t *testing.T) {
	const sub = "C16.arbitrary_text"
	ev.Rule(sub, "rapid: arbitrary text and mutations of valid marshalled addresses (one byte replaced, truncated, characters inserted: @ : / [ ] % + newline) given to the parser of a generated address shape; oracle: the parser fails without panic, or yields b such that ParseAddr(MarshalText(b)) deep-equals b; non-trivial = text accepted by the parser although it is not the original marshalled form; distinct by (shape, text)")
	rapid.Check(t, func(t *rapid.T) {
		c := genAddr(t, rapid.IntRange(0, 2).Draw(t, "maxDepth"))
		valid, _ := c.addr.MarshalText()
		text := append([]byte{}, valid...)
		switch rapid.IntRange(0, 4).Draw(t, "mut") {
		case 0:
			text = rapid.SliceOfN(rapid.Byte(), 0, 40).Draw(t, "text")
		case 1:
			if len(text) > 0 {
				text[rapid.IntRange(0, len(text)-1).Draw(t, "at")] = rapid.SampledFrom([]byte("@:/[]%+\n 0a-_~")).Draw(t, "c")
			}
		case 2:
			text = text[:rapid.IntRange(0, len(text)).Draw(t, "cut")]
		case 3:
			at := rapid.IntRange(0, len(text)).Draw(t, "at")
			ins := rapid.SampledFrom([]string{"@", ":", "://", "[", "]", "%", "+", "\n", "0", "::"}).Draw(t, "ins")
			text = append(append(append([]byte{}, text[:at]...), ins...), text[at:]...)
		case 4:
			text = text[rapid.IntRange(0, len(text)).Draw(t, "from"):]
		}
		ev.Eval(sub)
		var b p2p.Addr
		var err error
		func() {
			defer func() {
				if r := recover(); r != nil {
					t.Fatalf("%s: ParseAddr(%q) panicked: %v", c.shape, text, r)
				}
			}()
			b, err = c.parse(text)
		}()
		if err != nil {
			ev.Class(sub, "rejected")
			return
		}
		ev.Class(sub, "accepted")
		if string(text) != string(valid) {
			if ev.NonTrivial(sub, c.shape+" "+string(text)) {
				ev.Sample(sub, fmt.Sprintf("%s %q", c.shape, text))
			}
		}
		again, err := b.MarshalText()
		if err != nil {
			t.Fatalf("%s: parsed %q into %#v which cannot be marshalled: %v", c.shape, text, b, err)
		}
		b2, err := c.parse(again)
		if err != nil {
			t.Fatalf("%s: %q parsed to %#v, which marshals to %q, which does not parse: %v", c.shape, text, b, again, err)
		}
		if !reflect.DeepEqual(b, b2) {
			t.Fatalf("%s: %q -> %#v -> %q -> %#v", c.shape, text, b, again, b2)
		}
	})
}
