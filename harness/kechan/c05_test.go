package kechan

import (
	"fmt"
	"strings"
	"sync"
	"testing"
	"time"

	"pgregory.net/rapid"

	"verif/harness/internal/ev"
)

const (
	kA = 0
	kB = 1
	kC = 2
)

type predicate struct {
	name string
	fn   func(int) bool
}

func preds(self int) []predicate {
	all := predicate{"all", func(int) bool { return true }}
	none := predicate{"none", func(int) bool { return false }}
	only := func(k int) predicate {
		return predicate{fmt.Sprintf("onlyK%d", k), func(i int) bool { return i == k }}
	}
	switch self {
	case kA:
		return []predicate{all, all, none, only(kB), only(kB), only(kC)}
	case kB:
		return []predicate{all, all, none, only(kA), only(kC)}
	}
	return []predicate{all, all, only(kA), none}
}

func TestC05AcceptAndContinuity(t *testing.T) { acceptAndContinuity(t, "C05.accept_and_continuity") }

// The same histories decide C02's first clause at channel level: whatever a channel hands to the application came
// from the peer it authenticated and accepted - in particular nothing from a peer it refused (whose session may linger).
func TestC02RefusedPeerData(t *testing.T) { acceptAndContinuity(t, "C02.refused_peer_data") }

func acceptAndContinuity(t *testing.T, sub string) {
	ev.Rule(sub, "rapid: channel A wired to channel B and to an intruding channel C with another key (A's output reaches both, theirs reach A); acceptance predicates per side from {all, none, only one key}; initiators from {A, B, both, C} with generated start offsets; the intruder starts before/during or after establishment; optional short rekey interval followed by a second round; optionally the wire loses every RespDone (handshakes complete through data); optionally a short keep-alive with an idle period before the intruder arrives (the established session is retired for idleness, the pinned key must survive). Real timers, handshake backoff 5 ms, observation window 300 ms per blocked call. Oracle: a channel never returns nil from Send, never delivers data, never emits a data-range ciphertext and never reports a RemoteKey for a key its predicate rejects; RemoteKey never changes once set; mutually accepting pairs (with no competing acceptable intruder) establish and still exchange tagged messages both ways after the intrusion; an intruder is refused once the channel is bound to another key. non-trivial = rejecting predicate on an initiating or responding side, or an intrusion after establishment; distinct by (predicates, initiators, timing class)")
	rapid.Check(t, func(t *rapid.T) {
		pa := rapid.SampledFrom(preds(kA)).Draw(t, "acceptA")
		pb := rapid.SampledFrom(preds(kB)).Draw(t, "acceptB")
		pc := rapid.SampledFrom(preds(kC)).Draw(t, "acceptC")
		initiators := rapid.SampledFrom([]string{"A", "B", "AB", "A", "B", "AB"}).Draw(t, "initiators")
		intruder := rapid.SampledFrom([]string{"none", "before", "during", "after", "after"}).Draw(t, "intruder")
		rekey := rapid.Bool().Draw(t, "shortRekey")
		loseRespDone := rapid.IntRange(0, 3).Draw(t, "loseRespDone") == 0 // the wire loses every RespDone: handshakes complete through data
		idleExpiry := rapid.IntRange(0, 3).Draw(t, "idleExpiry") == 0     // short keep-alive and an idle period before the intruder arrives
		offA := rapid.IntRange(0, 6).Draw(t, "offsetA")
		offB := rapid.IntRange(0, 6).Draw(t, "offsetB")
		cfg := chanCfg{backoff: 5 * time.Millisecond, keepAlive: 5 * time.Second, rekey: time.Hour, reject: 30 * time.Second}
		if rekey {
			cfg.rekey = 120 * time.Millisecond
		}
		if idleExpiry {
			cfg.keepAlive = 80 * time.Millisecond
			cfg.rekey = time.Hour
		}
		desc := fmt.Sprintf("A:%s B:%s C:%s init=%s intruder=%s rekey=%v off=%d/%d loseRespDone=%v idleExpiry=%v", pa.name, pb.name, pc.name, initiators, intruder, rekey, offA, offB, loseRespDone, idleExpiry)
		ev.Eval(sub)
		nt := newNet()
		a := nt.addNode("A", kA, pa.fn, cfg)
		b := nt.addNode("B", kB, pb.fn, cfg)
		c := nt.addNode("C", kC, pc.fn, cfg)
		defer nt.close()
		if loseRespDone {
			nt.drop = func(_ *node, data []byte) bool { return counterOf(data) == 3 }
		}
		nt.link(a, b)
		nt.link(b, a)
		if intruder == "before" || intruder == "during" {
			nt.link(a, c)
			nt.link(c, a)
		}
		const window = 300 * time.Millisecond
		// liveness is judged only where the outcome is unambiguous (see below); only those Sends are patient
		judgedLive := pa.fn(kB) && pb.fn(kA) && !loseRespDone && !idleExpiry &&
			!((intruder == "before" || intruder == "during") && (pa.fn(kC) || (strings.Contains(initiators, "A") && pc.fn(kA))))
		results := map[string]error{}
		var rmu sync.Mutex
		var wg sync.WaitGroup
		start := func(n *node, tag string, delay time.Duration) {
			wg.Add(1)
			go func() {
				defer wg.Done()
				time.Sleep(delay)
				var err error
				if judgedLive && n != c {
					err = n.send(tag, window)
				} else {
					err = n.sendImpatient(tag, window) // failure is an allowed outcome here
				}
				rmu.Lock()
				results[n.name+"/"+tag] = err
				rmu.Unlock()
			}()
		}
		if intruder == "before" {
			start(c, "intrude", 0)
			time.Sleep(3 * time.Millisecond)
		}
		if strings.Contains(initiators, "A") {
			start(a, "r1", time.Duration(offA)*time.Millisecond)
		}
		if strings.Contains(initiators, "B") {
			start(b, "r1", time.Duration(offB)*time.Millisecond)
		}
		if intruder == "during" {
			start(c, "intrude", time.Duration(rapid.IntRange(0, 6).Draw(t, "offsetC"))*time.Millisecond)
		}
		wg.Wait()
		if intruder == "after" {
			if idleExpiry {
				// the established session goes idle past the keep-alive timeout; the next Send retires it
				time.Sleep(200 * time.Millisecond)
			}
			nt.link(a, c)
			nt.link(c, a)
			start(c, "intrude", 0)
			if idleExpiry {
				start(a, "after-idle", 2*time.Millisecond)
				start(b, "after-idle", 4*time.Millisecond)
			}
			wg.Wait()
		}
		if rekey {
			time.Sleep(300 * time.Millisecond) // at least two rotations
		}
		fail := func(f string, args ...any) {
			nt.close()
			t.Fatalf("%s\ncase: %s\nresults: %v\nkeys: A=%v B=%v C=%v", fmt.Sprintf(f, args...), desc, results, a.keyLog, b.keyLog, c.keyLog)
		}
		// safety on every node
		for _, n := range []*node{a, b, c} {
			k := n.observeKey()
			if k >= 0 && !n.accept(k) {
				fail("%s reports RemoteKey K%d which its predicate rejects", n.name, k)
			}
			if k == -2 {
				fail("%s reports an unknown RemoteKey", n.name)
			}
		}
		if ps := nt.problems(); len(ps) > 0 {
			fail("%s", strings.Join(ps, "\n"))
		}
		ka, kb2, kc2 := a.observeKey(), b.observeKey(), c.observeKey()
		// a node whose predicate rejects everybody must have failed
		for _, n := range []*node{a, b, c} {
			rejectsAll := !n.accept(kA) && !n.accept(kB) && !n.accept(kC)
			if rejectsAll {
				for name, err := range results {
					if strings.HasPrefix(name, n.name+"/") && err == nil {
						fail("%s accepts no key but its Send returned nil", n.name)
					}
				}
			}
		}
		// liveness where the outcome is unambiguous
		abMutual := pa.fn(kB) && pb.fn(kA)
		// The intruder can engage A when A would accept its key, or (as a responder to A's broadcast
		// InitHello) when it is willing to talk to A; an engaged intruder may win races, so liveness of
		// the A-B handshake is only required when it cannot engage or arrives after establishment.
		cCompetes := (intruder == "before" || intruder == "during") && (pa.fn(kC) || (strings.Contains(initiators, "A") && pc.fn(kA)))
		if abMutual && !cCompetes && !loseRespDone && !idleExpiry {
			for name, err := range results {
				if (strings.HasPrefix(name, "A/") || strings.HasPrefix(name, "B/")) && err != nil {
					fail("A and B accept each other and nobody competes, yet %s failed: %v", name, err)
				}
			}
			if ka != kB || kb2 != kA {
				fail("A and B accept each other and nobody competes, yet keys are A->K%d B->K%d", ka, kb2)
			}
		}
		// Note: C reporting A's key is not a violation by itself. As a responder to A's broadcast InitHello
		// C legitimately authenticates A (A signs the transcript before it can judge C's key at promotion
		// time); what matters is A's side: A stays bound to B, never delivers C's data and never encrypts
		// application data to C - all checked by the per-event oracles in net_test.go.
		_ = kc2
		// established pair still works both ways
		if ka == kB && kb2 == kA && !loseRespDone && !idleExpiry {
			if err := a.send("after", window); err != nil {
				fail("established pair: A.Send after the intrusion failed: %v", err)
			}
			if err := b.send("after", window); err != nil {
				fail("established pair: B.Send after the intrusion failed: %v", err)
			}
			if !waitUntil(window, func() bool { return b.gotPlain(a, "after") && a.gotPlain(b, "after") }) {
				fail("established pair: tagged messages after the intrusion were not delivered (A->B %v, B->A %v)", b.gotPlain(a, "after"), a.gotPlain(b, "after"))
			}
		}
		if ps := nt.problems(); len(ps) > 0 {
			fail("%s", strings.Join(ps, "\n"))
		}
		// classification
		nt2 := false
		if (strings.Contains(initiators, "A") && !pa.fn(kB)) || (strings.Contains(initiators, "B") && !pb.fn(kA)) {
			ev.Class(sub, "rejecting-predicate-on-initiator")
			nt2 = true
		}
		if (strings.Contains(initiators, "A") && !pb.fn(kA)) || (strings.Contains(initiators, "B") && !pa.fn(kB)) {
			ev.Class(sub, "rejecting-predicate-on-responder")
			nt2 = true
		}
		if intruder == "after" && ka == kB {
			ev.Class(sub, "intrusion-after-establishment")
			nt2 = true
		}
		if rekey && ka == kB {
			ev.Class(sub, "rekeyed-established-pair")
		}
		if nt2 {
			if ev.NonTrivial(sub, desc) {
				ev.Sample(sub, desc)
			}
		}
	})
}
