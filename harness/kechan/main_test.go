package kechan

import (
	"testing"

	"verif/harness/internal/ev"
)

func TestMain(m *testing.M) { ev.Main(m) }
