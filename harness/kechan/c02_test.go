package kechan

import (
	"context"

	"bytes"
	"fmt"
	"go.brendoncarroll.net/p2p"
	"runtime"
	"strings"
	"sync"
	"sync/atomic"
	"testing"
	"time"

	"pgregory.net/rapid"

	"verif/harness/internal/ev"
)

// TestC02ChannelRotation: Dolev-Yao actions on the channels' captured output across several rekeys.
func TestC02ChannelRotation(t *testing.T) {
	const sub = "C02.channel_rotation"
	ev.Rule(sub, "rapid: a channel pair A-B (rekey every 80-150 ms) and an unrelated pair C-D on a harness-owned prompt wire, steady tagged traffic both ways for 4-6 rekey intervals, while an adversary thread applies a generated script to every byte string the channels have emitted so far: replay (incl. ciphertexts of previous sessions), bit flip, truncation, header/body splice, cross-feed of the other pair's traffic, random injection. Oracle (per delivery): plaintext was sent by the peer of the same channel, delivered at most once across all sessions, no plaintext marker in any emitted bytes (Sends that time out and undelivered honest messages are counted as classes, not judged: C02 is a safety property). non-trivial = >= 1 rotation happened and >= 1 adversarial action hit a data ciphertext; distinct by script")
	rapid.Check(t, func(t *rapid.T) {
		rekeyMs := rapid.SampledFrom([]int{80, 100, 150}).Draw(t, "rekeyMs")
		rounds := rapid.IntRange(4, 6).Draw(t, "intervals")
		type advAct struct {
			kind string
			pick int
			arg  int
		}
		var script []advAct
		for i := 0; i < rapid.IntRange(10, 60).Draw(t, "scriptLen"); i++ {
			script = append(script, advAct{
				kind: rapid.SampledFrom([]string{"replay", "replay", "replayOld", "flip", "truncate", "splice", "cross", "inject"}).Draw(t, "adv"),
				pick: rapid.IntRange(0, 1<<20).Draw(t, "pick"),
				arg:  rapid.IntRange(0, 1<<20).Draw(t, "arg"),
			})
		}
		cfg := chanCfg{backoff: 10 * time.Millisecond, keepAlive: time.Minute, rekey: time.Duration(rekeyMs) * time.Millisecond, reject: 5 * time.Second}
		nt := newNet()
		defer nt.close()
		a := nt.addNode("A", kA, acceptAll, cfg)
		b := nt.addNode("B", kB, acceptAll, cfg)
		c := nt.addNode("C", 4, acceptAll, cfg)
		d := nt.addNode("D", 5, acceptAll, cfg)
		nt.link(a, b)
		nt.link(b, a)
		nt.link(c, d)
		nt.link(d, c)
		var desc []string
		for _, s := range script {
			desc = append(desc, s.kind)
		}
		descStr := fmt.Sprintf("rekey=%dms intervals=%d script=%s", rekeyMs, rounds, strings.Join(desc, ","))
		fail := func(f string, args ...any) {
			nt.close()
			t.Fatalf("%s\ncase: %s", fmt.Sprintf(f, args...), descStr)
		}
		// C02 is a safety property: a Send that times out or a message that is not delivered (a stalled
		// machine lets a ciphertext outlive the two rotations its session is kept for) is recorded as a
		// class, not judged; flow across rotations is C07's subject.
		for _, n := range []*node{a, c} {
			if err := n.send("m0", 5*time.Second); err != nil {
				ev.Class(sub, "not-judged:initial-send-timed-out")
				return
			}
		}
		var hitsOnData int64
		stop := make(chan struct{})
		var wg sync.WaitGroup
		wg.Add(1)
		go func() { // the adversary
			defer wg.Done()
			gap := time.Duration(rounds*rekeyMs) * time.Millisecond / time.Duration(len(script)+1)
			for _, act := range script {
				select {
				case <-stop:
					return
				case <-time.After(gap):
				}
				snapshot := func(n *node) [][]byte {
					n.mu.Lock()
					defer n.mu.Unlock()
					return append([][]byte{}, n.emitted...)
				}
				ea, eb, ec := snapshot(a), snapshot(b), snapshot(c)
				all := append(append([][]byte{}, ea...), eb...)
				if len(all) == 0 {
					continue
				}
				msg := all[act.pick%len(all)]
				target := []*node{a, b}[act.arg%2]
				var data []byte
				switch act.kind {
				case "replay":
					data = msg
				case "replayOld":
					data = all[(act.pick%len(all))/4] // biased to early (previous sessions')
				case "flip":
					data = append([]byte{}, msg...)
					data[act.arg%len(data)] ^= 1 << (act.pick % 8)
				case "truncate":
					data = msg[:act.arg%(len(msg)+1)]
				case "splice":
					other := all[act.arg%len(all)]
					if len(msg) >= 4 && len(other) >= 4 {
						data = append(append([]byte{}, msg[:4]...), other[4:]...)
					}
				case "cross":
					if len(ec) > 0 {
						data = ec[act.pick%len(ec)]
					}
				case "inject":
					data = bytes.Repeat([]byte{byte(act.arg)}, 4+act.pick%60)
				}
				if data == nil {
					continue
				}
				if counterOf(data) >= 16 {
					atomic.AddInt64(&hitsOnData, 1)
				}
				nt.deliverNow(wireMsg{from: a, to: target, data: data})
			}
		}()
		n := 0
		end := time.Now().Add(time.Duration(rounds*rekeyMs) * time.Millisecond)
		for time.Now().Before(end) {
			n++
			tag := fmt.Sprintf("m%d", n)
			for _, x := range []*node{a, b, c} {
				if err := x.send(tag, 5*time.Second); err != nil {
					ev.Class(sub, "liveness:send-timed-out-under-attack")
				}
			}
			time.Sleep(8 * time.Millisecond)
		}
		close(stop)
		wg.Wait()
		waitUntil(time.Second, func() bool { return b.gotPlain(a, fmt.Sprintf("m%d", n)) && a.gotPlain(b, fmt.Sprintf("m%d", n)) })
		// honest traffic still arrives (the adversary only adds messages)
		missing := 0
		for i := 1; i <= n; i++ {
			if !b.gotPlain(a, fmt.Sprintf("m%d", i)) || !a.gotPlain(b, fmt.Sprintf("m%d", i)) {
				missing++
			}
		}
		if missing > 0 {
			ev.Class(sub, "liveness:some-honest-messages-undelivered")
		}
		// plaintext never on the wire
		for _, x := range []*node{a, b} {
			x.mu.Lock()
			for _, m := range x.emitted {
				if bytes.Contains(m, []byte("|0123456789abcdef")) {
					x.mu.Unlock()
					fail("plaintext marker found in bytes emitted by %s", x.name)
				}
			}
			x.mu.Unlock()
		}
		if ps := nt.problems(); len(ps) > 0 {
			fail("%s", strings.Join(ps, "\n"))
		}
		hellos := atomic.LoadInt64(&a.initHello) + atomic.LoadInt64(&b.initHello)
		ev.Eval(sub)
		if hellos >= 2 && atomic.LoadInt64(&hitsOnData) > 0 {
			if ev.NonTrivial(sub, descStr) {
				ev.Sample(sub, fmt.Sprintf("%s messages=%d rotations=%d adversarialDataHits=%d", descStr, n, hellos-1, hitsOnData))
			}
		}
	})
}

// TestC02ConcurrentSend: racing Send calls never share a counter.
func TestC02ConcurrentSend(t *testing.T) {
	const sub = "C02.concurrent_send"
	ev.Rule(sub, "rapid: 2-16 goroutines call Channel.Send concurrently (5-40 messages each) on an established channel with rekeying disabled while the peer delivers on a loss-free wire. Oracle: all data messages emitted by the sender carry pairwise distinct counters >= 16 (one session, so a repeated counter is key/counter reuse), every plaintext is delivered exactly once. non-trivial = >= 2 senders; distinct by (goroutines, messages, GOMAXPROCS)")
	rapid.Check(t, func(t *rapid.T) {
		g := rapid.IntRange(2, 16).Draw(t, "goroutines")
		per := rapid.IntRange(5, 40).Draw(t, "perGoroutine")
		cfg := chanCfg{backoff: 10 * time.Millisecond, keepAlive: time.Minute, rekey: time.Hour, reject: time.Minute}
		nt := newNet()
		defer nt.close()
		a := nt.addNode("A", kA, acceptAll, cfg)
		b := nt.addNode("B", kB, acceptAll, cfg)
		nt.link(a, b)
		nt.link(b, a)
		fail := func(f string, args ...any) {
			nt.close()
			t.Fatalf("%s\ncase: goroutines=%d per=%d", fmt.Sprintf(f, args...), g, per)
		}
		if err := a.send("m0", 5*time.Second); err != nil {
			ev.Class(sub, "not-judged:initial-send-timed-out")
			return
		}
		var wg sync.WaitGroup
		var errs int64
		for i := 0; i < g; i++ {
			i := i
			wg.Add(1)
			go func() {
				defer wg.Done()
				for j := 0; j < per; j++ {
					if err := a.send(fmt.Sprintf("g%d-%d", i, j), 10*time.Second); err != nil {
						atomic.AddInt64(&errs, 1)
					}
				}
			}()
		}
		wg.Wait()
		if errs > 0 {
			ev.Class(sub, "liveness:concurrent-send-timed-out")
		}
		a.mu.Lock()
		seen := map[uint32][]byte{}
		for _, m := range a.emitted {
			c := counterOf(m)
			if c < 16 {
				continue
			}
			if prev, ok := seen[c]; ok && !bytes.Equal(prev, m) {
				a.mu.Unlock()
				fail("two different ciphertexts were emitted under counter %d", c)
			}
			seen[c] = m
		}
		a.mu.Unlock()
		ok := waitUntil(5*time.Second, func() bool {
			b.mu.Lock()
			defer b.mu.Unlock()
			return len(b.got) >= g*per+1
		})
		if !ok && errs == 0 {
			// one session, no rotation, a loss-free in-order wire and every Send returned nil: each
			// ciphertext is decryptable whenever it arrives, so a missing plaintext was dropped by the channel
			fail("only %d of %d messages were delivered on a loss-free wire although every Send succeeded", len(b.got), g*per+1)
		}
		if ps := nt.problems(); len(ps) > 0 {
			fail("%s", strings.Join(ps, "\n"))
		}
		ev.Eval(sub)
		key := fmt.Sprintf("g=%d per=%d", g, per)
		if ev.NonTrivial(sub, key) {
			ev.Sample(sub, key)
		}
	})
}

// TestC02ConcurrentDuplicates: copies of one ciphertext that are inside Channel.Deliver at the same instant
// (a duplicated datagram handled by parallel receive workers) yield the plaintext at most once.
func TestC02ConcurrentDuplicates(t *testing.T) {
	const sub = "C02.concurrent_duplicate_deliveries"
	ev.Rule(sub, "rapid: an established channel pair with rekeying disabled; 40-200 trials per case: the sender emits a data message after skipping 0-9000 counters (messages the wire loses, so that the replay window moves by up to its full width), and 2-8 goroutines released from a barrier call Channel.Deliver with copies of that one ciphertext. Oracle: the plaintext comes out of at most one of the calls (and of exactly one when none of them reports an error), and it is the plaintext that was sent. non-trivial = a case in which the window had to move forward past its width at least once; distinct by parameters")
	rapid.Check(t, func(t *rapid.T) {
		trials := rapid.IntRange(40, 200).Draw(t, "trials")
		g := rapid.IntRange(2, 8).Draw(t, "goroutines")
		gapKind := rapid.SampledFrom([]string{"none", "small", "window", "window"}).Draw(t, "gap")
		procs := rapid.SampledFrom([]int{2, 4, 16}).Draw(t, "gomaxprocs")
		old := runtime.GOMAXPROCS(procs)
		defer runtime.GOMAXPROCS(old)
		desc := fmt.Sprintf("trials=%d goroutines=%d gap=%s procs=%d", trials, g, gapKind, procs)
		cfg := chanCfg{backoff: 10 * time.Millisecond, keepAlive: time.Minute, rekey: time.Hour, reject: time.Hour}
		nt := newNet()
		defer nt.close()
		a := nt.addNode("A", kA, acceptAll, cfg)
		b := nt.addNode("B", kB, acceptAll, cfg)
		nt.link(a, b)
		nt.link(b, a)
		if err := a.send("m0", 5*time.Second); err != nil {
			ev.Class(sub, "not-judged:initial-send-timed-out")
			return
		}
		// from now on the wire loses everything; ciphertexts are taken from what A emitted
		var lastMu sync.Mutex
		var last []byte
		nt.mu.Lock()
		nt.drop = func(from *node, data []byte) bool {
			if from == a {
				lastMu.Lock()
				last = append(last[:0], data...)
				lastMu.Unlock()
			}
			return true
		}
		nt.mu.Unlock()
		lastEmitted := func() []byte {
			lastMu.Lock()
			defer lastMu.Unlock()
			return append([]byte{}, last...)
		}
		for k := 0; k < trials; k++ {
			skip := 0
			switch gapKind {
			case "small":
				skip = k % 7
			case "window":
				if k%4 == 0 {
					skip = 8200 + k%100 // more than the replay filter remembers
				}
			}
			for i := 0; i < skip; i++ {
				a.ch.Send(context.Background(), p2p.IOVec{[]byte("lost")})
			}
			pt := fmt.Sprintf("dup-trial-%d|0123456789abcdef", k)
			if err := a.ch.Send(context.Background(), p2p.IOVec{[]byte(pt)}); err != nil {
				t.Fatalf("Send failed on an established channel: %v\ncase: %s", err, desc)
			}
			ct := lastEmitted()
			var gate atomic.Bool
			outs := make([][]byte, g)
			errs := make([]error, g)
			var wg sync.WaitGroup
			for i := 0; i < g; i++ {
				i := i
				wire := append([]byte{}, ct...)
				wg.Add(1)
				go func() {
					defer wg.Done()
					for !gate.Load() {
					}
					outs[i], errs[i] = b.ch.Deliver(nil, wire)
				}()
			}
			gate.Store(true)
			wg.Wait()
			n, nerr := 0, 0
			for i := range outs {
				if errs[i] != nil {
					nerr++
				}
				if outs[i] != nil {
					n++
					if string(outs[i]) != pt {
						t.Fatalf("trial %d: a copy of the ciphertext decrypted to %q, sent was %q\ncase: %s", k, truncate(string(outs[i])), pt, desc)
					}
				}
			}
			if n > 1 {
				t.Fatalf("trial %d: %d of %d simultaneous deliveries of one ciphertext (counter %d, %d counters skipped before it) handed the plaintext to the application\ncase: %s", k, n, g, counterOf(ct), skip, desc)
			}
			if n == 0 && nerr == 0 {
				t.Fatalf("trial %d: none of %d simultaneous deliveries of a fresh ciphertext yielded the plaintext and none reported an error\ncase: %s", k, g, desc)
			}
		}
		ev.EvalN(sub, int64(trials))
		if gapKind == "window" {
			if ev.NonTrivial(sub, desc) {
				ev.Sample(sub, desc)
			}
		}
	})
}
