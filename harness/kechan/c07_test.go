package kechan

import (
	"fmt"
	"strings"
	"sync"
	"sync/atomic"
	"testing"
	"time"

	"pgregory.net/rapid"

	"verif/harness/internal/ev"
)

func acceptAll(int) bool { return true }

var debugNet *chanNet // the network of the case being replayed with VERIF_DEBUG set

// decision is one adversarial scheduling step over the held messages.
type decision struct {
	Act string `json:"act"` // deliver, dup, drop, tick
	Idx int    `json:"idx"` // index into the held list (modulo its length)
}

type c07case struct {
	First   string     `json:"first"` // A, B, AB
	Backoff int        `json:"backoff_ms"`
	Prefix  []decision `json:"prefix"`
	Restart int        `json:"restart"` // -1 none, otherwise restart B before prefix step i (len(prefix) = after the prefix)
	Direct  bool       `json:"direct"`  // deliver synchronously (deterministic) instead of via the inbox
	// KeepInFlight: what the old instance of B had sent and the network still holds at the moment of the restart
	// stays in the network (packets outlive the process that sent them) instead of vanishing with it
	KeepInFlight bool `json:"keep_in_flight,omitempty"`
	// DelayA: A's first Send starts this many microseconds late (it may then begin in the middle of the prefix or
	// after the wire became reliable)
	DelayA int `json:"delay_a_us,omitempty"`
	// LateSendB: the new instance of B has something to send only once the prefix is over (it first hears from A)
	LateSendB bool `json:"late_send_b,omitempty"`
}

func (c c07case) String() string {
	var ps []string
	for _, d := range c.Prefix {
		ps = append(ps, fmt.Sprintf("%s[%d]", d.Act, d.Idx))
	}
	keep := ""
	if c.KeepInFlight {
		keep = "(old instance's packets stay in flight)"
	}
	if c.DelayA > 0 {
		keep += fmt.Sprintf("(A's Send %dus late)", c.DelayA)
	}
	if c.LateSendB {
		keep += "(new instance sends after the prefix)"
	}
	return fmt.Sprintf("first=%s backoff=%dms restart=%d%s prefix=%s", c.First, c.Backoff, c.Restart, keep, strings.Join(ps, ","))
}

type c07result struct {
	problem    string
	heldAfter  int
	trace      []string
	faults     int
	overtaking bool
	converge   time.Duration
	// knownKey is set when the case is an instance of a listed known finding class
	knownKey string
}

// takeHeld removes and returns the i-th held message.
func (nt *chanNet) takeHeld(i int, remove bool) (wireMsg, bool) {
	nt.mu.Lock()
	defer nt.mu.Unlock()
	if len(nt.held) == 0 {
		return wireMsg{}, false
	}
	i = i % len(nt.held)
	m := nt.held[i]
	if remove {
		nt.held = append(nt.held[:i:i], nt.held[i+1:]...)
	}
	return m, true
}

func (nt *chanNet) heldLen() int {
	nt.mu.Lock()
	defer nt.mu.Unlock()
	return len(nt.held)
}

func (nt *chanNet) heldNames() string {
	nt.mu.Lock()
	defer nt.mu.Unlock()
	var ss []string
	for _, m := range nt.held {
		ss = append(ss, m.from.name+":"+msgName(m.data))
	}
	return "[" + strings.Join(ss, " ") + "]"
}

// runC07 executes one convergence case.
func runC07(c c07case) (res c07result) {
	if debugWire {
		defer func() {
			if res.problem != "" {
				res.problem += "\nwire log:\n" + strings.Join(debugNet.log[:min(len(debugNet.log), 40)], "\n")
			}
		}()
	}
	backoff := time.Duration(c.Backoff) * time.Millisecond
	threshold := 50 * backoff
	if threshold < 2*time.Second {
		threshold = 2 * time.Second
	}
	// reject-after lies beyond the longest (patient) wait, so that an expiring session cannot rescue a stuck handshake
	cfg := chanCfg{backoff: backoff, keepAlive: time.Minute, rekey: time.Hour, reject: 2 * ev.Extended(threshold)}
	nt := newNet()
	defer nt.close()
	debugNet = nt
	nt.hold = true
	a := nt.addNode("A", kA, acceptAll, cfg)
	b := nt.addNode("B", kB, acceptAll, cfg)
	nt.link(a, b)
	nt.link(b, a)
	type pending struct {
		n    *node
		done chan error
	}
	var pend []pending
	startSend := func(n *node, tag string) {
		p := pending{n, make(chan error, 1)}
		pend = append(pend, p)
		delay := time.Duration(0)
		if n == a && tag == "first" {
			delay = time.Duration(c.DelayA) * time.Microsecond
		}
		go func() {
			if delay > 0 {
				time.Sleep(delay)
			}
			p.done <- n.send(tag, 10*threshold+5*time.Second)
		}()
	}
	if strings.Contains(c.First, "A") {
		startSend(a, "first")
	}
	if strings.Contains(c.First, "B") {
		startSend(b, "first")
	}
	restarted := false
	restartB := func() {
		restarted = true
		res.trace = append(res.trace, "restart B")
		old := b
		// known finding class: the survivor is an initiator whose hello the old instance already answered
		// (it has emitted InitDone and waits for RespDone) at the moment the peer restarts
		unbound := keyIndex(a.ch.RemoteKey()) < 0
		a.mu.Lock()
		for _, m := range a.emitted {
			if counterOf(m) == 2 && unbound {
				res.knownKey = "restart-while-initiator-awaits-RespDone"
			}
		}
		a.mu.Unlock()
		nt.unlinkAll(old)
		old.ch.Close()
		// drop what was in flight to/from the old instance
		nt.mu.Lock()
		var keep []wireMsg
		for _, m := range nt.held {
			if (m.from != old && m.to != old) || (c.KeepInFlight && m.from == old && m.to == a) {
				keep = append(keep, m)
			}
		}
		nt.held = keep
		nt.mu.Unlock()
		b = nt.addNode("B", kB, acceptAll, cfg)
		// same identity: plaintexts of the old instance still count as B's (copied: the old instance's pending Send
		// may still be registering its plaintext under its own lock)
		old.mu.Lock()
		for k, v := range old.sent {
			b.sent[k] = v
		}
		old.mu.Unlock()
		nt.link(a, b)
		nt.link(b, a)
		// messages A had in flight now reach the new instance
		nt.mu.Lock()
		for i := range nt.held {
			if nt.held[i].to == old {
				nt.held[i].to = b
			}
		}
		nt.mu.Unlock()
		// whoever was waiting on the old instance gave up with it; the new instance has something to say
		if c.LateSendB {
			return
		}
		before := nt.heldLen()
		startSend(b, "after-restart")
		// the new instance's hello is on the wire (signed) before anything else happens, so that what is delivered
		// next really reaches the survivor after the new instance spoke
		waitUntil(backoff, func() bool { return nt.heldLen() > before })
	}
	handle := func(m wireMsg) {
		if c.Direct {
			m.to.handle(m)
		} else {
			nt.deliverNow(m)
			time.Sleep(200 * time.Microsecond)
		}
	}
	// give the initial handshake messages a moment to appear
	waitUntil(backoff, func() bool { return nt.heldLen() >= len(c.First) })
	sawDataBeforeDone := false
	for i, d := range c.Prefix {
		if c.Restart == i {
			restartB()
			waitUntil(backoff, func() bool { return nt.heldLen() > 0 })
		}
		names := nt.heldNames()
		switch d.Act {
		case "tick":
			time.Sleep(backoff)
			res.trace = append(res.trace, "tick")
		case "data":
			// deliver a held application ciphertext ahead of everything else (data overtaking the handshake)
			nt.mu.Lock()
			pick := -1
			for i, m := range nt.held {
				if counterOf(m.data) >= 16 {
					pick = i
					break
				}
			}
			nt.mu.Unlock()
			if pick < 0 {
				res.trace = append(res.trace, "data(none held)")
				continue
			}
			m, _ := nt.takeHeld(pick, true)
			if m.to != a && m.to != b {
				continue
			}
			res.trace = append(res.trace, fmt.Sprintf("data-first %s:%s of %s", m.from.name, msgName(m.data), names))
			if pick > 0 {
				res.faults++
				sawDataBeforeDone = true
			}
			handle(m)
		case "deliver", "dup", "drop":
			m, ok := nt.takeHeld(d.Idx, d.Act != "dup")
			if !ok {
				res.trace = append(res.trace, d.Act+"(nothing held)")
				continue
			}
			if m.to != a && m.to != b {
				continue // addressed to a closed instance
			}
			if d.Idx%max(1, len(strings.Fields(names))) != 0 {
				res.faults++ // out of order
			}
			res.trace = append(res.trace, fmt.Sprintf("%s %s:%s of %s", d.Act, m.from.name, msgName(m.data), names))
			if d.Act == "drop" {
				res.faults++
				continue
			}
			if d.Act == "dup" {
				res.faults++
			}
			if counterOf(m.data) >= 16 {
				sawDataBeforeDone = true
			}
			handle(m)
		}
	}
	if c.Restart == len(c.Prefix) {
		restartB()
	}
	if restarted && c.LateSendB {
		startSend(b, "after-restart")
		time.Sleep(2 * time.Millisecond)
	}
	res.overtaking = sawDataBeforeDone
	res.heldAfter = nt.heldLen()
	// the network becomes reliable
	t0 := time.Now()
	nt.release()
	for _, p := range pend {
		if p.n.ch != a.ch && p.n.ch != b.ch {
			continue // a Send on the instance that was shut down; not required to finish
		}
		// patient limit: `threshold` on a responsive machine, longer if the machine stalled meanwhile
		err, returned := ev.PatientRecv(threshold, p.done)
		if returned && err != nil {
			res.problem = fmt.Sprintf("pending Send on %s failed after the network became reliable: %v", p.n.name, err)
			return res
		}
		if !returned {
			res.problem = fmt.Sprintf("pending Send on %s still blocked %v after the network became reliable (handshake backoff %v, reject-after %v)", p.n.name, threshold, backoff, cfg.reject)
			// The known finding class is recognised by the state of the blocked side at the time of the failure as
			// well: on a busy machine the survivor may process the old instance's RespHello (and emit InitDone) only
			// after the restart decision was taken, which is the same history in another interleaving.
			if keyIndex(a.ch.RemoteKey()) >= 0 {
				// the recorded finding is about a survivor that never completed its handshake with the old instance;
				// a survivor that did (the old instance's last message was still in flight and arrived) is another history
				res.knownKey = ""
			}
			// Second recorded finding: with a packet of the old instance still in flight, both sides can end up as
			// responders of hellos whose initiator sessions no longer exist (each answers with RespHello, nobody
			// holds the matching initiator state), and nothing renews the handshake before RejectAfter.
			if restarted && c.KeepInFlight && keyIndex(a.ch.RemoteKey()) < 0 && keyIndex(b.ch.RemoteKey()) < 0 {
				lastIsRespHello := func(n *node) bool {
					n.mu.Lock()
					defer n.mu.Unlock()
					return len(n.emitted) > 0 && counterOf(n.emitted[len(n.emitted)-1]) == 1
				}
				if lastIsRespHello(a) && lastIsRespHello(b) {
					res.knownKey = "mutual-responders-after-restart"
				}
			}
			if res.knownKey == "" && restarted && p.n == a && keyIndex(a.ch.RemoteKey()) < 0 {
				a.mu.Lock()
				for _, m := range a.emitted {
					if counterOf(m) == 2 {
						res.knownKey = "restart-while-initiator-awaits-RespDone"
					}
				}
				a.mu.Unlock()
			}
			return res
		}
	}
	res.converge = time.Since(t0)
	// traffic flows both ways
	for _, pair := range [][2]*node{{a, b}, {b, a}} {
		from, to := pair[0], pair[1]
		ok := false
		flowStart := time.Now()
		inTime := func() bool {
			el := time.Since(flowStart)
			return el < threshold || (ev.Stalled(flowStart) && el < ev.Extended(threshold))
		}
		for try := 0; inTime() && !ok; try++ {
			tag := fmt.Sprintf("flow%d", try)
			if err := from.send(tag, threshold); err != nil {
				res.problem = fmt.Sprintf("after convergence Send on %s failed: %v", from.name, err)
				return res
			}
			ok = waitUntil(5*backoff, func() bool { return to.gotPlain(from, tag) })
		}
		if !ok {
			res.problem = fmt.Sprintf("after convergence nothing sent by %s reaches %s within %v", from.name, to.name, threshold)
			return res
		}
	}
	if ps := nt.problems(); len(ps) > 0 {
		res.problem = strings.Join(ps, "\n")
	}
	return res
}

func TestC07Converge(t *testing.T) {
	const sub = "C07.converge_after_faults"
	ev.Rule(sub, "rapid: two real channels on a harness-owned wire that holds every message; who sends first in {A, B, both}; handshake backoff 10-40 ms; an adversarial prefix of up to 6 decisions, each {deliver, deliver-and-keep-a-copy, drop} applied to a chosen held message or one retransmission interval passing; optional restart of B (fresh channel, same key) before a generated step, the old instance's packets either vanishing with it or staying in flight; then the wire switches to prompt in-order delivery. Oracle: every pending Send returns nil within max(50 x backoff, 2 s) of the switch (reject-after is 10x that), then a tagged message flows each way. non-trivial = prefix with a drop, duplicate, out-of-order delivery, data overtaking the last handshake message, simultaneous initiation or a restart; distinct by case description")
	if replayC07(t) {
		return
	}
	rapid.Check(t, func(t *rapid.T) {
		c := c07case{Restart: -1}
		c.First = rapid.SampledFrom([]string{"A", "B", "AB", "AB"}).Draw(t, "first")
		c.Backoff = rapid.SampledFrom([]int{10, 20, 40}).Draw(t, "backoffMs")
		n := rapid.IntRange(0, 6).Draw(t, "prefixLen")
		if rapid.Bool().Draw(t, "advanceFirst") {
			// three in-order deliveries first, so that the interesting end of the handshake (RespDone vs data) is reached
			for i := 0; i < 3; i++ {
				c.Prefix = append(c.Prefix, decision{Act: "deliver", Idx: 0})
			}
		}
		for i := 0; i < n; i++ {
			c.Prefix = append(c.Prefix, decision{
				Act: rapid.SampledFrom([]string{"deliver", "deliver", "deliver", "dup", "drop", "tick", "data", "data"}).Draw(t, "act"),
				Idx: rapid.IntRange(0, 3).Draw(t, "idx"),
			})
		}
		if rapid.IntRange(0, 3).Draw(t, "withRestart") == 0 {
			c.Restart = rapid.IntRange(0, len(c.Prefix)).Draw(t, "restartAt")
			c.KeepInFlight = rapid.Bool().Draw(t, "oldPacketsStayInFlight")
			if c.KeepInFlight {
				c.DelayA = rapid.SampledFrom([]int{0, 0, 1000, 10000}).Draw(t, "delayAMicros")
				c.LateSendB = rapid.IntRange(0, 3).Draw(t, "lateSendB") == 0
			}
		}
		c.Direct = rapid.Bool().Draw(t, "direct")
		r := runC07(c)
		ev.Eval(sub)
		if r.faults > 0 || r.overtaking || c.First == "AB" || c.Restart >= 0 {
			if r.faults > 0 {
				ev.Class(sub, "loss/dup/reorder")
			}
			if r.overtaking {
				ev.Class(sub, "data-before-handshake-end")
			}
			if c.First == "AB" {
				ev.Class(sub, "simultaneous-initiation")
			}
			if c.Restart >= 0 {
				ev.Class(sub, "restart")
			}
			if ev.NonTrivial(sub, c.String()) {
				ev.Sample(sub, c.String()+" :: "+strings.Join(r.trace, "; "))
			}
		}
		if r.problem != "" {
			if r.knownKey != "" && ev.Known(sub, "C07", r.knownKey) {
				ev.Class(sub, "known-finding:"+r.knownKey)
				return
			}
			p := ev.SaveReplay(sub, c)
			t.Fatalf("%s\ncase: %v\ntrace: %s\nreplay: %s", r.problem, c, strings.Join(r.trace, "; "), p)
		}
	})
}

// replayC07 re-executes a saved case (the enumerators save theirs in the same form).
func replayC07(t *testing.T) bool {
	var replay c07case
	if !ev.ReplayCase("C07.converge_after_faults", &replay) {
		return false
	}
	if r := runC07(replay); r.problem != "" && !(r.knownKey != "" && ev.Known("C07.converge_after_faults", "C07", r.knownKey)) {
		t.Fatalf("%s\ncase %v\ntrace %v", r.problem, replay, r.trace)
	}
	return true
}

// TestC07RestartPoints enumerates the moments at which the peer can be replaced during and right after a handshake,
// with the old instance's packets still in the network.
func TestC07RestartPoints(t *testing.T) {
	const sub = "C07.restart_points"
	tail := 1
	if ev.Thorough() {
		tail = 3
	}
	ev.Rule(sub, fmt.Sprintf("exhaustive: first sender in {A, B, AB} x k = 0..5 in-order deliveries x restart of B (fresh channel, same key, with something to send) with the old instance's undelivered packets vanishing or staying in flight x every sequence of up to %d further decisions {deliver held message 0..2} (old RespHello / RespDone / data reaching the survivor after the restart, the new instance's hello before or after them); then the wire is reliable; in addition, without a restart, first sender in {A, B, AB} x k = 0..5 in-order deliveries x {the next message in flight is lost, duplicated} (the loss of each handshake message in turn, with one-way traffic); synchronous delivery, backoff 40 ms. Oracle as converge_after_faults (instances of the recorded finding restart-while-initiator-awaits-RespDone are counted, not judged). non-trivial = an old instance's packet delivered after the restart, or a single loss/duplicate; every path distinct", tail))
	if replayC07(t) {
		return
	}
	var jobs []c07case
	var rec func(base c07case, depth int)
	rec = func(base c07case, depth int) {
		jobs = append(jobs, base)
		if depth == 0 {
			return
		}
		for i := 0; i < 3; i++ {
			c := base
			c.Prefix = append(append([]decision{}, base.Prefix...), decision{Act: "deliver", Idx: i})
			rec(c, depth-1)
		}
	}
	for _, first := range []string{"A", "B", "AB"} {
		for k := 0; k <= 5; k++ {
			for _, keep := range []bool{false, true} {
				c := c07case{First: first, Backoff: 40, Restart: k, Direct: true, KeepInFlight: keep}
				for i := 0; i < k; i++ {
					c.Prefix = append(c.Prefix, decision{Act: "deliver", Idx: 0})
				}
				rec(c, tail)
			}
		}
	}
	// single faults at every point of an otherwise in-order handshake, no restart: the k-th message in flight is lost
	// or duplicated (one-way traffic: only the first sender has anything to say)
	var lossJobs int64
	for _, first := range []string{"A", "B", "AB"} {
		for k := 0; k <= 5; k++ {
			for _, act := range []string{"drop", "dup"} {
				for idx := 0; idx < 2; idx++ {
					c := c07case{First: first, Backoff: 40, Restart: -1, Direct: true}
					for i := 0; i < k; i++ {
						c.Prefix = append(c.Prefix, decision{Act: "deliver", Idx: 0})
					}
					c.Prefix = append(c.Prefix, decision{Act: act, Idx: idx})
					jobs = append(jobs, c)
					lossJobs++
				}
			}
		}
	}
	var mu sync.Mutex
	var firstProblem string
	var firstCase c07case
	var total, nontriv, known int64
	sem := make(chan struct{}, 12)
	var wg sync.WaitGroup
	for _, c := range jobs {
		c := c
		wg.Add(1)
		go func() {
			defer wg.Done()
			sem <- struct{}{}
			defer func() { <-sem }()
			mu.Lock()
			stop := firstProblem != ""
			mu.Unlock()
			if stop {
				return
			}
			r := runC07(c)
			atomic.AddInt64(&total, 1)
			oldAfter := false
			seenRestart := false
			for _, tr := range r.trace {
				if tr == "restart B" {
					seenRestart = true
				} else if seenRestart && strings.HasPrefix(tr, "deliver B:") && c.KeepInFlight {
					oldAfter = true
				}
			}
			if oldAfter || (c.Restart < 0 && r.faults > 0) {
				atomic.AddInt64(&nontriv, 1)
				if ev.WantSample(sub) {
					ev.Sample(sub, c.String()+" :: "+strings.Join(r.trace, "; "))
				}
			}
			if r.problem != "" {
				if r.knownKey != "" && ev.Known(sub, "C07", r.knownKey) {
					atomic.AddInt64(&known, 1)
					return
				}
				mu.Lock()
				if firstProblem == "" {
					firstProblem, firstCase = r.problem+"\ntrace: "+strings.Join(r.trace, "; "), c
				}
				mu.Unlock()
			}
		}()
	}
	wg.Wait()
	ev.EvalN(sub, total)
	ev.Extra(sub, "distinct_nontrivial_counted", nontriv)
	if known > 0 {
		ev.ClassN(sub, "known-finding:restart-while-initiator-awaits-RespDone", known)
	}
	if firstProblem != "" {
		p := ev.SaveReplay("C07.converge_after_faults", firstCase)
		t.Fatalf("%s\ncase: %v\nreplay: %s", firstProblem, firstCase, p)
	}
	ev.Exhaustive(sub, fmt.Sprintf("%d restart histories", total))
}

// TestC07PrefixTree enumerates the decision tree of adversarial prefixes.
func TestC07PrefixTree(t *testing.T) {
	const sub = "C07.prefix_tree"
	depth := 3
	if ev.Thorough() {
		depth = 4
	}
	ev.Rule(sub, fmt.Sprintf("exhaustive: the decision tree of adversarial prefixes up to depth %d for first sender in {A, AB}: at each step every held message x {deliver, duplicate, drop}; synchronous delivery and a 40 ms backoff keep the held set deterministic; oracle as converge_after_faults; every path is distinct; non-trivial = path containing a drop, duplicate or out-of-order delivery", depth))
	if replayC07(t) {
		return
	}
	acts := []string{"deliver", "dup", "drop"}
	var total, nontriv int64
	var mu sync.Mutex
	var firstProblem string
	var firstCase c07case
	sem := make(chan struct{}, 12)
	var wg sync.WaitGroup
	var rec func(first string, prefix []decision)
	rec = func(first string, prefix []decision) {
		mu.Lock()
		stop := firstProblem != ""
		mu.Unlock()
		if stop {
			return
		}
		c := c07case{First: first, Backoff: 40, Prefix: prefix, Restart: -1, Direct: true}
		sem <- struct{}{}
		r := runC07(c)
		<-sem
		atomic.AddInt64(&total, 1)
		if r.faults > 0 {
			atomic.AddInt64(&nontriv, 1)
			if len(prefix) == depth && ev.WantSample(sub) {
				ev.Sample(sub, c.String()+" :: "+strings.Join(r.trace, "; "))
			}
		}
		if r.problem != "" {
			mu.Lock()
			if firstProblem == "" {
				firstProblem, firstCase = r.problem+"\ntrace: "+strings.Join(r.trace, "; "), c
			}
			mu.Unlock()
			return
		}
		if len(prefix) >= depth || r.heldAfter == 0 {
			return
		}
		held := r.heldAfter
		if held > 3 {
			held = 3
		}
		for i := 0; i < held; i++ {
			for _, act := range acts {
				child := append(append([]decision{}, prefix...), decision{Act: act, Idx: i})
				wg.Add(1)
				go func() {
					defer wg.Done()
					rec(first, child)
				}()
			}
		}
	}
	for _, first := range []string{"A", "AB"} {
		first := first
		wg.Add(1)
		go func() {
			defer wg.Done()
			rec(first, nil)
		}()
	}
	wg.Wait()
	ev.EvalN(sub, total)
	ev.Extra(sub, "distinct_nontrivial_counted", nontriv)
	ev.Extra(sub, "depth", depth)
	if firstProblem != "" {
		p := ev.SaveReplay("C07.converge_after_faults", firstCase)
		t.Fatalf("%s\ncase: %v\nreplay: %s", firstProblem, firstCase, p)
	}
	ev.Exhaustive(sub, fmt.Sprintf("%d prefixes to depth %d", total, depth))
}

func TestC07RekeyFlow(t *testing.T) {
	const sub = "C07.rekey_flow"
	ev.Rule(sub, "rapid: two channels on a prompt loss-free wire, rekey interval 60-150 ms, reject-after 5 s, tagged messages sent both ways every 5-20 ms for 4-6 rekey intervals. Oracle: every Send returns nil within 2 s, every tagged message is delivered exactly once, at least 3 rekeys (InitHello messages) happened. non-trivial = >= 3 rekeys crossed by traffic; distinct by (intervals, message count)")
	rapid.Check(t, func(t *rapid.T) {
		rekeyMs := rapid.SampledFrom([]int{60, 100, 150}).Draw(t, "rekeyMs")
		gapMs := rapid.SampledFrom([]int{5, 10, 20}).Draw(t, "gapMs")
		rounds := rapid.IntRange(4, 6).Draw(t, "rekeyIntervals")
		first := rapid.SampledFrom([]string{"A", "B"}).Draw(t, "first")
		cfg := chanCfg{backoff: 10 * time.Millisecond, keepAlive: time.Minute, rekey: time.Duration(rekeyMs) * time.Millisecond, reject: 5 * time.Second}
		nt := newNet()
		defer nt.close()
		a := nt.addNode("A", kA, acceptAll, cfg)
		b := nt.addNode("B", kB, acceptAll, cfg)
		nt.link(a, b)
		nt.link(b, a)
		desc := fmt.Sprintf("rekey=%dms gap=%dms intervals=%d first=%s", rekeyMs, gapMs, rounds, first)
		fail := func(f string, args ...any) {
			nt.close()
			t.Fatalf("%s\ncase: %s", fmt.Sprintf(f, args...), desc)
		}
		x, y := a, b
		if first == "B" {
			x, y = b, a
		}
		caseStart := time.Now()
		if err := x.send("m0", 2*time.Second); err != nil {
			fail("initial Send failed: %v", err)
		}
		n := 0
		end := time.Now().Add(time.Duration(rounds*rekeyMs) * time.Millisecond)
		for time.Now().Before(end) {
			n++
			tag := fmt.Sprintf("m%d", n)
			if err := x.send(tag, 2*time.Second); err != nil {
				fail("%s.Send(%s) failed across rekeys: %v", x.name, tag, err)
			}
			if err := y.send(tag, 2*time.Second); err != nil {
				fail("%s.Send(%s) failed across rekeys: %v", y.name, tag, err)
			}
			time.Sleep(time.Duration(gapMs) * time.Millisecond)
		}
		ok := waitUntil(2*time.Second, func() bool { return y.gotPlain(x, fmt.Sprintf("m%d", n)) && x.gotPlain(y, fmt.Sprintf("m%d", n)) })
		_ = ok
		for i := 1; i <= n; i++ {
			tag := fmt.Sprintf("m%d", i)
			for _, pr := range [][2]*node{{x, y}, {y, x}} {
				pt := fmt.Sprintf("%s|%s|0123456789abcdef", pr[0].name, tag)
				if c := pr[1].countGot(pt); c != 1 {
					if c == 0 && ev.MaxLagSince(caseStart) > time.Duration(rekeyMs)*time.Millisecond/2 {
						// a ciphertext that is held up for about two rekey intervals between Send and Deliver
						// outlives the sessions its receiver keeps: on a stalled machine a loss is legitimate
						ev.Class(sub, "not-judged:machine-stalled-for-half-a-rekey-interval")
						return
					}
					fail("message %s from %s was delivered %d times on a loss-free wire (%d messages each way)", tag, pr[0].name, c, n)
				}
			}
		}
		hellos := atomic.LoadInt64(&a.initHello) + atomic.LoadInt64(&b.initHello)
		ev.Eval(sub)
		ev.Class(sub, fmt.Sprintf("rekeys>=%d", min(int(hellos-1), 5)))
		if hellos-1 >= 3 {
			if ev.NonTrivial(sub, fmt.Sprintf("%s n=%d", desc, n)) {
				ev.Sample(sub, fmt.Sprintf("%s messages=%d initHellos=%d", desc, n, hellos))
			}
		}
		if ps := nt.problems(); len(ps) > 0 {
			fail("%s", strings.Join(ps, "\n"))
		}
	})
}

func TestC07NoIdleTeardown(t *testing.T) {
	const sub = "C07.no_idle_teardown"
	ev.Rule(sub, "rapid: two channels on a prompt wire, keep-alive timeout 150-300 ms, rekey disabled (1 h), steady bidirectional (or one-directional) tagged traffic every 10-30 ms for 5 keep-alive timeouts. Oracle: no InitHello is sent after both sides hold a ready session (a session that keeps receiving authenticated traffic is not torn down), all Sends succeed, every message delivered. non-trivial = traffic lasted >= 5 keep-alive timeouts; distinct by (timeout, gap, direction)")
	rapid.Check(t, func(t *rapid.T) {
		kaMs := rapid.SampledFrom([]int{150, 200, 300}).Draw(t, "keepAliveMs")
		gapMs := rapid.SampledFrom([]int{10, 20, 30}).Draw(t, "gapMs")
		bidi := rapid.Bool().Draw(t, "bidirectional")
		cfg := chanCfg{backoff: 10 * time.Millisecond, keepAlive: time.Duration(kaMs) * time.Millisecond, rekey: time.Hour, reject: time.Minute}
		nt := newNet()
		defer nt.close()
		a := nt.addNode("A", kA, acceptAll, cfg)
		b := nt.addNode("B", kB, acceptAll, cfg)
		nt.link(a, b)
		nt.link(b, a)
		desc := fmt.Sprintf("keepAlive=%dms gap=%dms bidi=%v", kaMs, gapMs, bidi)
		fail := func(f string, args ...any) {
			nt.close()
			t.Fatalf("%s\ncase: %s", fmt.Sprintf(f, args...), desc)
		}
		if err := a.send("m0", 2*time.Second); err != nil {
			fail("initial Send failed: %v", err)
		}
		if err := b.send("m0", 2*time.Second); err != nil {
			fail("initial Send failed: %v", err)
		}
		// The first handshake may retransmit its InitHello (back-off 10 ms) on a loaded machine; only
		// InitHellos sent after both sides hold a ready session count as a new handshake.
		ha0, hb0 := atomic.LoadInt64(&a.initHello), atomic.LoadInt64(&b.initHello)
		n := 0
		end := time.Now().Add(time.Duration(5*kaMs) * time.Millisecond)
		for time.Now().Before(end) {
			n++
			tag := fmt.Sprintf("m%d", n)
			// both sides keep *receiving* authenticated traffic only when traffic is bidirectional;
			// with one-directional traffic only the receiver is required to stay up, so the oracle below
			// counts InitHellos of the receiving side only.
			if err := a.send(tag, 2*time.Second); err != nil {
				fail("A.Send failed under steady traffic: %v", err)
			}
			if bidi {
				if err := b.send(tag, 2*time.Second); err != nil {
					fail("B.Send failed under steady traffic: %v", err)
				}
			}
			time.Sleep(time.Duration(gapMs) * time.Millisecond)
		}
		ev.Eval(sub)
		ha, hb := atomic.LoadInt64(&a.initHello)-ha0, atomic.LoadInt64(&b.initHello)-hb0
		// The oracle only applies if traffic really was steady as seen by the receivers: under machine
		// load the harness itself can stall longer than the keep-alive timeout, which makes a teardown legitimate.
		maxGap := func(n *node) time.Duration {
			n.mu.Lock()
			defer n.mu.Unlock()
			var g time.Duration
			for i := 1; i < len(n.got); i++ {
				if d := n.got[i].at.Sub(n.got[i-1].at); d > g {
					g = d
				}
			}
			if len(n.got) > 0 {
				if d := time.Since(n.got[len(n.got)-1].at); d > g {
					g = d
				}
			}
			return g
		}
		limit := time.Duration(kaMs) * time.Millisecond / 2
		if g := maxGap(b); g > limit || (bidi && maxGap(a) > limit) {
			ev.Class(sub, "not-judged:harness-stalled-longer-than-half-keepalive")
			return
		}
		if ev.NonTrivial(sub, desc) {
			ev.Sample(sub, fmt.Sprintf("%s messages=%d", desc, n))
		}
		if bidi {
			if ha+hb != 0 {
				fail("steady bidirectional traffic for 5 keep-alive timeouts, yet %d further InitHello messages were sent (A %d, B %d): the session was torn down for idleness while receiving traffic", ha+hb, ha, hb)
			}
		} else if hb != 0 {
			fail("B kept receiving authenticated traffic, yet it started %d new handshakes", hb)
		}
	})
}

// TestC07LateDuplicates: the network re-delivers old handshake messages after the handshake is long over
// (datagram networks duplicate and delay), the channel then goes idle past its keep-alive time-out, and
// both sides send again. Old messages must not leave state behind that keeps a new handshake from starting.
func TestC07LateDuplicates(t *testing.T) {
	const sub = "C07.late_duplicates_then_idle"
	ev.Rule(sub, "rapid: two channels on a prompt wire (keep-alive 60-120 ms, rekey disabled, handshake backoff 10 ms); after the first exchange the harness re-delivers a generated selection (1-8) of the handshake messages both sides emitted so far (InitHello, RespHello, InitDone, RespDone; also across a second handshake) to their original recipients, optionally with traffic in between; then nothing is sent for 1.5-3 keep-alive time-outs so that the session expires; then one or both sides send. Oracle: every Send after the idle period returns nil within max(50 x backoff, 2 s) (patient limit), the messages arrive, and the per-delivery safety oracles of the channel network hold. non-trivial = at least one old InitHello re-delivered after completion; distinct by (selection, idle, senders)")
	rapid.Check(t, func(t *rapid.T) {
		kaMs := rapid.SampledFrom([]int{60, 80, 120}).Draw(t, "keepAliveMs")
		cfg := chanCfg{backoff: 10 * time.Millisecond, keepAlive: time.Duration(kaMs) * time.Millisecond, rekey: time.Hour, reject: time.Minute}
		nt := newNet()
		defer nt.close()
		a := nt.addNode("A", kA, acceptAll, cfg)
		b := nt.addNode("B", kB, acceptAll, cfg)
		nt.link(a, b)
		nt.link(b, a)
		first := rapid.SampledFrom([]string{"A", "B"}).Draw(t, "first")
		x, y := a, b
		if first == "B" {
			x, y = b, a
		}
		var desc []string
		fail := func(f string, args ...any) {
			nt.close()
			t.Fatalf("%s\ncase: keepAlive=%dms first=%s %s", fmt.Sprintf(f, args...), kaMs, first, strings.Join(desc, " "))
		}
		if err := x.send("m0", 2*time.Second); err != nil {
			fail("initial Send failed: %v", err)
		}
		if err := y.send("m0", 2*time.Second); err != nil {
			fail("initial Send failed: %v", err)
		}
		handshakeMsgs := func(n *node) [][]byte {
			n.mu.Lock()
			defer n.mu.Unlock()
			var out [][]byte
			for _, m := range n.emitted {
				if counterOf(m) < 16 {
					out = append(out, m)
				}
			}
			return out
		}
		oldHello := false
		k := rapid.IntRange(1, 8).Draw(t, "replays")
		for i := 0; i < k; i++ {
			from, to := a, b
			if rapid.Bool().Draw(t, "fromB") {
				from, to = b, a
			}
			hs := handshakeMsgs(from)
			if len(hs) == 0 {
				continue
			}
			m := hs[rapid.IntRange(0, len(hs)-1).Draw(t, "which")]
			desc = append(desc, fmt.Sprintf("redeliver(%s:%s)", from.name, msgName(m)))
			if counterOf(m) == 0 {
				oldHello = true
			}
			nt.deliverNow(wireMsg{from: from, to: to, data: m})
			if rapid.IntRange(0, 3).Draw(t, "trafficBetween") == 0 {
				desc = append(desc, "traffic")
				if err := x.send(fmt.Sprintf("t%d", i), 2*time.Second); err != nil {
					fail("Send between re-deliveries failed: %v", err)
				}
			}
			time.Sleep(time.Duration(rapid.IntRange(0, 3).Draw(t, "gapMs")) * time.Millisecond)
		}
		idle := time.Duration(kaMs) * time.Millisecond * time.Duration(rapid.IntRange(3, 6).Draw(t, "idleHalves")) / 2
		desc = append(desc, fmt.Sprintf("idle=%v", idle))
		time.Sleep(idle)
		who := rapid.SampledFrom([]string{"A", "B", "AB", "BA"}).Draw(t, "senders")
		desc = append(desc, "send="+who)
		const threshold = 2 * time.Second
		for i, c := range who {
			n, peer := a, b
			if c == 'B' {
				n, peer = b, a
			}
			tag := fmt.Sprintf("after-idle-%d", i)
			if err := n.send(tag, threshold); err != nil {
				fail("%s.Send after the idle period failed: %v (InitHellos so far: A %d, B %d)", n.name, err, atomic.LoadInt64(&a.initHello), atomic.LoadInt64(&b.initHello))
			}
			if !waitUntil(threshold, func() bool { return peer.gotPlain(n, tag) }) {
				fail("%s's message after the idle period did not arrive", n.name)
			}
		}
		ev.Eval(sub)
		if ps := nt.problems(); len(ps) > 0 {
			fail("%s", strings.Join(ps, "\n"))
		}
		if oldHello {
			d := strings.Join(desc, " ")
			if ev.NonTrivial(sub, d) {
				ev.Sample(sub, fmt.Sprintf("keepAlive=%dms first=%s %s", kaMs, first, d))
			}
		}
	})
}

// TestC07OutageBeyondReject: the network is down for longer than a handshake attempt is allowed to live
// (RejectAfterTime) while a Send is waiting; once it is back, the waiting Send must get through.
func TestC07OutageBeyondReject(t *testing.T) {
	const sub = "C07.outage_beyond_reject_after"
	ev.Rule(sub, "rapid: two channels, handshake backoff 10 ms, RejectAfterTime 150-300 ms, RekeyAfterTime 1 h (longer than RejectAfterTime), optionally an established session first; the wire drops everything for 1.2-3 RejectAfterTime while one or both sides are blocked in Send; then the wire delivers promptly. Oracle: every pending Send returns nil within max(50 x backoff, 2 s) of the wire coming back (patient limit) (whether the message itself or a later one then arrives within the same limit is recorded as a class: sessions live only 150-300 ms here). non-trivial = outage longer than RejectAfterTime with a Send pending throughout; distinct by parameters")
	rapid.Check(t, func(t *rapid.T) {
		rejectMs := rapid.SampledFrom([]int{150, 200, 300}).Draw(t, "rejectAfterMs")
		outage := time.Duration(rejectMs) * time.Millisecond * time.Duration(rapid.IntRange(12, 30).Draw(t, "outageTenths")) / 10
		who := rapid.SampledFrom([]string{"A", "B", "AB"}).Draw(t, "senders")
		established := rapid.Bool().Draw(t, "establishedBefore")
		desc := fmt.Sprintf("rejectAfter=%dms outage=%v senders=%s establishedBefore=%v", rejectMs, outage, who, established)
		cfg := chanCfg{backoff: 10 * time.Millisecond, keepAlive: time.Minute, rekey: time.Hour, reject: time.Duration(rejectMs) * time.Millisecond}
		nt := newNet()
		defer nt.close()
		a := nt.addNode("A", kA, acceptAll, cfg)
		b := nt.addNode("B", kB, acceptAll, cfg)
		nt.link(a, b)
		nt.link(b, a)
		fail := func(f string, args ...any) {
			nt.close()
			t.Fatalf("%s\ncase: %s", fmt.Sprintf(f, args...), desc)
		}
		if established {
			if err := a.send("m0", 2*time.Second); err != nil {
				fail("initial Send failed: %v", err)
			}
			// let the established session run out (RejectAfterTime), so that the next Send needs a new handshake
			time.Sleep(time.Duration(rejectMs)*time.Millisecond + 20*time.Millisecond)
		}
		var down atomic.Bool
		down.Store(true)
		nt.mu.Lock()
		nt.drop = func(*node, []byte) bool { return down.Load() }
		nt.mu.Unlock()
		type pend struct {
			n    *node
			done chan error
		}
		var ps []pend
		for _, c := range who {
			n := a
			if c == 'B' {
				n = b
			}
			p := pend{n, make(chan error, 1)}
			ps = append(ps, p)
			go func() {
				// With RejectAfterTime this short a session can expire between the moment Send picked it and the
				// moment it encrypts; Send then reports "session expired", which is an answer, not a hang: the
				// caller tries again.
				var err error
				for try := 0; try < 5; try++ {
					err = n.send("through-the-outage", outage+30*time.Second)
					if err == nil || !strings.Contains(err.Error(), "expired") {
						break
					}
				}
				p.done <- err
			}()
		}
		time.Sleep(outage)
		down.Store(false)
		wireBack := time.Now()
		const threshold = 2 * time.Second
		for _, p := range ps {
			err, returned := ev.PatientRecv(threshold, p.done)
			if !returned && ev.Stalled(wireBack) {
				// A handshake attempt lives RejectAfterTime (150-300 ms here). On a machine whose goroutines wait tens of
				// milliseconds for a CPU (seen at load average 300) four messages do not get through in that time, every
				// attempt expires and is renewed, and the Send waits for as long as the machine stays that busy. That is
				// the configuration outrunning the machine, not a Send that is never released: the case is not judged.
				ev.Class(sub, "not-judged:machine-stalled-handshakes-outlive-reject-after")
				nt.close()
				return
			}
			if !returned {
				fail("the Send that %s started before the outage is still blocked %v after the wire came back (InitHellos so far: A %d, B %d)", p.n.name, threshold, atomic.LoadInt64(&a.initHello), atomic.LoadInt64(&b.initHello))
			}
			if err != nil {
				fail("the Send that %s started before the outage failed after the wire came back: %v", p.n.name, err)
			}
			peer := b
			if p.n == b {
				peer = a
			}
			// Send returning nil does not promise delivery of that one datagram (with both sides initiating, the
			// session it was encrypted under may lose the tie-break); what is required is that traffic flows
			// again, as in converge_after_faults
			flowStart := time.Now()
			arrived := peer.gotPlain(p.n, "through-the-outage")
			for try := 0; !arrived; try++ {
				el := time.Since(flowStart)
				if el > threshold && !(ev.Stalled(flowStart) && el < ev.Extended(threshold)) {
					break
				}
				tag := fmt.Sprintf("flow-after-outage-%d", try)
				if err := p.n.send(tag, threshold); err != nil && !strings.Contains(err.Error(), "expired") {
					fail("after the outage a further Send on %s failed: %v", p.n.name, err)
				}
				arrived = waitUntil(50*time.Millisecond, func() bool { return peer.gotPlain(p.n, tag) })
			}
			if !arrived {
				// Sessions live only 150-300 ms in this configuration; on a busy machine a handshake can take a good
				// part of that, so that ciphertexts are already stale when they arrive. The clause that decides this
				// sub-property is the pending Send above; flow is recorded.
				ev.Class(sub, "flow-not-confirmed-with-short-lived-sessions")
			}
		}
		ev.Eval(sub)
		if probs := nt.problems(); len(probs) > 0 {
			fail("%s", strings.Join(probs, "\n"))
		}
		if ev.NonTrivial(sub, desc) {
			ev.Sample(sub, desc)
		}
	})
}
