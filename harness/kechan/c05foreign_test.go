package kechan

import (
	"fmt"
	"strings"
	"sync"
	"sync/atomic"
	"testing"
	"time"

	"go.brendoncarroll.net/p2p/f/x509"
	"go.brendoncarroll.net/p2p/p/p2pke"
	"go.brendoncarroll.net/tai64"
	"pgregory.net/rapid"

	"verif/harness/internal/adv/kefake"
	"verif/harness/internal/ev"
)

// TestC05ForeignHelloThenPeerRekey: "a handshake presenting any other key is refused without disturbing the
// established session" - the relation with the bound key has to survive the refusal, including the bound peer's
// next handshake. A and B establish; self-signed InitHellos of keys that are not B's (dated in the past, now or
// ahead of every honest clock) are delivered to A; afterwards only B rotates (A's rekey interval is an hour), the
// session in use when the hellos arrived runs out, and what B sends must still arrive.
func TestC05ForeignHelloThenPeerRekey(t *testing.T) {
	const sub = "C05.foreign_hello_then_peer_rekey"
	ev.Rule(sub, "rapid: channels A and B (predicates from {all, only the peer}) establish with A, B or both initiating; then 1-4 self-signed InitHellos from keys other than B's (a key the predicate would accept or one it rejects), timestamped from {an hour ago, now, +2 s, +1 h, +10 years}, built from first principles, reach A, optionally interleaved with traffic; B's rekey interval is 150 ms and A's an hour, so every later handshake is initiated by B; RejectAfterTime is 600 ms. After 800 ms (the session that was current when the hellos arrived has run out) B sends. Oracle: A never reports another key than B's, delivers nothing but B's plaintexts, and B's late message arrives within the patient window; non-trivial = at least one foreign hello dated ahead of B's clock; distinct by (predicate, initiators, hello script)")
	rapid.Check(t, func(t *rapid.T) {
		pa := rapid.SampledFrom([]predicate{{"all", func(int) bool { return true }}, {"onlyB", func(i int) bool { return i == kB }}}).Draw(t, "acceptA")
		initiators := rapid.SampledFrom([]string{"A", "B", "AB"}).Draw(t, "initiators")
		nHello := rapid.IntRange(1, 4).Draw(t, "foreignHellos")
		type fh struct {
			key   int
			when  string
			delta time.Duration
		}
		whens := []fh{{0, "-1h", -time.Hour}, {0, "now", 0}, {0, "+2s", 2 * time.Second}, {0, "+1h", time.Hour}, {0, "+10y", 87600 * time.Hour}}
		var hellos []fh
		ahead := false
		for i := 0; i < nHello; i++ {
			h := rapid.SampledFrom(whens).Draw(t, "dated")
			h.key = rapid.SampledFrom([]int{5, 6}).Draw(t, "foreignKey") // identities of the forger's key space; A's predicate sees them as unknown (-1)
			hellos = append(hellos, h)
			if h.delta > 0 {
				ahead = true
			}
		}
		trafficBetween := rapid.Bool().Draw(t, "trafficBetween")
		var hs []string
		for _, h := range hellos {
			hs = append(hs, fmt.Sprintf("K%d@%s", h.key, h.when))
		}
		desc := fmt.Sprintf("A:%s init=%s hellos=%s traffic=%v", pa.name, initiators, strings.Join(hs, ","), trafficBetween)
		ev.Eval(sub)
		cfgA := chanCfg{backoff: 5 * time.Millisecond, keepAlive: 5 * time.Second, rekey: time.Hour, reject: 600 * time.Millisecond}
		cfgB := cfgA
		cfgB.rekey = 150 * time.Millisecond
		nt := newNet()
		a := nt.addNode("A", kA, pa.fn, cfgA)
		b := nt.addNode("B", kB, func(i int) bool { return i == kA }, cfgB)
		x := nt.addNode("X", kC, func(int) bool { return false }, cfgA) // only the name under which the foreign hellos arrive
		defer nt.close()
		nt.link(a, b)
		nt.link(b, a)
		fail := func(f string, args ...any) {
			nt.close()
			t.Fatalf("%s\ncase: %s\nkeys: A=%v B=%v", fmt.Sprintf(f, args...), desc, a.keyLog, b.keyLog)
		}
		const window = 300 * time.Millisecond
		var wg sync.WaitGroup
		errs := make([]error, 2)
		if strings.Contains(initiators, "A") {
			wg.Add(1)
			go func() { defer wg.Done(); errs[0] = a.send("r1", window) }()
		}
		if strings.Contains(initiators, "B") {
			wg.Add(1)
			go func() { defer wg.Done(); errs[1] = b.send("r1", window) }()
		}
		wg.Wait()
		if errs[0] != nil || errs[1] != nil {
			fail("A and B accept each other, yet the first sends failed: %v %v", errs[0], errs[1])
		}
		if !waitUntil(window, func() bool { return a.observeKey() == kB && b.observeKey() == kA }) {
			fail("A and B accept each other, yet keys are A->K%d B->K%d", a.observeKey(), b.observeKey())
		}
		for i, h := range hellos {
			ts := tai64.FromGoTime(time.Now().Add(h.delta)).Marshal()
			p := kefake.NewPeer(true)
			hello := p.InitHello(ts[:], kefake.MarshalKey(h.key), kefake.SignAs(h.key, kefake.PurposeTS, ts[:]))
			nt.deliverNow(wireMsg{from: x, to: a, data: hello})
			if trafficBetween {
				if err := b.send(fmt.Sprintf("between-%d", i), window); err != nil {
					fail("B.Send right after a foreign hello failed: %v", err)
				}
			}
		}
		rotationStart := time.Now()
		time.Sleep(800 * time.Millisecond)
		if ev.Stalled(rotationStart) {
			ev.Class(sub, "not-judged: machine stalled during the rotation period")
			return
		}
		if err := b.send("late", window); err != nil {
			fail("the bound peer's Send after the refused hellos and its own rotation failed: %v", err)
		}
		if !waitUntil(window, func() bool { return a.gotPlain(b, "late") }) {
			fail("a message of the bound peer sent after the refused hellos (and after the session of that time ran out) was not delivered")
		}
		if k := a.observeKey(); k != kB {
			fail("A reports RemoteKey K%d after foreign hellos, was bound to B", k)
		}
		if ps := nt.problems(); len(ps) > 0 {
			fail("%s", strings.Join(ps, "\n"))
		}
		if ahead {
			ev.Class(sub, "foreign-hello-dated-ahead")
			if ev.NonTrivial(sub, desc) {
				ev.Sample(sub, desc)
			}
		}
	})
}

// TestC05ConcurrentHelloRace: first contact on one channel with deliveries made by several goroutines, as a swarm's
// receive workers make them. Peer P's handshake is one message short of completion when a hello of another
// acceptable peer Q is delivered at (nearly) the same instant as P's InitDone; Q then completes its own handshake
// if it was answered. Whatever the interleaving, the key the channel reports never changes once set, and data is
// only delivered from that key.
func TestC05ConcurrentHelloRace(t *testing.T) {
	const sub = "C05.concurrent_hello_race"
	ev.Rule(sub, "rapid: a responder channel R that accepts every key; initiator sessions P and Q with different keys (driven message by message by the harness). P's InitHello is answered; then Q's InitHello and P's InitDone are handed to R.Deliver by two goroutines released together with a generated offset of 0-400 us in either direction (optionally a third goroutine delivers a duplicate of Q's hello); every RespHello R emits is fed to the session it answers and the resulting InitDone and one data message are delivered. Oracle: RemoteKey() observed after every Deliver never changes once set (poller goroutine too); application data is accepted only from the key reported; non-trivial = both hellos were answered by R (the race had two live candidates); distinct by (offset bucket, order, duplicate)")
	rapid.Check(t, func(t *rapid.T) {
		offUS := rapid.IntRange(-400, 400).Draw(t, "offsetMicros")
		dup := rapid.Bool().Draw(t, "duplicateHello")
		ev.Eval(sub)
		now := time.Now()
		mk := func(k int) *p2pke.Session {
			return p2pke.NewSession(p2pke.SessionConfig{Registry: reg, PrivateKey: testKey(k), IsInit: true, Now: now, RejectAfter: time.Minute, Logger: nopLog})
		}
		P, Q := mk(kB), mk(kC)
		var omu sync.Mutex
		var out [][]byte
		R := p2pke.NewChannel(p2pke.ChannelConfig{
			Registry: reg, PrivateKey: testKey(kA), Logger: nopLog,
			AcceptKey: func(*x509.PublicKey) bool { return true },
			Send: func(d []byte) {
				omu.Lock()
				out = append(out, append([]byte{}, d...))
				omu.Unlock()
			},
			KeepAliveTimeout: time.Minute, HandshakeBackoff: time.Hour, RekeyAfterTime: time.Hour, RejectAfterTime: time.Hour,
		})
		defer R.Close()
		var kmu sync.Mutex
		var keyLog []int
		observe := func() {
			kmu.Lock() // observations are serialised: the log order is the order in which the key was read
			k := keyIndex(R.RemoteKey())
			if len(keyLog) == 0 || keyLog[len(keyLog)-1] != k {
				keyLog = append(keyLog, k)
			}
			kmu.Unlock()
		}
		var problems []string
		deliver := func(msg []byte, from int) {
			pt, err := R.Deliver(nil, append([]byte{}, msg...))
			kmu.Lock()
			k := keyIndex(R.RemoteKey())
			if err == nil && pt != nil && k != from {
				problems = append(problems, fmt.Sprintf("R delivered application data %q of K%d while reporting RemoteKey K%d", pt, from, k))
			}
			kmu.Unlock()
			observe()
		}
		take := func() [][]byte {
			omu.Lock()
			defer omu.Unlock()
			o := out
			out = nil
			return o
		}
		helloP, helloQ := P.Handshake(nil), Q.Handshake(nil)
		deliver(helloP, kB)
		var doneP []byte
		for _, o := range take() {
			if counterOf(o) == 1 {
				if _, resp, err := P.Deliver(nil, o, now); err == nil && len(resp) > 0 {
					doneP = append([]byte{}, resp...)
				}
			}
		}
		if doneP == nil {
			t.Fatalf("harness: R did not answer the first InitHello")
		}
		var stop atomic.Bool
		var pw sync.WaitGroup
		pw.Add(1)
		go func() {
			defer pw.Done()
			for !stop.Load() {
				observe()
			}
		}()
		var wg sync.WaitGroup
		gate := make(chan struct{})
		spin := func(us int) {
			end := time.Now().Add(time.Duration(us) * time.Microsecond)
			for time.Now().Before(end) {
			}
		}
		wg.Add(2)
		go func() {
			defer wg.Done()
			<-gate
			if offUS < 0 {
				spin(-offUS)
			}
			deliver(helloQ, kC)
		}()
		go func() {
			defer wg.Done()
			<-gate
			if offUS > 0 {
				spin(offUS)
			}
			deliver(doneP, kB)
		}()
		if dup {
			wg.Add(1)
			go func() { defer wg.Done(); <-gate; deliver(helloQ, kC) }()
		}
		close(gate)
		wg.Wait()
		answeredQ := false
		for _, o := range take() {
			switch counterOf(o) {
			case 1:
				if _, resp, err := Q.Deliver(nil, o, now); err == nil && len(resp) > 0 {
					answeredQ = true
					deliver(resp, kC)
				}
			case 3:
				P.Deliver(nil, o, now)
			}
		}
		for _, o := range take() {
			if counterOf(o) == 3 {
				P.Deliver(nil, o, now)
				Q.Deliver(nil, o, now)
			}
		}
		for _, sk := range []struct {
			s *p2pke.Session
			k int
		}{{Q, kC}, {P, kB}} {
			if sk.s.IsReady() {
				if ct, err := sk.s.Send(nil, []byte(fmt.Sprintf("data-from-K%d", sk.k)), now); err == nil {
					deliver(ct, sk.k)
				}
			}
		}
		stop.Store(true)
		pw.Wait()
		kmu.Lock()
		defer kmu.Unlock()
		set := -1
		for _, k := range keyLog {
			if k < 0 {
				if set >= 0 {
					problems = append(problems, fmt.Sprintf("RemoteKey went from K%d back to unset", set))
				}
				continue
			}
			if set >= 0 && k != set {
				problems = append(problems, fmt.Sprintf("RemoteKey changed from K%d to K%d on one channel", set, k))
			}
			set = k
		}
		desc := fmt.Sprintf("offset=%dus(bucket %d) dup=%v answeredQ=%v", offUS, offUS/50, dup, answeredQ)
		if len(problems) > 0 {
			t.Fatalf("%s\ncase: %s\nkey log: %v", strings.Join(problems, "\n"), desc, keyLog)
		}
		if answeredQ {
			ev.Class(sub, "both-hellos-answered")
			if ev.NonTrivial(sub, fmt.Sprintf("bucket=%d dup=%v", offUS/50, dup)) {
				ev.Sample(sub, desc)
			}
		}
	})
}

// TestC03ChannelUnprovenKey: the key a channel reports is a key whose holder signed this channel's handshake. An
// adversary without any private key of the victim replays the victim's public claim (key, timestamp, signature over the
// timestamp - visible in every InitHello the victim ever sent) inside hellos of its own making; nothing it can send
// afterwards completes the handshake. The channel must keep reporting no key, and an honest peer must still get through.
func TestC03ChannelUnprovenKey(t *testing.T) {
	const sub = "C03.channel_unproven_key"
	ev.Rule(sub, "rapid: a fresh channel R (accepts every key, or every key but the adversary's own) receives 1-4 InitHellos built from first principles that carry the victim V's lifted claim on an ephemeral key of the adversary's, optionally followed by an InitDone with a signature of the adversary's own key, garbage or nothing, and a data message under the adversary's ciphers; then optionally an honest peer Q with another key runs a complete handshake (driven message by message) and sends data. Oracle: RemoteKey() after every delivery is unset or the key of a peer that completed its handshake (never V's, whom nobody impersonated successfully); no application data of the adversary is handed out; Q's handshake completes and its data is delivered when the predicate accepts Q. non-trivial = a lifted claim followed by Q's handshake; distinct by script")
	rapid.Check(t, func(t *rapid.T) {
		now := time.Now()
		// harvest V's public claim from one InitHello of V
		vs := p2pke.NewSession(p2pke.SessionConfig{Registry: reg, PrivateKey: testKey(kB), IsInit: true, Now: now, RejectAfter: time.Hour, Logger: nopLog})
		vh, err := p2pke.Message(vs.Handshake(nil)).GetInitHello()
		if err != nil {
			t.Fatalf("harness: %v", err)
		}
		var omu sync.Mutex
		var out [][]byte
		R := p2pke.NewChannel(p2pke.ChannelConfig{
			Registry: reg, PrivateKey: testKey(kA), Logger: nopLog,
			AcceptKey: func(*x509.PublicKey) bool { return true },
			Send: func(d []byte) {
				omu.Lock()
				out = append(out, append([]byte{}, d...))
				omu.Unlock()
			},
			KeepAliveTimeout: time.Minute, HandshakeBackoff: time.Hour, RekeyAfterTime: time.Hour, RejectAfterTime: time.Hour,
		})
		defer R.Close()
		take := func() [][]byte {
			omu.Lock()
			defer omu.Unlock()
			o := out
			out = nil
			return o
		}
		var script []string
		proven := -1 // key index of the peer that completed a handshake with R
		deliver := func(what string, msg []byte, honestFrom int) {
			pt, err := R.Deliver(nil, append([]byte{}, msg...))
			k := keyIndex(R.RemoteKey())
			if k >= 0 && k != proven {
				t.Fatalf("after %s the channel reports RemoteKey K%d although no holder of that key completed a handshake with it (completed: K%d)\nscript: %s", what, k, proven, strings.Join(script, "; "))
			}
			if err == nil && pt != nil && honestFrom < 0 {
				t.Fatalf("after %s the channel handed the adversary's bytes %q to the application\nscript: %s", what, pt, strings.Join(script, "; "))
			}
		}
		n := rapid.IntRange(1, 4).Draw(t, "forgedHellos")
		for i := 0; i < n; i++ {
			fp := kefake.NewPeer(true)
			script = append(script, "forged InitHello(claim lifted from V)")
			deliver("a forged InitHello naming V", fp.InitHello(vh.TimestampTai64N, vh.KeyX509, vh.Sig), -1)
			var cb []byte
			for _, o := range take() {
				if counterOf(o) == 1 && cb == nil {
					if c, ok := fp.ReadRespHello(o); ok {
						cb = c
					}
				}
			}
			if cb == nil || !fp.HasCiphers() {
				continue
			}
			switch rapid.SampledFrom([]string{"none", "ownKey", "garbage"}).Draw(t, "initDone") {
			case "ownKey":
				script = append(script, "InitDone(signed with the adversary's own key)")
				deliver("an InitDone signed by another key", fp.InitDone(kefake.SignAs(5, kefake.PurposeCB, cb)), -1)
			case "garbage":
				script = append(script, "InitDone(garbage signature)")
				deliver("an InitDone with a garbage signature", fp.InitDone(make([]byte, 64)), -1)
			}
			if rapid.Bool().Draw(t, "data") {
				script = append(script, "data under the adversary's ciphers")
				deliver("data under the adversary's ciphers", fp.Data([]byte("attacker-data-0123456789")), -1)
			}
			take()
		}
		honest := rapid.Bool().Draw(t, "honestPeerAfterwards")
		if honest {
			script = append(script, "honest Q: full handshake, data")
			Q := p2pke.NewSession(p2pke.SessionConfig{Registry: reg, PrivateKey: testKey(kC), IsInit: true, Now: time.Now(), RejectAfter: time.Hour, Logger: nopLog})
			proven = kC // from here on Q may legitimately be reported (only once its InitDone was accepted, which the library decides)
			msg := Q.Handshake(nil)
			for hop := 0; hop < 4 && len(msg) > 0; hop++ {
				deliver("a message of the honest peer Q", msg, kC)
				msg = nil
				for _, o := range take() {
					if _, resp, err := Q.Deliver(nil, o, time.Now()); err == nil && len(resp) > 0 {
						msg = append([]byte{}, resp...)
					}
				}
			}
			if keyIndex(R.RemoteKey()) != kC {
				t.Fatalf("an honest peer with another key could not complete its handshake after the forged hellos: RemoteKey is K%d\nscript: %s", keyIndex(R.RemoteKey()), strings.Join(script, "; "))
			}
		}
		ev.Eval(sub)
		if honest {
			key := strings.Join(script, ";")
			if ev.NonTrivial(sub, key) {
				ev.Sample(sub, key)
			}
		}
	})
}
