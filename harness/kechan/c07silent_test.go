package kechan

import (
	"fmt"
	"strings"
	"testing"
	"time"

	"pgregory.net/rapid"

	"verif/harness/internal/ev"
)

// TestC07SilentReplacement: an established pair with traffic in one direction only; the receiving side is replaced by
// a fresh instance with the same key that has nothing to say. The sender hears nothing any more, so after
// KeepAliveTimeout it has to give the session up and dial again; from then on its messages reach the replacement.
// The oracle looks for arrival: Send returning nil on a session nobody holds any more is exactly the failure.
func TestC07SilentReplacement(t *testing.T) {
	const sub = "C07.silent_replacement"
	ev.Rule(sub, "rapid: two channels (handshake backoff 10 ms, KeepAliveTimeout 100-400 ms, rekey and reject intervals of a minute or more), established by A or by B; only A sends, one tagged message every 10-30 ms; B is replaced by a fresh channel with the same key that never sends; A keeps sending. Oracle: within KeepAliveTimeout + 2 s (patient limit) of the replacement some message A sent after it arrives at the replacement; no Send fails other than with 'session expired'. non-trivial = every case; distinct by parameters")
	rapid.Check(t, func(t *rapid.T) {
		keepAlive := time.Duration(rapid.SampledFrom([]int{100, 200, 400}).Draw(t, "keepAliveMs")) * time.Millisecond
		gap := time.Duration(rapid.IntRange(10, 30).Draw(t, "sendEveryMs")) * time.Millisecond
		first := rapid.SampledFrom([]string{"A", "B"}).Draw(t, "establishedBy")
		warm := rapid.IntRange(1, 5).Draw(t, "messagesBefore")
		desc := fmt.Sprintf("keepAlive=%v every=%v establishedBy=%s before=%d", keepAlive, gap, first, warm)
		cfg := chanCfg{backoff: 10 * time.Millisecond, keepAlive: keepAlive, rekey: 10 * time.Minute, reject: 15 * time.Minute}
		nt := newNet()
		defer nt.close()
		a := nt.addNode("A", kA, acceptAll, cfg)
		b := nt.addNode("B", kB, acceptAll, cfg)
		nt.link(a, b)
		nt.link(b, a)
		fail := func(f string, args ...any) {
			nt.close()
			t.Fatalf("%s\ncase: %s", fmt.Sprintf(f, args...), desc)
		}
		if first == "B" {
			if err := b.send("hello-from-b", 5*time.Second); err != nil {
				fail("establishing Send of B failed: %v", err)
			}
		}
		for i := 0; i < warm; i++ {
			if err := a.send(fmt.Sprintf("before-%d", i), 5*time.Second); err != nil {
				fail("Send before the replacement failed: %v", err)
			}
			time.Sleep(gap)
		}
		if !waitUntil(2*time.Second, func() bool { return b.gotPlain(a, "before-0") }) {
			if ev.Stalled(time.Now().Add(-3 * time.Second)) {
				ev.Class(sub, "not-judged:machine-stalled-before-the-replacement")
				return
			}
			fail("the pair did not establish")
		}
		// replace B by a silent fresh instance
		old := b
		nt.unlinkAll(old)
		old.ch.Close()
		b = nt.addNode("B", kB, acceptAll, cfg)
		nt.link(a, b)
		nt.link(b, a)
		replacedAt := time.Now()
		limit := keepAlive + 2*time.Second
		arrived := false
		var tags []string
		for i := 0; !arrived; i++ {
			el := time.Since(replacedAt)
			if el > limit && !(ev.Stalled(replacedAt) && el < ev.Extended(limit)) {
				break
			}
			tag := fmt.Sprintf("after-%d", i)
			tags = append(tags, tag)
			if err := a.send(tag, limit); err != nil && !strings.Contains(err.Error(), "expired") {
				if ev.Stalled(replacedAt) {
					continue
				}
				fail("Send after the replacement failed: %v", err)
			}
			time.Sleep(gap)
			for _, tg := range tags {
				if b.gotPlain(a, tg) {
					arrived = true
				}
			}
		}
		ev.Eval(sub)
		if !arrived {
			if ev.Stalled(replacedAt) {
				ev.Class(sub, "not-judged:machine-stalled")
				return
			}
			fail("%d messages sent during %v after the peer was replaced by a silent fresh instance, none arrived (keep-alive %v): the sender never gave up the session nobody holds any more", len(tags), time.Since(replacedAt).Round(time.Millisecond), keepAlive)
		}
		if probs := nt.problems(); len(probs) > 0 {
			fail("%s", strings.Join(probs, "\n"))
		}
		if ev.NonTrivial(sub, desc) {
			ev.Sample(sub, desc)
		}
	})
}
