package kechan

import (
	"context"
	"crypto/ed25519"
	"encoding/binary"
	"fmt"
	"os"
	"sync"
	"sync/atomic"
	"time"

	"go.brendoncarroll.net/p2p"
	"go.brendoncarroll.net/p2p/f/x509"
	"go.brendoncarroll.net/p2p/p/p2pke"
	"go.uber.org/zap"

	"verif/harness/internal/ev"
)

var debugWire = os.Getenv("VERIF_DEBUG") != ""

var (
	reg    = x509.DefaultRegistry()
	nopLog = zap.NewNop()
)

var (
	keyMu    sync.Mutex
	keyCache = map[int]x509.PrivateKey{}
	pubCache = map[int]x509.PublicKey{}
)

func testKey(i int) x509.PrivateKey {
	keyMu.Lock()
	defer keyMu.Unlock()
	if k, ok := keyCache[i]; ok {
		return k
	}
	seed := make([]byte, 32)
	binary.BigEndian.PutUint64(seed[24:], uint64(i)+1000)
	algo, signer := x509.SignerFromStandard(ed25519.NewKeyFromSeed(seed))
	priv, err := reg.StoreSigner(algo, signer)
	if err != nil {
		panic(err)
	}
	pub, err := reg.PublicFromPrivate(&priv)
	if err != nil {
		panic(err)
	}
	keyCache[i], pubCache[i] = priv, pub
	return priv
}

func testPub(i int) x509.PublicKey {
	testKey(i)
	keyMu.Lock()
	defer keyMu.Unlock()
	return pubCache[i]
}

// keyIndex returns the test identity owning pub, or -1.
func keyIndex(pub x509.PublicKey) int {
	if pub.IsZero() {
		return -1
	}
	keyMu.Lock()
	defer keyMu.Unlock()
	for i, p := range pubCache {
		if x509.EqualPublicKeys(&p, &pub) {
			return i
		}
	}
	return -2
}

func counterOf(msg []byte) uint32 {
	if len(msg) < 4 {
		return 0xffffffff
	}
	return binary.BigEndian.Uint32(msg[:4])
}

func msgName(msg []byte) string {
	c := counterOf(msg)
	names := []string{"InitHello", "RespHello", "InitDone", "RespDone"}
	if len(msg) >= 4 && c < 4 {
		return names[c]
	}
	return fmt.Sprintf("data#%d", c)
}

type wireMsg struct {
	from, to *node
	data     []byte
	seq      int64
}

type delivery struct {
	plain string
	at    time.Time
}

// node is one channel endpoint plus everything the oracles observe about it.
type node struct {
	name   string
	key    int
	ch     *p2pke.Channel
	net    *chanNet
	accept func(int) bool // by test identity index
	inbox  chan wireMsg
	done   chan struct{}

	obsMu     sync.Mutex // serialises observeKey
	mu        sync.Mutex
	sent      map[string]bool
	got       []delivery
	emitted   [][]byte
	problems  []string
	keyLog    []int // successive distinct values of RemoteKey() as observed
	initHello int64 // number of InitHello messages emitted
	impatient atomic.Bool
}

func (n *node) problem(f string, a ...any) {
	n.mu.Lock()
	defer n.mu.Unlock()
	if len(n.problems) < 5 {
		n.problems = append(n.problems, n.name+": "+fmt.Sprintf(f, a...))
	}
}

// observeKey records RemoteKey() and reports a change away from a non-zero key.
func (n *node) observeKey() int {
	// observations are serialised: a reader that is descheduled between reading the key and logging it
	// would otherwise log an old value after a newer one (seen as "changed from K0 to none" at load 300)
	n.obsMu.Lock()
	defer n.obsMu.Unlock()
	k := keyIndex(n.ch.RemoteKey())
	n.mu.Lock()
	defer n.mu.Unlock()
	if len(n.keyLog) == 0 || n.keyLog[len(n.keyLog)-1] != k {
		if len(n.keyLog) > 0 && n.keyLog[len(n.keyLog)-1] >= 0 && len(n.problems) < 5 {
			n.problems = append(n.problems, fmt.Sprintf("%s: RemoteKey changed from K%d to K%d", n.name, n.keyLog[len(n.keyLog)-1], k))
		}
		n.keyLog = append(n.keyLog, k)
	}
	return k
}

type chanCfg struct {
	backoff, keepAlive, rekey, reject time.Duration
}

// chanNet connects channels. Outbound messages of a node go to every node
// linked from it. In hold mode they are parked for a scheduler instead.
type chanNet struct {
	mu    sync.Mutex
	nodes []*node
	links map[*node][]*node
	hold  bool
	// drop, when set, decides per message whether the wire loses it
	drop   func(from *node, data []byte) bool
	held   []wireMsg
	seq    int64
	wg     sync.WaitGroup
	log    []string
	closed bool
}

func newNet() *chanNet { return &chanNet{links: map[*node][]*node{}} }

func (nt *chanNet) logf(f string, a ...any) {
	nt.mu.Lock()
	defer nt.mu.Unlock()
	if len(nt.log) < 400000 {
		nt.log = append(nt.log, fmt.Sprintf(f, a...))
	}
}

func (nt *chanNet) addNode(name string, key int, accept func(int) bool, cfg chanCfg) *node {
	n := &node{name: name, key: key, net: nt, accept: accept, inbox: make(chan wireMsg, 8192), done: make(chan struct{}), sent: map[string]bool{}}
	n.ch = p2pke.NewChannel(p2pke.ChannelConfig{
		Registry:   reg,
		PrivateKey: testKey(key),
		Logger:     nopLog,
		AcceptKey: func(pub *x509.PublicKey) bool {
			return accept(keyIndex(*pub))
		},
		Send:             func(data []byte) { nt.onSend(n, data) },
		KeepAliveTimeout: cfg.keepAlive,
		HandshakeBackoff: cfg.backoff,
		RekeyAfterTime:   cfg.rekey,
		RejectAfterTime:  cfg.reject,
	})
	nt.mu.Lock()
	nt.nodes = append(nt.nodes, n)
	nt.mu.Unlock()
	nt.wg.Add(1)
	go n.pump()
	return n
}

func (nt *chanNet) link(a, b *node) {
	nt.mu.Lock()
	defer nt.mu.Unlock()
	nt.links[a] = append(nt.links[a], b)
}

func (nt *chanNet) unlinkAll(a *node) {
	nt.mu.Lock()
	defer nt.mu.Unlock()
	delete(nt.links, a)
	for k, v := range nt.links {
		var keep []*node
		for _, x := range v {
			if x != a {
				keep = append(keep, x)
			}
		}
		nt.links[k] = keep
	}
}

// onSend is the channel's Send callback.
func (nt *chanNet) onSend(from *node, data []byte) {
	cp := append([]byte{}, data...)
	c := counterOf(cp)
	from.mu.Lock()
	if len(from.emitted) < 20000 {
		from.emitted = append(from.emitted, cp)
	}
	from.mu.Unlock()
	if c == 0 {
		atomic.AddInt64(&from.initHello, 1)
	}
	if c >= 16 {
		// application ciphertext: only allowed towards an accepted, established key
		k := from.observeKey()
		if k < 0 {
			from.problem("emitted application ciphertext (counter %d) while RemoteKey() is unset", c)
		} else if !from.accept(k) {
			from.problem("emitted application ciphertext to K%d which its acceptance predicate rejects", k)
		}
	}
	nt.mu.Lock()
	if nt.closed || (nt.drop != nil && nt.drop(from, cp)) {
		nt.mu.Unlock()
		return
	}
	dsts := append([]*node{}, nt.links[from]...)
	var out []wireMsg
	for _, d := range dsts {
		nt.seq++
		out = append(out, wireMsg{from: from, to: d, data: cp, seq: nt.seq})
	}
	if nt.hold {
		nt.held = append(nt.held, out...)
		nt.mu.Unlock()
		return
	}
	nt.mu.Unlock()
	for _, m := range out {
		select {
		case m.to.inbox <- m:
		default: // queue full: the network drops
		}
	}
}

// release switches to prompt delivery and flushes whatever is still held, in order.
func (nt *chanNet) release() {
	nt.mu.Lock()
	nt.hold = false
	held := nt.held
	nt.held = nil
	nt.mu.Unlock()
	for _, m := range held {
		select {
		case m.to.inbox <- m:
		default:
		}
	}
}

func (nt *chanNet) deliverNow(m wireMsg) {
	select {
	case m.to.inbox <- m:
	default:
	}
}

func (n *node) pump() {
	defer n.net.wg.Done()
	for {
		select {
		case <-n.done:
			return
		case m := <-n.inbox:
			n.handle(m)
		}
	}
}

func (n *node) handle(m wireMsg) {
	defer func() {
		if r := recover(); r != nil {
			n.problem("Deliver panicked on %s from %s: %v", msgName(m.data), m.from.name, r)
		}
	}()
	// The channel is handed a transport buffer that is recycled as soon as Deliver returns (the contract
	// of p2p.Receiver): whatever the channel wants to keep it has to copy.
	wire := append([]byte{}, m.data...)
	out, err := n.ch.Deliver(nil, wire)
	if out != nil {
		out = append([]byte{}, out...)
	}
	for i := range wire {
		wire[i] = 0xDD
	}
	if debugWire {
		n.net.logf("%s <- %s %s (%d bytes) app=%v err=%v", n.name, m.from.name, msgName(m.data), len(m.data), out != nil, err)
	}
	k := n.observeKey()
	if err != nil || out == nil {
		return
	}
	now := time.Now()
	// application data: must come from the channel we are bound to, which must be accepted
	n.mu.Lock()
	for _, d := range n.got {
		if d.plain == string(out) && len(n.problems) < 5 {
			n.problems = append(n.problems, fmt.Sprintf("%s: plaintext %q delivered a second time (message %s)", n.name, truncate(string(out)), msgName(m.data)))
		}
	}
	n.got = append(n.got, delivery{string(out), now})
	n.mu.Unlock()
	if k < 0 {
		n.problem("delivered application data while RemoteKey() is unset")
		return
	}
	if !n.accept(k) {
		n.problem("delivered application data from K%d which the acceptance predicate rejects", k)
	}
	// find the sender of this plaintext
	var owner *node
	n.net.mu.Lock()
	nodes := append([]*node{}, n.net.nodes...)
	n.net.mu.Unlock()
	for _, o := range nodes {
		o.mu.Lock()
		if o.sent[string(out)] {
			owner = o
		}
		o.mu.Unlock()
	}
	if owner == nil {
		n.problem("delivered %q which no node ever sent", truncate(string(out)))
	} else if owner.key != k {
		n.problem("delivered %q sent by %s (K%d) while bound to K%d", truncate(string(out)), owner.name, owner.key, k)
	}
}

func truncate(s string) string {
	if len(s) > 40 {
		return s[:40] + "..."
	}
	return s
}

// sendImpatient is send with a plain deadline, for calls whose failure is an expected outcome and not a
// verdict (an intruder that is refused): waiting longer on a stalled machine would only cost time.
func (n *node) sendImpatient(tag string, timeout time.Duration) error {
	n.impatient.Store(true)
	defer n.impatient.Store(false)
	return n.send(tag, timeout)
}

// send calls Channel.Send with a tagged plaintext and a deadline.
func (n *node) send(tag string, timeout time.Duration) error {
	pt := fmt.Sprintf("%s|%s|0123456789abcdef", n.name, tag)
	n.mu.Lock()
	n.sent[pt] = true
	n.mu.Unlock()
	// The limit is patient (see ev.Patient): on a responsive machine Send has `timeout` to return, on a
	// stalled one it gets longer, so that an expired limit says something about the channel.
	ctx, cf := context.WithTimeout(context.Background(), ev.Extended(timeout)+time.Second)
	defer cf()
	done := make(chan error, 1)
	go func() { done <- n.ch.Send(ctx, p2p.IOVec{[]byte(pt)}) }()
	var err error
	var returned bool
	if n.impatient.Load() {
		select {
		case err = <-done:
			returned = true
		case <-time.After(timeout):
		}
	} else {
		err, returned = ev.PatientRecv(timeout, done)
	}
	if !returned {
		cf()
		err = context.DeadlineExceeded
	}
	if err == nil {
		k := n.observeKey()
		if k < 0 {
			n.problem("Send returned nil while RemoteKey() is unset")
		} else if !n.accept(k) {
			n.problem("Send returned nil towards K%d which the acceptance predicate rejects", k)
		}
	}
	return err
}

func (n *node) gotPlain(sender *node, tag string) bool {
	pt := fmt.Sprintf("%s|%s|0123456789abcdef", sender.name, tag)
	n.mu.Lock()
	defer n.mu.Unlock()
	for _, d := range n.got {
		if d.plain == pt {
			return true
		}
	}
	return false
}

func (n *node) countGot(pt string) int {
	n.mu.Lock()
	defer n.mu.Unlock()
	c := 0
	for _, d := range n.got {
		if d.plain == pt {
			c++
		}
	}
	return c
}

func (nt *chanNet) close() {
	nt.mu.Lock()
	if nt.closed {
		nt.mu.Unlock()
		return
	}
	nt.closed = true
	nodes := append([]*node{}, nt.nodes...)
	nt.mu.Unlock()
	for _, n := range nodes {
		n.ch.Close()
		close(n.done)
	}
	nt.wg.Wait()
}

func (nt *chanNet) problems() []string {
	nt.mu.Lock()
	nodes := append([]*node{}, nt.nodes...)
	nt.mu.Unlock()
	var ps []string
	for _, n := range nodes {
		n.mu.Lock()
		ps = append(ps, n.problems...)
		n.mu.Unlock()
	}
	return ps
}

// waitUntil polls cond until it holds or the timeout elapses.
func waitUntil(timeout time.Duration, cond func() bool) bool {
	return ev.Patient(timeout, cond)
}
