package crash

// C08 raw QUIC peer: the harness speaks QUIC (quic-go used directly, with TLS credentials of its own choosing)
// to a quicswarm node and misbehaves on the streams, which is where the library's own parsing starts.

import (
	"context"
	"crypto"
	"crypto/ecdsa"
	"crypto/ed25519"
	"crypto/elliptic"
	"crypto/rand"
	"crypto/rsa"
	"crypto/tls"
	stdx509 "crypto/x509"
	"encoding/binary"
	"fmt"
	"io"
	"net"
	"strings"
	"sync"
	"testing"
	"time"

	"github.com/quic-go/quic-go"
	"go.brendoncarroll.net/p2p"
	"go.brendoncarroll.net/p2p/f/x509"
	"go.brendoncarroll.net/p2p/s/quicswarm"
	"go.brendoncarroll.net/p2p/s/swarmutil"
	"go.brendoncarroll.net/p2p/s/udpswarm"
	"pgregory.net/rapid"

	"verif/harness/internal/ev"
	"verif/harness/internal/stack"
)

type qAddr = quicswarm.Addr[udpswarm.Addr]

var (
	rsaOnce sync.Once
	rsaKey  *rsa.PrivateKey
)

func attackerSigner(kind string) crypto.Signer {
	switch kind {
	case "ecdsa":
		k, _ := ecdsa.GenerateKey(elliptic.P256(), rand.Reader)
		return k
	case "rsa":
		rsaOnce.Do(func() { rsaKey, _ = rsa.GenerateKey(rand.Reader, 2048) })
		return rsaKey
	default:
		seed := make([]byte, ed25519.SeedSize)
		copy(seed, "verif-quic-attacker")
		return ed25519.NewKeyFromSeed(seed)
	}
}

// quicVictim is the node under attack plus an honest peer.
type quicVictim struct {
	victim, honest *quicswarm.Swarm[udpswarm.Addr]
	vAddr, hAddr   qAddr
	mu             sync.Mutex
	got            []stack.Msg // copies of what the victim delivered (tell and ask)
	badLookup      string
	cancel         context.CancelFunc
	wg             sync.WaitGroup
}

func newQuicVictim(mtu int) (*quicVictim, error) {
	v, err := quicswarm.NewOnUDP("127.0.0.1:0", stack.PrivKey(0), quicswarm.WithMTU[udpswarm.Addr](mtu))
	if err != nil {
		return nil, err
	}
	h, err := quicswarm.NewOnUDP("127.0.0.1:0", stack.PrivKey(1), quicswarm.WithMTU[udpswarm.Addr](mtu))
	if err != nil {
		v.Close()
		return nil, err
	}
	q := &quicVictim{victim: v, honest: h, vAddr: v.LocalAddrs()[0], hAddr: h.LocalAddrs()[0]}
	ctx, cancel := context.WithCancel(context.Background())
	q.cancel = cancel
	record := func(m p2p.Message[qAddr]) {
		// the key is looked up while the session that carried the message most likely still exists
		// (without a session LookupPublicKey dials, which a departed hostile peer never answers)
		lctx, lcancel := context.WithTimeout(context.Background(), 100*time.Millisecond)
		pk, err := v.LookupPublicKey(lctx, m.Src)
		lcancel()
		q.mu.Lock()
		if err == nil && quicswarm.DefaultFingerprinter(pk) != m.Src.ID {
			q.badLookup = fmt.Sprintf("LookupPublicKey(%v) returns a key whose fingerprint is %v", m.Src, quicswarm.DefaultFingerprinter(pk))
		}
		q.got = append(q.got, stack.Msg{Src: m.Src, Dst: m.Dst, Payload: append([]byte{}, m.Payload...)})
		q.mu.Unlock()
	}
	q.wg.Add(2)
	go func() {
		defer q.wg.Done()
		for ctx.Err() == nil {
			if err := v.Receive(ctx, record); err != nil {
				return
			}
		}
	}()
	go func() {
		defer q.wg.Done()
		for ctx.Err() == nil {
			err := v.ServeAsk(ctx, func(_ context.Context, resp []byte, m p2p.Message[qAddr]) int {
				record(m)
				return copy(resp, append([]byte("re:"), m.Payload...))
			})
			if err != nil {
				return
			}
		}
	}()
	return q, nil
}

func (q *quicVictim) close() {
	q.cancel()
	q.victim.Close()
	q.honest.Close()
	done := make(chan struct{})
	go func() { q.wg.Wait(); close(done) }()
	select {
	case <-done:
	case <-time.After(3 * time.Second):
	}
}

func parseLeaf(der []byte) ([]byte, error) {
	c, err := stdx509.ParseCertificate(der)
	if err != nil {
		return nil, err
	}
	return c.RawSubjectPublicKeyInfo, nil
}

func udpOf(a qAddr) string { return a.Addr.String() }

// runQuicCase: Param = "<role>:<credential>:<mtu>"; role client (attacker dials the victim) or
// server (the victim is made to dial the attacker, claimed identity right or wrong).
func runQuicCase(c crashCase) string {
	parts := strings.Split(c.Param, ":")
	if len(parts) != 3 {
		return "bad param"
	}
	role, cred := parts[0], parts[1]
	mtu := 0
	fmt.Sscanf(parts[2], "%d", &mtu)
	q, err := newQuicVictim(mtu)
	if err != nil {
		return "VERIF-INCONCLUSIVE cannot set up quic victim: " + err.Error()
	}
	defer q.close()
	var attackerID *p2p.PeerID
	var note string
	switch role {
	case "client":
		attackerID, note = quicClientAttack(q, cred, c.Packets)
	case "server":
		note = quicServerAttack(q, cred, c.Packets, mtu)
	}
	if note != "" {
		return note
	}
	// continued service for an honest peer
	tag := []byte("honest-after-attack|0123456789abcdef")
	honestStart := time.Now()
	ctx, cancel := context.WithTimeout(context.Background(), ev.Extended(5*time.Second))
	defer cancel()
	stalled := func(msg string) string {
		// the limits below are what a responsive machine is given; on a stalled one the case is not judged
		if ev.Stalled(honestStart) {
			return "skip: machine stalled during the honest exchange"
		}
		return msg
	}
	if err := q.honest.Tell(ctx, q.vAddr, p2p.IOVec{tag}); err != nil {
		return stalled("after the hostile peer, an honest Tell to the node fails: " + err.Error())
	}
	resp := make([]byte, mtu)
	n, err := q.honest.Ask(ctx, resp, q.vAddr, p2p.IOVec{[]byte("ping")})
	if err != nil || string(resp[:max(n, 0)]) != "re:ping" {
		return stalled(fmt.Sprintf("after the hostile peer, an honest Ask is not answered: n=%d err=%v", n, err))
	}
	deadline := time.Now().Add(5 * time.Second)
	for {
		q.mu.Lock()
		seen := false
		for _, m := range q.got {
			if string(m.Payload) == string(tag) {
				seen = true
			}
		}
		q.mu.Unlock()
		if seen {
			break
		}
		if time.Now().After(deadline) {
			return stalled("after the hostile peer, the honest tell was not delivered within 5 s")
		}
		time.Sleep(5 * time.Millisecond)
	}
	// attribution and size of everything the node delivered
	q.mu.Lock()
	defer q.mu.Unlock()
	for _, m := range q.got {
		src := m.Src.(qAddr)
		if len(m.Payload) > mtu {
			return fmt.Sprintf("the node delivered %d bytes, more than its MTU %d", len(m.Payload), mtu)
		}
		switch {
		case src.ID == q.hAddr.ID:
			if s := string(m.Payload); s != string(tag) && s != "ping" {
				return fmt.Sprintf("a payload the honest peer never sent is attributed to it: %x", m.Payload)
			}
		case attackerID != nil && src.ID == *attackerID:
		default:
			return fmt.Sprintf("a message is attributed to identity %v which is neither the honest peer nor the key the hostile peer proved", src.ID)
		}
	}
	return q.badLookup
}

func quicClientAttack(q *quicVictim, cred string, acts []packet) (*p2p.PeerID, string) {
	signer := attackerSigner(cred)
	tc := &tls.Config{Certificates: []tls.Certificate{swarmutil.GenerateSelfSigned(signer)}, InsecureSkipVerify: true, NextProtos: []string{"p2p"}}
	var id *p2p.PeerID
	// the identity the node will derive is the fingerprint of the certificate's SubjectPublicKeyInfo
	if spki, err := parseLeaf(tc.Certificates[0].Certificate[0]); err == nil {
		if pk, err := x509.ParsePublicKey(spki); err == nil {
			v := quicswarm.DefaultFingerprinter(pk)
			id = &v
		}
	}
	ctx, cancel := context.WithTimeout(context.Background(), 3*time.Second)
	defer cancel()
	conn, err := quic.DialAddr(ctx, udpOf(q.vAddr), tc, &quic.Config{EnableDatagrams: true})
	if err != nil {
		return id, "" // refused credentials are fine
	}
	defer func() { go conn.CloseWithError(0, "") }() // closing can take seconds in quic-go; nothing depends on it
	raw, _ := net.Dial("udp", udpOf(q.vAddr))
	if raw != nil {
		defer raw.Close()
	}
	for _, a := range acts {
		b := unhex(a)
		switch a.Kind {
		case "uni", "uni-reset", "uni-open":
			s, err := conn.OpenUniStream()
			if err != nil {
				continue
			}
			s.SetWriteDeadline(time.Now().Add(500 * time.Millisecond))
			s.Write(b)
			switch a.Kind {
			case "uni":
				s.Close()
			case "uni-reset":
				s.CancelWrite(7)
			}
		case "bidi", "bidi-reset", "bidi-open":
			s, err := conn.OpenStream()
			if err != nil {
				continue
			}
			s.SetWriteDeadline(time.Now().Add(500 * time.Millisecond))
			s.Write(b)
			switch a.Kind {
			case "bidi":
				s.Close()
				s.SetReadDeadline(time.Now().Add(300 * time.Millisecond))
				io.Copy(io.Discard, io.LimitReader(s, 1<<20))
			case "bidi-reset":
				s.CancelWrite(9)
				s.CancelRead(9)
			}
		case "dgram":
			conn.SendMessage(b)
		case "udp":
			if raw != nil {
				raw.Write(b)
			}
		case "close":
			conn.CloseWithError(quic.ApplicationErrorCode(len(b)), string(b))
		}
	}
	time.Sleep(20 * time.Millisecond)
	return id, ""
}

// quicServerAttack makes the node dial a hostile QUIC server. credential "match": the node is given
// the server's true identity; "mismatch": the node is told another identity and must not hand it any payload.
func quicServerAttack(q *quicVictim, cred string, acts []packet, mtu int) string {
	signer := attackerSigner("ed25519")
	cert := swarmutil.GenerateSelfSigned(signer)
	tc := &tls.Config{Certificates: []tls.Certificate{cert}, NextProtos: []string{"p2p"}, ClientAuth: tls.RequireAnyClientCert, InsecureSkipVerify: true}
	ln, err := quic.ListenAddr("127.0.0.1:0", tc, &quic.Config{EnableDatagrams: true})
	if err != nil {
		return "VERIF-INCONCLUSIVE cannot listen: " + err.Error()
	}
	defer ln.Close()
	spki, err := parseLeaf(cert.Certificate[0])
	if err != nil {
		return "VERIF-INCONCLUSIVE " + err.Error()
	}
	pk, err := x509.ParsePublicKey(spki)
	if err != nil {
		return "VERIF-INCONCLUSIVE " + err.Error()
	}
	id := quicswarm.DefaultFingerprinter(pk)
	if cred == "mismatch" {
		id[0] ^= 1
	}
	ua, err := q.victim.ParseAddr([]byte(id.String() + "@" + ln.Addr().String()))
	if err != nil {
		return "VERIF-INCONCLUSIVE cannot build the server address: " + err.Error()
	}
	// the server answers the k-th stream with the k-th scripted reply
	var mu sync.Mutex
	var gotBytes int
	replies := [][]byte{}
	modes := []string{}
	for _, a := range acts {
		if strings.HasPrefix(a.Kind, "reply") {
			replies = append(replies, unhex(a))
			modes = append(modes, a.Kind)
		}
	}
	sctx, scancel := context.WithCancel(context.Background())
	defer scancel()
	go func() {
		for {
			conn, err := ln.Accept(sctx)
			if err != nil {
				return
			}
			go func() {
				for {
					s, err := conn.AcceptUniStream(sctx)
					if err != nil {
						return
					}
					go func() {
						n, _ := io.Copy(io.Discard, s)
						mu.Lock()
						gotBytes += int(n)
						mu.Unlock()
					}()
				}
			}()
			go func() {
				k := 0
				for {
					s, err := conn.AcceptStream(sctx)
					if err != nil {
						return
					}
					i := k
					k++
					go func() {
						var hdr [4]byte
						if _, err := io.ReadFull(s, hdr[:]); err == nil {
							n, _ := io.CopyN(io.Discard, s, int64(binary.BigEndian.Uint32(hdr[:])))
							mu.Lock()
							gotBytes += int(n) + 4
							mu.Unlock()
						}
						if i < len(replies) {
							s.Write(replies[i])
							switch modes[i] {
							case "reply":
								s.Close()
							case "reply-reset":
								s.CancelWrite(3)
							case "reply-hang":
							}
						} else {
							s.Close()
						}
					}()
				}
			}()
		}
	}()
	for _, a := range acts {
		if strings.HasPrefix(a.Kind, "reply") {
			continue
		}
		b := unhex(a)
		if len(b) > mtu {
			b = b[:mtu]
		}
		ctx, cancel := context.WithTimeout(context.Background(), 400*time.Millisecond)
		start := time.Now()
		switch a.Kind {
		case "v-tell":
			q.victim.Tell(ctx, ua, p2p.IOVec{b})
		case "v-ask":
			resp := make([]byte, len(b)+8)
			n, err := q.victim.Ask(ctx, resp, ua, p2p.IOVec{b})
			if err == nil && (n < 0 || n > len(resp)) {
				cancel()
				return fmt.Sprintf("Ask to a hostile server returned n=%d with a %d byte buffer and no error", n, len(resp))
			}
		}
		cancel()
		if d := time.Since(start); d > 3*time.Second && !ev.Stalled(start) {
			return fmt.Sprintf("%s to a hostile server took %v with a 400 ms context", a.Kind, d)
		}
	}
	time.Sleep(20 * time.Millisecond)
	mu.Lock()
	defer mu.Unlock()
	if cred == "mismatch" && gotBytes > 0 {
		return fmt.Sprintf("the node handed %d payload bytes to a server that proved a different key than the address names", gotBytes)
	}
	return ""
}

// TestC08QuicRawPeer drives the quic target.
func TestC08QuicRawPeer(t *testing.T) {
	const sub = "C08.quic_raw_peer"
	ev.Rule(sub, "rapid, executed in a child process: a QUIC peer built directly on quic-go with credentials of its choosing (Ed25519, ECDSA P-256 or RSA-2048 self-signed certificate) either dials a quicswarm node (MTU 64..4096) and performs 1-8 stream actions - unidirectional or bidirectional stream carrying a generated frame (length prefix lying high/low/huge, empty, exactly MTU, above MTU, random) then closed, reset or left open; RFC 9221 datagrams; raw UDP datagrams; connection close with arbitrary reason - or listens, is dialled by the node under its true or a wrong identity and answers the node's asks with lying frames (then closes, resets or hangs). Oracle: the process survives; afterwards an honest peer's Tell is delivered and its Ask answered; nothing delivered exceeds the MTU; every delivered message is attributed to the honest peer (and is its payload) or to the fingerprint of the key the hostile peer proved, and LookupPublicKey agrees; Ask never reports more bytes than its buffer; calls with a 400 ms context return within 3 s; a server proving another key than the address names receives no payload bytes. non-trivial = >= 2 actions; distinct by case")
	rapid.Check(t, func(t *rapid.T) {
		mtu := rapid.SampledFrom([]int{64, 256, 1024, 4096}).Draw(t, "mtu")
		frame := func(label string) []byte {
			var body []byte
			switch rapid.IntRange(0, 4).Draw(t, label+"Size") {
			case 0:
				body = nil
			case 1:
				body = rapid.SliceOfN(rapid.Byte(), 1, 40).Draw(t, label+"Body")
			case 2:
				body = make([]byte, mtu)
			case 3:
				body = make([]byte, mtu+rapid.IntRange(1, 9).Draw(t, label+"Over"))
			case 4:
				body = make([]byte, rapid.IntRange(mtu-8, 3*mtu).Draw(t, label+"Len"))
			}
			l := uint32(len(body))
			switch rapid.IntRange(0, 5).Draw(t, label+"Lie") {
			case 1:
				l += uint32(rapid.IntRange(1, 5).Draw(t, label+"High"))
			case 2:
				if l > 0 {
					l -= uint32(rapid.IntRange(1, int(min(l, 5))).Draw(t, label+"Low"))
				}
			case 3:
				l = rapid.SampledFrom([]uint32{1 << 31, 1<<32 - 1, uint32(mtu) + 1, 1 << 24}).Draw(t, label+"Huge")
			case 4:
				// no length prefix at all: raw bytes
				return body
			}
			var hdr [4]byte
			binary.BigEndian.PutUint32(hdr[:], l)
			out := append(hdr[:], body...)
			if rapid.IntRange(0, 7).Draw(t, label+"Cut") == 0 && len(out) > 0 {
				out = out[:rapid.IntRange(0, min(len(out)-1, 6)).Draw(t, label+"CutAt")]
			}
			return out
		}
		n := rapid.IntRange(1, 8).Draw(t, "n")
		var c crashCase
		if rapid.IntRange(0, 3).Draw(t, "role") > 0 {
			c = crashCase{Target: "quic", Param: fmt.Sprintf("client:%s:%d", rapid.SampledFrom([]string{"ed25519", "ed25519", "ecdsa", "rsa"}).Draw(t, "cred"), mtu)}
			for i := 0; i < n; i++ {
				kind := rapid.SampledFrom([]string{"uni", "uni", "uni-reset", "uni-open", "bidi", "bidi", "bidi-reset", "bidi-open", "dgram", "udp", "close"}).Draw(t, "kind")
				var b []byte
				switch kind {
				case "dgram", "udp", "close":
					b = rapid.SliceOfN(rapid.Byte(), 0, 60).Draw(t, "bytes")
				default:
					b = frame("f")
				}
				c.Packets = append(c.Packets, packet{kind, hx(b)})
			}
		} else {
			c = crashCase{Target: "quic", Param: fmt.Sprintf("server:%s:%d", rapid.SampledFrom([]string{"match", "match", "mismatch"}).Draw(t, "cred"), mtu)}
			for i := 0; i < n; i++ {
				kind := rapid.SampledFrom([]string{"v-ask", "v-ask", "v-tell", "reply", "reply", "reply-reset", "reply-hang"}).Draw(t, "kind")
				var b []byte
				if strings.HasPrefix(kind, "reply") {
					b = frame("r")
				} else {
					b = rapid.SliceOfN(rapid.Byte(), 0, 40).Draw(t, "payload")
				}
				c.Packets = append(c.Packets, packet{kind, hx(b)})
			}
		}
		execute(t, sub, c, n >= 2)
	})
}
