package crash

import (
	"bytes"
	"context"
	"encoding/binary"
	"encoding/hex"
	"encoding/json"
	"fmt"
	"io"
	"log"
	"os"
	"strings"
	"sync"
	"testing"
	"time"

	"go.brendoncarroll.net/p2p"
	"go.brendoncarroll.net/p2p/f/x509"
	"go.brendoncarroll.net/p2p/p/kademlia"
	"go.brendoncarroll.net/p2p/p/mbapp"
	"go.brendoncarroll.net/p2p/p/p2pke"
	"go.brendoncarroll.net/p2p/s/fragswarm"
	"go.brendoncarroll.net/p2p/s/memswarm"
	"go.brendoncarroll.net/p2p/s/multiswarm"
	"go.brendoncarroll.net/p2p/s/p2pkeswarm"
	"go.brendoncarroll.net/p2p/s/quicswarm"
	"go.brendoncarroll.net/p2p/s/sshswarm"
	"go.brendoncarroll.net/p2p/s/udpswarm"
	"go.uber.org/zap"
	"pgregory.net/rapid"

	"verif/harness/internal/ev"
	"verif/harness/internal/stack"
	"verif/harness/internal/worker"
)

func TestMain(m *testing.M) {
	log.SetOutput(io.Discard)
	ev.Main(m)
}

// packet is one hostile input.
type packet struct {
	Kind string `json:"kind"` // tell | ask | text (parsers)
	Hex  string `json:"hex"`
}

type crashCase struct {
	Target  string   `json:"target"`
	Param   string   `json:"param"`
	Packets []packet `json:"packets"`
}

func (c crashCase) String() string {
	var ps []string
	for _, p := range c.Packets {
		h := p.Hex
		if len(h) > 80 {
			h = h[:80] + fmt.Sprintf("..(%dB)", len(p.Hex)/2)
		}
		ps = append(ps, p.Kind+":"+h)
	}
	return fmt.Sprintf("%s[%s] %s", c.Target, c.Param, strings.Join(ps, " "))
}

// TestWorkerEntry is the child process: it builds a fresh instance of the
// target for every case, feeds the packets, proves continued service and answers.
func TestWorkerEntry(t *testing.T) {
	if os.Getenv("VERIF_WORKER") == "" {
		t.Skip("worker entry point")
	}
	worker.Serve(func(raw json.RawMessage) string {
		var c crashCase
		if err := json.Unmarshal(raw, &c); err != nil {
			return "bad case: " + err.Error()
		}
		return runCase(c)
	})
}

func unhex(p packet) []byte {
	b, _ := hex.DecodeString(p.Hex)
	return b
}

// memVictim builds victim / honest / attacker nodes on one in-memory realm.
type memVictim struct {
	victim, honest stack.Swarm
	victimAsk      stack.AskBidi
	honestAsk      stack.AskBidi
	attacker       stack.Swarm // raw transport node
	attackerAsk    stack.AskBidi
	victimInner    stack.Addr
	victimTop      stack.Addr
	close          func()
}

func buildMem(target, param string) (*memVictim, error) {
	realm := memswarm.NewSecureRealm[stack.PubKey](memswarm.WithMTU(4096), memswarm.WithQueueLen(1024))
	mk := func(key int) (stack.Swarm, stack.AskBidi, stack.Sec) {
		sw := realm.NewSwarm(stack.PubOf(key))
		return stack.Erase[memswarm.Addr](sw), stack.EraseAsk[memswarm.Addr](sw), stack.EraseSec[memswarm.Addr](sw)
	}
	vb, va, vs := mk(0)
	hb, ha, hs := mk(1)
	ab, aa, _ := mk(2)
	mv := &memVictim{attacker: ab, attackerAsk: aa, victimInner: vb.LocalAddrs()[0]}
	bg, bgCancel := context.WithCancel(context.Background())
	layer := func(s stack.Swarm, a stack.AskBidi, sec stack.Sec, key int) (stack.Swarm, stack.AskBidi, error) {
		switch target {
		case "frag":
			return fragswarm.New[stack.Addr](s, 40000), nil, nil
		case "mbapp":
			sw := mbapp.New[stack.Addr, stack.PubKey](p2p.ComposeSecureSwarm[stack.Addr, stack.PubKey](s, sec), 40000, mbapp.WithNumWorkers(2))
			return sw, sw, nil
		case "mux":
			ids := []string{"1", "0"}
			if param == "string" {
				ids = []string{"chan", ""}
			}
			chans, err := stack.OpenMux(param, p2p.ComposeAskSwarm[stack.Addr](s, a), true, ids)
			if err != nil {
				return nil, nil, err
			}
			// every opened channel has an owner that receives; only the first is used for the probe
			for _, extra := range chans[1:] {
				extra := extra
				go func() {
					for extra.Receive(bg, func(stack.Msg) {}) == nil {
					}
				}()
				go func() {
					for extra.(stack.AskBidi).ServeAsk(bg, func(context.Context, []byte, stack.Msg) int { return 0 }) == nil {
					}
				}()
			}
			return chans[0], chans[0].(stack.AskBidi), nil
		case "p2pkeswarm":
			sw := p2pkeswarm.New[stack.Addr](s, stack.PrivKey(key))
			return stack.Erase[p2pkeswarm.Addr[stack.Addr]](sw), nil, nil
		case "multi":
			ms := multiswarm.New(map[string]multiswarm.DynSwarm{"mem": s})
			return stack.Erase[multiswarm.Addr](ms), nil, nil
		}
		return nil, nil, fmt.Errorf("unknown target %q", target)
	}
	var err error
	if mv.victim, mv.victimAsk, err = layer(vb, va, vs, 0); err != nil {
		bgCancel()
		return nil, err
	}
	if mv.honest, mv.honestAsk, err = layer(hb, ha, hs, 1); err != nil {
		bgCancel()
		return nil, err
	}
	mv.victimTop = mv.victim.LocalAddrs()[0]
	mv.close = func() {
		bgCancel()
		// the base nodes are closed explicitly: a multiplexer channel's Close leaves the transport
		// (and the multiplexer's loops on it) running
		for _, x := range []stack.Swarm{mv.victim, mv.honest, ab, vb, hb} {
			func() {
				defer func() { recover() }()
				x.Close()
			}()
		}
	}
	return mv, nil
}

func runCase(c crashCase) string {
	switch c.Target {
	case "frag", "mbapp", "mux", "p2pkeswarm", "multi":
		return runMemCase(c)
	case "session":
		return runSessionCase(c)
	case "channel":
		return runChannelCase(c)
	case "parsers":
		return runParserCase(c)
	case "dht":
		return runDHTCase(c)
	case "quic":
		return runQuicCase(c)
	}
	return "unknown target " + c.Target
}

func runMemCase(c crashCase) string {
	mv, err := buildMem(c.Target, c.Param)
	if err != nil {
		return "harness: " + err.Error()
	}
	defer mv.close()
	ctx, cancel := context.WithCancel(context.Background())
	defer cancel()
	var mu sync.Mutex
	var got [][]byte
	go func() {
		for {
			if err := mv.victim.Receive(ctx, func(m stack.Msg) {
				mu.Lock()
				got = append(got, append([]byte{}, m.Payload...))
				mu.Unlock()
			}); err != nil {
				return
			}
		}
	}()
	if mv.victimAsk != nil {
		go func() {
			for {
				if err := mv.victimAsk.ServeAsk(ctx, func(_ context.Context, resp []byte, m stack.Msg) int {
					return copy(resp, "pong")
				}); err != nil {
					return
				}
			}
		}()
	}
	for _, p := range c.Packets {
		pctx, cf := context.WithTimeout(ctx, 300*time.Millisecond)
		if p.Kind == "ask" {
			resp := make([]byte, 4096)
			mv.attackerAsk.Ask(pctx, resp, mv.victimInner, p2p.IOVec{unhex(p)})
		} else {
			mv.attacker.Tell(pctx, mv.victimInner, p2p.IOVec{unhex(p)})
		}
		cf()
	}
	time.Sleep(2 * time.Millisecond)
	// continued service: a valid multi-part message from the honest node must still arrive
	probe := bytes.Repeat([]byte("probe-0123456789"), 600) // 9600 bytes: multi-part for the fragmenting layers
	if c.Target == "mux" || c.Target == "multi" || c.Target == "p2pkeswarm" {
		probe = probe[:1000]
	}
	// Limits are patient: what a responsive machine is given; a stalled machine gets longer, and a case
	// that still cannot be judged is skipped ("skip:" answers are counted, not failed).
	probeStart := time.Now()
	inTime := func() bool {
		el := time.Since(probeStart)
		return el < 3*time.Second || (ev.Stalled(probeStart) && el < ev.Extended(3*time.Second))
	}
	for inTime() {
		pctx, cf := context.WithTimeout(ctx, time.Second)
		err := mv.honest.Tell(pctx, mv.victimTop, p2p.IOVec{probe})
		cf()
		if err != nil {
			if ev.Stalled(probeStart) {
				continue
			}
			return "valid message refused after the hostile input: " + err.Error()
		}
		ok := false
		for i := 0; i < 200 && !ok; i++ {
			mu.Lock()
			for _, g := range got {
				if bytes.Equal(g, probe) {
					ok = true
				}
			}
			mu.Unlock()
			if !ok {
				time.Sleep(time.Millisecond)
			}
		}
		if ok {
			if mv.honestAsk != nil {
				resp := make([]byte, 64)
				askStart := time.Now()
				actx, acf := context.WithTimeout(ctx, ev.Extended(2*time.Second))
				n, err := mv.honestAsk.Ask(actx, resp, mv.victimTop, p2p.IOVec{[]byte("ping")})
				acf()
				if err != nil || string(resp[:max(n, 0)]) != "pong" {
					if err != nil && ev.Stalled(askStart) {
						return "skip: machine stalled while the honest ask was pending"
					}
					return fmt.Sprintf("valid ask no longer served after the hostile input: %q %v", resp[:max(n, 0)], err)
				}
			}
			return ""
		}
	}
	if ev.Stalled(probeStart) {
		return "skip: machine stalled while the probe was pending"
	}
	return "a valid message is no longer delivered after the hostile input"
}

var nopLog = zap.NewNop()

func newSess(key int, isInit bool) *p2pke.Session {
	return p2pke.NewSession(p2pke.SessionConfig{Registry: stack.Registry, PrivateKey: stack.PrivKey(key), IsInit: isInit, Now: time.Unix(1_700_000_000, 0), RejectAfter: time.Hour, Logger: nopLog})
}

// runSessionCase: param = "<role>:<stage>"; packets are delivered to a session that has
// completed <stage> genuine handshake steps; afterwards the genuine handshake must still complete.
func runSessionCase(c crashCase) string {
	now := time.Unix(1_700_000_000, 0)
	var role string
	var stage int
	fmt.Sscanf(strings.Replace(c.Param, ":", " ", 1), "%s %d", &role, &stage)
	a, b := newSess(0, true), newSess(1, false)
	msgs := [][]byte{a.Handshake(nil)}
	to := b
	step := func() {
		m := msgs[len(msgs)-1]
		if len(m) == 0 {
			return
		}
		_, out, _ := to.Deliver(nil, m, now)
		msgs = append(msgs, out)
		if to == b {
			to = a
		} else {
			to = b
		}
	}
	for i := 0; i < stage; i++ {
		step()
	}
	victim := a
	if role == "resp" {
		victim = b
	}
	before := p2pke.VerifHandshakeIndex(victim)
	for _, p := range c.Packets {
		victim.Deliver(nil, unhex(p), now)
		victim.Handshake(nil)
		victim.Send(nil, []byte("x"), now)
	}
	if p2pke.VerifHandshakeIndex(victim) != before {
		// A hostile packet was a valid handshake message of another handshake (e.g. a replayed InitHello):
		// a session serves exactly one handshake, so it is now legitimately bound to that one. Survival
		// is all that is required of it; continuity under replay is the Channel's job (checked there).
		return ""
	}
	// continued service: genuine messages still complete the handshake
	for i := 0; i < 6; i++ {
		for _, s := range []*p2pke.Session{a, b} {
			peer := b
			if s == b {
				peer = a
			}
			m := s.Handshake(nil)
			for hops := 0; len(m) > 0 && hops < 6; hops++ {
				_, out, err := peer.Deliver(nil, m, now)
				if err != nil {
					break
				}
				m = out
				if peer == b {
					peer = a
				} else {
					peer = b
				}
			}
		}
	}
	if !a.IsReady() || !b.IsReady() {
		return fmt.Sprintf("after the hostile input the genuine handshake no longer completes (init ready=%v resp ready=%v)", a.IsReady(), b.IsReady())
	}
	ct, err := a.Send(nil, []byte("after"), now)
	if err != nil {
		return "Send failed after hostile input: " + err.Error()
	}
	if isApp, out, err := b.Deliver(nil, ct, now); err != nil || !isApp || string(out) != "after" {
		return fmt.Sprintf("data no longer flows after hostile input: %v %q %v", isApp, out, err)
	}
	return ""
}

func runChannelCase(c crashCase) string {
	var a, b *p2pke.Channel
	var mu sync.Mutex
	var gotB []string
	mk := func(key int, peer **p2pke.Channel, sink *[]string) *p2pke.Channel {
		return p2pke.NewChannel(p2pke.ChannelConfig{
			PrivateKey: stack.PrivKey(key), Logger: nopLog,
			AcceptKey:        func(*x509.PublicKey) bool { return true },
			HandshakeBackoff: 5 * time.Millisecond,
			Send: func(x []byte) {
				x = append([]byte{}, x...)
				go func() {
					out, _ := (*peer).Deliver(nil, x)
					if out != nil && sink != nil {
						mu.Lock()
						*sink = append(*sink, string(out))
						mu.Unlock()
					}
				}()
			},
		})
	}
	a = mk(0, &b, &gotB)
	b = mk(1, &a, nil)
	defer a.Close()
	defer b.Close()
	chanStart := time.Now()
	ctx, cf := context.WithTimeout(context.Background(), ev.Extended(3*time.Second))
	defer cf()
	if c.Param == "established" {
		if err := a.Send(ctx, p2p.IOVec{[]byte("hello")}); err != nil {
			return "harness: cannot establish: " + err.Error()
		}
	}
	for _, p := range c.Packets {
		b.Deliver(nil, unhex(p))
	}
	sendDone := make(chan error, 1)
	go func() { sendDone <- a.Send(ctx, p2p.IOVec{[]byte("after")}) }()
	if err, returned := ev.PatientRecv(3*time.Second, sendDone); !returned || err != nil {
		if !returned {
			err = context.DeadlineExceeded
		}
		return "Send no longer completes after hostile input: " + err.Error()
	}
	if ev.Patient(2*time.Second, func() bool {
		mu.Lock()
		defer mu.Unlock()
		for _, g := range gotB {
			if g == "after" {
				return true
			}
		}
		return false
	}) {
		return ""
	}
	_ = chanStart
	return "data no longer delivered after hostile input"
}

func runParserCase(c crashCase) string {
	for _, p := range c.Packets {
		b := unhex(p)
		switch c.Param {
		case "peerid":
			var id p2p.PeerID
			id.UnmarshalText(b)
		case "x509":
			if k, err := x509.ParsePublicKey(b); err == nil {
				x509.MarshalPublicKey(nil, &k)
				stack.Registry.LoadVerifier(&k)
				p2pkeswarm.DefaultFingerprinter(&k)
				quicswarm.DefaultFingerprinter(k)
			}
			if k, err := x509.ParsePrivateKey(b); err == nil {
				x509.MarshalPrivateKey(nil, &k)
				stack.Registry.LoadSigner(&k)
				stack.Registry.PublicFromPrivate(&k)
				x509.ToStandardSigner(&k)
			}
			stack.Registry.ParseVerifier(b)
		case "addr":
			udpswarm.ParseAddr(b)
			sshswarm.ParseAddr(b)
			memswarm.ParseAddr(b)
			inner := func(x []byte) (stack.Addr, error) { return udpswarm.ParseAddr(x) }
			p2pkeswarm.ParseAddr[stack.Addr](inner, b)
			quicswarm.ParseAddr[stack.Addr](inner, b)
			schema := multiswarm.NewSchemaFromSwarms(map[string]multiswarm.DynSwarm{"udp": parseOnly{inner}, "x": parseOnly{func(x []byte) (stack.Addr, error) { return memswarm.ParseAddr(x) }}})
			if a, err := schema.ParseAddr(b); err == nil {
				a.MarshalText()
			}
		case "p2pkemsg":
			if m, err := p2pke.ParseMessage(b); err == nil {
				m.GetNonce()
				m.GetInitHello()
				p2pke.PrettyPrint(m)
				p2pke.IsInitHello(b)
				p2pke.IsPostHandshake(b)
			}
		case "mbappmsg":
			if h, body, err := mbapp.ParseMessage(b); err == nil {
				h.IsAsk()
				h.IsReply()
				h.GetPartCount()
				h.GetTotalSize()
				h.GroupID()
				_ = body
			}
		}
	}
	return ""
}

type parseOnly struct {
	parse func([]byte) (stack.Addr, error)
}

func (s parseOnly) Tell(context.Context, stack.Addr, p2p.IOVec) error { return nil }
func (s parseOnly) Receive(context.Context, func(stack.Msg)) error    { return p2p.ErrClosed }
func (s parseOnly) LocalAddrs() []stack.Addr                          { return nil }
func (s parseOnly) MTU() int                                          { return 0 }
func (s parseOnly) Close() error                                      { return nil }
func (s parseOnly) ParseAddr(x []byte) (stack.Addr, error)            { return s.parse(x) }

// runDHTCase: packets are interpreted as operations on a DHT node with small caches.
func runDHTCase(c crashCase) string {
	var sizes [2]int
	fmt.Sscanf(strings.Replace(c.Param, ":", " ", 1), "%d %d", &sizes[0], &sizes[1])
	var local p2p.PeerID
	local[0] = 0x55
	var node *kademlia.DHTNode
	func() {
		defer func() {
			if r := recover(); r != nil {
				node = nil // constructor rejected the configuration
			}
		}()
		node = kademlia.NewDHTNode(kademlia.DHTNodeParams{LocalID: local, PeerCacheSize: sizes[0], DataCacheSize: sizes[1]})
	}()
	if node == nil {
		return ""
	}
	for _, p := range c.Packets {
		b := unhex(p)
		if len(b) == 0 {
			continue
		}
		op, arg := b[0]%6, b[1:]
		var id p2p.PeerID
		copy(id[:], arg)
		switch op {
		case 0:
			node.AddPeer(id, arg)
		case 1:
			node.HandlePut(id, kademlia.PutReq{Key: arg, Value: arg, TTLms: binary.BigEndian.Uint64(append(arg, make([]byte, 8)...))})
		case 2:
			node.HandleGet(id, kademlia.GetReq{Key: arg})
		case 3:
			node.HandleFindNode(id, kademlia.FindNodeReq{Target: id, Limit: int(int8(b[len(b)-1]))})
		case 4:
			node.RemovePeer(id)
			node.ListPeers(int(int8(b[len(b)-1])))
		case 5:
			node.ListNodeInfos(arg, int(b[len(b)-1]))
			node.WouldAdd(arg)
			node.GetPeer(id)
		}
	}
	// continued service
	var p p2p.PeerID
	p[0], p[31] = 0xAA, 1
	node.AddPeer(p, []byte("info"))
	node.HandleFindNode(p, kademlia.FindNodeReq{Target: p, Limit: 3})
	node.Count()
	return ""
}

// ---- parent side ----

var (
	clientMu sync.Mutex
	clients  = map[string]*worker.Client{}
)

func client(name string) *worker.Client {
	clientMu.Lock()
	defer clientMu.Unlock()
	if clients[name] == nil {
		clients[name] = worker.NewClient(name)
	}
	return clients[name]
}

// execute runs the case in the worker and fails the rapid test if the process died or service stopped.
func execute(t *rapid.T, sub string, c crashCase, nontrivial bool) {
	ev.Eval(sub)
	if nontrivial {
		if ev.NonTrivial(sub, c.String()) {
			ev.Sample(sub, c.String())
		}
	}
	res := client(sub).Run(c, 120*time.Second)
	switch {
	case res.OK:
		return
	case strings.HasPrefix(res.Message, "skip:"):
		ev.Class(sub, "not-judged:"+strings.TrimPrefix(res.Message, "skip: "))
		return
	case res.Infra:
		t.Fatalf("VERIF-INCONCLUSIVE worker unavailable (could not be started, or was killed from outside): %s", res.Message)
	case res.Died:
		t.Fatalf("the process died while handling hostile input: %s\ncase: %v", res.Message, c)
	case res.Timeout:
		t.Fatalf("the node stopped answering: %s\ncase: %v", res.Message, c)
	default:
		t.Fatalf("%s\ncase: %v", res.Message, c)
	}
}

func hx(b []byte) string { return hex.EncodeToString(b) }

var hostileVarints = []uint64{0, 1, 2, 127, 128, 255, 256, 65535, 1 << 31, 1<<32 - 1, 1 << 32, 1 << 62, 1 << 63, 1<<64 - 1}

func genVarint(t *rapid.T, label string) uint64 {
	if rapid.Bool().Draw(t, label+"small") {
		return uint64(rapid.IntRange(0, 6).Draw(t, label))
	}
	return rapid.SampledFrom(hostileVarints).Draw(t, label+"big")
}

// appendHostileVarint appends a varint field: mostly a valid encoding of a hostile value, sometimes an
// encoding no encoder produces (more than ten bytes, overflowing 64 bits, non-minimal, cut off).
func appendHostileVarint(t *rapid.T, b []byte, label string) []byte {
	if rapid.IntRange(0, 4).Draw(t, label+"Raw") > 0 {
		return binary.AppendUvarint(b, genVarint(t, label))
	}
	raw := rapid.SampledFrom([][]byte{
		append(bytes.Repeat([]byte{0xff}, 10), 0x01), // overflows 64 bits
		append(bytes.Repeat([]byte{0xff}, 9), 0x7f),  // 10th byte too large
		bytes.Repeat([]byte{0xff}, 12),               // never terminates within 10 bytes
		append(bytes.Repeat([]byte{0x80}, 10), 0x00), // eleven bytes of padding
		{0x80, 0x00},       // non-minimal zero
		{0x81, 0x80, 0x00}, // non-minimal one
		{0x80},             // cut off
	}).Draw(t, label+"Enc")
	return append(b, raw...)
}

func TestC08Frag(t *testing.T) {
	const sub = "C08.fragswarm"
	ev.Rule(sub, "rapid, executed in a child process: sequences of 1-12 packets told by a raw transport node to a fragmenting swarm: structured (message id from a tiny set so that later packets hit earlier reassembly state, part index / part count from {0..6, 127, 128, 255, 256, 65535, 2^32, 2^63, 2^64-1} so that later packets contradict earlier totals, bodies of 0-60 bytes), truncations of those, and random bytes. Oracle: the process survives and a valid multi-part message from an honest node is still delivered. non-trivial = >= 2 packets with the same message id; distinct by packet sequence")
	rapid.Check(t, func(t *rapid.T) {
		c := crashCase{Target: "frag"}
		n := rapid.IntRange(1, 12).Draw(t, "packets")
		ids := map[uint64]int{}
		for i := 0; i < n; i++ {
			var b []byte
			if rapid.IntRange(0, 9).Draw(t, "random") == 0 {
				b = rapid.SliceOfN(rapid.Byte(), 0, 40).Draw(t, "bytes")
			} else {
				id := uint64(rapid.IntRange(0, 2).Draw(t, "id"))
				ids[id]++
				b = binary.AppendUvarint(b, id)
				b = appendHostileVarint(t, b, "part")
				b = appendHostileVarint(t, b, "total")
				b = append(b, rapid.SliceOfN(rapid.Byte(), 0, 60).Draw(t, "body")...)
				if rapid.IntRange(0, 7).Draw(t, "trunc") == 0 {
					b = b[:rapid.IntRange(0, len(b)).Draw(t, "cut")]
				}
			}
			c.Packets = append(c.Packets, packet{"tell", hx(b)})
		}
		nt := false
		for _, k := range ids {
			if k >= 2 {
				nt = true
			}
		}
		execute(t, sub, c, nt)
	})
}

func genMbappPacket(t *rapid.T) []byte {
	h := make([]byte, 24)
	var mode uint32
	if rapid.Bool().Draw(t, "isAsk") {
		mode |= 1 << 31
	}
	if rapid.Bool().Draw(t, "isReply") {
		mode |= 1 << 30
	}
	mode |= uint32(rapid.SampledFrom([]int{0, 0, 1, 255}).Draw(t, "errCode"))
	binary.BigEndian.PutUint32(h[0:], mode)
	binary.BigEndian.PutUint32(h[4:], uint32(rapid.SampledFrom([]int{0, 1, 1 << 30}).Draw(t, "originTime")))
	binary.BigEndian.PutUint32(h[8:], uint32(rapid.IntRange(0, 2).Draw(t, "counter")))
	binary.BigEndian.PutUint32(h[12:], uint32(rapid.SampledFrom([]uint64{0, 1, 2, 10, 100, 39999, 40000, 40001, 1 << 31, 1<<32 - 1}).Draw(t, "totalSize")))
	binary.BigEndian.PutUint16(h[16:], uint16(rapid.SampledFrom([]int{0, 1, 2, 3, 255, 65535}).Draw(t, "partIndex")))
	binary.BigEndian.PutUint16(h[18:], uint16(rapid.SampledFrom([]int{0, 1, 2, 3, 4, 255, 65535}).Draw(t, "partCount")))
	binary.BigEndian.PutUint32(h[20:], uint32(rapid.SampledFrom([]uint64{0, 1, 1000, 1<<32 - 1}).Draw(t, "timeout")))
	body := rapid.SliceOfN(rapid.Byte(), 0, 50).Draw(t, "body")
	b := append(h, body...)
	if rapid.IntRange(0, 9).Draw(t, "trunc") == 0 {
		b = b[:rapid.IntRange(0, len(b)).Draw(t, "cut")]
	}
	return b
}

func TestC08Mbapp(t *testing.T) {
	const sub = "C08.mbapp"
	ev.Rule(sub, "rapid, executed in a child process: sequences of 1-12 packets told to a message-box swarm: 24-byte headers with generated mode bits (tell / ask / reply), error code, origin time and counter from tiny sets (so that packets share reassembly slots), total size from {0,1,2,10,100,MTU-1,MTU,MTU+1,2^31,2^32-1}, part index / count from {0,1,2,3,255,65535}, bodies of 0-50 bytes, truncations and random bytes. Oracle: the process survives; a valid multi-part tell and a valid ask from an honest node are still served. non-trivial = >= 2 packets; distinct by packet sequence")
	rapid.Check(t, func(t *rapid.T) {
		c := crashCase{Target: "mbapp"}
		n := rapid.IntRange(1, 12).Draw(t, "packets")
		for i := 0; i < n; i++ {
			var b []byte
			if rapid.IntRange(0, 9).Draw(t, "random") == 0 {
				b = rapid.SliceOfN(rapid.Byte(), 0, 60).Draw(t, "bytes")
			} else {
				b = genMbappPacket(t)
			}
			c.Packets = append(c.Packets, packet{"tell", hx(b)})
		}
		execute(t, sub, c, n >= 2)
	})
}

func TestC08Mux(t *testing.T) {
	const sub = "C08.mux"
	ev.Rule(sub, "rapid, executed in a child process: 1-8 packets told and asked to each of the five multiplexer kinds: headers built from hostile varints (0, 127, 128, 2^31, 2^32, 2^63, 2^64-1), truncated fixed-width ids, names longer than the packet, empty packets, random bytes. Oracle: the process survives; a valid tell and ask on an open channel are still served. non-trivial = packet that passes the first length check (>= header size); distinct by (kind, packets)")
	rapid.Check(t, func(t *rapid.T) {
		kind := rapid.SampledFrom([]string{"string", "uint16", "uint32", "uint64", "varint"}).Draw(t, "kind")
		c := crashCase{Target: "mux", Param: kind}
		n := rapid.IntRange(1, 8).Draw(t, "packets")
		nt := false
		for i := 0; i < n; i++ {
			var b []byte
			switch rapid.IntRange(0, 3).Draw(t, "shape") {
			case 0:
				b = binary.AppendUvarint(nil, genVarint(t, "len"))
				b = append(b, rapid.SliceOfN(rapid.Byte(), 0, 20).Draw(t, "rest")...)
			case 1:
				b = rapid.SliceOfN(rapid.Byte(), 0, 12).Draw(t, "bytes")
			case 2:
				b = bytes.Repeat([]byte{0xff}, rapid.IntRange(0, 12).Draw(t, "ffs"))
			case 3:
				b = []byte{}
			}
			if len(b) >= 2 {
				nt = true
			}
			c.Packets = append(c.Packets, packet{rapid.SampledFrom([]string{"tell", "ask"}).Draw(t, "verb"), hx(b)})
		}
		execute(t, sub, c, nt)
	})
}

func TestC08Parsers(t *testing.T) {
	const sub = "C08.parsers"
	ev.Rule(sub, "rapid, executed in a child process: arbitrary and near-valid text/bytes given to every address parser (UDP, SSH, memory, P2PKE, QUIC, multi-transport), PeerID.UnmarshalText, the public/private key parsers and registry loaders, and the P2PKE / message-box header parsers. Oracle: the process survives. non-trivial = input of >= 4 bytes; distinct by (parser, input)")
	valid := map[string][]string{
		"addr":     {"127.0.0.1:80", "[::1]:80", "SHA256:AAAAAAAAAAAAAAAAAAAAAAAAAAAAAAAAAAAAAAAAAAA@127.0.0.1:22", "------------------------------------------0@127.0.0.1:1", "udp://1.2.3.4:5", "x://12", "-1"},
		"peerid":   {"------------------------------------------0", "zzzzzzzzzzzzzzzzzzzzzzzzzzzzzzzzzzzzzzzzzzw"},
		"x509":     {hexStr(x509.MarshalPublicKey(nil, ptr(stack.PubOf(0)))), hexStr(x509.MarshalPrivateKey(nil, ptr(stack.PrivKey(0))))},
		"p2pkemsg": {hexStr(newSess(0, true).Handshake(nil))},
		"mbappmsg": {hexStr(make([]byte, 24))},
	}
	rapid.Check(t, func(t *rapid.T) {
		which := rapid.SampledFrom([]string{"addr", "addr", "peerid", "x509", "x509", "p2pkemsg", "mbappmsg"}).Draw(t, "parser")
		c := crashCase{Target: "parsers", Param: which}
		var b []byte
		if rapid.Bool().Draw(t, "fromValid") {
			v := rapid.SampledFrom(valid[which]).Draw(t, "valid")
			if which == "x509" || which == "p2pkemsg" || which == "mbappmsg" {
				b, _ = hex.DecodeString(v)
			} else {
				b = []byte(v)
			}
			switch rapid.IntRange(0, 3).Draw(t, "mut") {
			case 0:
				if len(b) > 0 {
					b[rapid.IntRange(0, len(b)-1).Draw(t, "at")] = rapid.Byte().Draw(t, "c")
				}
			case 1:
				b = b[:rapid.IntRange(0, len(b)).Draw(t, "cut")]
			case 2:
				at := rapid.IntRange(0, len(b)).Draw(t, "at")
				b = append(append(append([]byte{}, b[:at]...), rapid.SliceOfN(rapid.Byte(), 1, 4).Draw(t, "ins")...), b[at:]...)
			}
		} else {
			b = rapid.SliceOfN(rapid.Byte(), 0, 80).Draw(t, "bytes")
		}
		c.Packets = []packet{{"text", hx(b)}}
		execute(t, sub, c, len(b) >= 4)
	})
}

func hexStr(b []byte) string { return hex.EncodeToString(b) }
func ptr[T any](v T) *T      { return &v }

func TestC08Session(t *testing.T) {
	const sub = "C08.p2pke_session_channel"
	ev.Rule(sub, "rapid, executed in a child process: 1-8 packets delivered to a P2PKE session (either role, after 0-4 genuine handshake steps) or to a channel (fresh or established): genuine messages of this and of other handshakes with a byte replaced / truncated / extended / counter rewritten, InitHello bodies with hostile embedded lengths, and random bytes. Oracle: the process survives, the genuine handshake still completes afterwards and data flows. non-trivial = >= 1 packet derived from a genuine message; distinct by (target, stage, packets)")
	// genuine material
	a, b := newSess(0, true), newSess(1, false)
	now := time.Unix(1_700_000_000, 0)
	var genuine [][]byte
	m := a.Handshake(nil)
	to := b
	for i := 0; i < 5 && len(m) > 0; i++ {
		genuine = append(genuine, m)
		_, out, _ := to.Deliver(nil, m, now)
		m = out
		if to == b {
			to = a
		} else {
			to = b
		}
	}
	if ct, err := a.Send(nil, []byte("data"), now); err == nil {
		genuine = append(genuine, ct)
	}
	rapid.Check(t, func(t *rapid.T) {
		var c crashCase
		if rapid.Bool().Draw(t, "channel") {
			c = crashCase{Target: "channel", Param: rapid.SampledFrom([]string{"fresh", "established"}).Draw(t, "state")}
		} else {
			c = crashCase{Target: "session", Param: fmt.Sprintf("%s:%d", rapid.SampledFrom([]string{"init", "resp"}).Draw(t, "role"), rapid.IntRange(0, 4).Draw(t, "stage"))}
		}
		n := rapid.IntRange(1, 8).Draw(t, "packets")
		nt := false
		for i := 0; i < n; i++ {
			var p []byte
			if rapid.IntRange(0, 4).Draw(t, "random") == 0 {
				p = rapid.SliceOfN(rapid.Byte(), 0, 64).Draw(t, "bytes")
				if len(p) >= 4 && rapid.Bool().Draw(t, "lowCounter") {
					binary.BigEndian.PutUint32(p, uint32(rapid.IntRange(0, 20).Draw(t, "ctr")))
				}
			} else {
				nt = true
				p = append([]byte{}, genuine[rapid.IntRange(0, len(genuine)-1).Draw(t, "genuine")]...)
				switch rapid.IntRange(0, 4).Draw(t, "mut") {
				case 0:
					p[rapid.IntRange(0, len(p)-1).Draw(t, "at")] ^= 1 << rapid.IntRange(0, 7).Draw(t, "bit")
				case 1:
					p = p[:rapid.IntRange(0, len(p)).Draw(t, "cut")]
				case 2:
					binary.BigEndian.PutUint32(p, uint32(rapid.IntRange(0, 20).Draw(t, "ctr")))
				case 3:
					// hostile trailing length field (InitHello carries a 16-bit length at the end)
					if len(p) >= 2 {
						// every value around the body length (the body is what follows the 4-byte counter; the field itself takes 2)
						binary.BigEndian.PutUint16(p[len(p)-2:], uint16(rapid.SampledFrom([]int{0, 1, 65535, len(p), len(p) - 1, len(p) - 2, len(p) - 3, len(p) - 4, len(p) - 5, len(p) - 6, len(p) - 7, len(p) - 8}).Draw(t, "tailLen")))
						if len(p) >= 4 && rapid.Bool().Draw(t, "asInitHello") {
							binary.BigEndian.PutUint32(p, 0)
						}
						if rapid.IntRange(0, 3).Draw(t, "tiny") == 0 {
							// the shortest packets that still have the field: counter 0 and a body of 2-6 bytes
							n := rapid.IntRange(2, 6).Draw(t, "tinyBody")
							p = make([]byte, 4+n)
							binary.BigEndian.PutUint16(p[len(p)-2:], uint16(rapid.IntRange(max(0, n-3), n+1).Draw(t, "tinyLen")))
						}
					}
				case 4:
					p = append(p, rapid.SliceOfN(rapid.Byte(), 1, 8).Draw(t, "extra")...)
				}
			}
			c.Packets = append(c.Packets, packet{"tell", hx(p)})
		}
		execute(t, sub, c, nt)
	})
}

func TestC08SwarmsAndDHT(t *testing.T) {
	const sub = "C08.p2pkeswarm_multiswarm_dht"
	ev.Rule(sub, "rapid, executed in a child process: (a) 1-8 raw packets told to a P2PKE swarm / multi-transport swarm by a raw transport node (random bytes, low counters, truncated genuine hellos); (b) operation sequences on a DHT node with small peer/data caches (sizes 0..40): AddPeer / HandlePut / HandleGet / HandleFindNode / RemovePeer / ListNodeInfos with arbitrary ids, keys of any length, negative and huge limits. Oracle: the process survives and keeps serving. non-trivial = >= 2 packets or operations; distinct by case")
	hello := newSess(0, true).Handshake(nil)
	rapid.Check(t, func(t *rapid.T) {
		var c crashCase
		n := rapid.IntRange(1, 10).Draw(t, "n")
		switch rapid.IntRange(0, 2).Draw(t, "what") {
		case 0:
			c = crashCase{Target: rapid.SampledFrom([]string{"p2pkeswarm", "multi"}).Draw(t, "swarm")}
			for i := 0; i < n; i++ {
				var p []byte
				switch rapid.IntRange(0, 2).Draw(t, "shape") {
				case 0:
					p = rapid.SliceOfN(rapid.Byte(), 0, 64).Draw(t, "bytes")
				case 1:
					p = append([]byte{}, hello[:rapid.IntRange(0, len(hello)).Draw(t, "cut")]...)
				case 2:
					p = append([]byte{}, hello...)
					p[rapid.IntRange(0, len(p)-1).Draw(t, "at")] = rapid.Byte().Draw(t, "c")
				}
				c.Packets = append(c.Packets, packet{"tell", hx(p)})
			}
		default:
			c = crashCase{Target: "dht", Param: fmt.Sprintf("%d:%d", rapid.SampledFrom([]int{0, 1, 7, 8, 9, 16, 40, 256}).Draw(t, "peerCache"), rapid.SampledFrom([]int{0, 1, 2, 8}).Draw(t, "dataCache"))}
			for i := 0; i < n; i++ {
				op := byte(rapid.IntRange(0, 5).Draw(t, "op"))
				var arg []byte
				if rapid.Bool().Draw(t, "structuredID") {
					arg = make([]byte, 32)
					arg[0] = 0x55
					bit := rapid.IntRange(0, 255).Draw(t, "bit")
					arg[bit/8] ^= 0x80 >> (bit % 8)
				} else {
					arg = rapid.SliceOfN(rapid.Byte(), 0, 40).Draw(t, "arg")
				}
				c.Packets = append(c.Packets, packet{"op", hx(append([]byte{op}, arg...))})
			}
		}
		execute(t, sub, c, n >= 2)
	})
}
