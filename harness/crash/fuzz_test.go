package crash

import (
	"bytes"
	"context"
	"encoding/binary"
	"testing"
	"time"

	"go.brendoncarroll.net/p2p"
	"go.brendoncarroll.net/p2p/p/mbapp"
	"go.brendoncarroll.net/p2p/s/fragswarm"

	"verif/harness/internal/stack"
)

// Native fuzz targets for single-packet, synchronous entry points. A panic is the failure.

func FuzzSessionDeliver(f *testing.F) {
	now := time.Unix(1_700_000_000, 0)
	a, b := newSess(0, true), newSess(1, false)
	m := a.Handshake(nil)
	to := b
	for i := 0; i < 5 && len(m) > 0; i++ {
		f.Add(m, uint8(i))
		_, out, _ := to.Deliver(nil, m, now)
		m = out
		if to == b {
			to = a
		} else {
			to = b
		}
	}
	f.Add([]byte{0, 0, 0, 0, 0xff, 0xff}, uint8(0))
	f.Add(bytes.Repeat([]byte{0xff}, 64), uint8(3))
	f.Fuzz(func(t *testing.T, pkt []byte, stage uint8) {
		a, b := newSess(0, true), newSess(1, false)
		msgs := [][]byte{a.Handshake(nil)}
		to := b
		for i := 0; i < int(stage%5); i++ {
			m := msgs[len(msgs)-1]
			if len(m) == 0 {
				break
			}
			_, out, _ := to.Deliver(nil, m, now)
			msgs = append(msgs, out)
			if to == b {
				to = a
			} else {
				to = b
			}
		}
		for _, s := range []interface {
			Deliver([]byte, []byte, time.Time) (bool, []byte, error)
		}{a, b} {
			s.Deliver(nil, pkt, now)
		}
		a.Handshake(nil)
		b.Handshake(nil)
	})
}

func FuzzFragPacket(f *testing.F) {
	mk := func(id, part, total uint64, body []byte) []byte {
		b := binary.AppendUvarint(nil, id)
		b = binary.AppendUvarint(b, part)
		b = binary.AppendUvarint(b, total)
		return append(b, body...)
	}
	f.Add(mk(7, 0, 2, []byte("x")), mk(7, 4, 5, []byte("y")))
	f.Add(mk(1, 0, 1, nil), mk(1, 255, 0, nil))
	f.Add([]byte{}, []byte{0xff, 0xff, 0xff, 0xff, 0xff, 0xff, 0xff, 0xff, 0xff, 0x01})
	f.Fuzz(func(t *testing.T, p1, p2 []byte) {
		sc := stack.NewScript(1, 4096)
		sw := fragswarm.New[stack.Addr](stack.TellOnly{Swarm: sc}, 40000)
		defer sw.Close()
		// whatever the packets assemble to has an owner: without a receiver a completed message would
		// block the swarm's loop in its hand-off (by design), which is not a failure on the packet
		go func() {
			for sw.Receive(stack.Ctx, func(stack.Msg) {}) == nil {
			}
		}()
		for _, p := range [][]byte{p1, p2, p1} {
			if txt, _ := sc.Inject(stack.SAddr{N: 2}, p, time.Second); txt != "" {
				t.Fatalf("fragswarm panicked on %x: %s", p, txt)
			}
		}
	})
}

func FuzzMuxPacket(f *testing.F) {
	f.Add([]byte{4, 'c', 'h', 'a', 'n', 1, 2, 3}, uint8(0), false)
	f.Add(binary.AppendUvarint(nil, 1<<63), uint8(0), true)
	f.Add([]byte{0, 1}, uint8(1), true)
	f.Add([]byte{}, uint8(4), false)
	kinds := []string{"string", "uint16", "uint32", "uint64", "varint"}
	f.Fuzz(func(t *testing.T, pkt []byte, kind uint8, ask bool) {
		k := kinds[int(kind)%len(kinds)]
		ids := []string{"1", "0"}
		if k == "string" {
			ids = []string{"chan", ""}
		}
		sc := stack.NewScript(1, 4096)
		chans, err := stack.OpenMux(k, sc, true, ids)
		if err != nil {
			t.Skip()
		}
		defer sc.Close()
		for _, c := range chans {
			c := c
			go func() {
				for c.Receive(stack.Ctx, func(stack.Msg) {}) == nil {
				}
			}()
			go func() {
				for c.(stack.AskBidi).ServeAsk(stack.Ctx, func(_ context.Context, _ []byte, _ stack.Msg) int { return 0 }) == nil {
				}
			}()
			defer c.Close()
		}
		var txt string
		if ask {
			_, _, txt, _ = sc.InjectAsk(stack.SAddr{N: 2}, pkt, time.Second)
		} else {
			txt, _ = sc.Inject(stack.SAddr{N: 2}, pkt, time.Second)
		}
		if txt != "" {
			t.Fatalf("%s multiplexer failed on %x: %s", k, pkt, txt)
		}
	})
}

func FuzzMbappHeader(f *testing.F) {
	f.Add(make([]byte, 24))
	f.Add(bytes.Repeat([]byte{0xff}, 30))
	f.Fuzz(func(t *testing.T, pkt []byte) {
		h, body, err := mbapp.ParseMessage(pkt)
		if err != nil {
			return
		}
		h.IsAsk()
		h.IsReply()
		h.GetErrorCode()
		h.GetOriginTime()
		h.GetCounter()
		h.GetTotalSize()
		h.GetPartIndex()
		h.GetPartCount()
		h.GetTimeout()
		h.GroupID()
		_ = body
		_ = p2p.VecSize(p2p.IOVec{body})
	})
}
