package kad

import (
	"bytes"
	"fmt"
	"sort"
	"testing"
	"time"

	"go.brendoncarroll.net/p2p"
	"go.brendoncarroll.net/p2p/p/kademlia"
	"pgregory.net/rapid"

	"verif/harness/internal/ev"
)

var t0 = time.Unix(1_700_000_000, 0)

type c19case struct {
	locus   []byte
	entries [][]byte // distinct keys actually present
	query   []byte
}

func (c c19case) String() string {
	return fmt.Sprintf("locus=%s entries=[%s] query=%s", hx(c.locus), hxs(sortedCopy(c.entries)), hx(c.query))
}

// genC19 builds a cache and a query. Entry keys are at least as long as the
// locus (assumption stated in DESIGN.md section 6).
func genC19(t *rapid.T) (c c19case, cache *kademlia.Cache[int]) {
	c.locus = genLocus().Draw(t, "locus")
	n := rapid.IntRange(0, 14).Draw(t, "n")
	cache = kademlia.NewCache[int](c.locus, 1000, 0)
	// a query drawn first so that entries can be placed relative to it
	qkind := rapid.SampledFrom([]string{"rel", "rel", "rel", "locus", "entry", "short", "empty", "long", "random"}).Draw(t, "qkind")
	switch qkind {
	case "rel", "entry":
		c.query = genKeyRel(c.locus, 0).Draw(t, "q")
	case "locus":
		c.query = append([]byte{}, c.locus...)
	case "short":
		q := genKeyRel(c.locus, 0).Draw(t, "q")
		c.query = q[:rapid.IntRange(0, len(q)-1).Draw(t, "qlen")]
	case "empty":
		c.query = []byte{}
	case "long":
		c.query = genKeyRel(c.locus, 2).Draw(t, "q")
	case "random":
		c.query = rapid.SliceOfN(rapid.Byte(), 0, len(c.locus)+2).Draw(t, "q")
	}
	seen := map[string]bool{}
	for i := 0; i < n; i++ {
		var k []byte
		switch rapid.IntRange(0, 3).Draw(t, "ekind") {
		case 0, 1:
			k = genKeyRel(c.locus, 1).Draw(t, "e")
		case 2:
			base := c.query
			if len(base) < len(c.locus) {
				base = append(append([]byte{}, base...), c.locus[len(base):]...)
			}
			k = genKeyRel(base[:len(c.locus)], 1).Draw(t, "e")
		case 3:
			k = genBytesSmallAlpha(len(c.locus)).Draw(t, "e")
		}
		if seen[string(k)] {
			continue
		}
		seen[string(k)] = true
		cache.Put(k, i, t0, time.Time{})
		c.entries = append(c.entries, k)
	}
	if qkind == "entry" && len(c.entries) > 0 {
		c.query = append([]byte{}, c.entries[rapid.IntRange(0, len(c.entries)-1).Draw(t, "qi")]...)
	}
	return c, cache
}

// nontrivial: the query's own bucket is empty, or entries exist in >= 2
// buckets deeper than the query's own.
func c19NonTrivial(c c19case) (bool, string) {
	if len(c.entries) < 2 {
		return false, ""
	}
	lz := refLeadingZeros(refDistance(c.locus, c.query))
	own := 0
	deeper := map[int]bool{}
	for _, e := range c.entries {
		b := refBucket(c.locus, e)
		if b == lz {
			own++
		}
		if b > lz {
			deeper[b] = true
		}
	}
	switch {
	case len(deeper) >= 2:
		return true, "deeper>=2"
	case own == 0:
		return true, "own-empty"
	}
	return false, ""
}

func TestC19ForEachOrder(t *testing.T) {
	const sub = "C19.foreach_order"
	ev.Rule(sub, "rapid: locus (1,2,3,32 bytes), 0-14 entries placed relative to locus/query, query in {related, locus, an entry, shorter, empty, longer, random}; oracle = brute-force bytes.Compare sort of XOR distances; non-trivial = >=2 entries and (query's own bucket empty or entries in >=2 buckets deeper than the query's); distinct by (locus, entry set, query)")
	rapid.Check(t, func(t *rapid.T) {
		c, cache := genC19(t)
		ev.Eval(sub)
		if nt, class := c19NonTrivial(c); nt {
			ev.Class(sub, class)
			if ev.NonTrivial(sub, c.String()) {
				ev.Sample(sub, c.String())
			}
		} else {
			ev.Class(sub, "trivial")
		}
		// ForEach: permutation in non-decreasing distance.
		var got [][]byte
		cache.ForEach(c.query, func(e kademlia.Entry[int]) bool {
			got = append(got, append([]byte{}, e.Key...))
			return true
		})
		if len(got) != len(c.entries) {
			t.Fatalf("ForEach yielded %d entries, cache holds %d: %v", len(got), len(c.entries), c)
		}
		a, b := sortedCopy(got), sortedCopy(c.entries)
		for i := range a {
			if !bytes.Equal(a[i], b[i]) {
				t.Fatalf("ForEach is not a permutation of the contents: got [%s] %v", hxs(got), c)
			}
		}
		for i := 1; i < len(got); i++ {
			if refCmp(c.query, got[i-1], got[i]) > 0 {
				t.Fatalf("ForEach out of order at %d: %s before %s (dist %s > %s) %v", i, hx(got[i-1]), hx(got[i]),
					hx(refDistance(c.query, got[i-1])), hx(refDistance(c.query, got[i])), c)
			}
		}
		// a second enumeration of the same, unmodified cache relative to another key must be ordered for that key
		q2 := genKeyRel(c.locus, 0).Draw(t, "secondQuery")
		if len(c.entries) > 0 && rapid.Bool().Draw(t, "q2NearEntry") {
			q2 = genKeyRel(c.entries[rapid.IntRange(0, len(c.entries)-1).Draw(t, "q2e")][:len(c.locus)], 0).Draw(t, "secondQuery2")
		}
		var got2 [][]byte
		cache.ForEach(q2, func(e kademlia.Entry[int]) bool {
			got2 = append(got2, append([]byte{}, e.Key...))
			return true
		})
		if len(got2) != len(c.entries) {
			t.Fatalf("second ForEach (key %s) yielded %d entries, cache holds %d: %v", hx(q2), len(got2), len(c.entries), c)
		}
		for i := 1; i < len(got2); i++ {
			if refCmp(q2, got2[i-1], got2[i]) > 0 {
				t.Fatalf("second ForEach (key %s, after one for %s) out of order at %d: %s before %s; %v", hx(q2), hx(c.query), i, hx(got2[i-1]), hx(got2[i]), c)
			}
		}
		if cl2 := cache.Closest(q2); cl2 != nil {
			for _, e := range c.entries {
				if refCmp(q2, e, cl2.Key) < 0 {
					t.Fatalf("Closest(%s)=%s after an enumeration for %s, but %s is nearer; %v", hx(q2), hx(cl2.Key), hx(c.query), hx(e), c)
				}
			}
		}
		// Closest: a true minimum.
		cl := cache.Closest(c.query)
		if len(c.entries) == 0 {
			if cl != nil {
				t.Fatalf("Closest on empty cache returned %v", cl)
			}
		} else {
			if cl == nil {
				t.Fatalf("Closest returned nil on non-empty cache %v", c)
			}
			for _, e := range c.entries {
				if refCmp(c.query, e, cl.Key) < 0 {
					t.Fatalf("Closest=%s but %s is nearer %v", hx(cl.Key), hx(e), c)
				}
			}
		}
		// ForEachCloser: exactly the entries strictly nearer to the query than the locus.
		var want [][]byte
		for _, e := range c.entries {
			if refCmp(c.query, e, c.locus) < 0 {
				want = append(want, e)
			}
		}
		var closer [][]byte
		cache.ForEachCloser(c.query, func(e kademlia.Entry[int]) bool {
			closer = append(closer, append([]byte{}, e.Key...))
			return true
		})
		if len(want) > 0 {
			ev.Class(sub, "closer-nonempty")
		}
		ws, cs := sortedCopy(want), sortedCopy(closer)
		if hxs(ws) != hxs(cs) {
			t.Fatalf("ForEachCloser: got [%s] want [%s] %v", hxs(cs), hxs(ws), c)
		}
	})
}

func TestC19Matching(t *testing.T) {
	const sub = "C19.foreach_matching"
	ev.Rule(sub, "rapid: cache as in foreach_order; prefix of 0-4 bytes related to locus/entries, every bit count 0..8*len(prefix); oracle = entries whose first nbits equal the prefix's; must not panic; non-trivial = nbits>0 and at least one entry matches and one does not; distinct by (contents, prefix, nbits)")
	rapid.Check(t, func(t *rapid.T) {
		c, cache := genC19(t)
		var prefix []byte
		if len(c.entries) > 0 && rapid.Bool().Draw(t, "fromEntry") {
			e := c.entries[rapid.IntRange(0, len(c.entries)-1).Draw(t, "pi")]
			prefix = append([]byte{}, e[:rapid.IntRange(0, min(len(e), 4)).Draw(t, "plen")]...)
		} else {
			l := append([]byte{}, c.locus...)
			prefix = l[:rapid.IntRange(0, min(len(l), 4)).Draw(t, "plen")]
		}
		if rapid.Bool().Draw(t, "exactCap") {
			prefix = prefix[:len(prefix):len(prefix)] // no spare capacity behind the prefix
		}
		nbits := rapid.IntRange(0, 8*len(prefix)).Draw(t, "nbits")
		ev.Eval(sub)
		var want [][]byte
		for _, e := range c.entries {
			if len(e)*8 >= nbits && refLeadingZeros(refDistance(e, prefix)) >= nbits {
				want = append(want, e)
			}
		}
		if nbits > 0 && len(want) > 0 && len(want) < len(c.entries) {
			ev.Class(sub, fmt.Sprintf("nbits%%8=%d", nbits%8))
			key := fmt.Sprintf("%v prefix=%s nbits=%d", c, hx(prefix), nbits)
			if ev.NonTrivial(sub, key) {
				ev.Sample(sub, key)
			}
		}
		var got [][]byte
		func() {
			defer func() {
				if r := recover(); r != nil {
					t.Fatalf("ForEachMatching(prefix=%s, nbits=%d) panicked: %v; %v", hx(prefix), nbits, r, c)
				}
			}()
			cache.ForEachMatching(prefix, nbits, func(e kademlia.Entry[int]) bool {
				got = append(got, append([]byte{}, e.Key...))
				return true
			})
		}()
		if hxs(sortedCopy(got)) != hxs(sortedCopy(want)) {
			t.Fatalf("ForEachMatching(prefix=%s,nbits=%d): got [%s] want [%s] %v", hx(prefix), nbits, hxs(sortedCopy(got)), hxs(sortedCopy(want)), c)
		}
	})
}

func checkDistanceLaws(fail func(format string, args ...any), x, a, b []byte) {
	got := kademlia.DistanceCmp(x, a, b)
	want := refCmp(x, a, b)
	if sign(got) != want {
		fail("DistanceCmp(%s,%s,%s)=%d, bytes.Compare of distances=%d", hx(x), hx(a), hx(b), got, want)
	}
	if sign(kademlia.DistanceCmp(x, b, a)) != -sign(got) {
		fail("DistanceCmp not antisymmetric for x=%s a=%s b=%s", hx(x), hx(a), hx(b))
	}
	if kademlia.DistanceLt(x, a, b) != (want < 0) || kademlia.DistanceGt(x, a, b) != (want > 0) {
		fail("DistanceLt/Gt disagree with Cmp for x=%s a=%s b=%s", hx(x), hx(a), hx(b))
	}
	d1, d2 := kademlia.Distance(a, b), kademlia.Distance(b, a)
	if !bytes.Equal(d1, d2) || !bytes.Equal(d1, refDistance(a, b)) {
		fail("Distance not symmetric / wrong for a=%s b=%s: %s vs %s", hx(a), hx(b), hx(d1), hx(d2))
	}
	if len(a) == len(b) {
		zero := true
		for _, v := range d1 {
			if v != 0 {
				zero = false
			}
		}
		if zero != bytes.Equal(a, b) {
			fail("Distance(%s,%s)=%s: zero iff equal violated", hx(a), hx(b), hx(d1))
		}
	}
	if kademlia.DistanceLz(a, b) != refLeadingZeros(refDistance(a, b)) {
		fail("DistanceLz(%s,%s)=%d want %d", hx(a), hx(b), kademlia.DistanceLz(a, b), refLeadingZeros(refDistance(a, b)))
	}
}

func sign(x int) int {
	switch {
	case x < 0:
		return -1
	case x > 0:
		return 1
	}
	return 0
}

func TestC19DistanceLawsRandom(t *testing.T) {
	const sub = "C19.distance_laws_random"
	ev.Rule(sub, "rapid: triples (x,a,b) of byte strings of length 0-34 with shared prefixes; laws: DistanceCmp == bytes.Compare(Distance(x,a),Distance(x,b)), antisymmetry, transitivity over a 4th string, Distance symmetric, zero iff equal (equal lengths); non-trivial = a,b share a non-empty prefix with each other and differ; distinct by triple")
	rapid.Check(t, func(t *rapid.T) {
		x := rapid.SliceOfN(rapid.Byte(), 0, 34).Draw(t, "x")
		mk := func(label string) []byte {
			base := x
			n := rapid.IntRange(0, len(base)).Draw(t, label+"share")
			tail := rapid.SliceOfN(rapid.SampledFrom(alpha), 0, 4).Draw(t, label+"tail")
			return append(append([]byte{}, base[:n]...), tail...)
		}
		a, b, c := mk("a"), mk("b"), mk("c")
		ev.Eval(sub)
		if !bytes.Equal(a, b) && len(a) > 0 && len(b) > 0 && a[0] == b[0] {
			key := hx(x) + "|" + hx(a) + "|" + hx(b)
			if ev.NonTrivial(sub, key) {
				ev.Sample(sub, key)
			}
		}
		checkDistanceLaws(t.Fatalf, x, a, b)
		// transitivity of <=
		if refCmp(x, a, b) <= 0 && refCmp(x, b, c) <= 0 {
			if kademlia.DistanceCmp(x, a, c) > 0 {
				t.Fatalf("DistanceCmp not transitive: x=%s a=%s b=%s c=%s", hx(x), hx(a), hx(b), hx(c))
			}
		}
	})
}

func TestC19DistanceLawsExhaustive(t *testing.T) {
	const sub = "C19.distance_laws_exhaustive"
	alphabet := []byte{0x00, 0x01, 0x80, 0xff}
	maxLen := 2
	if ev.Thorough() {
		maxLen = 3
	}
	ev.Rule(sub, fmt.Sprintf("exhaustive: all triples of byte strings of length 0..%d over the alphabet {00,01,80,ff}; same laws as distance_laws_random; every triple with a!=b counts as non-trivial", maxLen))
	var all [][]byte
	var rec func(cur []byte)
	rec = func(cur []byte) {
		all = append(all, append([]byte{}, cur...))
		if len(cur) == maxLen {
			return
		}
		for _, c := range alphabet {
			rec(append(cur, c))
		}
	}
	rec(nil)
	failed := false
	fail := func(format string, args ...any) {
		if !failed {
			failed = true
			msg := fmt.Sprintf(format, args...)
			ev.SaveReplay(sub, msg)
			t.Errorf("%s", msg)
		}
	}
	var n, nt int64
	for _, x := range all {
		for _, a := range all {
			for _, b := range all {
				n++
				if !bytes.Equal(a, b) {
					nt++
				}
				checkDistanceLaws(fail, x, a, b)
				if failed {
					return
				}
			}
		}
	}
	ev.EvalN(sub, n)
	ev.Extra(sub, "distinct_nontrivial_counted", nt)
	ev.Sample(sub, fmt.Sprintf("x=%s a=%s b=%s", hx(all[5]), hx(all[9]), hx(all[len(all)-1])))
	ev.Exhaustive(sub, fmt.Sprintf("%d strings, %d triples", len(all), n))
}

func TestC19NodeInfos(t *testing.T) {
	const sub = "C19.node_list_nearest"
	ev.Rule(sub, "rapid: DHTNode with 32-byte id, peer cache size 256..1024 (and small sizes that truncate the locus), 0-20 peers with clustered ids, target related to peers/local id, n in 0..12; oracle: ListNodeInfos(k,n) equals the first n of the brute-force distance sort (ties compared as multisets of distances); non-trivial = >= 3 peers and 0<n<peers; distinct by (local, peers, target, n)")
	rapid.Check(t, func(t *rapid.T) {
		var local p2p.PeerID
		copy(local[:], genBytesSmallAlpha(32).Draw(t, "local"))
		size := rapid.SampledFrom([]int{256, 256, 300, 1024, 64, 16}).Draw(t, "cacheSize")
		node := kademlia.NewDHTNode(kademlia.DHTNodeParams{LocalID: local, PeerCacheSize: size})
		np := rapid.IntRange(0, 20).Draw(t, "np")
		if size < 256 {
			np = rapid.IntRange(0, 3).Draw(t, "npSmall") // stay below capacity: eviction is C18's subject
		}
		var peers [][]byte
		seen := map[string]bool{}
		for i := 0; i < np; i++ {
			k := genKeyRel(local[:], 0).Draw(t, "peer")
			if bytes.Equal(k, local[:]) || seen[string(k)] {
				continue
			}
			seen[string(k)] = true
			var id p2p.PeerID
			copy(id[:], k)
			node.AddPeer(id, []byte{byte(i)})
			if node.HasPeer(id) {
				peers = append(peers, k)
			}
		}
		var target []byte
		if len(peers) > 0 && rapid.Bool().Draw(t, "targetNearPeer") {
			target = genKeyRel(peers[rapid.IntRange(0, len(peers)-1).Draw(t, "tp")], 0).Draw(t, "target")
		} else {
			target = genKeyRel(local[:], 0).Draw(t, "target")
		}
		n := rapid.IntRange(0, 12).Draw(t, "n")
		ev.Eval(sub)
		if len(peers) >= 3 && n > 0 && n < len(peers) {
			key := fmt.Sprintf("local=%s peers=[%s] target=%s n=%d size=%d", hx(local[:]), hxs(sortedCopy(peers)), hx(target), n, size)
			if ev.NonTrivial(sub, key) {
				ev.Sample(sub, key)
			}
		}
		got := node.ListNodeInfos(target, n)
		ref := append([][]byte{}, peers...)
		sort.SliceStable(ref, func(i, j int) bool { return refCmp(target, ref[i], ref[j]) < 0 })
		wantN := min(n, len(ref))
		if len(got) != wantN {
			t.Fatalf("ListNodeInfos returned %d infos, want %d (peers=%d n=%d)", len(got), wantN, len(peers), n)
		}
		for i := range got {
			g := got[i].ID
			if !seen[string(g[:])] {
				t.Fatalf("ListNodeInfos returned unknown id %s", hx(g[:]))
			}
			if !bytes.Equal(refDistance(target, g[:]), refDistance(target, ref[i])) {
				t.Fatalf("ListNodeInfos[%d]=%s (dist %s) but the %d-th nearest is %s (dist %s); target=%s peers=[%s]", i, hx(g[:]), hx(refDistance(target, g[:])), i, hx(ref[i]), hx(refDistance(target, ref[i])), hx(target), hxs(peers))
			}
		}
	})
}
