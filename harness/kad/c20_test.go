package kad

import (
	"bytes"
	"encoding/binary"
	"errors"
	"fmt"
	"io"
	"log"
	"sort"
	"strings"
	"testing"

	"go.brendoncarroll.net/p2p"
	"go.brendoncarroll.net/p2p/p/kademlia"
	"pgregory.net/rapid"

	"verif/harness/internal/ev"
)

func init() { log.SetOutput(io.Discard) } // the DHT functions log every failed ask

// ---- simulated network ----

type behaviour int

const (
	bHonest        behaviour = iota // answers from a routing table (random subset), nearest first / closer-than-me
	bRealNode                       // a real kademlia.DHTNode answers
	bError                          // the ask fails
	bAll                            // returns every node of the network (incl. itself and the asker's earlier contacts)
	bSelf                           // returns itself
	bFabricate                      // returns ids from the fabricated pool (nodes that do not exist)
	bHuge                           // returns thousands of entries (pool and network repeated)
	bTargetBogus                    // returns the target id with bogus info
	bFarther                        // returns only ids farther than itself
	bCycle                          // returns the nodes that were contacted before it
	bFreshNoCloser                  // mints 1-2 ids nobody has seen, none of them closer to the key than itself; the minted nodes answer the same way
	numBehaviours
)

var behaviourNames = []string{"honest", "real", "error", "all", "self", "fabricate", "huge", "targetBogus", "farther", "cycle", "freshNoCloser"}

type simNode struct {
	id      p2p.PeerID
	beh     behaviour
	table   []int // indices into net.nodes
	real    *kademlia.DHTNode
	accepts bool   // put behaviour
	value   []byte // get behaviour: value held (nil = none)
}

type simNet struct {
	nodes     []*simNode
	byID      map[p2p.PeerID]*simNode
	pool      []p2p.PeerID // fabricated ids (no such node)
	target    p2p.PeerID
	key       []byte
	asked     map[p2p.PeerID]int
	order     []p2p.PeerID // ask order
	mentioned map[p2p.PeerID]bool
	responded map[p2p.PeerID]bool
	recontact *p2p.PeerID
	advUsed   bool
	redundant bool // some response named an already contacted / queued node
	desc      []string
	minted    int // ids minted by bFreshNoCloser responders
	mintedAsk int // asks that went to minted ids
}

// askBudget bounds a run against responders that mint fresh ids for ever. An implementation that keeps following
// referrals that bring it no closer to the key never terminates; the unchanged library asks none of them.
const askBudget = 2000

type recontactPanic struct{ id p2p.PeerID }

func idShort(id p2p.PeerID) string {
	s := hx(id[:])
	// compress runs for readability
	return strings.TrimRight(s, "0") + "~"
}

func genID(t *rapid.T, style string, label string) p2p.PeerID {
	var id p2p.PeerID
	switch style {
	case "tiny":
		id[0] = rapid.SampledFrom([]byte{0x01, 0x02, 0x03, 0x04, 0x05, 0x06, 0x07, 0x08, 0x10, 0x20, 0x40, 0x80, 0xc0, 0xff}).Draw(t, label)
	case "clustered":
		for i := 0; i < 30; i++ {
			id[i] = 0xaa
		}
		id[30] = rapid.Byte().Draw(t, label+"a")
		id[31] = rapid.Byte().Draw(t, label+"b") | 1
	default:
		copy(id[:], rapid.SliceOfN(rapid.Byte(), 32, 32).Draw(t, label))
		id[31] |= 1
	}
	return id
}

func genNet(t *rapid.T) *simNet {
	nt := &simNet{byID: map[p2p.PeerID]*simNode{}, asked: map[p2p.PeerID]int{}, mentioned: map[p2p.PeerID]bool{}, responded: map[p2p.PeerID]bool{}}
	style := rapid.SampledFrom([]string{"tiny", "tiny", "clustered", "random"}).Draw(t, "idStyle")
	n := rapid.IntRange(1, 24).Draw(t, "nodes")
	advRate := rapid.SampledFrom([]int{0, 20, 50}).Draw(t, "advPercent")
	for i := 0; i < n; i++ {
		id := genID(t, style, "id")
		if nt.byID[id] != nil || id.IsZero() {
			continue
		}
		nd := &simNode{id: id}
		if rapid.IntRange(0, 99).Draw(t, "adv") < advRate {
			nd.beh = behaviour(rapid.IntRange(int(bError), int(numBehaviours)-1).Draw(t, "beh"))
		} else {
			nd.beh = behaviour(rapid.IntRange(0, 1).Draw(t, "hbeh"))
		}
		nd.accepts = rapid.IntRange(0, 3).Draw(t, "accepts") > 0
		if rapid.IntRange(0, 3).Draw(t, "hasValue") == 0 {
			nd.value = []byte(fmt.Sprintf("val-%d-%s", i, rapid.SampledFrom([]string{"ok", "ok", "bad"}).Draw(t, "vq")))
		}
		nt.nodes = append(nt.nodes, nd)
		nt.byID[id] = nd
	}
	for i, nd := range nt.nodes {
		// routing table: random subset of other nodes
		for j := range nt.nodes {
			if j != i && rapid.IntRange(0, 2).Draw(t, "knows") > 0 {
				nd.table = append(nd.table, j)
			}
		}
		if nd.beh == bRealNode {
			nd.real = kademlia.NewDHTNode(kademlia.DHTNodeParams{LocalID: nd.id, PeerCacheSize: 512, DataCacheSize: 16})
			for _, j := range nd.table {
				nd.real.AddPeer(nt.nodes[j].id, []byte{byte(j)})
			}
			if nd.value != nil {
				// stored under the lookup key later (key is drawn after the network)
			}
		}
	}
	for i := 0; i < rapid.IntRange(0, 6).Draw(t, "poolSize"); i++ {
		id := genID(t, style, "pool")
		if nt.byID[id] == nil && !id.IsZero() {
			nt.pool = append(nt.pool, id)
		}
	}
	// target / key: an existing node, a fabricated id, or a fresh id
	switch rapid.IntRange(0, 3).Draw(t, "targetKind") {
	case 0, 1:
		nt.target = nt.nodes[rapid.IntRange(0, len(nt.nodes)-1).Draw(t, "targetIdx")].id
	case 2:
		if len(nt.pool) > 0 {
			nt.target = nt.pool[0]
			break
		}
		fallthrough
	default:
		nt.target = genID(t, style, "target")
	}
	nt.key = append([]byte{}, nt.target[:]...)
	// DHTGet / DHTPut take arbitrary keys: mostly id-sized, sometimes shorter than an id (distances are then
	// compared on the key's length only, so many ids tie)
	if kl := rapid.SampledFrom([]int{32, 32, 32, 32, 1, 2, 4, 8}).Draw(t, "keyLen"); kl < 32 {
		nt.key = nt.key[:kl]
		for _, nd := range nt.nodes {
			if nd.beh == bRealNode {
				nd.beh, nd.real = bHonest, nil // real nodes index their caches by id-sized keys
			}
		}
	}
	for _, nd := range nt.nodes {
		if nd.real != nil && nd.value != nil {
			nd.real.Put(nt.key, nd.value, 1e9)
		}
	}
	for _, nd := range nt.nodes {
		nt.desc = append(nt.desc, fmt.Sprintf("%s:%s", idShort(nd.id), behaviourNames[nd.beh]))
	}
	return nt
}

func (nt *simNet) info(id p2p.PeerID) kademlia.NodeInfo {
	return kademlia.NodeInfo{ID: id, Info: []byte("i" + idShort(id))}
}

func (nt *simNet) genInitial(t *rapid.T) []kademlia.NodeInfo {
	k := rapid.IntRange(0, 8).Draw(t, "initialSize")
	var out []kademlia.NodeInfo
	for i := 0; i < k; i++ {
		if len(nt.pool) > 0 && rapid.IntRange(0, 9).Draw(t, "initFab") == 0 {
			out = append(out, nt.info(nt.pool[rapid.IntRange(0, len(nt.pool)-1).Draw(t, "initPool")]))
			continue
		}
		out = append(out, nt.info(nt.nodes[rapid.IntRange(0, len(nt.nodes)-1).Draw(t, "initIdx")].id)) // duplicates possible
	}
	for _, ni := range out {
		nt.mentioned[ni.ID] = true
	}
	return out
}

// noteAsk records an ask; a second ask of the same id aborts the operation.
func (nt *simNet) noteAsk(id p2p.PeerID) {
	nt.asked[id]++
	nt.order = append(nt.order, id)
	if nt.asked[id] > 1 {
		nt.recontact = &id
		panic(recontactPanic{id})
	}
	if nd := nt.byID[id]; nd != nil && nd.beh == bFreshNoCloser && nd.table == nil && nd.value == nil && nt.minted > 0 {
		nt.mintedAsk++
	}
	if len(nt.order) > askBudget {
		panic(fmt.Sprintf("no termination within %d asks (%d ids minted by responders that only name nodes no closer to the key than themselves, %d asks went to such ids)", askBudget, nt.minted, nt.mintedAsk))
	}
	if len(nt.order) > len(nt.mentioned)+1 {
		panic(fmt.Sprintf("more asks (%d) than distinct ids ever mentioned (%d)", len(nt.order), len(nt.mentioned)))
	}
}

// closerList is the adversarial / honest peer list a node returns.
func (nt *simNet) peerList(nd *simNode, honestLimit int, closerOnly bool) []kademlia.NodeInfo {
	var out []kademlia.NodeInfo
	add := func(id p2p.PeerID) { out = append(out, nt.info(id)) }
	switch nd.beh {
	case bHonest:
		var ids []p2p.PeerID
		for _, j := range nd.table {
			id := nt.nodes[j].id
			if closerOnly && refCmp(nt.key, id[:], nd.id[:]) >= 0 {
				continue
			}
			ids = append(ids, id)
		}
		sort.Slice(ids, func(i, j int) bool { return refCmp(nt.key, ids[i][:], ids[j][:]) < 0 })
		if len(ids) > honestLimit {
			ids = ids[:honestLimit]
		}
		for _, id := range ids {
			add(id)
		}
	case bAll:
		nt.advUsed = true
		for _, o := range nt.nodes {
			add(o.id)
		}
	case bSelf:
		nt.advUsed = true
		add(nd.id)
		add(nd.id)
	case bFabricate:
		nt.advUsed = true
		for _, id := range nt.pool {
			add(id)
		}
	case bHuge:
		nt.advUsed = true
		for len(out) < 3000 {
			for _, id := range nt.pool {
				add(id)
			}
			for _, o := range nt.nodes {
				add(o.id)
			}
		}
	case bTargetBogus:
		nt.advUsed = true
		out = append(out, kademlia.NodeInfo{ID: nt.target, Info: []byte("bogus")})
	case bFarther:
		nt.advUsed = true
		for _, o := range nt.nodes {
			if refCmp(nt.key, o.id[:], nd.id[:]) > 0 {
				add(o.id)
			}
		}
	case bCycle:
		nt.advUsed = true
		for _, id := range nt.order {
			add(id)
		}
	case bFreshNoCloser:
		nt.advUsed = true
		for k := 0; k < 2; k++ {
			// same bytes as the responder where the key is compared (a tie), fresh bytes elsewhere; for id-sized
			// keys the candidate is kept only if it is not closer than the responder
			for try := 0; try < 64; try++ {
				nt.minted++
				id := nd.id
				kl := min(len(nt.key), len(id))
				if kl >= len(id) {
					kl = len(id) - 4
				}
				binary.BigEndian.PutUint32(id[len(id)-4:], uint32(nt.minted)*2654435761)
				for i := kl; i < len(id)-4; i++ {
					id[i] ^= byte(nt.minted >> (uint(i) % 8))
				}
				if nt.byID[id] != nil || id.IsZero() || refCmp(nt.key, id[:], nd.id[:]) < 0 {
					continue
				}
				mn := &simNode{id: id, beh: bFreshNoCloser, accepts: nd.accepts}
				nt.byID[id] = mn
				add(id)
				break
			}
		}
	}
	for _, ni := range out {
		if nt.asked[ni.ID] > 0 {
			nt.redundant = true
		}
		nt.mentioned[ni.ID] = true
	}
	return out
}

// runOp executes fn, converting the harness' abort panics into violations and
// any other panic into a crash report.
func (nt *simNet) runOp(fn func()) (problem string) {
	defer func() {
		if r := recover(); r != nil {
			if rp, ok := r.(recontactPanic); ok {
				problem = fmt.Sprintf("node %s was asked a second time; ask order %v", idShort(rp.id), nt.orderStr())
				return
			}
			problem = fmt.Sprintf("panic: %v", r)
		}
	}()
	fn()
	return ""
}

func (nt *simNet) orderStr() string {
	var ss []string
	for _, id := range nt.order {
		ss = append(ss, idShort(id))
	}
	return strings.Join(ss, ">")
}

func (nt *simNet) describe(initial []kademlia.NodeInfo) string {
	var ini []string
	for _, ni := range initial {
		ini = append(ini, idShort(ni.ID))
	}
	return fmt.Sprintf("nodes[%s] target=%s initial[%s] pool=%d", strings.Join(nt.desc, " "), idShort(nt.target), strings.Join(ini, ","), len(nt.pool))
}

func (nt *simNet) record(sub string, initial []kademlia.NodeInfo) {
	ev.Eval(sub)
	if nt.advUsed {
		ev.Class(sub, "adversarial-responder-contacted")
	}
	if nt.redundant {
		ev.Class(sub, "response-named-contacted-node")
	}
	if len(initial) == 0 {
		ev.Class(sub, "empty-initial")
	}
	if nt.advUsed || nt.redundant {
		key := nt.describe(initial) + " order=" + nt.orderStr()
		if ev.NonTrivial(sub, key) {
			ev.Sample(sub, key)
		}
	}
}

const c20rule = "rapid: simulated networks of 1-24 nodes (ids from a tiny dense space, a cluster sharing 30 bytes, or random), routing tables as random subsets, per-node behaviour in {honest list, real DHTNode handler, error, all nodes, self, fabricated ids from a finite pool, 3000-entry list, target with bogus info, only farther ids, previously contacted nodes, 1-2 freshly minted ids per ask that are no closer to the key than the responder and answer the same way}; DHTGet/DHTPut keys of 32 bytes or, 1, 2, 4 or 8 bytes (ids then tie on the compared prefix); a run that needs more than 2000 asks counts as non-terminating; initial sets of 0-8 incl. duplicates and fabricated ids; oracle: per-id ask counter (second ask aborts) and the whole-network truthfulness rules; non-trivial = an adversarial responder was contacted or a response named an already-contacted node; distinct by (network, target, initial, ask order)"

func TestC20FindNode(t *testing.T) {
	const sub = "C20.find_node"
	ev.Rule(sub, c20rule)
	rapid.Check(t, func(t *rapid.T) {
		nt := genNet(t)
		initial := nt.genInitial(t)
		rejectPool := rapid.Bool().Draw(t, "validatorRejectsPool")
		rejectBogus := rapid.Bool().Draw(t, "validatorRejectsBogusInfo")
		poolSet := map[p2p.PeerID]bool{}
		for _, id := range nt.pool {
			poolSet[id] = true
		}
		initSet := map[p2p.PeerID]bool{}
		for _, ni := range initial {
			initSet[ni.ID] = true
		}
		var res *kademlia.DHTFindNodeResult
		var err error
		okAsks := 0
		problem := nt.runOp(func() {
			res, err = kademlia.DHTFindNode(kademlia.DHTFindNodeParams{
				Initial: append([]kademlia.NodeInfo{}, initial...),
				Target:  nt.target,
				Validate: func(ni kademlia.NodeInfo) bool {
					return !(rejectPool && poolSet[ni.ID]) && !(rejectBogus && string(ni.Info) == "bogus")
				},
				Ask: func(dst kademlia.NodeInfo, req kademlia.FindNodeReq) (kademlia.FindNodeRes, error) {
					nt.noteAsk(dst.ID)
					nd := nt.byID[dst.ID]
					if nd == nil || nd.beh == bError {
						return kademlia.FindNodeRes{}, errors.New("unreachable")
					}
					nt.responded[dst.ID] = true
					okAsks++
					if nd.real != nil {
						r, e := nd.real.HandleFindNode(p2p.PeerID{}, req)
						for _, ni := range r.Nodes {
							if nt.asked[ni.ID] > 0 {
								nt.redundant = true
							}
							nt.mentioned[ni.ID] = true
						}
						return r, e
					}
					return kademlia.FindNodeRes{Nodes: nt.peerList(nd, req.Limit, false)}, nil
				},
			})
		})
		nt.record(sub, initial)
		fail := func(f string, a ...any) {
			t.Fatalf("%s\n%s\nask order %s", fmt.Sprintf(f, a...), nt.describe(initial), nt.orderStr())
		}
		if problem != "" {
			fail("%s", problem)
		}
		if rejectPool {
			for id := range nt.asked {
				if poolSet[id] && !initSet[id] {
					fail("node %s was asked although the validator rejected it", idShort(id))
				}
			}
		}
		if (err == nil) != (res.Closest == nt.target) {
			fail("err=%v but Closest=%s target=%s", err, idShort(res.Closest), idShort(nt.target))
		}
		// a reported record is one that was admitted: it passed the validator (or was given as initial)
		if err == nil && !initSet[nt.target] {
			if rejectBogus && string(res.Info) == "bogus" {
				fail("the target was reported found with a record (info %q) that the validator rejects", res.Info)
			}
			if rejectPool && poolSet[nt.target] {
				fail("the target %s was reported found although the validator rejects every record for that id", idShort(nt.target))
			}
		}
		if len(initial) == 0 {
			return
		}
		if res.Closest != nt.target && nt.asked[res.Closest] == 0 {
			fail("Closest=%s is neither the target nor a contacted node", idShort(res.Closest))
		}
		for id := range nt.asked {
			if refCmp(nt.key, id[:], res.Closest[:]) < 0 {
				fail("Closest=%s but contacted node %s is nearer to the target", idShort(res.Closest), idShort(id))
			}
		}
		if res.Contacted != okAsks {
			fail("Contacted=%d but %d asks were answered", res.Contacted, okAsks)
		}
	})
}

func TestC20Join(t *testing.T) {
	const sub = "C20.join"
	ev.Rule(sub, c20rule)
	rapid.Check(t, func(t *rapid.T) {
		nt := genNet(t)
		initial := nt.genInitial(t)
		addCalls := map[p2p.PeerID]int{}
		trueReturns := 0
		var added int
		problem := nt.runOp(func() {
			added = kademlia.DHTJoin(kademlia.DHTJoinParams{
				Initial: append([]kademlia.NodeInfo{}, initial...),
				Target:  nt.target,
				AddPeer: func(id p2p.PeerID, info []byte) bool {
					addCalls[id]++
					if addCalls[id] == 1 {
						trueReturns++
						return true
					}
					return false
				},
				Ask: func(dst kademlia.NodeInfo, req kademlia.FindNodeReq) (kademlia.FindNodeRes, error) {
					nt.noteAsk(dst.ID)
					nd := nt.byID[dst.ID]
					if nd == nil || nd.beh == bError {
						return kademlia.FindNodeRes{}, errors.New("unreachable")
					}
					if nd.real != nil {
						r, e := nd.real.HandleFindNode(p2p.PeerID{}, req)
						for _, ni := range r.Nodes {
							if nt.asked[ni.ID] > 0 {
								nt.redundant = true
							}
							nt.mentioned[ni.ID] = true
						}
						return r, e
					}
					return kademlia.FindNodeRes{Nodes: nt.peerList(nd, req.Limit, false)}, nil
				},
			})
		})
		nt.record(sub, initial)
		fail := func(f string, a ...any) {
			t.Fatalf("%s\n%s\nask order %s", fmt.Sprintf(f, a...), nt.describe(initial), nt.orderStr())
		}
		if problem != "" {
			fail("%s", problem)
		}
		if added != trueReturns {
			fail("DHTJoin returned %d but the AddPeer callback accepted %d", added, trueReturns)
		}
		for id := range addCalls {
			if !nt.mentioned[id] {
				fail("AddPeer called with %s which nobody mentioned", idShort(id))
			}
		}
	})
}

func TestC20Get(t *testing.T) {
	const sub = "C20.get"
	ev.Rule(sub, c20rule+"; values: each node may hold a value, validator accepts values ending in 'ok'")
	rapid.Check(t, func(t *rapid.T) {
		nt := genNet(t)
		initial := nt.genInitial(t)
		validate := func(v []byte) bool { return bytes.HasSuffix(v, []byte("ok")) }
		returned := map[p2p.PeerID][]byte{} // what each asked node returned
		var res *kademlia.DHTGetResult
		var err error
		problem := nt.runOp(func() {
			res, err = kademlia.DHTGet(kademlia.DHTGetParams{
				Key:      nt.key,
				Initial:  append([]kademlia.NodeInfo{}, initial...),
				Validate: validate,
				Ask: func(dst kademlia.NodeInfo, req kademlia.GetReq) (kademlia.GetRes, error) {
					nt.noteAsk(dst.ID)
					nd := nt.byID[dst.ID]
					if nd == nil || nd.beh == bError {
						return kademlia.GetRes{}, errors.New("unreachable")
					}
					nt.responded[dst.ID] = true
					if nd.real != nil {
						r, e := nd.real.HandleGet(p2p.PeerID{}, req)
						for _, ni := range r.Closer {
							if nt.asked[ni.ID] > 0 {
								nt.redundant = true
							}
							nt.mentioned[ni.ID] = true
						}
						returned[dst.ID] = r.Value
						return r, e
					}
					returned[dst.ID] = nd.value
					return kademlia.GetRes{Value: nd.value, Closer: nt.peerList(nd, 10, true)}, nil
				},
			})
		})
		nt.record(sub, initial)
		fail := func(f string, a ...any) {
			t.Fatalf("%s\n%s\nask order %s", fmt.Sprintf(f, a...), nt.describe(initial), nt.orderStr())
		}
		if problem != "" {
			fail("%s", problem)
		}
		anyValid := false
		for _, v := range returned {
			if v != nil && validate(v) {
				anyValid = true
			}
		}
		if anyValid {
			ev.Class(sub, "valid-value-obtained")
		}
		if (err == nil) != anyValid {
			fail("err=%v but a valid value was obtained=%v", err, anyValid)
		}
		if err == nil {
			v, ok := returned[res.From]
			if !ok {
				fail("From=%s was never asked", idShort(res.From))
			}
			if !bytes.Equal(v, res.Value) || !validate(res.Value) {
				fail("Value=%q but %s returned %q (valid=%v)", res.Value, idShort(res.From), v, validate(res.Value))
			}
		} else if res.Value != nil {
			fail("error together with value %q", res.Value)
		}
		if len(nt.responded) > 0 {
			if !nt.responded[res.Closest] {
				fail("Closest=%s is not a node that was contacted and responded", idShort(res.Closest))
			}
			for id := range nt.responded {
				if refCmp(nt.key, id[:], res.Closest[:]) < 0 {
					fail("Closest=%s but responding node %s is nearer to the key", idShort(res.Closest), idShort(id))
				}
			}
		}
		if res.NumContacted != len(nt.order) || res.NumResponded != len(nt.responded) {
			fail("NumContacted=%d NumResponded=%d, harness saw %d asks / %d responses", res.NumContacted, res.NumResponded, len(nt.order), len(nt.responded))
		}
	})
}

func TestC20Put(t *testing.T) {
	const sub = "C20.put"
	ev.Rule(sub, c20rule+"; each node accepts or refuses the put; MinAccepted in 0..4")
	rapid.Check(t, func(t *rapid.T) {
		nt := genNet(t)
		initial := nt.genInitial(t)
		minAcc := rapid.IntRange(0, 4).Draw(t, "minAccepted")
		accepted := map[p2p.PeerID]bool{}
		var res *kademlia.DHTPutResult
		var err error
		problem := nt.runOp(func() {
			res, err = kademlia.DHTPut(kademlia.DHTPutParams{
				Initial:     append([]kademlia.NodeInfo{}, initial...),
				Key:         nt.key,
				Value:       []byte("v"),
				TTL:         1e9,
				MinAccepted: minAcc,
				Ask: func(dst kademlia.NodeInfo, req kademlia.PutReq) (kademlia.PutRes, error) {
					nt.noteAsk(dst.ID)
					nd := nt.byID[dst.ID]
					if nd == nil || nd.beh == bError {
						return kademlia.PutRes{}, errors.New("unreachable")
					}
					nt.responded[dst.ID] = true
					if nd.real != nil {
						r, e := nd.real.HandlePut(p2p.PeerID{}, req)
						for _, ni := range r.Closer {
							if nt.asked[ni.ID] > 0 {
								nt.redundant = true
							}
							nt.mentioned[ni.ID] = true
						}
						if r.Accepted {
							accepted[dst.ID] = true
						}
						return r, e
					}
					if nd.accepts {
						accepted[dst.ID] = true
					}
					return kademlia.PutRes{Accepted: nd.accepts, Closer: nt.peerList(nd, 10, true)}, nil
				},
			})
		})
		nt.record(sub, initial)
		fail := func(f string, a ...any) {
			t.Fatalf("%s\n%s\nask order %s", fmt.Sprintf(f, a...), nt.describe(initial), nt.orderStr())
		}
		if problem != "" {
			fail("%s", problem)
		}
		if res.Accepted != len(accepted) {
			fail("Accepted=%d but %d distinct nodes accepted", res.Accepted, len(accepted))
		}
		need := minAcc
		if need < 1 {
			need = 2
		}
		if (err != nil) != (len(accepted) < need) {
			fail("err=%v with %d accepting nodes and minimum %d", err, len(accepted), need)
		}
		if len(accepted) > 0 {
			ev.Class(sub, "some-accepted")
			if nt.asked[res.Closest] == 0 {
				fail("Closest=%s is not a contacted node (accepted=%d)", idShort(res.Closest), len(accepted))
			}
			for id := range accepted {
				if refCmp(nt.key, id[:], res.Closest[:]) < 0 {
					fail("Closest=%s but accepting node %s is nearer to the key", idShort(res.Closest), idShort(id))
				}
			}
		}
		if res.Contacted != len(nt.order) || res.Responded != len(nt.responded) {
			fail("Contacted=%d Responded=%d, harness saw %d asks / %d responses", res.Contacted, res.Responded, len(nt.order), len(nt.responded))
		}
	})
}
