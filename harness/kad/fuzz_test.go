package kad

import (
	"testing"
)

// FuzzDistanceLaws mirrors the repository's two fuzz targets, with a real corpus and the full set of laws.
func FuzzDistanceLaws(f *testing.F) {
	f.Add([]byte{}, []byte{}, []byte{})
	f.Add([]byte{1, 2, 3}, []byte{1, 2}, []byte{1, 2, 9, 9})
	f.Add([]byte{0xff}, []byte{0x7f, 0}, []byte{0x80})
	f.Add([]byte{1, 2, 3, 4, 5}, []byte{1, 2, 3}, []byte{1, 2, 3, 4})
	f.Fuzz(func(t *testing.T, x, a, b []byte) {
		checkDistanceLaws(t.Fatalf, x, a, b)
	})
}
