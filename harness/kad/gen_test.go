package kad

import (
	"bytes"
	"encoding/hex"
	"math/bits"
	"sort"
	"strings"

	"pgregory.net/rapid"
)

// Independent re-implementations used as oracles (never the library's own).

func refDistance(a, b []byte) []byte {
	n := len(a)
	if len(b) < n {
		n = len(b)
	}
	d := make([]byte, n)
	for i := 0; i < n; i++ {
		d[i] = a[i] ^ b[i]
	}
	return d
}

func refCmp(x, a, b []byte) int { return bytes.Compare(refDistance(x, a), refDistance(x, b)) }

func refLeadingZeros(x []byte) int {
	t := 0
	for _, b := range x {
		lz := bits.LeadingZeros8(b)
		t += lz
		if lz < 8 {
			break
		}
	}
	return t
}

// refBucket is the number of leading bits key shares with locus, counted over
// len(locus) bytes (missing key bytes count as equal).
func refBucket(locus, key []byte) int {
	d := make([]byte, len(locus))
	for i := range d {
		if i < len(key) {
			d[i] = locus[i] ^ key[i]
		}
	}
	return refLeadingZeros(d)
}

func hx(b []byte) string { return hex.EncodeToString(b) }

func hxs(bs [][]byte) string {
	ss := make([]string, len(bs))
	for i, b := range bs {
		ss[i] = hx(b)
	}
	return strings.Join(ss, ",")
}

func sortedCopy(bs [][]byte) [][]byte {
	out := append([][]byte{}, bs...)
	sort.Slice(out, func(i, j int) bool { return bytes.Compare(out[i], out[j]) < 0 })
	return out
}

var locusLens = []int{1, 1, 2, 2, 3, 32}

func genLocus() *rapid.Generator[[]byte] {
	return rapid.Custom(func(t *rapid.T) []byte {
		n := rapid.SampledFrom(locusLens).Draw(t, "locusLen")
		return genBytesSmallAlpha(n).Draw(t, "locus")
	})
}

// small alphabet makes shared prefixes and dense distances likely.
var alpha = []byte{0x00, 0x01, 0x20, 0x40, 0x80, 0xff, 0x7f, 0xc0}

func genBytesSmallAlpha(n int) *rapid.Generator[[]byte] {
	return rapid.Custom(func(t *rapid.T) []byte {
		if rapid.Bool().Draw(t, "fullrange") {
			return rapid.SliceOfN(rapid.Byte(), n, n).Draw(t, "bytes")
		}
		return rapid.SliceOfN(rapid.SampledFrom(alpha), n, n).Draw(t, "bytes")
	})
}

// genKeyRel draws a key related to ref: it shares a chosen number of leading
// bits with ref, differs at the next bit, and has a short random remainder.
// The length is len(ref)+extra, extra in [0,maxExtra].
func genKeyRel(ref []byte, maxExtra int) *rapid.Generator[[]byte] {
	return rapid.Custom(func(t *rapid.T) []byte {
		nbits := 8 * len(ref)
		extra := 0
		if maxExtra > 0 {
			extra = rapid.IntRange(0, maxExtra).Draw(t, "extra")
		}
		k := make([]byte, len(ref)+extra)
		copy(k, ref)
		share := rapid.IntRange(0, nbits).Draw(t, "share")
		if nbits > 16 && rapid.Bool().Draw(t, "shallow") {
			share = rapid.IntRange(0, 12).Draw(t, "share2")
		}
		if share < nbits {
			k[share/8] ^= 0x80 >> (share % 8)
			// randomise a few bits after the differing one
			tail := rapid.IntRange(0, 255).Draw(t, "tail")
			for i := 0; i < 8; i++ {
				p := share + 1 + i
				if p >= nbits {
					break
				}
				if tail&(1<<i) != 0 {
					k[p/8] ^= 0x80 >> (p % 8)
				}
			}
		}
		for i := len(ref); i < len(k); i++ {
			k[i] = rapid.SampledFrom(alpha).Draw(t, "x")
		}
		return k
	})
}
