package kad

import (
	"bytes"
	"fmt"
	"sort"
	"strings"
	"testing"
	"time"

	"go.brendoncarroll.net/p2p/p/kademlia"
	"pgregory.net/rapid"

	"verif/harness/internal/ev"
)

// ---- reference model ----

type mEntry struct {
	val     int
	created int // seconds after t0
	expires int // 0 = never
}

type c18cfg struct {
	Locus []byte
	Max   int
	Min   int
}

func (c c18cfg) String() string {
	return fmt.Sprintf("locus=%s max=%d min=%d", hx(c.Locus), c.Max, c.Min)
}

type c18op struct {
	Kind    string // put update keep delete expire get
	Key     []byte
	Val     int
	Now     int
	Expires int
}

func (o c18op) String() string {
	switch o.Kind {
	case "put", "update", "keep":
		return fmt.Sprintf("%s(%s,v=%d,now=%d,exp=%d)", o.Kind, hx(o.Key), o.Val, o.Now, o.Expires)
	case "expire":
		return fmt.Sprintf("expire(now=%d)", o.Now)
	}
	return fmt.Sprintf("%s(%s)", o.Kind, hx(o.Key))
}

type c18model struct {
	cfg   c18cfg
	m     map[string]mEntry
	cache *kademlia.Cache[int]
	// statistics of the history, for the non-triviality rule
	reachedCapWithMin bool
	expireRemoved     bool
	putAfterExpire    bool
	evictions         int
}

func tm(sec int) time.Time {
	if sec == 0 {
		return time.Time{}
	}
	return t0.Add(time.Duration(sec) * time.Second)
}

// newC18 returns nil when the constructor rejects the configuration.
func newC18(cfg c18cfg) (mod *c18model) {
	defer func() {
		if recover() != nil {
			mod = nil
		}
	}()
	c := kademlia.NewCache[int](cfg.Locus, cfg.Max, cfg.Min)
	return &c18model{cfg: cfg, m: map[string]mEntry{}, cache: c}
}

func (md *c18model) bucketSizes() map[int]int {
	bs := map[int]int{}
	for k := range md.m {
		bs[refBucket(md.cfg.Locus, []byte(k))]++
	}
	return bs
}

// apply executes op on the cache and the model and compares. It returns a
// non-empty description of the first disagreement.
func (md *c18model) apply(op c18op) (problem string) {
	defer func() {
		if r := recover(); r != nil {
			problem = fmt.Sprintf("%v panicked: %v", op, r)
		}
	}()
	c := md.cache
	switch op.Kind {
	case "put", "update", "keep":
		_, existed := md.m[string(op.Key)]
		var evicted *kademlia.Entry[int]
		var added bool
		newEnt := mEntry{val: op.Val, created: op.Now, expires: op.Expires}
		switch op.Kind {
		case "put":
			evicted, added = c.Put(op.Key, op.Val, tm(op.Now), tm(op.Expires))
		case "update":
			evicted, added = c.Update(op.Key, func(e kademlia.Entry[int], exists bool) kademlia.Entry[int] {
				if exists != existed {
					problem = fmt.Sprintf("%v: Update callback saw exists=%v, model says %v", op, exists, existed)
				}
				return kademlia.Entry[int]{Key: op.Key, Value: op.Val, CreatedAt: tm(op.Now), ExpiresAt: tm(op.Expires)}
			})
		case "keep":
			evicted, added = c.Update(op.Key, func(e kademlia.Entry[int], exists bool) kademlia.Entry[int] {
				if exists {
					if me := md.m[string(op.Key)]; e.Value != me.val {
						problem = fmt.Sprintf("%v: Update callback saw value %d, model has %d", op, e.Value, me.val)
					}
					newEnt = md.m[string(op.Key)]
					return e
				}
				return kademlia.Entry[int]{Key: op.Key, Value: op.Val, CreatedAt: tm(op.Now), ExpiresAt: tm(op.Expires)}
			})
		}
		if problem != "" {
			return problem
		}
		if md.cfg.Max == 0 {
			if evicted != nil || added {
				return fmt.Sprintf("%v on a zero-capacity cache returned (%v,%v)", op, evicted, added)
			}
			return ""
		}
		if md.expireRemoved {
			md.putAfterExpire = true
		}
		md.m[string(op.Key)] = newEnt
		if existed {
			if evicted != nil {
				return fmt.Sprintf("%v replaced an existing key but reported eviction of %s", op, hx(evicted.Key))
			}
			if added {
				return fmt.Sprintf("%v replaced an existing key but reported added=true", op)
			}
			return ""
		}
		if len(md.m) <= md.cfg.Max {
			if evicted != nil {
				return fmt.Sprintf("%v: eviction of %s reported although %d <= max %d", op, hx(evicted.Key), len(md.m), md.cfg.Max)
			}
			if !added {
				return fmt.Sprintf("%v: new key below capacity but added=false", op)
			}
			if len(md.m) == md.cfg.Max && md.cfg.Min > 0 {
				md.reachedCapWithMin = true
			}
			return ""
		}
		// over capacity: exactly one victim must be reported
		if md.cfg.Min > 0 {
			md.reachedCapWithMin = true
		}
		if evicted == nil {
			return fmt.Sprintf("%v: cache over capacity (%d > %d) but no victim reported", op, len(md.m), md.cfg.Max)
		}
		vk := string(evicted.Key)
		ve, ok := md.m[vk]
		if !ok {
			return fmt.Sprintf("%v: reported victim %s was not in the cache", op, hx(evicted.Key))
		}
		if evicted.Value != ve.val {
			return fmt.Sprintf("%v: victim %s reported with value %d, model has %d", op, hx(evicted.Key), evicted.Value, ve.val)
		}
		// victim rule: from the farthest bucket holding more than the minimum
		bs := md.bucketSizes()
		vb := refBucket(md.cfg.Locus, evicted.Key)
		anyAbove := false
		for b, n := range bs {
			if n > md.cfg.Min {
				anyAbove = true
				if b < vb {
					return fmt.Sprintf("%v: victim %s taken from bucket %d although farther bucket %d holds %d > min %d; contents %s", op, hx(evicted.Key), vb, b, n, md.cfg.Min, md.contents())
				}
			}
		}
		if anyAbove && bs[vb] <= md.cfg.Min {
			return fmt.Sprintf("%v: victim %s taken from protected bucket %d (size %d <= min %d); contents %s", op, hx(evicted.Key), vb, bs[vb], md.cfg.Min, md.contents())
		}
		delete(md.m, vk)
		md.evictions++
		wantAdded := vk != string(op.Key)
		if added != wantAdded {
			return fmt.Sprintf("%v: added=%v but victim=%s", op, added, hx(evicted.Key))
		}
	case "delete":
		me, existed := md.m[string(op.Key)]
		e := c.Delete(op.Key)
		if existed {
			if e == nil || !bytes.Equal(e.Key, op.Key) || e.Value != me.val {
				return fmt.Sprintf("%v of a present key returned %v, want value %d", op, e, me.val)
			}
			delete(md.m, string(op.Key))
		} else if e != nil && e.Key != nil {
			return fmt.Sprintf("%v of an absent key returned entry %v", op, e)
		}
	case "expire":
		// Expire appends to the slice it is given: the caller's prefix (0-2 sentinel entries here) is kept
		// and does not count as removed.
		var prefix []kademlia.Entry[int]
		for i := 0; i < op.Now%3; i++ {
			prefix = append(prefix, kademlia.Entry[int]{Key: []byte("sentinel"), Value: -1 - i})
		}
		out := c.Expire(append([]kademlia.Entry[int]{}, prefix...), tm(op.Now))
		if len(out) < len(prefix) {
			return fmt.Sprintf("%v returned %d entries for a slice that held %d", op, len(out), len(prefix))
		}
		for i := range prefix {
			if string(out[i].Key) != "sentinel" || out[i].Value != prefix[i].Value {
				return fmt.Sprintf("%v overwrote element %d of the slice it was asked to append to", op, i)
			}
		}
		out = out[len(prefix):]
		want := map[string]bool{}
		for k, me := range md.m {
			if me.expires != 0 && me.expires < op.Now {
				want[k] = true
			}
		}
		for _, e := range out {
			if !want[string(e.Key)] {
				return fmt.Sprintf("%v returned %s which is not past its time (or absent)", op, hx(e.Key))
			}
			delete(want, string(e.Key))
			delete(md.m, string(e.Key))
			md.expireRemoved = true
		}
		if len(want) > 0 {
			var ks []string
			for k := range want {
				ks = append(ks, hx([]byte(k)))
			}
			sort.Strings(ks)
			return fmt.Sprintf("%v left expired entries %v in place", op, ks)
		}
	case "get":
		me, existed := md.m[string(op.Key)]
		v, ok := c.Get(op.Key, tm(op.Now))
		if ok != existed || (ok && v != me.val) {
			return fmt.Sprintf("%v = (%d,%v), model (%d,%v)", op, v, ok, me.val, existed)
		}
		if c.Contains(op.Key, tm(op.Now)) != existed {
			return fmt.Sprintf("Contains(%s) != %v", hx(op.Key), existed)
		}
	}
	return ""
}

func (md *c18model) contents() string {
	var ks []string
	for k, e := range md.m {
		ks = append(ks, fmt.Sprintf("%s=%d", hx([]byte(k)), e.val))
	}
	sort.Strings(ks)
	return "{" + strings.Join(ks, " ") + "}"
}

// invariant compares the whole observable state.
func (md *c18model) invariant() string {
	c := md.cache
	if c.Count() != len(md.m) {
		return fmt.Sprintf("Count()=%d but the cache holds %d entries %s", c.Count(), len(md.m), md.contents())
	}
	if c.Count() > md.cfg.Max {
		return fmt.Sprintf("Count()=%d exceeds capacity %d", c.Count(), md.cfg.Max)
	}
	seen := map[string]bool{}
	bad := ""
	c.ForEach(nil, func(e kademlia.Entry[int]) bool {
		k := string(e.Key)
		me, ok := md.m[k]
		switch {
		case seen[k]:
			bad = fmt.Sprintf("ForEach yielded %s twice", hx(e.Key))
		case !ok:
			bad = fmt.Sprintf("ForEach yielded %s which the model does not hold %s", hx(e.Key), md.contents())
		case me.val != e.Value:
			bad = fmt.Sprintf("ForEach yielded %s=%d, latest stored value is %d", hx(e.Key), e.Value, me.val)
		}
		seen[k] = true
		return bad == ""
	})
	if bad != "" {
		return bad
	}
	if len(seen) != len(md.m) {
		return fmt.Sprintf("ForEach yielded %d entries, model holds %d %s", len(seen), len(md.m), md.contents())
	}
	for k, me := range md.m {
		v, ok := c.Get([]byte(k), t0)
		if !ok || v != me.val {
			return fmt.Sprintf("Get(%s)=(%d,%v) want (%d,true)", hx([]byte(k)), v, ok, me.val)
		}
	}
	if c.IsFull() != (len(md.m) >= md.cfg.Max) {
		return fmt.Sprintf("IsFull()=%v with %d entries, capacity %d", c.IsFull(), len(md.m), md.cfg.Max)
	}
	return ""
}

func genC18Cfg(t *rapid.T) c18cfg {
	var cfg c18cfg
	n := rapid.SampledFrom([]int{1, 1, 2, 32}).Draw(t, "locusLen")
	cfg.Locus = genBytesSmallAlpha(n).Draw(t, "locus")
	cfg.Min = rapid.SampledFrom([]int{0, 0, 1, 1, 2}).Draw(t, "min")
	floor := 8 * n * cfg.Min
	switch rapid.SampledFrom([]int{0, 1, 2, 3, 4, 4, 4, 5}).Draw(t, "maxKind") {
	case 0:
		cfg.Max = floor // boundary the constructor accepts
	case 1:
		cfg.Max = floor + rapid.IntRange(1, 3).Draw(t, "maxPlus")
	case 2:
		cfg.Max = rapid.IntRange(0, 10).Draw(t, "maxSmall") // may be rejected
	case 3:
		cfg.Max = floor + rapid.IntRange(0, 12).Draw(t, "maxPlus")
	case 4:
		cfg.Max = rapid.IntRange(1, 6).Draw(t, "maxTiny")
		cfg.Min = 0
	case 5:
		cfg.Max = 1000
	}
	return cfg
}

// genC18Key: keys at least as long as the locus; biased to one key per bucket
// plus collisions within buckets and the locus itself.
func genC18Key(t *rapid.T, cfg c18cfg, pool [][]byte) []byte {
	switch rapid.IntRange(0, 9).Draw(t, "keyKind") {
	case 0:
		return append([]byte{}, cfg.Locus...)
	case 1, 2, 3:
		if len(pool) > 0 {
			return pool[rapid.IntRange(0, len(pool)-1).Draw(t, "poolIdx")]
		}
		fallthrough
	case 4, 5, 6:
		// exactly "share" common bits, zero tail: one canonical key per bucket
		nbits := 8 * len(cfg.Locus)
		share := rapid.IntRange(0, nbits-1).Draw(t, "share")
		k := append([]byte{}, cfg.Locus...)
		k[share/8] ^= 0x80 >> (share % 8)
		return k
	case 7, 8:
		return genKeyRel(cfg.Locus, 1).Draw(t, "key")
	}
	return genBytesSmallAlpha(len(cfg.Locus)).Draw(t, "key")
}

func TestC18Model(t *testing.T) {
	const sub = "C18.model"
	ev.Rule(sub, "rapid state machine: configuration (locus 1/2/32 bytes, per-bucket minimum 0-2, capacity incl. the constructor's boundary 8*len*min, 0, tiny and large; rejected configurations are counted and skipped); operations put/update/keep/delete/expire/get over keys >= len(locus) biased to one key per bucket, the locus itself and re-use of earlier keys; times from an integer lattice; after every step the cache is compared with a reference map (Count, full ForEach, Get of every key, IsFull, eviction-victim rule). non-trivial = history reached capacity with a per-bucket minimum in force, or an Expire removed something and a Put followed; distinct by (configuration, operation list)")
	rapid.Check(t, func(t *rapid.T) {
		cfg := genC18Cfg(t)
		md := newC18(cfg)
		ev.Eval(sub)
		if md == nil {
			ev.Class(sub, "config-rejected-by-constructor")
			return
		}
		var pool [][]byte
		var hist []string
		clock := rapid.SampledFrom([]int{1, 1, 0}).Draw(t, "clockStart") // 0: the first entries are created at the zero time.Time
		val := 0
		check := func(op c18op) {
			hist = append(hist, op.String())
			if p := md.apply(op); p != "" {
				t.Fatalf("%s\nconfig %v\nhistory %v", p, cfg, hist)
			}
			if p := md.invariant(); p != "" {
				t.Fatalf("after %v: %s\nconfig %v\nhistory %v", op, p, cfg, hist)
			}
		}
		mkPut := func(kind string) func(*rapid.T) {
			return func(t *rapid.T) {
				k := genC18Key(t, cfg, pool)
				pool = append(pool, k)
				clock += rapid.IntRange(0, 2).Draw(t, "dt")
				exp := 0
				if rapid.IntRange(0, 3).Draw(t, "expiring") > 0 {
					exp = clock + rapid.SampledFrom([]int{-1, 0, 1, 2, 3, 6, 12, 30}).Draw(t, "ttl")
					if exp <= 0 {
						exp = 1
					}
				}
				val++
				check(c18op{Kind: kind, Key: k, Val: val, Now: clock, Expires: exp})
			}
		}
		t.Repeat(map[string]func(*rapid.T){
			"put":    mkPut("put"),
			"put2":   mkPut("put"),
			"update": mkPut("update"),
			"keep":   mkPut("keep"),
			"fill": func(t *rapid.T) {
				// one canonical key per bucket (and the locus): reaches the capacity boundary when a minimum is in force
				if len(cfg.Locus) > 2 {
					t.Skip("locus too long to fill")
				}
				nb := 8 * len(cfg.Locus)
				from := rapid.IntRange(0, nb).Draw(t, "from")
				for i := from; i <= nb; i++ {
					k := append([]byte{}, cfg.Locus...)
					if i < nb {
						k[i/8] ^= 0x80 >> (i % 8)
					}
					pool = append(pool, k)
					val++
					check(c18op{Kind: "put", Key: k, Val: val, Now: clock, Expires: 0})
				}
			},
			"delete": func(t *rapid.T) {
				check(c18op{Kind: "delete", Key: genC18Key(t, cfg, pool)})
			},
			"expire": func(t *rapid.T) {
				clock += rapid.IntRange(0, 5).Draw(t, "dt")
				check(c18op{Kind: "expire", Now: clock})
			},
			"get": func(t *rapid.T) {
				check(c18op{Kind: "get", Key: genC18Key(t, cfg, pool), Now: clock})
			},
		})
		nt := false
		if md.reachedCapWithMin {
			ev.Class(sub, "reached-capacity-with-minimum")
			nt = true
		}
		if md.putAfterExpire {
			ev.Class(sub, "put-after-effective-expire")
			nt = true
		}
		if md.evictions > 0 {
			ev.Class(sub, "evicted")
		}
		if nt {
			key := cfg.String() + " " + strings.Join(hist, ";")
			if ev.NonTrivial(sub, key) {
				ev.Sample(sub, key)
			}
		}
	})
}

// TestC18Exhaustive enumerates every operation sequence up to a depth bound
// over an 8-key universe on a 1-byte locus.
func TestC18Exhaustive(t *testing.T) {
	const sub = "C18.exhaustive"
	locus := []byte{0x00}
	keys := [][]byte{{0x00}, {0x80}, {0xc0}, {0x40}, {0x60}, {0x20}, {0x10}, {0x01}}
	type cfgDepth struct {
		cfg   c18cfg
		depth int
	}
	var plan []cfgDepth
	if ev.Thorough() {
		plan = []cfgDepth{{c18cfg{locus, 2, 0}, 5}, {c18cfg{locus, 3, 0}, 5}, {c18cfg{locus, 8, 1}, 4}, {c18cfg{locus, 9, 1}, 4}, {c18cfg{locus, 4, 0}, 4}, {c18cfg{locus, 1, 0}, 5}}
	} else {
		plan = []cfgDepth{{c18cfg{locus, 2, 0}, 4}, {c18cfg{locus, 3, 0}, 3}, {c18cfg{locus, 8, 1}, 3}, {c18cfg{locus, 1, 0}, 4}}
	}
	// for the boundary configuration (max = 8*len*min) a prefix fills one key per bucket so that depth reaches the interesting states
	var ops []c18op
	for _, k := range keys {
		ops = append(ops, c18op{Kind: "put", Key: k, Expires: 0}, c18op{Kind: "put", Key: k, Expires: -1}, c18op{Kind: "delete", Key: k})
	}
	ops = append(ops, c18op{Kind: "expire"})
	ev.Rule(sub, fmt.Sprintf("exhaustive: every sequence of %d operations (put never-expiring / put expiring-next-tick / delete over 8 one-byte keys covering 6 buckets, expire) up to the per-configuration depth, on a 1-byte locus; for configurations with a per-bucket minimum a 7-put prefix first fills one key per bucket; oracle as C18.model; every complete sequence is distinct; non-trivial = contains an eviction or an effective expire", len(ops)))
	var total, nontriv int64
	var failed string
	run := func(cfg c18cfg, prefix []c18op, seq []int) {
		md := newC18(cfg)
		clock := 1
		val := 0
		var hist []string
		step := func(o c18op) bool {
			clock++
			o.Now = clock
			if o.Kind == "put" {
				val++
				o.Val = val
				if o.Expires == -1 {
					o.Expires = clock + 1
				}
			}
			if o.Kind == "expire" {
				o.Now = clock + 1
			}
			hist = append(hist, o.String())
			p := md.apply(o)
			if p == "" {
				p = md.invariant()
			}
			if p != "" {
				failed = fmt.Sprintf("%s\nconfig %v\nhistory %v", p, cfg, hist)
				return false
			}
			return true
		}
		for _, o := range prefix {
			if !step(o) {
				return
			}
		}
		for _, i := range seq {
			if !step(ops[i]) {
				return
			}
		}
		total++
		if md.evictions > 0 || md.expireRemoved {
			nontriv++
			if ev.WantSample(sub) && len(seq) >= 3 && total%977 == 0 {
				ev.Sample(sub, cfg.String()+" "+strings.Join(hist, ";"))
			}
		}
	}
	for _, pd := range plan {
		var prefix []c18op
		if pd.cfg.Min > 0 {
			for _, k := range [][]byte{{0x80}, {0x40}, {0x20}, {0x10}, {0x08}, {0x04}, {0x02}} {
				prefix = append(prefix, c18op{Kind: "put", Key: k})
			}
		}
		seq := make([]int, pd.depth)
		var rec func(d int)
		rec = func(d int) {
			if failed != "" {
				return
			}
			if d == pd.depth {
				run(pd.cfg, prefix, seq)
				return
			}
			for i := range ops {
				seq[d] = i
				rec(d + 1)
				if failed != "" {
					return
				}
			}
		}
		rec(0)
		if failed != "" {
			p := ev.SaveReplay(sub, failed)
			t.Fatalf("%s\nreplay %s", failed, p)
		}
		ev.Note(sub, fmt.Sprintf("%v depth %d complete", pd.cfg, pd.depth))
	}
	ev.EvalN(sub, total)
	ev.Extra(sub, "distinct_nontrivial_counted", nontriv)
	ev.Exhaustive(sub, fmt.Sprintf("%d sequences", total))
}
