package kad

import (
	"bytes"
	"testing"
	"time"

	"go.brendoncarroll.net/p2p/p/kademlia"
	"pgregory.net/rapid"

	"verif/harness/internal/ev"
)

// TestC19Overlap: enumerations of one unmodified cache that overlap in time. One enumeration is parked inside
// its callback at a generated position while a second goroutine runs complete enumerations relative to other keys;
// then the first continues. Both must be permutations of the contents in non-decreasing distance from their own key.
// The overlap is owned by the harness (a channel hand-over), so the check does not depend on scheduling luck.
func TestC19Overlap(t *testing.T) {
	const sub = "C19.overlapping_enumerations"
	ev.Rule(sub, "rapid: cache contents and query as in foreach_order; enumeration 1 (ForEach or ForEachCloser relative to the query) is parked in its callback after a generated number of entries while 1-3 further complete enumerations (ForEach / Closest / ForEachCloser relative to generated keys) run on another goroutine, then enumeration 1 resumes; oracle for each enumeration = brute-force sort by XOR distance from its own key, exactly-once; readers only, the cache is not modified. non-trivial = >= 2 entries still to deliver when enumeration 1 is parked and the inner enumeration visits >= 2 entries; distinct by (contents, queries, park position)")
	rapid.Check(t, func(t *rapid.T) {
		c, cache := genC19(t)
		ev.Eval(sub)
		parkAt := 0
		if len(c.entries) > 0 {
			parkAt = rapid.IntRange(0, len(c.entries)-1).Draw(t, "parkAfter")
		}
		nInner := rapid.IntRange(1, 3).Draw(t, "innerEnumerations")
		type inner struct {
			q    []byte
			kind string
		}
		var inners []inner
		for i := 0; i < nInner; i++ {
			q := genKeyRel(c.locus, 0).Draw(t, "innerQuery")
			if len(c.entries) > 0 && rapid.Bool().Draw(t, "innerNearEntry") {
				q = genKeyRel(c.entries[rapid.IntRange(0, len(c.entries)-1).Draw(t, "ie")][:len(c.locus)], 0).Draw(t, "innerQuery2")
			}
			inners = append(inners, inner{q, rapid.SampledFrom([]string{"foreach", "foreach", "closest", "closer"}).Draw(t, "innerKind")})
		}
		outerCloser := rapid.IntRange(0, 3).Draw(t, "outerIsForEachCloser") == 0
		check := func(label string, q []byte, got [][]byte, want [][]byte) string {
			if len(got) != len(want) {
				return label + ": yielded " + hxs(got) + " want (as a set) " + hxs(want)
			}
			if hxs(sortedCopy(got)) != hxs(sortedCopy(want)) {
				return label + ": not the expected set: got " + hxs(got) + " want " + hxs(want)
			}
			for i := 1; i < len(got); i++ {
				if refCmp(q, got[i-1], got[i]) > 0 {
					return label + ": out of order at " + hx(got[i]) + " in " + hxs(got)
				}
			}
			return ""
		}
		closerSet := func(q []byte) [][]byte {
			var want [][]byte
			for _, e := range c.entries {
				if refCmp(q, e, c.locus) < 0 {
					want = append(want, e)
				}
			}
			return want
		}
		runInner := func() string {
			for _, in := range inners {
				switch in.kind {
				case "foreach":
					var got [][]byte
					cache.ForEach(in.q, func(e kademlia.Entry[int]) bool {
						got = append(got, append([]byte{}, e.Key...))
						return true
					})
					if p := check("inner ForEach("+hx(in.q)+")", in.q, got, c.entries); p != "" {
						return p
					}
				case "closer":
					var got [][]byte
					cache.ForEachCloser(in.q, func(e kademlia.Entry[int]) bool {
						got = append(got, append([]byte{}, e.Key...))
						return true
					})
					if p := check("inner ForEachCloser("+hx(in.q)+")", in.q, got, closerSet(in.q)); p != "" {
						return p
					}
				case "closest":
					cl := cache.Closest(in.q)
					if (cl == nil) != (len(c.entries) == 0) {
						return "inner Closest(" + hx(in.q) + ") nil-ness wrong"
					}
					for _, e := range c.entries {
						if cl != nil && refCmp(in.q, e, cl.Key) < 0 {
							return "inner Closest(" + hx(in.q) + ")=" + hx(cl.Key) + " but " + hx(e) + " is nearer"
						}
					}
				}
			}
			return ""
		}
		innerDone := make(chan string, 1)
		var got [][]byte
		parked := false
		cb := func(e kademlia.Entry[int]) bool {
			got = append(got, append([]byte{}, e.Key...))
			if !parked && len(got) == parkAt+1 {
				parked = true
				go func() { innerDone <- runInner() }()
				select {
				case p := <-innerDone:
					innerDone <- p
				case <-time.After(20 * time.Second):
					innerDone <- "inner enumerations did not finish while the outer one was parked in its callback (readers block readers)"
				}
			}
			return true
		}
		want := c.entries
		label := "outer ForEach(" + hx(c.query) + ")"
		if outerCloser {
			want = closerSet(c.query)
			label = "outer ForEachCloser(" + hx(c.query) + ")"
			cache.ForEachCloser(c.query, cb)
		} else {
			cache.ForEach(c.query, cb)
		}
		if parked {
			if p := <-innerDone; p != "" {
				t.Fatalf("%s (outer parked after %d entries) %v", p, parkAt+1, c)
			}
		}
		if p := check(label+" interrupted after "+hx(bytes.Join(got[:min(len(got), parkAt+1)], []byte{0xff})), c.query, got, want); p != "" {
			t.Fatalf("%s; inner enumerations: %v; %v", p, inners, c)
		}
		if parked && len(want)-(parkAt+1) >= 2 && len(c.entries) >= 2 {
			key := c.String() + hx(inners[0].q)
			if ev.NonTrivial(sub, key) {
				ev.Sample(sub, key)
			}
			ev.Class(sub, "parked-with->=2-to-go")
		} else if parked {
			ev.Class(sub, "parked-near-the-end")
		} else {
			ev.Class(sub, "never-parked")
		}
	})
}
