package kad

import (
	"fmt"
	"runtime"
	"sync"
	"sync/atomic"
	"testing"
	"time"

	"go.brendoncarroll.net/p2p/p/kademlia"
	"pgregory.net/rapid"

	"verif/harness/internal/ev"
)

// TestC18Concurrent: the bookkeeping clauses of C18 after histories in which the operations overlap in time.
// Several goroutines put, update and delete keys of a small universe on one cache; update callbacks (caller code)
// may yield or sleep. Once all have returned the cache is quiescent and must satisfy what any sequential order of
// the same calls would: count == number of entries enumerated, count <= capacity, every key at most once, every
// value one that some call stored under that key, and the conservation law
//
//	entries held == calls reporting "added" - entries reported as eviction victims of other keys - successful deletes.
func TestC18Concurrent(t *testing.T) {
	const sub = "C18.concurrent_quiescent"
	ev.Rule(sub, "rapid: 2-6 goroutines x 10-60 operations (Put / Update with a callback that may yield or sleep up to 100 us / Delete) on one cache (1-byte locus, capacity 2-32, per-bucket minimum 0-1) over a key universe of 4-24 one-byte keys, so that calls for the same key overlap; after all calls returned: Count() == entries enumerated by ForEach, Count() <= capacity, no key twice, every value was stored under its key by some call, and held == added - evicted(other key) - deleted. Any linearisable cache satisfies all of these whatever the interleaving. non-trivial = >= 2 goroutines touched the same key; distinct by (configuration, goroutines, operations, universe)")
	rapid.Check(t, func(t *rapid.T) {
		g := rapid.IntRange(2, 6).Draw(t, "goroutines")
		ops := rapid.IntRange(10, 60).Draw(t, "ops")
		universe := rapid.IntRange(4, 24).Draw(t, "universe")
		minPer := rapid.IntRange(0, 1).Draw(t, "minPerBucket")
		capacity := rapid.IntRange(max(2, 8*minPer), 32).Draw(t, "capacity")
		slow := rapid.IntRange(0, 3).Draw(t, "callbackDelayClass") // 0 none, 1 yield, 2 50us, 3 100us
		delPct := rapid.SampledFrom([]int{0, 10, 30}).Draw(t, "deletePercent")
		seed := rapid.Uint32().Draw(t, "opSeed")
		locus := []byte{0x00}
		c := kademlia.NewCache[uint32](locus, capacity, minPer)
		var added, evictedOther, deleted int64
		stored := make([]sync.Map, 256) // key -> set of values stored under it
		touched := make([][]int32, g)
		now := time.Unix(1_700_000_000, 0)
		var wg sync.WaitGroup
		var panicMsg atomic.Value
		for k := 0; k < g; k++ {
			k := k
			touched[k] = make([]int32, 256)
			wg.Add(1)
			go func() {
				defer wg.Done()
				defer func() {
					if r := recover(); r != nil {
						panicMsg.Store(fmt.Sprint(r))
					}
				}()
				x := seed ^ uint32(k+1)*2654435761
				next := func() uint32 { x ^= x << 13; x ^= x >> 17; x ^= x << 5; return x }
				for i := 0; i < ops; i++ {
					r := next()
					key := []byte{byte(int(r>>8) % universe * 11)}
					touched[k][key[0]] = 1
					val := uint32(k)<<24 | uint32(i)
					switch {
					case int(r%100) < delPct:
						if e := c.Delete(key); e != nil && len(e.Key) > 0 { // an absent key yields a pointer to the zero entry
							atomic.AddInt64(&deleted, 1)
						}
					default:
						stored[key[0]].Store(val, true)
						ev, ad := c.Update(key, func(e kademlia.Entry[uint32], exists bool) kademlia.Entry[uint32] {
							switch slow {
							case 1:
								runtime.Gosched()
							case 2:
								time.Sleep(50 * time.Microsecond)
							case 3:
								time.Sleep(100 * time.Microsecond)
							}
							return kademlia.Entry[uint32]{Key: key, Value: val, CreatedAt: now, ExpiresAt: now.Add(time.Hour)}
						})
						if ad {
							atomic.AddInt64(&added, 1)
						}
						if ev != nil && ev.Key[0] != key[0] {
							atomic.AddInt64(&evictedOther, 1)
						}
					}
				}
			}()
		}
		wg.Wait()
		ev.Eval(sub)
		desc := fmt.Sprintf("cap=%d min=%d g=%d ops=%d universe=%d delay=%d del%%=%d seed=%d", capacity, minPer, g, ops, universe, slow, delPct, seed)
		if p := panicMsg.Load(); p != nil {
			t.Fatalf("panic under overlapping calls: %v (%s)", p, desc)
		}
		seen := map[byte]bool{}
		n := 0
		var problem string
		c.ForEach(locus, func(e kademlia.Entry[uint32]) bool {
			n++
			if seen[e.Key[0]] {
				problem = fmt.Sprintf("key %02x enumerated twice", e.Key[0])
			}
			seen[e.Key[0]] = true
			if _, ok := stored[e.Key[0]].Load(e.Value); !ok {
				problem = fmt.Sprintf("key %02x holds value %08x which no call stored under it", e.Key[0], e.Value)
			}
			return true
		})
		if problem != "" {
			t.Fatalf("%s (%s)", problem, desc)
		}
		if c.Count() != n {
			t.Fatalf("after overlapping calls Count()=%d but the cache holds %d entries (%s)", c.Count(), n, desc)
		}
		if n > capacity {
			t.Fatalf("cache holds %d entries, capacity %d (%s)", n, capacity, desc)
		}
		if want := added - evictedOther - deleted; int64(n) != want {
			t.Fatalf("cache holds %d entries but the calls reported added=%d evicted(other key)=%d deleted=%d, i.e. %d (%s)", n, added, evictedOther, deleted, want, desc)
		}
		shared := 0
		for key := 0; key < 256; key++ {
			cnt := 0
			for k := 0; k < g; k++ {
				cnt += int(touched[k][key])
			}
			if cnt >= 2 {
				shared++
			}
		}
		if shared > 0 && ev.NonTrivial(sub, desc) {
			ev.Sample(sub, desc)
		}
	})
}
