package kad

import (
	"fmt"
	"sync"
	"testing"
	"time"

	"go.brendoncarroll.net/p2p"
	"go.brendoncarroll.net/p2p/p/kademlia"
	"pgregory.net/rapid"

	"verif/harness/internal/ev"
)

// TestC14Cache is built with -race by the driver.
func TestC14Cache(t *testing.T) { kadConcurrent(t, "C14.kademlia_concurrent") }

// The same workload decides a clause of C08: requests handled while the routing table changes must not kill the
// process (the Go runtime ends it on a concurrent map iteration and write; that cannot be recovered).
func TestC08DHTConcurrent(t *testing.T) { kadConcurrent(t, "C08.dht_requests_during_peer_churn") }

func kadConcurrent(t *testing.T, sub string) {
	ev.Rule(sub, "rapid, binary built with -race: 2-8 goroutines per method call Put / Get / Delete / Expire / ForEach / Closest / Count / IsFull / AcceptingPrefixLen / WouldAdd on one cache (capacity 4-64), and AddPeer / RemovePeer / ListNodeInfos / HandlePut / HandleGet / HandleFindNode / Count on one DHT node, for 300-2000 operations each. Oracle: the race detector reports nothing with a library frame; the cache never panics. non-trivial = >= 2 goroutines per method; distinct by (sizes, goroutine counts)")
	rapid.Check(t, func(t *rapid.T) {
		g := rapid.IntRange(2, 8).Draw(t, "goroutines")
		ops := rapid.IntRange(300, 2000).Draw(t, "ops")
		capacity := rapid.SampledFrom([]int{4, 8, 16, 64}).Draw(t, "capacity")
		locus := []byte{0x00}
		c := kademlia.NewCache[int](locus, capacity, 0)
		var local p2p.PeerID
		local[0] = 0x11
		node := kademlia.NewDHTNode(kademlia.DHTNodeParams{LocalID: local, PeerCacheSize: 256, DataCacheSize: capacity})
		var wg sync.WaitGroup
		var mu sync.Mutex
		var panics []string
		run := func(fn func(i int)) {
			wg.Add(1)
			go func() {
				defer wg.Done()
				defer func() {
					if r := recover(); r != nil {
						mu.Lock()
						panics = append(panics, fmt.Sprint(r))
						mu.Unlock()
					}
				}()
				for i := 0; i < ops; i++ {
					fn(i)
				}
			}()
		}
		now := time.Now()
		for k := 0; k < g; k++ {
			k := k
			key := func(i int) []byte { return []byte{byte(i*7 + k*13)} }
			run(func(i int) { c.Put(key(i), i, now, now.Add(time.Duration(i%5)*time.Millisecond)) })
			run(func(i int) { c.Get(key(i), now) })
			run(func(i int) { c.Delete(key(i)) })
			run(func(i int) { c.Count(); c.IsFull(); c.AcceptingPrefixLen() })
			run(func(i int) { c.WouldAdd(key(i), now); c.Closest(key(i)) })
			if k%2 == 0 {
				run(func(i int) { c.Expire(nil, now.Add(time.Duration(i%7)*time.Millisecond)) })
				run(func(i int) { c.ForEach(key(i), func(kademlia.Entry[int]) bool { return true }) })
			}
			var id p2p.PeerID
			id[0], id[1] = byte(k+1), 1
			run(func(i int) { id2 := id; id2[2] = byte(i); node.AddPeer(id2, []byte{1}) })
			run(func(i int) { id2 := id; id2[2] = byte(i); node.RemovePeer(id2) })
			run(func(i int) { node.ListNodeInfos(id[:], 5); node.Count(); _ = node.String() })
			run(func(i int) { node.HandlePut(id, kademlia.PutReq{Key: []byte{byte(i)}, Value: []byte{1}, TTLms: 1000}) })
			run(func(i int) { node.HandleGet(id, kademlia.GetReq{Key: []byte{byte(i)}}); node.WouldAdd([]byte{byte(i)}) })
		}
		wg.Wait()
		ev.Eval(sub)
		key := fmt.Sprintf("g=%d ops=%d cap=%d", g, ops, capacity)
		if ev.NonTrivial(sub, key) {
			ev.Sample(sub, key)
		}
		if len(panics) > 0 {
			t.Fatalf("panic under concurrent use: %s (%s)", panics[0], key)
		}
	})
}
