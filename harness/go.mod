module verif/harness

go 1.23

require (
	go.brendoncarroll.net/p2p v0.0.0
	pgregory.net/rapid v1.3.0
)

require (
	go.brendoncarroll.net/tai64 v0.0.0-20241118171318-6e12d283d5e4 // indirect
	golang.org/x/exp v0.0.0-20230522175609-2e198f4a06a1 // indirect
)

replace go.brendoncarroll.net/p2p => /repo
