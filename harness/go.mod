module verif/harness

go 1.23

require (
	github.com/flynn/noise v1.0.0
	github.com/quic-go/quic-go v0.37.4
	go.brendoncarroll.net/exp v0.0.0-20241118183830-280772e567eb
	go.brendoncarroll.net/p2p v0.0.0
	go.brendoncarroll.net/tai64 v0.0.0-20241118171318-6e12d283d5e4
	go.uber.org/zap v1.24.0
	golang.org/x/crypto v0.9.0
	google.golang.org/protobuf v1.28.0
	pgregory.net/rapid v1.3.0
)

require (
	github.com/davecgh/go-spew v1.1.1 // indirect
	github.com/golang/protobuf v1.5.3 // indirect
	github.com/pkg/errors v0.9.1 // indirect
	github.com/pmezard/go-difflib v1.0.0 // indirect
	github.com/stretchr/testify v1.8.4 // indirect
	go.brendoncarroll.net/stdctx v0.0.0-20241118190518-40d09f4d11e7 // indirect
	go.uber.org/atomic v1.7.0 // indirect
	go.uber.org/multierr v1.6.0 // indirect
	golang.org/x/exp v0.0.0-20230522175609-2e198f4a06a1 // indirect
	golang.org/x/net v0.10.0 // indirect
	golang.org/x/sync v0.2.0 // indirect
	golang.org/x/sys v0.8.0 // indirect
	golang.zx2c4.com/wireguard v0.0.0-20220920152132-bb719d3a6e2c // indirect
	gopkg.in/yaml.v3 v3.0.1 // indirect
)

replace go.brendoncarroll.net/p2p => /repo
