package ke

import (
	"bytes"
	"encoding/binary"
	"fmt"
	"strings"
	"testing"

	"go.brendoncarroll.net/p2p/p/p2pke"
	"pgregory.net/rapid"

	"verif/harness/internal/adv/kefake"
	"verif/harness/internal/ev"
)

// c02sess is one honest session with the bookkeeping the oracle needs.
type c02sess struct {
	name      string
	s         *p2pke.Session
	peer      *c02sess
	sent      map[string]bool   // plaintexts given to Send
	accepted  map[string]bool   // plaintexts handed to the application
	counters  map[uint32][]byte // every emitted message by counter
	nearLimit bool
}

type poolMsg struct {
	data   []byte
	origin *c02sess // nil for injected bytes
	label  string
}

// establish runs an honest handshake between two fresh sessions. With
// viaData the RespDone is withheld and the initiator completes by receiving
// application data instead.
func establish(name string, ka, kb int, viaData bool) (a, b *c02sess, wire [][]byte, problem string) {
	a = &c02sess{name: name + ".init", s: newSession(ka, true, tBase), sent: map[string]bool{}, accepted: map[string]bool{}, counters: map[uint32][]byte{}}
	b = &c02sess{name: name + ".resp", s: newSession(kb, false, tBase), sent: map[string]bool{}, accepted: map[string]bool{}, counters: map[uint32][]byte{}}
	a.peer, b.peer = b, a
	m0 := a.s.Handshake(nil)
	_, m1, err := b.s.Deliver(nil, m0, tBase)
	if err != nil {
		return a, b, nil, "setup: " + err.Error()
	}
	_, m2, err := a.s.Deliver(nil, m1, tBase)
	if err != nil {
		return a, b, nil, "setup: " + err.Error()
	}
	_, m3, err := b.s.Deliver(nil, m2, tBase)
	if err != nil {
		return a, b, nil, "setup: " + err.Error()
	}
	wire = [][]byte{m0, m1, m2, m3}
	for _, m := range wire {
		c := counterOf(m)
		if c == 0 || c == 2 {
			a.counters[c] = m
		} else {
			b.counters[c] = m
		}
	}
	if viaData {
		pt := []byte("setup-data-from-responder-0123456789")
		ct, err := b.s.Send(nil, pt, tBase)
		if err != nil {
			return a, b, wire, "setup: responder cannot send after InitDone: " + err.Error()
		}
		b.sent[string(pt)] = true
		b.counters[counterOf(ct)] = ct
		isApp, out, err := a.s.Deliver(nil, ct, tBase)
		if err != nil || !isApp || !bytes.Equal(out, pt) {
			return a, b, wire, fmt.Sprintf("setup: initiator did not accept data in place of RespDone: %v %v", isApp, err)
		}
		a.accepted[string(pt)] = true
		wire = append(wire, ct)
	} else {
		if _, _, err := a.s.Deliver(nil, m3, tBase); err != nil {
			return a, b, wire, "setup: " + err.Error()
		}
	}
	if !a.s.IsReady() || !b.s.IsReady() {
		return a, b, wire, "setup: sessions not ready after an in-order handshake"
	}
	return a, b, wire, ""
}

var c02sizes = []int{0, 1, 15, 16, 17, 100, 1000, 4096, p2pke.MaxMessageLen - 1, p2pke.MaxMessageLen}

func TestC02Session(t *testing.T) {
	const sub = "C02.session_dolev_yao"
	ev.Rule(sub, "rapid state machine: three established honest session pairs (the pair under test; a second pair with the same long-term keys; an unrelated pair), the first completed either normally or with RespDone withheld (initiator completes on data). Actions: send(any session, plaintext with a unique 16-byte marker, sizes 0..MaxMessageLen); over the pool of every byte string ever emitted (handshake messages included): deliver to any session (covers replay, reorder, cross-feed, reflection), flip one bit, truncate, splice header/body of two messages, inject random bytes; placing the send counter near the 2^32 limit (hook). Oracle: every (isApp, plaintext) equals a plaintext the peer session of the same pair sent, accepted at most once per session; per session every emitted counter is unique (same counter only for byte-identical retransmission), data counters >= 16; no plaintext marker occurs in any emitted bytes; near the limit Send must fail before the 32-bit counter can wrap. non-trivial = >= 1 accepted data message and >= 1 adversarial action on a data ciphertext incl. >= 1 replay of an accepted ciphertext; distinct by action trace")
	rapid.Check(t, func(t *rapid.T) {
		viaData := rapid.Bool().Draw(t, "completeViaData")
		var sessions []*c02sess
		var pool []poolMsg
		for i, cfg := range []struct {
			name   string
			ka, kb int
			via    bool
		}{{"P0", 0, 1, viaData}, {"P1", 0, 1, false}, {"P2", 2, 3, false}} {
			a, b, wire, p := establish(cfg.name, cfg.ka, cfg.kb, cfg.via)
			if p != "" {
				t.Fatalf("%s (pair %d, viaData=%v)", p, i, cfg.via)
			}
			sessions = append(sessions, a, b)
			for _, m := range wire {
				pool = append(pool, poolMsg{data: m, label: cfg.name + ":" + msgName(m)})
			}
		}
		var trace []string
		var markers [][]byte
		accepted, adversarialOnData, replayOfAccepted := 0, 0, 0
		acceptedCT := map[string]bool{}
		seq := 0
		fail := func(f string, a ...any) {
			t.Fatalf("%s\nviaData=%v\ntrace: %s", fmt.Sprintf(f, a...), viaData, strings.Join(trace, " ; "))
		}
		noteEmitted := func(s *c02sess, ct []byte) {
			c := counterOf(ct)
			if prev, ok := s.counters[c]; ok && !bytes.Equal(prev, ct) {
				fail("%s produced two different messages under counter %d (key/counter reuse)", s.name, c)
			}
			s.counters[c] = append([]byte{}, ct...)
			if c < 16 {
				fail("%s produced a data message under handshake-range counter %d", s.name, c)
			}
			for _, mk := range markers {
				if bytes.Contains(ct, mk) {
					fail("plaintext marker %x appears in bytes emitted by %s", mk, s.name)
				}
			}
		}
		deliver := func(r *c02sess, m poolMsg, how string) {
			trace = append(trace, fmt.Sprintf("%s %s -> %s", how, m.label, r.name))
			var isApp bool
			var out []byte
			var err error
			func() {
				defer func() {
					if rec := recover(); rec != nil {
						fail("Deliver panicked: %v", rec)
					}
				}()
				isApp, out, err = deliverRecycled(r.s, m.data, tBase)
			}()
			if err != nil || !isApp {
				return
			}
			if !r.peer.sent[string(out)] {
				fail("%s handed %d bytes to the application that its peer %s never sent (message %s, %s)", r.name, len(out), r.peer.name, m.label, how)
			}
			if r.accepted[string(out)] {
				fail("%s delivered the same plaintext twice (message %s, %s)", r.name, m.label, how)
			}
			r.accepted[string(out)] = true
			acceptedCT[string(m.data)] = true
			accepted++
		}
		pickSess := func(t *rapid.T, label string) *c02sess {
			// bias to the pair under test
			if rapid.IntRange(0, 3).Draw(t, label+"bias") > 0 {
				return sessions[rapid.IntRange(0, 1).Draw(t, label)]
			}
			return sessions[rapid.IntRange(0, len(sessions)-1).Draw(t, label)]
		}
		pickMsg := func(t *rapid.T, label string) poolMsg {
			if len(pool) > 8 && rapid.Bool().Draw(t, label+"recent") {
				return pool[rapid.IntRange(len(pool)-6, len(pool)-1).Draw(t, label)]
			}
			return pool[rapid.IntRange(0, len(pool)-1).Draw(t, label)]
		}
		isData := func(m poolMsg) bool { return m.origin != nil }
		t.Repeat(map[string]func(*rapid.T){
			"send": func(t *rapid.T) {
				s := pickSess(t, "sender")
				size := rapid.SampledFrom(c02sizes).Draw(t, "size")
				seq++
				pt := make([]byte, size)
				mk := make([]byte, 16)
				binary.BigEndian.PutUint64(mk, 0xfeedfacecafe0000+uint64(seq))
				binary.BigEndian.PutUint64(mk[8:], 0x0123456789abcdef^uint64(seq)<<32)
				for i := range pt {
					pt[i] = mk[i%16]
				}
				if size >= 16 {
					markers = append(markers, mk)
				} else {
					// short plaintexts are made unique by content+length within a sender
					for i := range pt {
						pt[i] = byte(seq + i)
					}
					if s.sent[string(pt)] {
						t.Skip("duplicate short plaintext")
					}
				}
				ct, err := s.s.Send(nil, pt, tBase)
				trace = append(trace, fmt.Sprintf("send %s len=%d ok=%v", s.name, size, err == nil))
				if err != nil {
					if !s.nearLimit {
						fail("Send on established session %s failed: %v", s.name, err)
					}
					return
				}
				s.sent[string(pt)] = true
				noteEmitted(s, ct)
				pool = append(pool, poolMsg{data: ct, origin: s, label: fmt.Sprintf("%s:data#%d", s.name, counterOf(ct))})
			},
			"deliver": func(t *rapid.T) {
				m := pickMsg(t, "msg")
				r := pickSess(t, "receiver")
				how := "deliver"
				if isData(m) && m.origin.peer != r {
					how = "cross-feed"
					adversarialOnData++
				} else if acceptedCT[string(m.data)] {
					how = "replay"
					adversarialOnData++
					replayOfAccepted++
				}
				deliver(r, m, how)
			},
			"deliverToPeer": func(t *rapid.T) {
				// honest delivery so that acceptance actually happens
				var cands []poolMsg
				for _, m := range pool {
					if isData(m) {
						cands = append(cands, m)
					}
				}
				if len(cands) == 0 {
					t.Skip("no data yet")
				}
				m := cands[rapid.IntRange(0, len(cands)-1).Draw(t, "dataMsg")]
				how := "deliver"
				if acceptedCT[string(m.data)] {
					how = "replay"
					adversarialOnData++
					replayOfAccepted++
				}
				deliver(m.origin.peer, m, how)
			},
			"flip": func(t *rapid.T) {
				m := pickMsg(t, "msg")
				if len(m.data) == 0 {
					t.Skip("empty")
				}
				d := append([]byte{}, m.data...)
				i := rapid.IntRange(0, len(d)-1).Draw(t, "byte")
				if rapid.Bool().Draw(t, "inHeader") {
					i = rapid.IntRange(0, min(3, len(d)-1)).Draw(t, "hbyte")
				}
				d[i] ^= 1 << rapid.IntRange(0, 7).Draw(t, "bit")
				if isData(m) {
					adversarialOnData++
				}
				deliver(pickSess(t, "receiver"), poolMsg{data: d, origin: nil, label: "flip(" + m.label + ")"}, "mutate")
			},
			"truncate": func(t *rapid.T) {
				m := pickMsg(t, "msg")
				n := rapid.IntRange(0, len(m.data)).Draw(t, "n")
				if isData(m) {
					adversarialOnData++
				}
				deliver(pickSess(t, "receiver"), poolMsg{data: m.data[:n], label: fmt.Sprintf("trunc(%s,%d)", m.label, n)}, "mutate")
			},
			"splice": func(t *rapid.T) {
				x, y := pickMsg(t, "x"), pickMsg(t, "y")
				if len(x.data) < 4 || len(y.data) < 4 {
					t.Skip("short")
				}
				d := append(append([]byte{}, x.data[:4]...), y.data[4:]...)
				if isData(y) {
					adversarialOnData++
				}
				deliver(pickSess(t, "receiver"), poolMsg{data: d, label: "splice(" + x.label + "|" + y.label + ")"}, "mutate")
			},
			"inject": func(t *rapid.T) {
				d := rapid.SliceOfN(rapid.Byte(), 0, 64).Draw(t, "bytes")
				if len(d) >= 4 && rapid.Bool().Draw(t, "dataCounter") {
					binary.BigEndian.PutUint32(d, uint32(rapid.IntRange(16, 40).Draw(t, "ctr")))
				}
				deliver(pickSess(t, "receiver"), poolMsg{data: d, label: "random"}, "inject")
			},
			"forgedPeer": func(t *rapid.T) {
				// An adversary without any private key of the pair opens its own key exchange towards a fresh
				// responder of identity 1, re-using the identity claim it saw in P0's genuine InitHello, skips or
				// fakes InitDone, and sends data under the keys it derived. Nothing of it may reach the application.
				hello, err := p2pke.Message(pool[0].data).GetInitHello()
				if err != nil {
					t.Skip("no hello in the pool")
				}
				victim := newSession(1, false, tBase)
				fp := kefake.NewPeer(true)
				_, rh, err := victim.Deliver(nil, fp.InitHello(hello.TimestampTai64N, hello.KeyX509, hello.Sig), tBase)
				if err != nil || len(rh) == 0 {
					return
				}
				cb, ok := fp.ReadRespHello(rh)
				if !ok {
					return
				}
				trace = append(trace, "forged peer with lifted claim")
				adversarialOnData++
				steps := rapid.SliceOfN(rapid.SampledFrom([]string{"data", "data", "doneGarbage", "doneOwnKey", "lowCounterData"}), 1, 5).Draw(t, "forgedSteps")
				for _, st := range steps {
					var m []byte
					switch st {
					case "data":
						m = fp.Data([]byte("forged-plaintext-0123456789"))
					case "lowCounterData":
						fp.Counter = uint32(rapid.IntRange(2, 15).Draw(t, "ctr"))
						m = fp.Data([]byte("forged-plaintext-0123456789"))
						fp.Counter = 16
					case "doneGarbage":
						m = fp.InitDone(bytes.Repeat([]byte{0x5a}, 64))
					case "doneOwnKey":
						m = fp.InitDone(kefake.SignAs(2, kefake.PurposeCB, cb))
					}
					isApp, out, err := deliverRecycled(victim, m, tBase)
					if err == nil && isApp {
						fail("a responder handed %q to the application although its peer never proved the claimed key (forged step %s after a lifted InitHello claim)", out, st)
					}
					if victim.IsReady() {
						fail("a responder became ready for a peer that never proved the claimed key (forged step %s)", st)
					}
				}
			},
			"nearLimit": func(t *rapid.T) {
				s := pickSess(t, "limited")
				if s.nearLimit {
					t.Skip("already there")
				}
				s.nearLimit = true
				back := uint64(rapid.IntRange(0, 3).Draw(t, "back"))
				p2pke.VerifSetSendCounter(s.s, uint64(p2pke.MaxNonce)-back)
				trace = append(trace, fmt.Sprintf("counter of %s := limit-%d", s.name, back))
				// the session must refuse to send before its 32-bit counter wraps
				refused := false
				for i := 0; i < 8; i++ {
					seq++
					pt := []byte(fmt.Sprintf("limit-%d-%d-0123456789abcdef", seq, i))
					ct, err := s.s.Send(nil, pt, tBase)
					if err != nil {
						refused = true
						continue
					}
					if refused {
						fail("%s accepted a Send after having refused one at the message limit", s.name)
					}
					s.sent[string(pt)] = true
					noteEmitted(s, ct)
					if c := counterOf(ct); uint64(c) >= uint64(p2pke.MaxNonce)+1 || c < 16 {
						fail("%s emitted counter %d beyond the message limit", s.name, c)
					}
					pool = append(pool, poolMsg{data: ct, origin: s, label: fmt.Sprintf("%s:data#%d", s.name, counterOf(ct))})
				}
				if !refused {
					fail("%s kept sending past the message limit (counter now %d)", s.name, p2pke.VerifSendCounter(s.s))
				}
			},
		})
		ev.Eval(sub)
		if accepted > 0 {
			ev.Class(sub, "accepted-data")
		}
		if replayOfAccepted > 0 {
			ev.Class(sub, "replayed-accepted-ciphertext")
		}
		if viaData {
			ev.Class(sub, "initiator-completed-via-data")
		}
		if accepted > 0 && adversarialOnData > 0 && replayOfAccepted > 0 {
			key := fmt.Sprintf("via=%v %s", viaData, strings.Join(trace, ";"))
			if ev.NonTrivial(sub, key) {
				ev.Sample(sub, key)
			}
		}
	})
}

// TestC02SessionConcurrentSend: Session.Send is documented to allocate counters atomically.
func TestC02SessionConcurrentSend(t *testing.T) {
	const sub = "C02.session_concurrent_send"
	ev.Rule(sub, "rapid: 2-16 goroutines call Session.Send concurrently (50-400 messages each, plaintext sizes 0-64) on an established session, optionally starting just below the 2^32 message limit (hook), optionally with two more callers that keep offering 70 000-byte plaintexts (larger than a message may carry); oracle: all successful ciphertexts carry pairwise distinct counters >= 16 and below the limit, each decrypts at the peer to the plaintext it was made from, at most once. non-trivial = >= 2 goroutines; distinct by (goroutines, messages, start)")
	rapid.Check(t, func(t *rapid.T) {
		g := rapid.IntRange(2, 16).Draw(t, "goroutines")
		per := rapid.IntRange(50, 400).Draw(t, "perGoroutine")
		nearLimit := rapid.IntRange(0, 2).Draw(t, "nearLimit") > 0
		oversize := rapid.Bool().Draw(t, "oversizeCallers")
		a, b, _, p := establish("P", 0, 1, rapid.Bool().Draw(t, "viaData"))
		if p != "" {
			t.Fatalf("%s", p)
		}
		if nearLimit {
			p2pke.VerifSetSendCounter(a.s, uint64(p2pke.MaxNonce)-uint64(g*per/2))
		}
		type res struct {
			ct, pt []byte
		}
		out := make([][]res, g+2)
		done := make(chan struct{})
		for i := 0; i < g; i++ {
			i := i
			go func() {
				defer func() { done <- struct{}{} }()
				for j := 0; j < per; j++ {
					pt := []byte(fmt.Sprintf("g%d-%d-%s", i, j, strings.Repeat("x", (i*7+j)%64)))
					ct, err := a.s.Send(nil, pt, tBase)
					if err == nil {
						out[i] = append(out[i], res{ct, pt})
					}
				}
			}()
		}
		// optionally two more callers keep offering plaintexts larger than a message may carry: a refusal is fine,
		// a refusal that disturbs the counters of the other callers is not
		nOver := 0
		if oversize {
			nOver = 2
			big := bytes.Repeat([]byte{0xEE}, 70000)
			for k := 0; k < nOver; k++ {
				k := k
				go func() {
					defer func() { done <- struct{}{} }()
					for j := 0; j < per/4+1; j++ {
						if ct, err := a.s.Send(nil, big, tBase); err == nil {
							out[g+k] = append(out[g+k], res{ct, big})
						}
					}
				}()
			}
		}
		for i := 0; i < g+nOver; i++ {
			<-done
		}
		seen := map[uint32]bool{}
		total := 0
		for i := range out {
			for _, r := range out[i] {
				total++
				c := counterOf(r.ct)
				if c < 16 || uint64(c) >= uint64(p2pke.MaxNonce) {
					t.Fatalf("counter %d outside the data range", c)
				}
				if seen[c] {
					t.Fatalf("counter %d was handed to two concurrent Send calls (goroutines=%d per=%d nearLimit=%v)", c, g, per, nearLimit)
				}
				seen[c] = true
			}
		}
		if !nearLimit && !oversize && total != g*per {
			t.Fatalf("%d of %d Sends failed on a healthy session", g*per-total, g*per)
		}
		// every ciphertext decrypts to its own plaintext at the peer (any order)
		for i := range out {
			for _, r := range out[i] {
				isApp, ptOut, err := b.s.Deliver(nil, r.ct, tBase)
				if err != nil || !isApp || !bytes.Equal(ptOut, r.pt) {
					// far-out-of-window counters may be refused by the replay filter; a wrong plaintext never
					if isApp && !bytes.Equal(ptOut, r.pt) {
						t.Fatalf("ciphertext under counter %d decrypted to another plaintext", counterOf(r.ct))
					}
				}
			}
		}
		ev.Eval(sub)
		key := fmt.Sprintf("g=%d per=%d near=%v", g, per, nearLimit)
		if nearLimit {
			ev.Class(sub, "near-limit")
		}
		if ev.NonTrivial(sub, key) {
			ev.Sample(sub, key)
		}
	})
}
