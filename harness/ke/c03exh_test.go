package ke

import (
	"fmt"
	"os"
	"strconv"
	"strings"
	"sync"
	"sync/atomic"
	"testing"

	"verif/harness/internal/ev"
)

// c03act is one letter of the adversary's alphabet in the exhaustive enumeration.
type c03act struct {
	name string
	run  func(w *c03world) (skip bool, problem string)
}

// c03Alphabet lists every action with every parameter value, in a fixed order. Index parameters beyond what the
// current state offers make the action report skip; such branches are cut.
func c03Alphabet() []c03act {
	var as []c03act
	for i := 0; i < 4; i++ {
		i := i
		as = append(as, c03act{fmt.Sprintf("relay[%d]", i), func(w *c03world) (bool, string) { return w.actRelay(i) }})
	}
	for i := 0; i < 4; i++ {
		i := i
		as = append(as, c03act{fmt.Sprintf("genuine[%d]", i), func(w *c03world) (bool, string) { return w.actGenuine(i) }})
	}
	as = append(as, c03act{"vpSend", func(w *c03world) (bool, string) {
		if len(w.vpSent) >= 1 {
			return true, ""
		}
		return w.actVpSend()
	}})
	for i := range hv.otherMsgs {
		i := i
		as = append(as, c03act{fmt.Sprintf("cross[%d]", i), func(w *c03world) (bool, string) { return w.actCross(i) }})
	}
	for _, claimed := range []string{"M", "V"} {
		for _, src := range sigSources {
			claimed, src := claimed, src
			as = append(as, c03act{"forgeHello(" + claimed + "," + src + ")", func(w *c03world) (bool, string) { return w.actForgeHello(claimed, src) }})
		}
	}
	as = append(as, c03act{"twinHello", func(w *c03world) (bool, string) { return w.actTwinHello(7) }})
	for _, src := range sigSources {
		src := src
		as = append(as, c03act{"forgeDone(" + src + ")", func(w *c03world) (bool, string) {
			if w.hInit && src != "freshM" {
				return true, "" // a RespDone carries no signature: one variant only
			}
			return w.actForgeDone(src)
		}})
	}
	as = append(as, c03act{"forgeData", func(w *c03world) (bool, string) { return w.actForgeData() }})
	as = append(as, c03act{"hSend", func(w *c03world) (bool, string) { return w.actHSend() }})
	return as
}

// runC03Seq executes seq on a fresh world. skipped reports that the last action was not enabled.
func runC03Seq(hInit bool, alpha []c03act, seq []int) (w *c03world, skipped bool, problem string) {
	w = newC03World(hInit)
	defer func() {
		if r := recover(); r != nil {
			problem = fmt.Sprintf("panic: %v", r)
		}
	}()
	for k, idx := range seq {
		skip, p := alpha[idx].run(w)
		if skip {
			if k != len(seq)-1 {
				return w, true, "harness: a prefix that was enabled before is not enabled now (" + alpha[idx].name + ")"
			}
			return w, true, ""
		}
		if p != "" {
			return w, false, p
		}
	}
	return w, false, ""
}

// TestC03Exhaustive enumerates every sequence of adversary actions up to a bound, for both roles of the honest session.
func TestC03Exhaustive(t *testing.T) {
	const sub = "C03.forgery_exhaustive"
	harvestOnce.Do(doHarvest)
	depth := 3
	if ev.Thorough() {
		depth = 4
	}
	if d, err := strconv.Atoi(os.Getenv("VERIF_C03_DEPTH")); err == nil && d > 0 {
		depth = d
	}
	alpha := c03Alphabet()
	ev.Rule(sub, fmt.Sprintf("exhaustive enumeration of every sequence of up to %d enabled adversary actions, for the honest session H as initiator and as responder, over an alphabet of %d parameterised actions (the actions of C03.forgery with every parameter value: relay any of H's messages to the victim's genuine session, deliver any genuine message to H, one genuine data message, every harvested cross-handshake message, forged hello with claimed key in {M,V} x 6 signature sources, the twin hello with the victim's carried-over RespHello signature, forged InitDone with 6 signature sources / forged RespDone, forged data, H.Send), same oracle after every delivery (usable => the reported key signed this transcript; error => state unchanged; no panic). Sessions are timer-free, so the enumeration is deterministic up to fresh ephemerals. non-trivial = sequence in which H processed a forged or spliced message that parsed, or a cross-fed message; every sequence is distinct", depth, len(alpha)))

	var replay struct {
		HInit bool  `json:"h_is_initiator"`
		Seq   []int `json:"seq"`
	}
	if ev.ReplayCase(sub, &replay) {
		w, _, p := runC03Seq(replay.HInit, alpha, replay.Seq)
		if p != "" {
			t.Fatalf("%s\nH role initiator=%v\ntrace: %s", p, replay.HInit, strings.Join(w.trace, " ; "))
		}
		return
	}

	var total, nontriv, ready int64
	var mu sync.Mutex
	var firstProblem string
	var firstSeq []int
	var firstInit bool
	var firstTrace []string
	kinds := map[string]bool{}
	stopped := func() bool {
		mu.Lock()
		defer mu.Unlock()
		return firstProblem != ""
	}
	// visit returns false when the branch is cut (last action not enabled, or a problem was found)
	visit := func(hInit bool, seq []int) bool {
		w, skipped, p := runC03Seq(hInit, alpha, seq)
		if skipped && p == "" {
			return false
		}
		atomic.AddInt64(&total, 1)
		if w.forgedParsed > 0 || w.kinds["cross-feed"] {
			atomic.AddInt64(&nontriv, 1)
		}
		if w.h.IsReady() {
			atomic.AddInt64(&ready, 1)
		}
		if p != "" {
			mu.Lock()
			if firstProblem == "" || len(seq) < len(firstSeq) {
				firstProblem, firstSeq, firstInit, firstTrace = p, append([]int{}, seq...), hInit, append([]string{}, w.trace...)
			}
			mu.Unlock()
			return false
		}
		if len(seq) == depth {
			mu.Lock()
			for k := range w.kinds {
				kinds[k] = true
			}
			mu.Unlock()
			if w.forgedParsed > 0 && ev.WantSample(sub) {
				ev.Sample(sub, fmt.Sprintf("init=%v %s", hInit, strings.Join(w.trace, " ; ")))
			}
		}
		return true
	}
	var rec func(hInit bool, seq []int)
	rec = func(hInit bool, seq []int) {
		if stopped() || !visit(hInit, seq) || len(seq) >= depth {
			return
		}
		for i := range alpha {
			rec(hInit, append(append([]int{}, seq...), i))
		}
	}
	sem := make(chan struct{}, 16)
	var wg sync.WaitGroup
	for _, hInit := range []bool{true, false} {
		for i := range alpha {
			for j := range alpha {
				hInit, i, j := hInit, i, j
				if depth < 2 {
					continue
				}
				wg.Add(1)
				go func() {
					defer wg.Done()
					sem <- struct{}{}
					defer func() { <-sem }()
					if j == 0 {
						// the one-action prefix is visited once
						if stopped() || !visit(hInit, []int{i}) {
							return
						}
					} else {
						// cut the pair if its first action is not enabled in the initial state
						if _, skipped, _ := runC03Seq(hInit, alpha, []int{i}); skipped {
							return
						}
					}
					rec(hInit, []int{i, j})
				}()
			}
		}
	}
	wg.Wait()
	ev.EvalN(sub, total)
	ev.Extra(sub, "distinct_nontrivial_counted", nontriv)
	ev.Extra(sub, "depth", depth)
	ev.Extra(sub, "alphabet", len(alpha))
	ev.ClassN(sub, "sequences after which H reports ready", ready)
	for k := range kinds {
		ev.Class(sub, k)
	}
	if firstProblem != "" {
		p := ev.SaveReplay(sub, map[string]any{"h_is_initiator": firstInit, "seq": firstSeq, "trace": firstTrace, "problem": firstProblem})
		t.Fatalf("%s\nH role initiator=%v\ntrace: %s\nreplay: %s", firstProblem, firstInit, strings.Join(firstTrace, " ; "), p)
	}
	ev.Exhaustive(sub, fmt.Sprintf("all %d enabled action sequences up to depth %d, both roles", total, depth))
}
