package ke

import (
	"fmt"
	"os"
	"strconv"
	"strings"
	"sync"
	"sync/atomic"
	"testing"
	"time"

	"go.brendoncarroll.net/p2p/f/x509"
	"go.brendoncarroll.net/p2p/p/p2pke"
	"pgregory.net/rapid"

	"verif/harness/internal/ev"
)

// world is one honest session pair plus the pool of every distinct message
// either side has produced. Side 0 is the initiator, side 1 the responder.
type world struct {
	s         [2]*p2pke.Session
	pool      [][]byte
	poolFrom  []int
	inPool    map[string]bool
	sent      [2]map[string]bool // plaintexts given to Send by each side
	got       [2]map[string]bool // plaintexts delivered to each side
	sends     [2]int
	ready     [2]bool
	trace     []string
	faults    int // drops/dups/reorders/reflections observed (for non-triviality)
	delivered map[string]int
	salted    bool // the pair authenticates with a randomised signature scheme from a custom registry
	// elapsed is the simulated time since both sessions were created (random schedules let it pass in jumps; it
	// stays below every configuration's RejectAfterTime, so neither session has expired)
	elapsed time.Duration
}

func (w *world) now() time.Time { return tBase.Add(w.elapsed) }

// ownedHandshake is Handshake(nil) as a transmit path that owns and recycles its packet buffers uses it: the
// bytes returned belong to the caller, who scribbles over them once they are "sent".
func ownedHandshake(s interface{ Handshake([]byte) []byte }) []byte {
	m := s.Handshake(nil)
	cp := append([]byte{}, m...)
	for i := range m {
		m[i] = 0xCC
	}
	return cp
}

// newSaltedWorld is newWorld with keys of the salted scheme.
func newSaltedWorld() *world {
	w := newWorld()
	w.salted = true
	w.s[0] = newSaltedSession(0, true, tBase)
	w.s[1] = newSaltedSession(1, false, tBase)
	return w
}

func newWorld() *world {
	w := &world{inPool: map[string]bool{}, delivered: map[string]int{}}
	w.s[0] = newSession(0, true, tBase)
	w.s[1] = newSession(1, false, tBase)
	for i := range w.sent {
		w.sent[i] = map[string]bool{}
		w.got[i] = map[string]bool{}
	}
	return w
}

func (w *world) addPool(m []byte, from int) bool {
	if len(m) == 0 || w.inPool[string(m)] {
		return false
	}
	w.inPool[string(m)] = true
	w.pool = append(w.pool, append([]byte{}, m...))
	w.poolFrom = append(w.poolFrom, from)
	return true
}

type action struct {
	kind string // hs, deliver, send
	side int
	msg  int
}

func (a action) str(w *world) string {
	side := "AB"[a.side : a.side+1]
	switch a.kind {
	case "hs":
		return "handshake(" + side + ")"
	case "send":
		return "send(" + side + ")"
	case "tick":
		return fmt.Sprintf("time+%ds", a.msg)
	}
	return fmt.Sprintf("deliver(%s<-%s:%s)", side, "AB"[w.poolFrom[a.msg]:w.poolFrom[a.msg]+1], msgName(w.pool[a.msg]))
}

const maxSendsPerSide = 2

// enabled lists the actions possible in the current state, in a fixed order.
func (w *world) enabled() []action {
	var as []action
	for side := 0; side < 2; side++ {
		if m := w.s[side].Handshake(nil); len(m) > 0 && !w.inPool[string(m)] {
			as = append(as, action{kind: "hs", side: side})
		}
	}
	for i := range w.pool {
		for side := 0; side < 2; side++ {
			as = append(as, action{kind: "deliver", side: side, msg: i})
		}
	}
	for side := 0; side < 2; side++ {
		if w.s[side].IsReady() && w.sends[side] < maxSendsPerSide {
			as = append(as, action{kind: "send", side: side})
		}
	}
	return as
}

// invariants that hold after every action.
func (w *world) stepInvariants() string {
	for side := 0; side < 2; side++ {
		r := w.s[side].IsReady()
		if w.ready[side] && !r {
			return fmt.Sprintf("side %c regressed from ready to not ready", "AB"[side])
		}
		w.ready[side] = r
		h1 := w.s[side].Handshake(nil)
		h2 := w.s[side].Handshake(nil)
		if !eq(h1, h2) {
			return fmt.Sprintf("Handshake() of side %c is not idempotent: %s then %s", "AB"[side], msgName(h1), msgName(h2))
		}
		if app := w.s[side].Handshake([]byte("xy")); len(h1) > 0 && !eq(app, append([]byte("xy"), h1...)) {
			return "Handshake(out) does not append to out"
		}
	}
	return ""
}

func (w *world) apply(a action) (problem string) {
	defer func() {
		if r := recover(); r != nil {
			problem = fmt.Sprintf("%s panicked: %v", a.str(w), r)
		}
	}()
	w.trace = append(w.trace, a.str(w))
	switch a.kind {
	case "hs":
		w.addPool(ownedHandshake(w.s[a.side]), a.side)
	case "tick":
		w.elapsed += time.Duration(a.msg) * time.Second
	case "send":
		w.sends[a.side]++
		pt := []byte(fmt.Sprintf("pt-%c-%d-0123456789abcdef", "AB"[a.side], w.sends[a.side]))
		ct, err := w.s[a.side].Send(nil, pt, w.now())
		if err != nil {
			return fmt.Sprintf("%s failed although the session reports ready: %v", a.str(w), err)
		}
		w.sent[a.side][string(pt)] = true
		if c := counterOf(ct); c < 16 {
			return fmt.Sprintf("%s produced a data message with handshake-range counter %d", a.str(w), c)
		}
		w.addPool(ct, a.side)
	case "deliver":
		m := w.pool[a.msg]
		from := w.poolFrom[a.msg]
		if from == a.side {
			w.faults++ // reflection
		}
		w.delivered[string(m)]++
		if w.delivered[string(m)] > 1 {
			w.faults++ // duplicate
		}
		if a.msg != len(w.pool)-1 {
			w.faults++ // not the newest message: delayed / reordered
		}
		isApp, out, err := deliverRecycled(w.s[a.side], m, w.now())
		if err != nil {
			return "" // errors are allowed, they just must not be permanent (checked by the suffix)
		}
		if isApp {
			if !w.sent[1-a.side][string(out)] {
				return fmt.Sprintf("%s handed %q to the application, which the peer never sent", a.str(w), out)
			}
			if w.got[a.side][string(out)] {
				return fmt.Sprintf("%s delivered %q a second time", a.str(w), out)
			}
			w.got[a.side][string(out)] = true
		} else {
			w.addPool(out, a.side)
		}
	}
	return w.stepInvariants()
}

// fairSuffix delivers each side's current handshake message and the chain of
// replies it provokes, up to 3 rounds, then requires completion and data flow.
func (w *world) fairSuffix() (problem string) {
	defer func() {
		if r := recover(); r != nil {
			problem = fmt.Sprintf("fair suffix panicked: %v", r)
		}
	}()
	for round := 0; round < 3; round++ {
		for side := 0; side < 2; side++ {
			m := ownedHandshake(w.s[side])
			to := 1 - side
			for hops := 0; len(m) > 0 && hops < 8; hops++ {
				_, out, err := deliverRecycled(w.s[to], m, w.now())
				if err != nil {
					// m is the current handshake message of the genuine peer (or the reply it provoked):
					// retries must always be accepted or ignored, never refused
					return fmt.Sprintf("in the fair suffix side %c refused its peer's current handshake message %s: %v", "AB"[to], msgName(m), err)
				}
				m, to = out, 1-to
			}
			if p := w.stepInvariants(); p != "" {
				return "in fair suffix: " + p
			}
		}
	}
	for side := 0; side < 2; side++ {
		if !w.s[side].IsReady() {
			return fmt.Sprintf("after the fair suffix side %c is still not ready", "AB"[side])
		}
	}
	ka, kb := w.s[0].RemoteKey(), w.s[1].RemoteKey()
	pa, pb := testPub(1), testPub(0)
	if w.salted {
		pa, pb = saltedPub[1], saltedPub[0]
	}
	if !x509.EqualPublicKeys(&ka, &pa) || !x509.EqualPublicKeys(&kb, &pb) {
		return fmt.Sprintf("remote keys after completion: A sees %s, B sees %s", keyName(ka), keyName(kb))
	}
	for side := 0; side < 2; side++ {
		pt := []byte(fmt.Sprintf("final-%c-0123456789abcdef", "AB"[side]))
		ct, err := w.s[side].Send(nil, pt, w.now())
		if err != nil {
			return fmt.Sprintf("after completion Send on side %c fails: %v", "AB"[side], err)
		}
		if c := counterOf(ct); c < 16 {
			return fmt.Sprintf("after completion side %c sends data under handshake-range counter %d", "AB"[side], c)
		}
		isApp, out, err := deliverRecycled(w.s[1-side], ct, w.now())
		if err != nil || !isApp || !eq(out, pt) {
			return fmt.Sprintf("after completion data from %c is not delivered: isApp=%v out=%q err=%v (counter %d)", "AB"[side], isApp, out, err, counterOf(ct))
		}
	}
	return ""
}

// runSeq replays a sequence of action indices on a fresh world and then runs
// the fair suffix. It returns the number of actions enabled after the sequence.
func runSeq(seq []int) (n int, w *world, problem string) {
	w = newWorld()
	for _, idx := range seq {
		as := w.enabled()
		if idx >= len(as) {
			return 0, w, "harness: action index out of range"
		}
		if p := w.apply(as[idx]); p != "" {
			return 0, w, p
		}
	}
	n = len(w.enabled())
	return n, w, w.fairSuffix()
}

func TestC06Exhaustive(t *testing.T) {
	const sub = "C06.schedules_exhaustive"
	depth := 7
	if ev.Thorough() {
		depth = 9
	}
	if d, err := strconv.Atoi(os.Getenv("VERIF_C06_DEPTH")); err == nil && d > 0 {
		depth = d
	}
	ev.Rule(sub, fmt.Sprintf("exhaustive depth-first enumeration of every sequence of enabled actions up to depth %d over one honest session pair: handshake(side) (retransmit, adds the current handshake message to the pool), deliver(any pool message -> either side) (covers in-order delivery, duplication, reordering/delay and reflection; a message never delivered is a drop), send(side) when ready (max %d per side). After every action: no panic, readiness never regresses, Handshake() idempotent, data counters >= 16, delivered plaintexts were sent by the peer at most once. After every sequence a fair suffix (<=3 rounds of delivering each side's current handshake message and the replies it provokes) must make both sides ready with each other's keys and one tagged message must flow each way. non-trivial = sequence containing a duplicate, reflected or out-of-order delivery; every sequence is distinct", depth, maxSendsPerSide))
	var total, nontriv int64
	var mu sync.Mutex
	var firstProblem string
	var firstSeq []int
	var firstTrace []string
	sem := make(chan struct{}, 16)
	var wg sync.WaitGroup
	var rec func(seq []int, parallelDepth int)
	visit := func(seq []int) int {
		n, w, p := runSeq(seq)
		atomic.AddInt64(&total, 1)
		if w.faults > 0 {
			atomic.AddInt64(&nontriv, 1)
		}
		if p != "" {
			mu.Lock()
			if firstProblem == "" || len(seq) < len(firstSeq) {
				firstProblem, firstSeq, firstTrace = p, append([]int{}, seq...), append([]string{}, w.trace...)
			}
			mu.Unlock()
			return 0
		}
		if len(seq) == depth-1 && w.faults > 0 && ev.WantSample(sub) {
			ev.Sample(sub, strings.Join(w.trace, " ; "))
		}
		return n
	}
	rec = func(seq []int, parallelDepth int) {
		mu.Lock()
		stop := firstProblem != ""
		mu.Unlock()
		if stop {
			return
		}
		n := visit(seq)
		if len(seq) >= depth {
			return
		}
		for i := 0; i < n; i++ {
			child := append(append([]int{}, seq...), i)
			if parallelDepth > 0 {
				wg.Add(1)
				go func() {
					defer wg.Done()
					sem <- struct{}{}
					rec(child, parallelDepth-1)
					<-sem
				}()
			} else {
				rec(child, 0)
			}
		}
	}
	// replay mode
	var replay struct {
		Seq []int `json:"seq"`
	}
	if ev.ReplayCase(sub, &replay) {
		_, w, p := runSeq(replay.Seq)
		if p != "" {
			t.Fatalf("%s\nschedule: %s", p, strings.Join(w.trace, " ; "))
		}
		return
	}
	// fan out: the first 3 levels spawn goroutines (bounded by sem inside the leaves)
	func() {
		n := visit(nil)
		for i := 0; i < n; i++ {
			child := []int{i}
			wg.Add(1)
			go func() {
				defer wg.Done()
				rec(child, 2)
			}()
		}
	}()
	wg.Wait()
	ev.EvalN(sub, total)
	ev.Extra(sub, "distinct_nontrivial_counted", nontriv)
	ev.Extra(sub, "depth", depth)
	if firstProblem != "" {
		p := ev.SaveReplay(sub, map[string]any{"seq": firstSeq, "trace": firstTrace, "problem": firstProblem})
		t.Fatalf("%s\nschedule: %s\nreplay: %s", firstProblem, strings.Join(firstTrace, " ; "), p)
	}
	ev.Exhaustive(sub, fmt.Sprintf("all %d schedules up to depth %d", total, depth))
}

func TestC06Random(t *testing.T) {
	const sub = "C06.schedules_random"
	ev.Rule(sub, "rapid: random schedules of up to 60 enabled actions (same action set and oracles as schedules_exhaustive; in one case of four the pair authenticates with a randomised signature scheme - salted Ed25519 - from a custom registry, so that a rebuilt handshake message differs from the remembered one), simulated time passing in jumps of 1-150 s up to 170 s in total (below RejectAfterTime), handshake bytes returned by Handshake(nil) scribbled over by the caller once copied, each followed by the fair suffix; non-trivial = schedule containing a duplicate, reflected or out-of-order delivery before completion; distinct by action sequence")
	rapid.Check(t, func(t *rapid.T) {
		w := newWorld()
		if rapid.IntRange(0, 3).Draw(t, "signatureScheme") == 0 {
			w = newSaltedWorld()
			ev.Class(sub, "randomised-signature-scheme")
		}
		n := rapid.IntRange(0, 60).Draw(t, "len")
		for i := 0; i < n; i++ {
			as := w.enabled()
			if len(as) == 0 {
				break
			}
			// time passes in jumps (an outage, a delayed packet); the total stays below 170 s, inside the shortest
			// RejectAfterTime anybody configures (the default is 180 s), so every retransmission is still current
			if rapid.IntRange(0, 7).Draw(t, "timePasses") == 0 {
				d := rapid.SampledFrom([]int{1, 30, 90, 119, 121, 150}).Draw(t, "seconds")
				if w.elapsed+time.Duration(d)*time.Second <= 170*time.Second {
					if p := w.apply(action{kind: "tick", msg: d}); p != "" {
						t.Fatalf("%s\nschedule: %s", p, strings.Join(w.trace, " ; "))
					}
					ev.Class(sub, "time-jump")
				}
			}
			// bias towards the newest pool messages so that the handshake advances
			var idx int
			if rapid.Bool().Draw(t, "newest") && len(as) > 4 {
				idx = rapid.IntRange(len(as)-6, len(as)-1).Draw(t, "actHi")
				if idx < 0 {
					idx = 0
				}
			} else {
				idx = rapid.IntRange(0, len(as)-1).Draw(t, "act")
			}
			if p := w.apply(as[idx]); p != "" {
				t.Fatalf("%s\nschedule: %s", p, strings.Join(w.trace, " ; "))
			}
		}
		ev.Eval(sub)
		bothReadyBefore := w.s[0].IsReady() && w.s[1].IsReady()
		if bothReadyBefore {
			ev.Class(sub, "completed-before-suffix")
		}
		if w.faults > 0 {
			key := strings.Join(w.trace, ";")
			if ev.NonTrivial(sub, key) {
				ev.Sample(sub, key)
			}
		}
		if p := w.fairSuffix(); p != "" {
			t.Fatalf("%s\nschedule: %s", p, strings.Join(w.trace, " ; "))
		}
	})
}
