package ke

import (
	"fmt"
	"testing"

	"pgregory.net/rapid"

	"verif/harness/internal/ev"
)

// TestC02ReplayWindow: "at most once" over long streams. A sender emits several thousand data messages through one
// session; the receiver gets them with generated gaps and stragglers; then every ciphertext emitted so far is offered
// again, oldest first or newest first, around every distance from the newest accepted counter (in particular across
// the whole width of the receiver's replay window and beyond it).
func TestC02ReplayWindow(t *testing.T) {
	const sub = "C02.replay_window_edges"
	ev.Rule(sub, "rapid: an established session pair (initiator or responder as the receiver); the sender emits N in 100..12000 data messages (short distinct plaintexts); the receiver is handed them in order except for generated gaps (skipped runs of 1-200 messages, some handed over later as stragglers); N is drawn so that the newest counter falls on every residue modulo 64; then every ciphertext emitted so far is handed over again (ascending or descending, or only those within 9000 of the newest). Oracle (model: set of accepted plaintexts): every plaintext handed to the application was sent, and none is handed over twice, whatever its distance from the newest counter. non-trivial = more than 8100 messages between the oldest replayed and the newest accepted counter; distinct by (N mod 64, N bucket, gaps, order)")
	rapid.Check(t, func(t *rapid.T) {
		respReceives := rapid.Bool().Draw(t, "responderReceives")
		a, b, _, problem := establish("w", 0, 1, false)
		if problem != "" {
			t.Fatalf("%s", ev.Tag("harness: "+problem))
		}
		snd, rcv := a, b
		if !respReceives {
			snd, rcv = b, a
		}
		n := rapid.SampledFrom([]int{100, 1000, 8100, 8200, 8300, 9000, 12000}).Draw(t, "N") + rapid.IntRange(0, 63).Draw(t, "residue")
		type gap struct{ at, length int }
		var gaps []gap
		for i := 0; i < rapid.IntRange(0, 4).Draw(t, "gaps"); i++ {
			gaps = append(gaps, gap{rapid.IntRange(0, n-1).Draw(t, "gapAt"), rapid.IntRange(1, 200).Draw(t, "gapLen")})
		}
		stragglers := rapid.Bool().Draw(t, "stragglersDeliveredLater")
		order := rapid.SampledFrom([]string{"ascending", "descending", "window-descending"}).Draw(t, "replayOrder")
		skipped := func(i int) bool {
			for _, g := range gaps {
				if i >= g.at && i < g.at+g.length {
					return true
				}
			}
			return false
		}
		cts := make([][]byte, n)
		pts := make([]string, n)
		accepted := map[string]int{}
		sent := map[string]bool{}
		deliver := func(i int, phase string) {
			isApp, out, err := deliverRecycled(rcv.s, cts[i], tBase)
			if err != nil || !isApp {
				return
			}
			if !sent[string(out)] {
				t.Fatalf("%s: the receiver handed over %q which was never sent", phase, out)
			}
			accepted[string(out)]++
			if accepted[string(out)] > 1 {
				t.Fatalf("%s: plaintext %q (message %d of %d, counter %d) was handed to the application a second time; newest counter %d, distance %d", phase, out, i, n, counterOf(cts[i]), counterOf(cts[n-1]), n-1-i)
			}
		}
		for i := 0; i < n; i++ {
			pts[i] = fmt.Sprintf("m-%06d", i)
			ct, err := snd.s.Send(nil, []byte(pts[i]), tBase)
			if err != nil {
				t.Fatalf("%s", ev.Tag(fmt.Sprintf("harness: Send %d failed: %v", i, err)))
			}
			cts[i] = ct
			sent[pts[i]] = true
			if !skipped(i) || i == n-1 {
				deliver(i, "first pass")
			}
		}
		if stragglers {
			for i := 0; i < n; i++ {
				if skipped(i) && i != n-1 {
					deliver(i, "stragglers")
				}
			}
		}
		switch order {
		case "ascending":
			for i := 0; i < n; i++ {
				deliver(i, "replay")
			}
		case "descending":
			for i := n - 1; i >= 0; i-- {
				deliver(i, "replay")
			}
		default:
			for i := n - 1; i >= max(0, n-9000); i-- {
				deliver(i, "replay")
			}
		}
		ev.Eval(sub)
		if n > 8100 {
			ev.Class(sub, "stream-longer-than-the-window")
			key := fmt.Sprintf("res=%d n=%d gaps=%d stragglers=%v %s resp=%v", n%64, n/1000, len(gaps), stragglers, order, respReceives)
			if ev.NonTrivial(sub, key) {
				ev.Sample(sub, key)
			}
		}
	})
}
