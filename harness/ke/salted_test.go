package ke

import (
	"crypto/ed25519"
	"crypto/rand"
	"time"

	expsign "go.brendoncarroll.net/exp/crypto/sign"
	"go.brendoncarroll.net/exp/crypto/sign/sig_ed25519"
	"go.brendoncarroll.net/p2p/f/x509"
	"go.brendoncarroll.net/p2p/f/x509/oids"
	"go.brendoncarroll.net/p2p/p/p2pke"
)

// saltedScheme is Ed25519 with a random salt in every signature (sig = salt || Ed25519(salt || msg)): like RSA-PSS or
// ECDSA, signing the same message twice gives two different valid signatures. Signature schemes are pluggable
// through x509.Registry; a handshake message that is rebuilt instead of remembered is not byte-stable under it.
type saltedScheme struct{ sig_ed25519.Scheme }

const saltSize = 16

func (s saltedScheme) SignatureSize() int { return saltSize + ed25519.SignatureSize }

func (s saltedScheme) Sign(dst []byte, priv *sig_ed25519.PrivateKey, msg []byte) {
	salt := dst[:saltSize]
	if _, err := rand.Read(salt); err != nil {
		panic(err)
	}
	input := append(append([]byte{}, salt...), msg...)
	copy(dst[saltSize:], ed25519.Sign(priv[:], input))
}

func (s saltedScheme) Verify(pub *sig_ed25519.PublicKey, msg, sig []byte) bool {
	if len(sig) != s.SignatureSize() {
		return false
	}
	input := append(append([]byte{}, sig[:saltSize]...), msg...)
	return ed25519.Verify(pub[:], input, sig[saltSize:])
}

func (s saltedScheme) Sign512(dst []byte, priv *sig_ed25519.PrivateKey, input *expsign.Input512) {
	s.Sign(dst, priv, input[:])
}

func (s saltedScheme) Verify512(pub *sig_ed25519.PublicKey, input *expsign.Input512, sig []byte) bool {
	return s.Verify(pub, input[:], sig)
}

var (
	saltedAlgo = oids.New(1, 3, 6, 1, 4, 1, 55555, 7)
	saltedReg  = x509.Registry{saltedAlgo: x509.NewCodec[sig_ed25519.PrivateKey, sig_ed25519.PublicKey](saltedScheme{})}
	saltedPriv = map[int]x509.PrivateKey{}
	saltedPub  = map[int]x509.PublicKey{}
)

func init() {
	for i := 0; i < 2; i++ {
		var priv sig_ed25519.PrivateKey
		copy(priv[:], stdKey(i+50))
		pk, err := saltedReg.StoreSigner(saltedAlgo, x509.NewSigner[sig_ed25519.PrivateKey, sig_ed25519.PublicKey](saltedScheme{}, &priv))
		if err != nil {
			panic(err)
		}
		pub, err := saltedReg.PublicFromPrivate(&pk)
		if err != nil {
			panic(err)
		}
		saltedPriv[i], saltedPub[i] = pk, pub
	}
}

func newSaltedSession(key int, isInit bool, now time.Time) *p2pke.Session {
	return p2pke.NewSession(p2pke.SessionConfig{
		Registry:    saltedReg,
		PrivateKey:  saltedPriv[key],
		IsInit:      isInit,
		Now:         now,
		RejectAfter: time.Hour,
		Logger:      nopLog,
	})
}
