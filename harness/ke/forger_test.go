package ke

import (
	"encoding/binary"
	"io"

	"github.com/flynn/noise"
	"go.brendoncarroll.net/p2p/f/x509"
	"go.brendoncarroll.net/p2p/p/p2pke"
	"go.brendoncarroll.net/tai64"
	"golang.org/x/crypto/blake2b"
	"google.golang.org/protobuf/proto"
)

// The forger builds P2PKE messages from first principles (flynn/noise NN with
// 25519/ChaChaPoly/BLAKE2b, the exported protobuf message types, the documented
// purpose-tagged pre-hash). It only ever signs with its own private key.

var forgerSuite = noise.NewCipherSuite(noise.DH25519, noise.CipherChaChaPoly, noise.HashBLAKE2b)

const (
	purposeCB = "p2pke/channel-binding"
	purposeTS = "p2pke/timestamp"
)

func header(counter uint32) []byte {
	h := make([]byte, 4)
	binary.BigEndian.PutUint32(h, counter)
	return h
}

func preSig(purpose string, msg []byte) []byte {
	h, err := blake2b.NewXOF(64, nil)
	if err != nil {
		panic(err)
	}
	h.Write([]byte{uint8(len(purpose))})
	h.Write([]byte(purpose))
	h.Write(msg)
	out := make([]byte, 64)
	if _, err := io.ReadFull(h, out); err != nil {
		panic(err)
	}
	return out
}

// signAs signs with the private key of test identity i (the forger only calls
// this with its own identity).
func signAs(i int, purpose string, msg []byte) []byte {
	priv := testKey(i)
	signer, err := reg.LoadSigner(&priv)
	if err != nil {
		panic(err)
	}
	sig, err := signer.Sign(nil, preSig(purpose, msg))
	if err != nil {
		panic(err)
	}
	return sig
}

func marshalKey(i int) []byte {
	pub := testPub(i)
	return x509.MarshalPublicKey(nil, &pub)
}

func pb(m proto.Message) []byte {
	b, err := proto.Marshal(m)
	if err != nil {
		panic(err)
	}
	return b
}

// forgedPeer is the attacker's side of one handshake with the honest session.
type forgedPeer struct {
	isInit  bool
	hs      *noise.HandshakeState
	out, in noise.Cipher
	counter uint32
}

func newForgedPeer(isInit bool) *forgedPeer {
	hs, err := noise.NewHandshakeState(noise.Config{Initiator: isInit, Pattern: noise.HandshakeNN, CipherSuite: forgerSuite})
	if err != nil {
		panic(err)
	}
	return &forgedPeer{isInit: isInit, hs: hs, counter: 16}
}

// initHello builds an InitHello carrying the given claim.
func (f *forgedPeer) initHello(ts []byte, keyX509, sig []byte) []byte {
	body := pb(&p2pke.InitHello{Version: 1, TimestampTai64N: ts, KeyX509: keyX509, Sig: sig})
	body = append(body, byte(len(body)>>8), byte(len(body)))
	msg, _, _, err := f.hs.WriteMessage(header(0), body)
	if err != nil {
		panic(err)
	}
	return msg
}

// readInitHello consumes the honest initiator's InitHello (as responder) and
// returns the channel binding a RespHello signature must cover.
func (f *forgedPeer) readInitHello(msg []byte) (cb []byte, ok bool) {
	if _, _, _, err := f.hs.ReadMessage(nil, msg[4:]); err != nil {
		return nil, false
	}
	return append([]byte{}, f.hs.ChannelBinding()...), true
}

// respHello builds the RespHello and derives the transport ciphers.
func (f *forgedPeer) respHello(keyX509, sig []byte) []byte {
	msg, cs1, cs2, err := f.hs.WriteMessage(header(1), pb(&p2pke.RespHello{KeyX509: keyX509, Sig: sig}))
	if err != nil {
		panic(err)
	}
	// responder: out = cs2, in = cs1
	f.out, f.in = cs2.Cipher(), cs1.Cipher()
	return msg
}

// readRespHello consumes the honest responder's RespHello (as initiator) and
// returns the channel binding an InitDone signature must cover.
func (f *forgedPeer) readRespHello(msg []byte) (cb []byte, ok bool) {
	_, cs1, cs2, err := f.hs.ReadMessage(nil, msg[4:])
	if err != nil || cs1 == nil {
		return nil, false
	}
	f.out, f.in = cs1.Cipher(), cs2.Cipher()
	return append([]byte{}, f.hs.ChannelBinding()...), true
}

func (f *forgedPeer) initDone(sig []byte) []byte {
	h := header(2)
	return f.out.Encrypt(h, 2, h, pb(&p2pke.InitDone{Sig: sig}))
}

func (f *forgedPeer) respDone() []byte {
	h := header(3)
	return f.out.Encrypt(h, 3, h, nil)
}

func (f *forgedPeer) data(pt []byte) []byte {
	c := f.counter
	f.counter++
	h := header(c)
	return f.out.Encrypt(h, uint64(c), h, pt)
}

func (f *forgedPeer) hasCiphers() bool { return f.out != nil }

func tsBytes(sec int64) []byte {
	ts := tai64.FromGoTime(tBase.Add(0)).Marshal()
	_ = sec
	return ts[:]
}
