package ke

import (
	"bytes"
	"fmt"
	"strings"
	"sync"
	"testing"

	"go.brendoncarroll.net/p2p/f/x509"
	"go.brendoncarroll.net/p2p/p/p2pke"
	"google.golang.org/protobuf/proto"
	"pgregory.net/rapid"

	"verif/harness/internal/adv/kefake"
	"verif/harness/internal/ev"
)

// identities: 0 = honest party H under test, 1 = victim V, 2 = attacker M, 3 = unrelated X
const (
	idH = 0
	idV = 1
	idM = 2
	idX = 3
)

// harvest is signed material of the victim taken from handshakes other than
// the one under attack. The attacker saw these on the wire or took part in them.
type harvest struct {
	vInitHelloTS  []byte // timestamp of a genuine InitHello of V
	vInitHelloSig []byte // V's signature over that timestamp (purpose timestamp)
	vInitHelloMsg []byte // the whole genuine InitHello (V's ephemeral)
	vRespHelloSig []byte // V's signature over the channel binding of a V<->M handshake (V responder)
	vInitDoneSig  []byte // V's signature over the channel binding of a V<->M handshake (V initiator)
	otherMsgs     [][]byte
}

var (
	harvestOnce sync.Once
	hv          harvest
)

func doHarvest() {
	// V as initiator: InitHello claim
	vi := newSession(idV, true, tBase)
	ih := vi.Handshake(nil)
	hello, err := p2pke.Message(ih).GetInitHello()
	if err != nil {
		panic(err)
	}
	hv.vInitHelloMsg = ih
	hv.vInitHelloTS = hello.TimestampTai64N
	hv.vInitHelloSig = hello.Sig
	// V initiator against the attacker acting as itself: harvest V's InitDone signature
	fr := newForgedPeer(false)
	cb, ok := fr.readInitHello(ih)
	if !ok {
		panic("harvest: cannot read InitHello")
	}
	rh := fr.respHello(marshalKey(idM), signAs(idM, purposeCB, cb))
	_, initDone, err := vi.Deliver(nil, rh, tBase)
	if err != nil || len(initDone) == 0 {
		panic(fmt.Sprint("harvest: V did not answer RespHello: ", err))
	}
	ptext, err := fr.in.Decrypt(nil, 2, initDone[:4], initDone[4:])
	if err != nil {
		panic(err)
	}
	var idn p2pke.InitDone
	if err := proto.Unmarshal(ptext, &idn); err != nil {
		panic(err)
	}
	hv.vInitDoneSig = idn.Sig
	hv.otherMsgs = append(hv.otherMsgs, ih, initDone)
	// V as responder against the attacker acting as itself: harvest V's RespHello signature
	vr := newSession(idV, false, tBase)
	fi := newForgedPeer(true)
	ts := tsBytes(0)
	mih := fi.initHello(ts, marshalKey(idM), signAs(idM, purposeTS, ts))
	_, vrh, err := vr.Deliver(nil, mih, tBase)
	if err != nil || len(vrh) == 0 {
		panic(fmt.Sprint("harvest: V did not answer InitHello: ", err))
	}
	payload, _, _, err := fi.hs.ReadMessage(nil, vrh[4:])
	if err != nil {
		panic(err)
	}
	var rhp p2pke.RespHello
	if err := proto.Unmarshal(payload, &rhp); err != nil {
		panic(err)
	}
	hv.vRespHelloSig = rhp.Sig
	hv.otherMsgs = append(hv.otherMsgs, vrh)
	// a complete unrelated handshake V<->X with data both ways (cross-feed material)
	a, b := newSession(idV, true, tBase), newSession(idX, false, tBase)
	m := a.Handshake(nil)
	to := b
	for i := 0; i < 6 && len(m) > 0; i++ {
		hv.otherMsgs = append(hv.otherMsgs, m)
		_, out, err := deliverRecycled(to, m, tBase)
		if err != nil {
			break
		}
		m = out
		if to == b {
			to = a
		} else {
			to = b
		}
	}
	for _, s := range []*p2pke.Session{a, b} {
		if ct, err := s.Send(nil, []byte("cross-traffic-0123456789"), tBase); err == nil {
			hv.otherMsgs = append(hv.otherMsgs, ct)
		}
	}
	// a complete earlier handshake of the victim (initiator) with an earlier responder session that had H's own key,
	// recorded off the wire with the victim's first data message: replayed into a fresh responder it must not
	// complete (the fresh session contributes fresh key material, so the old transcript is not this handshake's)
	a, b = newSession(idV, true, tBase), newSession(idH, false, tBase)
	m = a.Handshake(nil)
	to = b
	for i := 0; i < 6 && len(m) > 0; i++ {
		if to == b { // only what the victim sent
			hv.otherMsgs = append(hv.otherMsgs, m)
		}
		_, out, err := deliverRecycled(to, m, tBase)
		if err != nil {
			break
		}
		m = out
		if to == b {
			to = a
		} else {
			to = b
		}
	}
	if ct, err := a.Send(nil, []byte("recorded-old-data-0123456789"), tBase); err == nil {
		hv.otherMsgs = append(hv.otherMsgs, ct)
	}
}

type c03world struct {
	h            *p2pke.Session // honest session under test
	hInit        bool
	vp           *p2pke.Session // V's genuine session paired with H (opposite role)
	fp           *forgedPeer    // attacker's handshake that H accepted a hello from (nil if none)
	last         *forgedPeer    // attacker's most recent attempt (used when none was accepted)
	advanced     bool           // set by deliverToH when H's handshake state moved
	twin         *kefake.Peer   // adversary's twin-hello handshake with H
	fpCB         []byte         // channel binding the attacker's next signature must cover
	hOut         [][]byte       // messages emitted by H
	vpOut        [][]byte       // messages emitted by Vp
	mSigned      bool           // attacker signed the transcript of its handshake with H with its own key
	forgedParsed int
	kinds        map[string]bool
	trace        []string
	hSent        map[string]bool
	vpSent       map[string]bool
}

func (w *c03world) addH(m []byte) {
	if len(m) == 0 {
		return
	}
	for _, x := range w.hOut {
		if bytes.Equal(x, m) {
			return
		}
	}
	w.hOut = append(w.hOut, append([]byte{}, m...))
}

func (w *c03world) addVp(m []byte) {
	if len(m) == 0 {
		return
	}
	for _, x := range w.vpOut {
		if bytes.Equal(x, m) {
			return
		}
	}
	w.vpOut = append(w.vpOut, append([]byte{}, m...))
}

// oracle is evaluated after every delivery to H.
func (w *c03world) oracle(usedNow bool) string {
	if !(w.h.IsReady() || usedNow) {
		return ""
	}
	k := w.h.RemoteKey()
	pm, pv := testPub(idM), testPub(idV)
	switch {
	case x509.EqualPublicKeys(&k, &pm):
		if !w.mSigned {
			return "session usable with the attacker's key as remote key although the attacker never signed this handshake's transcript"
		}
	case x509.EqualPublicKeys(&k, &pv):
		cbH, cbV := p2pke.VerifChannelBinding(w.h), p2pke.VerifChannelBinding(w.vp)
		vIdx := p2pke.VerifHandshakeIndex(w.vp)
		vSigned := (!w.hInit && vIdx >= 2) || (w.hInit && vIdx >= 1)
		if !bytes.Equal(cbH, cbV) || !vSigned {
			return fmt.Sprintf("session usable and reports the victim's key, but the victim's own session for this handshake has binding %s (state %d) while H has %s: the victim never signed this transcript", hx(cbV)[:16], vIdx, hx(cbH)[:16])
		}
	default:
		return fmt.Sprintf("session usable with remote key %s which no party proved", keyName(k))
	}
	return ""
}

func (w *c03world) deliverToH(label string, m []byte) string {
	w.trace = append(w.trace, label)
	before := p2pke.VerifHandshakeIndex(w.h)
	var isApp bool
	var out []byte
	var err error
	func() {
		defer func() {
			if r := recover(); r != nil {
				err = fmt.Errorf("PANIC: %v", r)
			}
		}()
		isApp, out, err = deliverRecycled(w.h, m, tBase)
	}()
	w.advanced = p2pke.VerifHandshakeIndex(w.h) != before
	if err != nil {
		if strings.HasPrefix(err.Error(), "PANIC") {
			return label + ": " + err.Error()
		}
		if after := p2pke.VerifHandshakeIndex(w.h); after != before {
			return fmt.Sprintf("%s: Deliver returned error %v but the handshake state moved %d -> %d", label, err, before, after)
		}
		return ""
	}
	if isApp {
		// application data must come from the authenticated peer
		if p := w.oracle(true); p != "" {
			return label + ": data accepted: " + p
		}
		k := w.h.RemoteKey()
		pv := testPub(idV)
		if x509.EqualPublicKeys(&k, &pv) && !w.vpSent[string(out)] {
			return fmt.Sprintf("%s: plaintext %q accepted as coming from the victim, who never sent it", label, out)
		}
	} else {
		w.addH(out)
	}
	return w.oracle(false)
}

var sigSources = []string{"freshM", "vTimestampSig", "vRespHelloSig", "vInitDoneSig", "garbage", "empty"}

func (w *c03world) sig(src string, purpose string, data []byte) []byte {
	switch src {
	case "freshM":
		return signAs(idM, purpose, data)
	case "vTimestampSig":
		return hv.vInitHelloSig
	case "vRespHelloSig":
		return hv.vRespHelloSig
	case "vInitDoneSig":
		return hv.vInitDoneSig
	case "garbage":
		return bytes.Repeat([]byte{0x5a}, 64)
	}
	return nil
}

func newC03World(hInit bool) *c03world {
	w := &c03world{kinds: map[string]bool{}, hSent: map[string]bool{}, vpSent: map[string]bool{}}
	w.hInit = hInit
	w.h = newSession(idH, w.hInit, tBase)
	w.vp = newSession(idV, !w.hInit, tBase)
	w.addH(w.h.Handshake(nil))
	w.addVp(w.vp.Handshake(nil))
	return w
}

func claimKey(c string) []byte {
	if c == "V" {
		return marshalKey(idV)
	}
	return marshalKey(idM)
}

// The actions of the adversary. Each returns skip=true when it is not enabled in the current state (nothing was done)
// and otherwise the oracle's verdict ("" = fine).

func (w *c03world) actRelay(i int) (skip bool, problem string) {
	if i >= len(w.hOut) {
		return true, ""
	}
	m := w.hOut[i]
	w.trace = append(w.trace, "relay H:"+msgName(m)+" to Vp")
	isApp, out, err := deliverRecycled(w.vp, m, tBase)
	if err == nil && !isApp {
		w.addVp(out)
	}
	return false, ""
}

func (w *c03world) actGenuine(i int) (skip bool, problem string) {
	if i >= len(w.vpOut) {
		return true, ""
	}
	m := w.vpOut[i]
	return false, w.deliverToH("genuine Vp:"+msgName(m), m)
}

func (w *c03world) actVpSend() (skip bool, problem string) {
	pt := []byte(fmt.Sprintf("vp-plain-%d-0123456789", len(w.vpSent)))
	ct, err := w.vp.Send(nil, pt, tBase)
	if err != nil {
		return true, ""
	}
	w.vpSent[string(pt)] = true
	w.addVp(ct)
	w.trace = append(w.trace, "Vp sends data")
	return false, ""
}

func (w *c03world) actCross(i int) (skip bool, problem string) {
	if i >= len(hv.otherMsgs) {
		return true, ""
	}
	m := hv.otherMsgs[i]
	w.kinds["cross-feed"] = true
	return false, w.deliverToH(fmt.Sprintf("cross-feed[%d] %s", i, msgName(m)), m)
}

func (w *c03world) actForgeHello(claimed, src string) (skip bool, problem string) {
	var m []byte
	fp := newForgedPeer(!w.hInit)
	signedNow := false
	if w.hInit {
		// forged RespHello bound to H's InitHello
		ih := w.hOut[0]
		cb, ok := fp.readInitHello(ih)
		if !ok {
			return true, ""
		}
		m = fp.respHello(claimKey(claimed), w.sig(src, purposeCB, cb))
		signedNow = claimed == "M" && src == "freshM"
	} else {
		ts := tsBytes(0)
		sig := w.sig(src, purposeTS, ts)
		if src == "vTimestampSig" {
			ts = hv.vInitHelloTS // the lifted claim: V's key, V's timestamp, V's signature, attacker's ephemeral
		}
		m = fp.initHello(ts, claimKey(claimed), sig)
	}
	kind := fmt.Sprintf("forged %s claimed=%s sig=%s", msgName(m), claimed, src)
	w.kinds[kind] = true
	w.last = fp
	nOut := len(w.hOut)
	p := w.deliverToH(kind, m)
	if w.advanced {
		// H accepted this hello: this is now the attacker's live handshake with H
		w.fp = fp
		w.mSigned = signedNow
		w.forgedParsed++
		if !w.hInit && len(w.hOut) > nOut {
			if cb, ok := fp.readRespHello(w.hOut[len(w.hOut)-1]); ok {
				w.fpCB = cb
			}
		}
	}
	return false, p
}

// actTwinHello: the adversary sends the byte-identical InitHello (victim's lifted claim, its own ephemeral) to a
// genuine responder session of the victim and to H, and carries the victim's RespHello signature
// over to H inside InitDone.
func (w *c03world) actTwinHello(seed byte) (skip bool, problem string) {
	if w.hInit || w.twin != nil {
		return true, ""
	}
	p1, p2 := kefake.NewTwinPeers(true, seed)
	hello1 := p1.InitHello(hv.vInitHelloTS, kefake.MarshalKey(idV), hv.vInitHelloSig)
	hello2 := p2.InitHello(hv.vInitHelloTS, kefake.MarshalKey(idV), hv.vInitHelloSig)
	if !bytes.Equal(hello1, hello2) {
		return false, ev.Tag("harness: twin hellos differ")
	}
	vResp := newSession(idV, false, tBase)
	_, vrh, err := vResp.Deliver(nil, hello2, tBase)
	if err != nil || len(vrh) == 0 {
		return true, ""
	}
	sig, _, ok := p2.RespHelloSig(vrh)
	if !ok {
		return true, ""
	}
	w.kinds["twin hello: victim's RespHello signature for the same InitHello"] = true
	nOut := len(w.hOut)
	p := w.deliverToH("twin InitHello claimed=V", hello1)
	if w.advanced && len(w.hOut) > nOut {
		if _, ok := p1.ReadRespHello(w.hOut[len(w.hOut)-1]); ok {
			w.twin = p1
			w.forgedParsed++
			w.mSigned = false
			w.fp = nil
		}
	}
	if p != "" {
		return false, p
	}
	if w.twin != nil {
		if p := w.deliverToH("twin InitDone sig=victim's RespHello signature (same hello)", w.twin.InitDone(sig)); p != "" {
			return false, p
		}
		if p := w.deliverToH("twin data", w.twin.Data([]byte("attacker-data-0123456789"))); p != "" {
			return false, p
		}
	}
	return false, ""
}

func (w *c03world) attackerPeer() *forgedPeer {
	fp := w.fp
	if fp == nil {
		fp = w.last
	}
	if fp == nil || !fp.hasCiphers() {
		return nil
	}
	return fp
}

func (w *c03world) actForgeDone(src string) (skip bool, problem string) {
	fp := w.attackerPeer()
	if fp == nil {
		return true, ""
	}
	var m []byte
	var kind string
	if w.hInit {
		m = fp.respDone()
		kind = "forged RespDone"
	} else {
		m = fp.initDone(w.sig(src, purposeCB, w.fpCB))
		kind = "forged InitDone sig=" + src
		if src == "freshM" && fp == w.fp {
			w.mSigned = true // the attacker has now signed the transcript H holds, with its own key
		}
	}
	w.kinds[kind] = true
	w.forgedParsed++
	return false, w.deliverToH(kind, m)
}

func (w *c03world) actForgeData() (skip bool, problem string) {
	fp := w.attackerPeer()
	if fp == nil {
		return true, ""
	}
	m := fp.data([]byte("attacker-data-0123456789"))
	w.kinds["forged data"] = true
	return false, w.deliverToH("forged "+msgName(m), m)
}

func (w *c03world) actHSend() (skip bool, problem string) {
	pt := []byte("h-plain-0123456789abcdef")
	ct, err := w.h.Send(nil, pt, tBase)
	w.trace = append(w.trace, fmt.Sprintf("H.Send ok=%v", err == nil))
	if err == nil {
		w.addH(ct)
		if p := w.oracle(true); p != "" {
			return false, "H agreed to encrypt: " + p
		}
	}
	return false, ""
}

func TestC03Forgery(t *testing.T) {
	const sub = "C03.forgery"
	harvestOnce.Do(doHarvest)
	ev.Rule(sub, "rapid state machine: honest session H (role drawn) with the victim's genuine peer session Vp and an attacker M holding only its own key. Actions: relay H's messages to Vp; deliver Vp's genuine messages to H in any order with duplicates; cross-feed messages of the victim's other handshakes; forged RespHello / InitHello / InitDone / RespDone / data built from first principles with claimed key in {M,V} and signature source in {fresh by M over the right data, V's InitHello timestamp signature, V's RespHello or InitDone signature from another handshake, garbage, empty}; H.Send attempts. Oracle after every delivery: if H is ready, accepts data or encrypts, then RemoteKey() is M and M signed this transcript, or V and V's own session has the same channel binding and has signed; an error return must not move the handshake state. non-trivial = H processed >= 1 forged or spliced message that parsed; distinct by action trace")
	rapid.Check(t, func(t *rapid.T) {
		w := newC03World(rapid.Bool().Draw(t, "hIsInitiator"))
		do := func(t *rapid.T, why string, skip bool, p string) {
			if skip {
				t.Skip(why)
			}
			if p != "" {
				t.Fatalf("%s\nH role initiator=%v\ntrace: %s", p, w.hInit, strings.Join(w.trace, " ; "))
			}
		}
		t.Repeat(map[string]func(*rapid.T){
			"relayToVp": func(t *rapid.T) {
				if len(w.hOut) == 0 {
					t.Skip("nothing to relay")
				}
				skip, p := w.actRelay(rapid.IntRange(0, len(w.hOut)-1).Draw(t, "hMsg"))
				do(t, "nothing to relay", skip, p)
			},
			"genuine": func(t *rapid.T) {
				if len(w.vpOut) == 0 {
					t.Skip("Vp has produced nothing")
				}
				skip, p := w.actGenuine(rapid.IntRange(0, len(w.vpOut)-1).Draw(t, "vpMsg"))
				do(t, "Vp has produced nothing", skip, p)
			},
			"vpSend": func(t *rapid.T) {
				skip, p := w.actVpSend()
				do(t, "Vp cannot send yet", skip, p)
			},
			"cross": func(t *rapid.T) {
				skip, p := w.actCross(rapid.IntRange(0, len(hv.otherMsgs)-1).Draw(t, "otherMsg"))
				do(t, "no cross-feed material", skip, p)
			},
			"forgeHello": func(t *rapid.T) {
				claimed := rapid.SampledFrom([]string{"M", "V", "V"}).Draw(t, "claimed")
				src := rapid.SampledFrom(sigSources).Draw(t, "sigSource")
				skip, p := w.actForgeHello(claimed, src)
				do(t, "cannot read InitHello", skip, p)
			},
			"twinHello": func(t *rapid.T) {
				if w.hInit || w.twin != nil {
					t.Skip("needs a responder H, once")
				}
				skip, p := w.actTwinHello(byte(rapid.IntRange(1, 200).Draw(t, "ephemeralSeed")))
				do(t, "the victim did not answer the twin hello", skip, p)
			},
			"forgeDone": func(t *rapid.T) {
				if w.attackerPeer() == nil {
					t.Skip("attacker has no keys yet")
				}
				src := "freshM"
				if !w.hInit {
					src = rapid.SampledFrom(sigSources).Draw(t, "sigSource")
				}
				skip, p := w.actForgeDone(src)
				do(t, "attacker has no keys yet", skip, p)
			},
			"forgeData": func(t *rapid.T) {
				skip, p := w.actForgeData()
				do(t, "attacker has no keys yet", skip, p)
			},
			"hSend": func(t *rapid.T) {
				skip, p := w.actHSend()
				do(t, "", skip, p)
			},
		})
		ev.Eval(sub)
		for k := range w.kinds {
			ev.Class(sub, k)
		}
		if w.h.IsReady() {
			ev.Class(sub, "H-became-ready:"+keyName(w.h.RemoteKey()))
		}
		if w.forgedParsed > 0 || w.kinds["cross-feed"] {
			key := fmt.Sprintf("init=%v %s", w.hInit, strings.Join(w.trace, ";"))
			if ev.NonTrivial(sub, key) {
				ev.Sample(sub, key)
			}
		}
	})
}
