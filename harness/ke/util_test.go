package ke

import (
	"bytes"
	"crypto/ed25519"
	"encoding/binary"
	"encoding/hex"
	"fmt"
	"time"

	"go.brendoncarroll.net/p2p/f/x509"
	"go.brendoncarroll.net/p2p/p/p2pke"
	"go.uber.org/zap"
)

var (
	reg    = x509.DefaultRegistry()
	nopLog = zap.NewNop()
	tBase  = time.Unix(1_700_000_000, 0)
)

func hx(b []byte) string { return hex.EncodeToString(b) }

func stdKey(i int) ed25519.PrivateKey {
	seed := make([]byte, 32)
	binary.BigEndian.PutUint64(seed[24:], uint64(i)+1000)
	return ed25519.NewKeyFromSeed(seed)
}

var keyCache = map[int]x509.PrivateKey{}
var pubCache = map[int]x509.PublicKey{}

// testKey returns the i-th deterministic private key in the library's format.
func testKey(i int) x509.PrivateKey {
	if k, ok := keyCache[i]; ok {
		return k
	}
	algo, signer := x509.SignerFromStandard(stdKey(i))
	priv, err := reg.StoreSigner(algo, signer)
	if err != nil {
		panic(err)
	}
	keyCache[i] = priv
	pub, err := reg.PublicFromPrivate(&priv)
	if err != nil {
		panic(err)
	}
	pubCache[i] = pub
	return priv
}

func testPub(i int) x509.PublicKey {
	testKey(i)
	return pubCache[i]
}

func init() {
	for i := 0; i < 8; i++ {
		testKey(i)
	}
}

func keyName(k x509.PublicKey) string {
	if k.IsZero() {
		return "none"
	}
	for i, p := range pubCache {
		if x509.EqualPublicKeys(&p, &k) {
			return fmt.Sprintf("K%d", i)
		}
	}
	return "K?" + hx(k.Data)[:8]
}

func newSession(key int, isInit bool, now time.Time) *p2pke.Session {
	return p2pke.NewSession(p2pke.SessionConfig{
		Registry:    reg,
		PrivateKey:  testKey(key),
		IsInit:      isInit,
		Now:         now,
		RejectAfter: time.Hour,
		Logger:      nopLog,
	})
}

func counterOf(msg []byte) uint32 {
	if len(msg) < 4 {
		return 0xffffffff
	}
	return binary.BigEndian.Uint32(msg[:4])
}

func msgName(msg []byte) string {
	c := counterOf(msg)
	names := []string{"InitHello", "RespHello", "InitDone", "RespDone"}
	if len(msg) >= 4 && c < 4 {
		return names[c]
	}
	return fmt.Sprintf("data#%d", c)
}

func eq(a, b []byte) bool { return bytes.Equal(a, b) }

// deliverRecycled calls Session.Deliver with a transport buffer that is overwritten as soon as the call
// returns: a session that wants to remember an incoming message has to copy it.
func deliverRecycled(s *p2pke.Session, msg []byte, now time.Time) (bool, []byte, error) {
	wire := append([]byte{}, msg...)
	isApp, out, err := s.Deliver(nil, wire, now)
	if out != nil {
		out = append([]byte{}, out...)
	}
	for i := range wire {
		wire[i] = 0xDD
	}
	return isApp, out, err
}
