package hubs

import (
	"context"
	"fmt"
	"runtime"
	"sync"
	"testing"
	"time"

	"go.brendoncarroll.net/p2p/s/swarmutil"
	"pgregory.net/rapid"

	"verif/harness/internal/ev"
)

// TestC12HubMassClose: many goroutines parked in Receive / ServeAsk with contexts that never end, then Close (with a
// reason, without one, or twice). Every parked call must come back with a non-nil error; with hundreds of callers
// woken at the same instant a window of a few instructions inside Close is hit within a few rounds.
func TestC12HubMassClose(t *testing.T) {
	const sub = "C12.hub_mass_close"
	ev.Rule(sub, "rapid: a tell hub or an ask hub with 64-2048 goroutines parked in Receive / ServeAsk (contexts never end), closed with a reason, without one (nil) or twice; 3 rounds per case. Oracle: every parked call returns within the patient limit (5 s) with a non-nil error; calls made after Close return a non-nil error at once. non-trivial = >= 256 parked callers; distinct by (hub kind, callers, close variant)")
	rapid.Check(t, func(t *rapid.T) {
		ask := rapid.Bool().Draw(t, "askHub")
		n := rapid.SampledFrom([]int{64, 256, 1024, 2048}).Draw(t, "parked")
		variant := rapid.SampledFrom([]string{"reason", "nil", "twice"}).Draw(t, "close")
		desc := fmt.Sprintf("ask=%v parked=%d close=%s", ask, n, variant)
		for round := 0; round < 3; round++ {
			var api hubAPI
			if ask {
				h := swarmutil.NewAskHub[addr]()
				api = askHubAPI{&h}
			} else {
				h := swarmutil.NewTellHub[addr]()
				api = tellHubAPI{&h}
			}
			errs := make([]error, n)
			var parked, done sync.WaitGroup
			parked.Add(n)
			done.Add(n)
			for i := 0; i < n; i++ {
				i := i
				go func() {
					defer done.Done()
					parked.Done()
					errs[i] = api.receive(context.Background(), func(int) int { return 0 })
				}()
			}
			parked.Wait()
			for k := 0; k < 4; k++ {
				runtime.Gosched()
			}
			time.Sleep(time.Millisecond)
			switch variant {
			case "reason":
				api.close()
			case "nil":
				closeNil(api)
			case "twice":
				api.close()
				api.close()
			}
			fin := make(chan struct{})
			go func() { done.Wait(); close(fin) }()
			if !ev.PatientCh(5*time.Second, fin) {
				t.Fatalf("parked calls still blocked 5 s after Close (%s, round %d)", desc, round)
			}
			for i, err := range errs {
				if err == nil {
					t.Fatalf("parked call %d of %d returned nil after the hub was closed (%s, round %d)", i, n, desc, round)
				}
			}
			if err := api.receive(context.Background(), func(int) int { return 0 }); err == nil {
				t.Fatalf("a call made after Close returned nil (%s)", desc)
			}
		}
		ev.Eval(sub)
		if n >= 256 && ev.NonTrivial(sub, desc) {
			ev.Sample(sub, desc)
		}
	})
}

func closeNil(api hubAPI) {
	switch a := api.(type) {
	case tellHubAPI:
		a.h.CloseWithError(nil)
	case askHubAPI:
		a.h.CloseWithError(nil)
	}
}
