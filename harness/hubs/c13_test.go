package hubs

import (
	"context"
	"errors"
	"fmt"
	"runtime"
	"sort"
	"strings"
	"sync"
	"sync/atomic"
	"testing"
	"time"

	"go.brendoncarroll.net/p2p"
	"go.brendoncarroll.net/p2p/p/p2pmux"
	"go.brendoncarroll.net/p2p/s/memswarm"
	"go.brendoncarroll.net/p2p/s/swarmutil"
	"go.brendoncarroll.net/p2p/s/udpswarm"
	"pgregory.net/rapid"

	"verif/harness/internal/ev"
)

type addr = memswarm.Addr

// hubAPI abstracts TellHub and AskHub for the history checker.
type hubAPI interface {
	deliver(ctx context.Context, id int) (handlerResult int, err error)
	receive(ctx context.Context, fn func(id int) int) error
	close()
}

type tellHubAPI struct{ h *swarmutil.TellHub[addr] }

func (a tellHubAPI) deliver(ctx context.Context, id int) (int, error) {
	return 0, a.h.Deliver(ctx, p2p.Message[addr]{Src: addr{N: id}, Payload: []byte(fmt.Sprint(id))})
}
func (a tellHubAPI) receive(ctx context.Context, fn func(int) int) error {
	return a.h.Receive(ctx, func(m p2p.Message[addr]) { fn(m.Src.N) })
}
func (a tellHubAPI) close() { a.h.CloseWithError(p2p.ErrClosed) }

type askHubAPI struct{ h *swarmutil.AskHub[addr] }

func (a askHubAPI) deliver(ctx context.Context, id int) (int, error) {
	resp := make([]byte, 8)
	return a.h.Deliver(ctx, resp, p2p.Message[addr]{Src: addr{N: id}, Payload: []byte(fmt.Sprint(id))})
}
func (a askHubAPI) receive(ctx context.Context, fn func(int) int) error {
	return a.h.ServeAsk(ctx, func(_ context.Context, resp []byte, m p2p.Message[addr]) int { return fn(m.Src.N) })
}
func (a askHubAPI) close() { a.h.CloseWithError(nil) }

type deliverRec struct {
	id        int
	call, ret time.Duration
	err       error
	n         int
	cancelAt  time.Duration // 0 = never
}

type receiveRec struct {
	recv      int
	call, ret time.Duration
	err       error
	cancelAt  time.Duration
	callbacks []int
}

type cbRec struct {
	id          int
	enter, exit time.Duration
	recv        int
}

type hubProgram struct {
	receivers  int
	recvCancel []int   // per receiver: cancel each call after this many 100µs units (0 = never)
	producers  [][]int // per producer: per message cancel after units (0 = never)
	closeAt    int     // units; 0 = never
	work       int     // callback busy-loop iterations
	procs      int
}

func (p hubProgram) String() string {
	return fmt.Sprintf("receivers=%d recvCancel=%v producers=%v closeAt=%d work=%d procs=%d", p.receivers, p.recvCancel, p.producers, p.closeAt, p.work, p.procs)
}

const unit = 100 * time.Microsecond

func genHubProgram(t *rapid.T) hubProgram {
	var p hubProgram
	p.receivers = rapid.IntRange(1, 4).Draw(t, "receivers")
	for i := 0; i < p.receivers; i++ {
		p.recvCancel = append(p.recvCancel, rapid.SampledFrom([]int{0, 0, 1, 2, 5, 20}).Draw(t, "recvCancel"))
	}
	np := rapid.IntRange(1, 4).Draw(t, "producers")
	for i := 0; i < np; i++ {
		var msgs []int
		for j := 0; j < rapid.IntRange(1, 6).Draw(t, "msgs"); j++ {
			msgs = append(msgs, rapid.SampledFrom([]int{0, 0, 0, 1, 3, 10}).Draw(t, "deliverCancel"))
		}
		p.producers = append(p.producers, msgs)
	}
	p.closeAt = rapid.SampledFrom([]int{0, 0, 1, 3, 10, 30}).Draw(t, "closeAt")
	p.work = rapid.SampledFrom([]int{0, 100, 5000}).Draw(t, "callbackWork")
	p.procs = rapid.SampledFrom([]int{1, 2, 16}).Draw(t, "gomaxprocs")
	return p
}

// runHubProgram executes the program and returns the history.
func runHubProgram(h hubAPI, p hubProgram) (ds []deliverRec, rs []receiveRec, cbs []cbRec, stuck string) {
	old := runtime.GOMAXPROCS(p.procs)
	defer runtime.GOMAXPROCS(old)
	start := time.Now()
	now := func() time.Duration { return time.Since(start) }
	var mu sync.Mutex
	var stop atomic.Bool
	var rwg, pwg sync.WaitGroup
	stopCtx, stopAll := context.WithCancel(context.Background())
	for r := 0; r < p.receivers; r++ {
		r := r
		rwg.Add(1)
		go func() {
			defer rwg.Done()
			for !stop.Load() {
				ctx, cf := context.WithCancel(stopCtx)
				rec := receiveRec{recv: r, call: now()}
				var timer *time.Timer
				if c := p.recvCancel[r]; c > 0 {
					rec.cancelAt = rec.call + time.Duration(c)*unit
					timer = time.AfterFunc(time.Duration(c)*unit, cf)
				}
				rec.err = h.receive(ctx, func(id int) int {
					cb := cbRec{id: id, enter: now(), recv: r}
					x := 0
					for i := 0; i < p.work; i++ {
						x += i
					}
					_ = x
					cb.exit = now()
					mu.Lock()
					cbs = append(cbs, cb)
					mu.Unlock()
					rec.callbacks = append(rec.callbacks, id)
					return id % 7
				})
				rec.ret = now()
				if timer != nil {
					timer.Stop()
				}
				cf()
				mu.Lock()
				rs = append(rs, rec)
				mu.Unlock()
				if rec.err != nil && !errors.Is(rec.err, context.Canceled) {
					return // closed
				}
			}
		}()
	}
	id := 0
	for _, msgs := range p.producers {
		msgs := msgs
		base := id
		id += len(msgs)
		pwg.Add(1)
		go func() {
			defer pwg.Done()
			for j, c := range msgs {
				ctx, cf := context.WithCancel(stopCtx)
				rec := deliverRec{id: base + j, call: now()}
				var timer *time.Timer
				if c > 0 {
					rec.cancelAt = rec.call + time.Duration(c)*unit
					timer = time.AfterFunc(time.Duration(c)*unit, cf)
				}
				rec.n, rec.err = h.deliver(ctx, base+j)
				rec.ret = now()
				if timer != nil {
					timer.Stop()
				}
				cf()
				mu.Lock()
				ds = append(ds, rec)
				mu.Unlock()
			}
		}()
	}
	if p.closeAt > 0 {
		time.AfterFunc(time.Duration(p.closeAt)*unit, h.close)
	}
	done := make(chan struct{})
	go func() { pwg.Wait(); close(done) }()
	// patient limits (ev.Patient): 3 s on a responsive machine, longer on a stalled one
	if !ev.PatientCh(3*time.Second, done) {
		stuck = "a Deliver call did not return within 3 s although receivers were available or its context had been cancelled"
	}
	stop.Store(true)
	stopAll()
	done2 := make(chan struct{})
	go func() { rwg.Wait(); close(done2) }()
	if !ev.PatientCh(3*time.Second, done2) {
		if stuck == "" {
			stuck = "a Receive/ServeAsk call did not return within 3 s of its context being cancelled"
		}
	}
	mu.Lock()
	defer mu.Unlock()
	return append([]deliverRec{}, ds...), append([]receiveRec{}, rs...), append([]cbRec{}, cbs...), stuck
}

const promptness = 500 * time.Millisecond

// c13CaseStart is set when a case begins; the promptness allowed to cancelled calls grows with the
// scheduling lag observed since then (a goroutine whose context was cancelled still needs a CPU to return).
var c13CaseStart = time.Now()

func prompt() time.Duration { return promptness + 20*ev.MaxLagSince(c13CaseStart) }

func checkHubHistory(isAsk bool, ds []deliverRec, rs []receiveRec, cbs []cbRec) (problem string, overlap bool) {
	byID := map[int][]cbRec{}
	for _, c := range cbs {
		byID[c.id] = append(byID[c.id], c)
	}
	for id, list := range byID {
		if len(list) > 1 {
			return fmt.Sprintf("message %d was handed to %d callbacks (receivers %d and %d)", id, len(list), list[0].recv, list[1].recv), false
		}
	}
	for _, d := range ds {
		list := byID[d.id]
		if d.err == nil {
			if len(list) != 1 {
				return fmt.Sprintf("Deliver(%d) returned success but %d callbacks saw the message", d.id, len(list)), false
			}
			if list[0].exit > d.ret {
				return fmt.Sprintf("Deliver(%d) returned success at %v before the callback finished at %v", d.id, d.ret, list[0].exit), false
			}
			if isAsk && d.n != d.id%7 {
				return fmt.Sprintf("Deliver(%d) returned n=%d, the handler returned %d", d.id, d.n, d.id%7), false
			}
		} else {
			if len(list) != 0 {
				return fmt.Sprintf("Deliver(%d) returned error %v although a callback (receiver %d) saw the message", d.id, d.err, list[0].recv), false
			}
			if d.cancelAt > 0 && d.ret > d.cancelAt+prompt() {
				return fmt.Sprintf("Deliver(%d) was cancelled at %v before being committed but returned at %v", d.id, d.cancelAt, d.ret), false
			}
		}
		if d.cancelAt > 0 && len(list) == 1 && list[0].enter < d.cancelAt && list[0].exit > d.cancelAt {
			overlap = true
		}
	}
	consumed := 0
	for _, r := range rs {
		if r.err == nil {
			if len(r.callbacks) != 1 {
				return fmt.Sprintf("a Receive call returned nil after running %d callbacks", len(r.callbacks)), false
			}
			consumed++
		} else {
			if len(r.callbacks) != 0 {
				return fmt.Sprintf("a Receive call returned error %v after running a callback for message %d (the message is lost to the caller)", r.err, r.callbacks[0]), false
			}
			if r.cancelAt > 0 && r.ret > r.cancelAt+prompt() {
				return fmt.Sprintf("a Receive call cancelled at %v returned only at %v", r.cancelAt, r.ret), false
			}
		}
		if r.cancelAt > 0 {
			for _, d := range ds {
				if d.call < r.cancelAt && d.ret > r.cancelAt {
					overlap = true
				}
			}
		}
	}
	delivered := 0
	for _, d := range ds {
		if d.err == nil {
			delivered++
		}
	}
	if delivered != consumed || consumed != len(cbs) {
		return fmt.Sprintf("%d deliveries succeeded, %d receives succeeded, %d callbacks ran", delivered, consumed, len(cbs)), false
	}
	return "", overlap
}

func hubHistoryTest(t *testing.T, sub string, isAsk bool, mk func() hubAPI) {
	rapid.Check(t, func(t *rapid.T) {
		c13CaseStart = time.Now()
		p := genHubProgram(t)
		h := mk()
		ds, rs, cbs, stuck := runHubProgram(h, p)
		h.close()
		ev.Eval(sub)
		if stuck != "" {
			t.Fatalf("%s\nprogram: %v", stuck, p)
		}
		problem, overlap := checkHubHistory(isAsk, ds, rs, cbs)
		if overlap || p.closeAt > 0 {
			if overlap {
				ev.Class(sub, "cancel-overlaps-delivery")
			}
			if p.closeAt > 0 {
				ev.Class(sub, "close-during-run")
			}
			if ev.NonTrivial(sub, p.String()+fmt.Sprint(len(ds), len(rs), len(cbs))) {
				ev.Sample(sub, fmt.Sprintf("%v => %d deliveries, %d receive calls, %d callbacks", p, len(ds), len(rs), len(cbs)))
			}
		}
		if problem != "" {
			t.Fatalf("%s\nprogram: %v\nhistory: %s", problem, p, renderHistory(ds, rs, cbs))
		}
	})
}

func renderHistory(ds []deliverRec, rs []receiveRec, cbs []cbRec) string {
	type evt struct {
		at time.Duration
		s  string
	}
	var es []evt
	for _, d := range ds {
		es = append(es, evt{d.call, fmt.Sprintf("deliver(%d) call", d.id)}, evt{d.ret, fmt.Sprintf("deliver(%d) ret err=%v", d.id, d.err)})
	}
	for _, r := range rs {
		es = append(es, evt{r.call, fmt.Sprintf("recv%d call", r.recv)}, evt{r.ret, fmt.Sprintf("recv%d ret err=%v cbs=%v", r.recv, r.err, r.callbacks)})
	}
	for _, c := range cbs {
		es = append(es, evt{c.enter, fmt.Sprintf("cb(%d)@recv%d enter", c.id, c.recv)}, evt{c.exit, fmt.Sprintf("cb(%d) exit", c.id)})
	}
	sort.Slice(es, func(i, j int) bool { return es[i].at < es[j].at })
	var ss []string
	for i, e := range es {
		if i > 80 {
			ss = append(ss, "...")
			break
		}
		ss = append(ss, fmt.Sprintf("%v %s", e.at.Round(time.Microsecond), e.s))
	}
	return strings.Join(ss, " | ")
}

const hubRule = "rapid: a concurrent program of 1-4 receivers (each call with a cancel time of 0.1-2 ms or none), 1-4 producers delivering 1-6 tagged messages each (some with cancel times), an optional close at a generated time, callback work 0-5000 iterations, GOMAXPROCS in {1,2,16}, executed on real goroutines; every call/return/callback-enter/exit is logged with a monotonic clock. Oracle (history invariants): each message's callback ran at most once; Deliver returned nil iff exactly one callback finished with the message, before Deliver returned; Deliver returned an error iff no callback ever saw it; a Receive returned nil iff it ran exactly one callback; cancelled calls returned within 500 ms of the cancel; successful deliveries = successful receives = callbacks. non-trivial = a cancel or the close overlapped an in-flight delivery; distinct by (program, history sizes)"

func TestC13TellHub(t *testing.T) {
	const sub = "C13.tellhub_histories"
	ev.Rule(sub, hubRule)
	hubHistoryTest(t, sub, false, func() hubAPI { h := swarmutil.NewTellHub[addr](); return tellHubAPI{&h} })
}

func TestC13AskHub(t *testing.T) {
	const sub = "C13.askhub_histories"
	ev.Rule(sub, hubRule+"; for the ask hub Deliver additionally returns exactly the handler's result")
	hubHistoryTest(t, sub, true, func() hubAPI { h := swarmutil.NewAskHub[addr](); return askHubAPI{&h} })
}

func TestC13Queue(t *testing.T) {
	const sub = "C13.queue_histories"
	ev.Rule(sub, "rapid: bounded queue of capacity 1-8 and MTU 64; 1-4 producers deliver 1-10 tagged messages each (some larger than the MTU), 1-3 receivers with per-call cancel times, optional Purge and Close at generated times, GOMAXPROCS in {1,2,16}. Oracle: Deliver never blocks (< 50 ms); every accepted message is received exactly once with its own content, or purged, or still queued when the queue is closed; a refused message is never received; cancelled receives return within 500 ms; the number of messages accounted for equals the number accepted. non-trivial = queue full at least once or a cancel/close during the run; distinct by program")
	rapid.Check(t, func(t *rapid.T) {
		c13CaseStart = time.Now()
		capacity := rapid.IntRange(1, 8).Draw(t, "cap")
		nProd := rapid.IntRange(1, 4).Draw(t, "producers")
		nRecv := rapid.IntRange(1, 3).Draw(t, "receivers")
		perProd := rapid.IntRange(1, 10).Draw(t, "perProducer")
		recvCancel := rapid.SampledFrom([]int{0, 1, 5}).Draw(t, "recvCancel")
		closeAt := rapid.SampledFrom([]int{0, 0, 5, 20}).Draw(t, "closeAt")
		purgeAt := rapid.SampledFrom([]int{0, 0, 3}).Draw(t, "purgeAt")
		procs := rapid.SampledFrom([]int{1, 2, 16}).Draw(t, "gomaxprocs")
		desc := fmt.Sprintf("cap=%d producers=%d x %d receivers=%d recvCancel=%d closeAt=%d purgeAt=%d procs=%d", capacity, nProd, perProd, nRecv, recvCancel, closeAt, purgeAt, procs)
		old := runtime.GOMAXPROCS(procs)
		defer runtime.GOMAXPROCS(old)
		q := swarmutil.NewQueue[addr](capacity, 64)
		var mu sync.Mutex
		accepted := map[int]bool{}
		refused := map[int]bool{}
		received := map[int]int{}
		var problems []string
		var stop atomic.Bool
		stopCtx, stopAll := context.WithCancel(context.Background())
		var pwg, rwg sync.WaitGroup
		var purged atomic.Int64
		for r := 0; r < nRecv; r++ {
			rwg.Add(1)
			go func() {
				defer rwg.Done()
				for !stop.Load() {
					ctx, cf := context.WithCancel(stopCtx)
					var cancelAt time.Time
					if recvCancel > 0 {
						cancelAt = time.Now().Add(time.Duration(recvCancel) * unit)
						time.AfterFunc(time.Duration(recvCancel)*unit, cf)
					}
					err := q.Receive(ctx, func(m p2p.Message[addr]) {
						want := fmt.Sprintf("payload-%d", m.Src.N)
						mu.Lock()
						received[m.Src.N]++
						if string(m.Payload) != want {
							problems = append(problems, fmt.Sprintf("message %d arrived with payload %q", m.Src.N, m.Payload))
						}
						mu.Unlock()
					})
					if err != nil && !cancelAt.IsZero() && time.Since(cancelAt) > prompt() {
						mu.Lock()
						problems = append(problems, fmt.Sprintf("Receive returned %v only %v after its cancel", err, time.Since(cancelAt)))
						mu.Unlock()
					}
					cf()
					if err != nil && !errors.Is(err, context.Canceled) {
						return
					}
				}
			}()
		}
		full := atomic.Bool{}
		for p := 0; p < nProd; p++ {
			p := p
			pwg.Add(1)
			go func() {
				defer pwg.Done()
				for j := 0; j < perProd; j++ {
					id := p*100 + j
					payload := []byte(fmt.Sprintf("payload-%d", id))
					if j%5 == 4 {
						payload = make([]byte, 65) // above the MTU: must be refused
					}
					t0 := time.Now()
					ok := q.Deliver(p2p.Message[addr]{Src: addr{N: id}, Payload: payload})
					if d := time.Since(t0); d > 50*time.Millisecond+10*ev.MaxLagSince(t0) {
						mu.Lock()
						problems = append(problems, fmt.Sprintf("Deliver blocked for %v", d))
						mu.Unlock()
					}
					mu.Lock()
					if ok {
						accepted[id] = true
						if len(payload) == 65 {
							problems = append(problems, "a message above the MTU was accepted")
						}
					} else {
						refused[id] = true
						if len(payload) != 65 {
							full.Store(true)
						}
					}
					mu.Unlock()
					if j%2 == 1 {
						runtime.Gosched()
					}
				}
			}()
		}
		if purgeAt > 0 {
			time.AfterFunc(time.Duration(purgeAt)*unit, func() { purged.Add(int64(q.Purge())) })
		}
		closed := make(chan struct{})
		if closeAt > 0 {
			time.AfterFunc(time.Duration(closeAt)*unit, func() { q.Close(); close(closed) })
		}
		pwg.Wait()
		time.Sleep(2 * time.Millisecond)
		stop.Store(true)
		remaining := 0
		if closeAt == 0 {
			// drain what is left
			waitUntil(200*time.Millisecond, func() bool { return q.Len() == 0 })
			remaining = q.Len()
		} else {
			<-closed
		}
		stopAll()
		done := make(chan struct{})
		go func() { rwg.Wait(); close(done) }()
		if !ev.PatientCh(3*time.Second, done) {
			t.Fatalf("a Receive call did not return within 3 s of its context being cancelled\ncase: %s", desc)
		}
		q.Close()
		ev.Eval(sub)
		mu.Lock()
		defer mu.Unlock()
		if len(problems) > 0 {
			t.Fatalf("%s\ncase: %s", problems[0], desc)
		}
		got := 0
		for id, n := range received {
			if n > 1 {
				t.Fatalf("message %d was received %d times\ncase: %s", id, n, desc)
			}
			if !accepted[id] {
				t.Fatalf("message %d was refused by Deliver but received\ncase: %s", id, desc)
			}
			got += n
		}
		if closeAt == 0 {
			if got+int(purged.Load())+remaining != len(accepted) {
				t.Fatalf("%d messages accepted, %d received, %d purged, %d still queued: some were lost or invented\ncase: %s", len(accepted), got, purged.Load(), remaining, desc)
			}
		} else if got+int(purged.Load()) > len(accepted) {
			t.Fatalf("%d messages accepted but %d received + %d purged\ncase: %s", len(accepted), got, purged.Load(), desc)
		}
		if full.Load() || recvCancel > 0 || closeAt > 0 {
			if ev.NonTrivial(sub, desc) {
				ev.Sample(sub, desc)
			}
		}
	})
}

func waitUntil(timeout time.Duration, cond func() bool) bool {
	return ev.Patient(timeout, cond)
}

// TestC13SwarmCancel: cancellation through real swarms.
func TestC13SwarmCancel(t *testing.T) {
	const sub = "C13.swarm_cancel"
	ev.Rule(sub, "rapid: Receive / ServeAsk on the in-memory virtual swarm and Receive on the UDP swarm, each with a context cancelled after 0-20 ms while 0-3 competing receivers stay blocked and 0-5 messages arrive around the cancel time. Oracle: the cancelled call returns the context's error within 500 ms; no competing receiver (live context, open swarm) returns; every message told is seen by at most one receiver and none is consumed by the cancelled call without its callback running. non-trivial = >= 1 competing receiver or message in flight; distinct by (swarm, program)")
	rapid.Check(t, func(t *rapid.T) {
		c13CaseStart = time.Now()
		kind := rapid.SampledFrom([]string{"mem-receive", "mem-serveask", "udp-receive"}).Draw(t, "swarm")
		cancelMs := rapid.IntRange(0, 20).Draw(t, "cancelAfterMs")
		competing := rapid.IntRange(0, 3).Draw(t, "competing")
		msgs := rapid.IntRange(0, 5).Draw(t, "messages")
		desc := fmt.Sprintf("%s cancelAfter=%dms competing=%d messages=%d", kind, cancelMs, competing, msgs)
		ev.Eval(sub)
		var recv func(ctx context.Context, fn func(id string)) error
		var send func(id string)
		var closeAll func()
		switch kind {
		case "udp-receive":
			a, err := udpswarm.New("127.0.0.1:0")
			if err != nil {
				t.Fatalf("%s", ev.Tag(fmt.Sprintf("harness: %v", err)))
			}
			b, _ := udpswarm.New("127.0.0.1:0")
			recv = func(ctx context.Context, fn func(string)) error {
				return a.Receive(ctx, func(m p2p.Message[udpswarm.Addr]) { fn(string(m.Payload)) })
			}
			send = func(id string) { b.Tell(context.Background(), a.LocalAddrs()[0], p2p.IOVec{[]byte(id)}) }
			closeAll = func() { a.Close(); b.Close() }
		default:
			realm := memswarm.NewRealm(memswarm.WithQueueLen(64))
			a, b := realm.NewSwarm(), realm.NewSwarm()
			if kind == "mem-receive" {
				recv = func(ctx context.Context, fn func(string)) error {
					return a.Receive(ctx, func(m p2p.Message[memswarm.Addr]) { fn(string(m.Payload)) })
				}
				send = func(id string) { b.Tell(context.Background(), a.LocalAddr(), p2p.IOVec{[]byte(id)}) }
			} else {
				recv = func(ctx context.Context, fn func(string)) error {
					return a.ServeAsk(ctx, func(_ context.Context, resp []byte, m p2p.Message[memswarm.Addr]) int {
						fn(string(m.Payload))
						return 0
					})
				}
				send = func(id string) {
					go func() {
						ctx, cf := context.WithTimeout(context.Background(), 200*time.Millisecond)
						defer cf()
						b.Ask(ctx, make([]byte, 4), a.LocalAddr(), p2p.IOVec{[]byte(id)})
					}()
				}
			}
			closeAll = func() { a.Close(); b.Close() }
		}
		var mu sync.Mutex
		var earlyExit error // a competing receiver returned although its context was alive and the swarm open
		seen := map[string]int{}
		note := func(id string) {
			mu.Lock()
			seen[id]++
			mu.Unlock()
		}
		bg, stopCompeting := context.WithCancel(context.Background())
		var cwg sync.WaitGroup
		for i := 0; i < competing; i++ {
			cwg.Add(1)
			go func() {
				defer cwg.Done()
				for {
					err := recv(bg, note)
					if err == nil {
						continue
					}
					if bg.Err() == nil {
						// its context is alive and the swarm is open: nothing entitles this call to give up
						mu.Lock()
						if earlyExit == nil {
							earlyExit = err
						}
						mu.Unlock()
					}
					return
				}
			}()
		}
		ctx, cancel := context.WithCancel(context.Background())
		type outcome struct {
			err error
			at  time.Time
			ran int
		}
		res := make(chan outcome, 1)
		go func() {
			ran := 0
			err := recv(ctx, func(id string) { ran++; note(id) })
			res <- outcome{err, time.Now(), ran}
		}()
		go func() {
			for i := 0; i < msgs; i++ {
				time.Sleep(time.Duration(cancelMs) * time.Millisecond / time.Duration(msgs+1))
				send(fmt.Sprintf("m%d", i))
			}
		}()
		time.Sleep(time.Duration(cancelMs) * time.Millisecond)
		cancelAt := time.Now()
		cancel()
		var out outcome
		late := false
		if o, returned := ev.PatientRecv(promptness, res); returned {
			out = o
		} else {
			late = true
		}
		if competing > 0 || msgs > 0 {
			if ev.NonTrivial(sub, desc) {
				ev.Sample(sub, desc)
			}
		}
		finish := func() {
			time.Sleep(2 * time.Millisecond)
			mu.Lock()
			ee := earlyExit
			mu.Unlock()
			stopCompeting()
			closeAll()
			cwg.Wait()
			if ee != nil {
				t.Fatalf("a competing %s call with a live context on an open swarm returned %v when another receiver was cancelled (what arrives next is lost)\ncase: %s", kind, ee, desc)
			}
		}
		if late {
			key := ""
			if kind == "udp-receive" {
				key = "udpswarm-receive-ignores-context"
			}
			known := key != "" && ev.Known(sub, "C13", key)
			finish()
			if known {
				ev.Class(sub, "known-finding:"+key)
				return
			}
			t.Fatalf("a %s call whose context was cancelled had not returned %v later\ncase: %s", kind, promptness, desc)
		}
		finish()
		if out.err == nil && out.ran != 1 {
			t.Fatalf("the call returned nil after running %d callbacks\ncase: %s", out.ran, desc)
		}
		if out.err != nil && out.ran != 0 {
			t.Fatalf("the call returned %v after running a callback\ncase: %s", out.err, desc)
		}
		if out.err != nil && !errors.Is(out.err, context.Canceled) {
			t.Fatalf("the cancelled call returned %v instead of the context's error\ncase: %s", out.err, desc)
		}
		_ = cancelAt
		mu.Lock()
		defer mu.Unlock()
		for id, n := range seen {
			if n > 1 {
				t.Fatalf("message %s was handed to %d receivers\ncase: %s", id, n, desc)
			}
		}
	})
}

// TestC13QueueStampede: many receivers enter Receive at the same instant for fewer messages than
// receivers. Whoever loses the race for a message must still be released by its context.
func TestC13QueueStampede(t *testing.T) {
	const sub = "C13.queue_stampede"
	ev.Rule(sub, "rapid: 100-600 rounds per case on one bounded queue; in every round 0-2 messages are queued, 2-8 receivers are released from a spin barrier into Receive at the same instant (GOMAXPROCS 2-16) and their shared context is cancelled 0-200 us later. Oracle: every Receive returns within 500 ms of the cancel (patient limit), a Receive that returns nil ran exactly one callback, every queued message is handed to exactly one callback or is still queued, no callback runs for a message that was not queued. non-trivial = receivers > messages; distinct by parameters")
	rapid.Check(t, func(t *rapid.T) {
		c13CaseStart = time.Now()
		rounds := rapid.IntRange(100, 600).Draw(t, "rounds")
		nRecv := rapid.IntRange(2, 8).Draw(t, "receivers")
		procs := rapid.SampledFrom([]int{2, 4, 16}).Draw(t, "gomaxprocs")
		maxMsgs := rapid.IntRange(0, 2).Draw(t, "messagesPerRound")
		cancelMicros := rapid.SampledFrom([]int{0, 20, 200}).Draw(t, "cancelAfterMicros")
		desc := fmt.Sprintf("rounds=%d receivers=%d procs=%d messages<=%d cancelAfter=%dus", rounds, nRecv, procs, maxMsgs, cancelMicros)
		old := runtime.GOMAXPROCS(procs)
		defer runtime.GOMAXPROCS(old)
		q := swarmutil.NewQueue[addr](4, 64)
		defer q.Close()
		next := 0
		for r := 0; r < rounds; r++ {
			k := 0
			if maxMsgs > 0 {
				k = (r*7 + 1) % (maxMsgs + 1)
			}
			ids := map[int]bool{}
			for i := 0; i < k; i++ {
				next++
				if q.Deliver(p2p.Message[addr]{Src: addr{N: next}, Dst: addr{N: 0}, Payload: []byte(fmt.Sprintf("payload-%d", next))}) {
					ids[next] = true
				}
			}
			ctx, cancel := context.WithCancel(context.Background())
			var gate atomic.Bool
			var mu sync.Mutex
			got := map[int]int{}
			var bad []string
			done := make(chan struct{}, nRecv)
			for i := 0; i < nRecv; i++ {
				go func() {
					for !gate.Load() {
					}
					ran := 0
					err := q.Receive(ctx, func(m p2p.Message[addr]) {
						ran++
						mu.Lock()
						got[m.Src.N]++
						if string(m.Payload) != fmt.Sprintf("payload-%d", m.Src.N) {
							bad = append(bad, fmt.Sprintf("message %d arrived as %q", m.Src.N, m.Payload))
						}
						mu.Unlock()
					})
					if (err == nil) != (ran == 1) || ran > 1 {
						mu.Lock()
						bad = append(bad, fmt.Sprintf("a Receive call returned %v after running %d callbacks", err, ran))
						mu.Unlock()
					}
					done <- struct{}{}
				}()
			}
			gate.Store(true)
			if cancelMicros > 0 {
				time.Sleep(time.Duration(cancelMicros) * time.Microsecond)
			}
			cancel()
			for i := 0; i < nRecv; i++ {
				if _, ok := ev.PatientRecv(promptness, done); !ok {
					t.Fatalf("round %d: %d of %d receivers had not returned %v after their context was cancelled (%d messages were queued)\ncase: %s", r, nRecv-i, nRecv, promptness, k, desc)
				}
			}
			mu.Lock()
			for id, c := range got {
				if !ids[id] {
					bad = append(bad, fmt.Sprintf("a callback ran for message %d which was not queued in this round", id))
				}
				if c > 1 {
					bad = append(bad, fmt.Sprintf("message %d was handed to %d callbacks", id, c))
				}
			}
			left := q.Len()
			if len(got)+left != len(ids) {
				bad = append(bad, fmt.Sprintf("%d messages queued, %d received, %d still queued", len(ids), len(got), left))
			}
			b := append([]string{}, bad...)
			mu.Unlock()
			if len(b) > 0 {
				t.Fatalf("round %d: %s\ncase: %s", r, strings.Join(b, "; "), desc)
			}
			q.Purge()
		}
		ev.EvalN(sub, int64(rounds))
		if nRecv > maxMsgs {
			if ev.NonTrivial(sub, desc) {
				ev.Sample(sub, desc)
			}
		}
	})
}

// TestC13AskCancel: cancelling the asker's context releases the Ask and ends the context its handler was given,
// directly on the in-memory swarm and through every kind of multiplexer on top of it.
func TestC13AskCancel(t *testing.T) {
	const sub = "C13.ask_cancel"
	ev.Rule(sub, "rapid: Ask on the in-memory swarm directly or through a multiplexer channel (string, uint16, uint32, uint64, varint); the destination either does not serve the channel at the time, or serves it with a handler that waits for its context; the asker's context is cancelled after 0-20 ms. Oracle: Ask returns a non-nil error within 500 ms of the cancel (patient limit); a handler that was running sees its context end within 500 ms of the cancel. non-trivial = handler running at the time of the cancel; distinct by parameters")
	rapid.Check(t, func(t *rapid.T) {
		c13CaseStart = time.Now()
		kind := rapid.SampledFrom([]string{"direct", "string", "uint16", "uint32", "uint64", "varint"}).Draw(t, "stack")
		served := rapid.Bool().Draw(t, "served")
		cancelMs := rapid.IntRange(0, 20).Draw(t, "cancelAfterMs")
		desc := fmt.Sprintf("%s served=%v cancelAfter=%dms", kind, served, cancelMs)
		realm := memswarm.NewRealm(memswarm.WithQueueLen(64))
		a, b := realm.NewSwarm(), realm.NewSwarm()
		defer a.Close()
		defer b.Close()
		var asker p2p.Asker[memswarm.Addr] = a
		var server p2p.AskServer[memswarm.Addr] = b
		switch kind {
		case "string":
			asker, server = p2pmux.NewStringAskMux[memswarm.Addr](a).Open("ch"), p2pmux.NewStringAskMux[memswarm.Addr](b).Open("ch")
		case "uint16":
			asker, server = p2pmux.NewUint16AskMux[memswarm.Addr](a).Open(7), p2pmux.NewUint16AskMux[memswarm.Addr](b).Open(7)
		case "uint32":
			asker, server = p2pmux.NewUint32AskMux[memswarm.Addr](a).Open(7), p2pmux.NewUint32AskMux[memswarm.Addr](b).Open(7)
		case "uint64":
			asker, server = p2pmux.NewUint64AskMux[memswarm.Addr](a).Open(7), p2pmux.NewUint64AskMux[memswarm.Addr](b).Open(7)
		case "varint":
			asker, server = p2pmux.NewVarintAskMux[memswarm.Addr](a).Open(7), p2pmux.NewVarintAskMux[memswarm.Addr](b).Open(7)
		}
		sctx, stopServer := context.WithCancel(context.Background())
		defer stopServer()
		handlerStarted := make(chan struct{}, 1)
		handlerCtxEnded := make(chan time.Time, 1)
		if served {
			go func() {
				for server.ServeAsk(sctx, func(hctx context.Context, resp []byte, m p2p.Message[memswarm.Addr]) int {
					select {
					case handlerStarted <- struct{}{}:
					default:
					}
					select {
					case <-hctx.Done():
						select {
						case handlerCtxEnded <- time.Now():
						default:
						}
					case <-sctx.Done():
					}
					return -1
				}) == nil {
				}
			}()
		}
		ctx, cancel := context.WithCancel(context.Background())
		res := make(chan error, 1)
		go func() {
			_, err := asker.Ask(ctx, make([]byte, 8), b.LocalAddr(), p2p.IOVec{[]byte("question")})
			res <- err
		}()
		time.Sleep(time.Duration(cancelMs) * time.Millisecond)
		running := false
		select {
		case <-handlerStarted:
			running = true
		default:
		}
		cancelAt := time.Now()
		cancel()
		ev.Eval(sub)
		err, returned := ev.PatientRecv(promptness, res)
		if !returned {
			stopServer()
			t.Fatalf("an Ask whose context was cancelled had not returned %v later\ncase: %s", promptness, desc)
		}
		if err == nil {
			t.Fatalf("an Ask whose context was cancelled (handler never answers) returned nil\ncase: %s", desc)
		}
		if running {
			if _, ok := ev.PatientRecv(promptness, handlerCtxEnded); !ok {
				stopServer()
				t.Fatalf("the handler's context had not ended %v after the asker's context was cancelled (cancel at %v)\ncase: %s", promptness, cancelAt.Sub(c13CaseStart), desc)
			}
			if ev.NonTrivial(sub, desc) {
				ev.Sample(sub, desc)
			}
		}
	})
}
