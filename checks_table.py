"""Table of properties -> sub-properties (test functions) and their budgets.

Read by ./check. Each sub: name (also the evidence key and replay-file prefix),
pkg (harness package), test (Go test function), kind rapid|plain,
common/quick/thorough: checks, shards, timeout (s), steps, env, exclusive, skip.
"""

def R(name, pkg, test, q, t, qto=300, tto=1500, shards=8, **kw):
    """rapid sub-property: q/t = number of cases in quick/thorough."""
    d = dict(name=name, pkg=pkg, test=test, kind="rapid",
             quick=dict(checks=q, timeout=qto), thorough=dict(checks=t, shards=shards, timeout=tto))
    if "race" in kw:
        d["race"] = kw.pop("race")
    if "quick" in kw:
        d["quick"].update(kw.pop("quick"))
    if "thorough" in kw:
        d["thorough"].update(kw.pop("thorough"))
    d["common"] = kw
    return d

def P(name, pkg, test, qto=300, tto=1500, **kw):
    """plain (enumerating / scripted) sub-property; depth is chosen from VERIF_TIER inside the test."""
    d = dict(name=name, pkg=pkg, test=test, kind="plain", quick=dict(timeout=qto), thorough=dict(timeout=tto))
    if "race" in kw:
        d["race"] = kw.pop("race")
    d["common"] = kw
    return d

def F(name, pkg, fuzz, secs=40, **kw):
    """native go fuzz target, thorough tier only."""
    return dict(name=name, pkg=pkg, test=fuzz, kind="fuzz", quick=dict(skip=True), thorough=dict(fuzztime=secs, timeout=secs + 240), common=kw)

PROPS = {}

PROPS["C19"] = dict(
    level="exploration",
    technique="property-based testing (rapid) against a brute-force distance sort; exhaustive enumeration of short strings for the comparison laws; native fuzzing in thorough",
    level_text="Random and structured generation of cache contents and query keys compared with a brute-force sort oracle, plus exhaustive checking of the distance laws over all short strings of a 4-symbol alphabet. Establishes the property on everything generated; exhaustive only for the stated small universe.",
    level_note="Oracle re-implements XOR distance and bytes.Compare independently of the library. Assumes entry keys are at least as long as the cache locus (all in-tree callers use 32-byte peer ids or caller-chosen data keys; see DESIGN.md 6).",
    design_ref="4/C19",
    assumptions=["cache entry keys are at least as long as the locus", "ties in distance may be enumerated in any order"],
    subs=[
        R("C19.foreach_order", "kad", "TestC19ForEachOrder", 30000, 3200000),
        R("C19.foreach_matching", "kad", "TestC19Matching", 20000, 1600000),
        R("C19.distance_laws_random", "kad", "TestC19DistanceLawsRandom", 50000, 4000000),
        P("C19.distance_laws_exhaustive", "kad", "TestC19DistanceLawsExhaustive"),
        R("C19.node_list_nearest", "kad", "TestC19NodeInfos", 10000, 640000),
        R("C19.overlapping_enumerations", "kad", "TestC19Overlap", 6000, 400000),
        F("C19.fuzz_distance_laws", "kad", "FuzzDistanceLaws", 90),
    ],
)

PROPS["C18"] = dict(
    level="exploration",
    technique="model-based property testing (rapid state machine vs reference map) plus exhaustive enumeration of short histories over a small key universe",
    level_text="A rapid state machine drives the cache and a plain Go map with the same generated operations and compares the whole observable state after every step (count, full enumeration, every key, eviction victim rule, expiry set); short histories over an 8-key universe are enumerated completely. Holds on everything generated; exhaustive only to the reported depth.",
    level_note="Trusts the reference map and an independent re-implementation of the bucket index. Creation times are real clock values (never the zero time); keys are at least as long as the locus.",
    design_ref="4/C18",
    assumptions=["entry creation times are non-zero (every caller passes a real clock)", "keys are at least as long as the locus", "when no bucket holds more than the per-bucket minimum any victim is accepted, only the capacity bound is required"],
    subs=[
        R("C18.model", "kad", "TestC18Model", 20000, 400000, steps=40),
        P("C18.exhaustive", "kad", "TestC18Exhaustive"),
        R("C18.concurrent_quiescent", "kad", "TestC18Concurrent", 400, 40000),
    ],
)

PROPS["C20"] = dict(
    level="exploration",
    technique="property-based testing (rapid) over simulated networks with adversarial responders against a whole-network oracle and per-node ask counters",
    level_text="Generated networks, routing tables, initial sets and honest/failing/adversarial responder behaviours drive the four iterative operations; the harness implements the RPC functions, counts asks per node id and checks the result struct against what it knows about the whole network. Holds on everything generated.",
    level_note="Responder behaviours come from a fixed repertoire (cyclic, self-referential, huge, fabricated from a finite pool, farther-only, bogus target info); fabricated ids come from a finite pool so termination is well-defined. The all-zero PeerID is excluded as a node id (library sentinel for 'none').",
    design_ref="4/C20",
    assumptions=["the all-zero PeerID is the library's 'no peer' sentinel and is not used as a node id", "adversarial responders draw fabricated ids from a finite pool"],
    subs=[
        R("C20.find_node", "kad", "TestC20FindNode", 8000, 600000),
        R("C20.join", "kad", "TestC20Join", 8000, 600000),
        R("C20.get", "kad", "TestC20Get", 8000, 600000),
        R("C20.put", "kad", "TestC20Put", 8000, 600000),
    ],
)

PROPS["C17"] = dict(
    level="exploration",
    technique="property-based testing (rapid): round-trip, equality-vs-encoding and order-preservation relations over generated keys, wire forms, ids and texts; native fuzzing in thorough",
    level_text="Generated algorithm identifiers, key bodies, alternative DER wire forms, peer ids and candidate texts are checked against round-trip / injectivity / order relations. Holds on everything generated.",
    level_note="Algorithm identifiers are restricted to what DER and encoding/asn1's decoder can carry (first arc 0-2, second < 40 unless first is 2, arcs < 2^31). Cross-package equality of the two default fingerprinters is not asserted (they are different hash functions by design, each configurable).",
    design_ref="4/C17",
    assumptions=["object identifier arcs fit encoding/asn1's decoder (31 bits)", "p2pkeswarm and quicswarm default fingerprinters are different functions by design; only 'function of the key alone' is asserted for each"],
    subs=[
        R("C17.key_roundtrip", "codec", "TestC17KeyRoundTrip", 30000, 2400000),
        R("C17.wire_independence", "codec", "TestC17WireIndependence", 15000, 1200000),
        R("C17.peerid_text", "codec", "TestC17PeerIDText", 40000, 2400000),
        R("C17.swarm_identity", "secure", "TestC17SwarmIdentity", 300, 15000),
        F("C17.fuzz_key_parse", "codec", "FuzzKeyParse", 90),
        F("C17.fuzz_peerid_text", "codec", "FuzzPeerIDText", 90),
    ],
)

PROPS["C16"] = dict(
    level="exploration",
    technique="property-based testing (rapid): marshal/parse round trip over generated and harvested addresses of every type and nesting; parse-marshal-parse stability on arbitrary text",
    level_text="Generated addresses of every address type and nestings to depth 3, addresses harvested from live swarm stacks (local addresses and message sources/destinations), and arbitrary/mutated text are checked against the marshal-parse round-trip relation with structural equality. Holds on everything generated.",
    level_note="Multi-transport scheme names are drawn from the URI scheme alphabet (non-empty, no '://'); harvested addresses are limited to what the sandbox's loopback interfaces produce.",
    design_ref="4/C16",
    assumptions=["multi-transport scheme names are non-empty and drawn from the URI scheme alphabet"],
    subs=[
        R("C16.generated", "codec", "TestC16Generated", 30000, 2500000),
        R("C16.arbitrary_text", "codec", "TestC16ArbitraryText", 30000, 2500000),
        F("C16.fuzz_addr_parse", "codec", "FuzzAddrParse", 90),
        R("C16.harvested", "swarms", "TestC16Harvested", 60, 5000, shrink=10, quick=dict(checks=60, shards=2, timeout=600)),
    ],
)

PROPS["C06"] = dict(
    level="fault_enumeration",
    technique="exhaustive enumeration of bounded fault schedules (deliver/duplicate/reorder/reflect/drop/retransmit) over a real session pair plus rapid random schedules, each followed by a fair suffix",
    level_text="Every schedule of enabled actions up to the reported depth is executed against two real sessions (sessions are timer-free, so this is deterministic), with progress/idempotence invariants after each action and a fair suffix after each schedule; random schedules of length up to 60 extend beyond the bound. Exhaustive to the depth stated in the evidence, sampled beyond it.",
    level_note="One honest pair with fixed keys and a fixed clock; the adversary only manipulates genuine messages of this pair (forgery is C03's subject).",
    design_ref="4/C06",
    assumptions=["sessions do not expire during a schedule (fixed clock)"],
    subs=[
        P("C06.schedules_exhaustive", "ke", "TestC06Exhaustive", qto=600, tto=3000),
        R("C06.schedules_random", "ke", "TestC06Random", 6000, 180000),
    ],
)

PROPS["C03"] = dict(
    level="exploration",
    technique="model-based property testing (rapid state machine) with a Dolev-Yao forger built from first principles; oracle: usable implies the reported key signed this handshake's transcript",
    level_text="A rapid state machine delivers genuine, cross-fed and forged/spliced handshake and data messages to an honest session in either role, in any order with duplicates and omissions; after every delivery the readiness / remote-key / transcript-binding oracle is evaluated using the guarded channel-binding hook. Holds on everything generated.",
    level_note="Symbolic adversary: it splices, replays and forges with its own key but cannot break the primitives. Uses the verif build-tag hooks VerifChannelBinding and VerifHandshakeIndex.",
    design_ref="4/C03",
    assumptions=["the adversary cannot forge signatures or break the Noise key exchange", "a lifted signature whose signed data differs from the transcript cannot verify (collision resistance)"],
    subs=[
        R("C03.forgery", "ke", "TestC03Forgery", 10000, 960000, steps=30),
        P("C03.forgery_exhaustive", "ke", "TestC03Exhaustive", qto=600, tto=3000),
        R("C03.channel_unproven_key", "kechan", "TestC03ChannelUnprovenKey", 600, 30000, shrink=8, quick=dict(shards=2, timeout=600)),
    ],
)

PROPS["C02"] = dict(
    level="exploration",
    technique="model-based property testing (rapid state machines) with the harness as a Dolev-Yao network over real sessions and channels; tag ledger, counter-uniqueness and plaintext-marker oracles",
    level_text="Generated adversary action sequences (deliver/replay/reorder/cross-feed/bit-flip/truncate/splice/inject) over every byte string emitted by three real session pairs and by real channel pairs across rekeys; every accepted plaintext is checked against the ledger of what the authenticated peer sent, every emitted counter for uniqueness per session, every emitted byte string for plaintext markers. Holds on everything generated.",
    level_note="Symbolic adversary (cannot break AEAD/Noise). The 2^32 message limit is reached through the verif-tagged hook VerifSetSendCounter. Channel-level sub-properties run on real timers with short intervals.",
    design_ref="4/C02",
    assumptions=["the adversary cannot forge AEAD tags", "channel-level checks use real timers with rekey interval ~150 ms"],
    subs=[
        R("C02.session_dolev_yao", "ke", "TestC02Session", 5000, 320000, steps=40),
        R("C02.replay_window_edges", "ke", "TestC02ReplayWindow", 160, 8000, shrink=10, quick=dict(shards=4, timeout=600)),
        R("C02.session_concurrent_send", "ke", "TestC02SessionConcurrentSend", 400, 20000, race=True),
        R("C02.channel_rotation", "kechan", "TestC02ChannelRotation", 16, 1200, shrink=5, quick=dict(checks=16, shards=4, timeout=600)),
        R("C02.concurrent_send", "kechan", "TestC02ConcurrentSend", 40, 3000, shrink=5, quick=dict(checks=40, shards=2, timeout=600)),
        R("C02.swarm_burst", "swarms", "TestC02SwarmBurst", 120, 12000, quick=dict(shards=2, timeout=600)),
        R("C02.concurrent_duplicate_deliveries", "kechan", "TestC02ConcurrentDuplicates", 120, 6000, quick=dict(shards=4, timeout=600)),
        R("C02.refused_peer_data", "kechan", "TestC02RefusedPeerData", 80, 4000, shrink=6, qto=600, tto=3000, quick=dict(checks=80, shards=4, timeout=600)),
    ],
)

PROPS["C05"] = dict(
    level="exploration",
    technique="property-based testing (rapid) over acceptance predicates, handshake roles, start timings and intrusions on real channels wired through a harness-owned network; oracle: never-ready/never-deliver/never-encrypt for rejected keys and remote-key continuity",
    level_text="Generated predicate/role/timing/intrusion configurations run on real p2pke channels (real timers, 5 ms backoff); every Send return, delivery, emitted ciphertext and RemoteKey() observation is checked against the predicates and the continuity rule. Holds on everything generated; negative outcomes are observed for a 300 ms window (60 retransmission intervals).",
    level_note="Real timers; 'never' is observed over a bounded window. Thresholds are ~30x the healthy latency.",
    design_ref="4/C05",
    assumptions=["a 300 ms observation window (60 handshake retransmission intervals) stands for 'never' in negative outcomes"],
    subs=[
        R("C05.accept_and_continuity", "kechan", "TestC05AcceptAndContinuity", 240, 8000, shrink=6, qto=600, tto=3000, shards=8, quick=dict(checks=240, shards=6, timeout=600)),
        R("C05.swarm_wrong_identity", "secure", "TestC05SwarmIdentity", 120, 5000, shrink=10, quick=dict(shards=4, timeout=900)),
        R("C05.foreign_hello_then_peer_rekey", "kechan", "TestC05ForeignHelloThenPeerRekey", 60, 2400, shrink=6, quick=dict(shards=6, timeout=600)),
        R("C05.concurrent_hello_race", "kechan", "TestC05ConcurrentHelloRace", 4000, 200000, shrink=5, quick=dict(shards=4, timeout=600)),
    ],
)

PROPS["C07"] = dict(
    level="fault_enumeration",
    technique="enumerated adversarial prefix decision trees plus rapid-generated fault prefixes, restarts and interval configurations on real channels over a harness-owned wire; bounded-convergence-time and InitHello-count oracles",
    level_text="The harness owns every message between two real channels: it enumerates (to the stated depth) or generates adversarial prefixes (deliver/duplicate/drop/reorder, retransmission ticks, restart of the peer), then makes the wire reliable and requires every pending Send to finish within max(50 x backoff, 2 s) while reject-after is 10x larger; rekey crossings and steady-traffic keep-alive are separate generated sub-properties. Exhaustive for the prefix tree to the reported depth, sampled otherwise.",
    level_note="Real timers: 'eventually' is replaced by a bound 50 retransmission intervals long and 10x below the faulty latency. See DESIGN.md 6 (liveness).",
    design_ref="4/C07",
    assumptions=["convergence is judged against max(50 x HandshakeBackoff, 2 s) with RejectAfter 10x larger", "the restarted peer has something to send (a restart while the surviving side waits in the handshake and the restarted side stays silent is recorded separately)"],
    subs=[
        R("C07.converge_after_faults", "kechan", "TestC07Converge", 160, 12000, shrink=5, quick=dict(checks=160, shards=4, timeout=600)),
        P("C07.prefix_tree", "kechan", "TestC07PrefixTree", qto=600, tto=3000),
        P("C07.restart_points", "kechan", "TestC07RestartPoints", qto=600, tto=3000),
        R("C07.rekey_flow", "kechan", "TestC07RekeyFlow", 12, 800, shrink=5, quick=dict(checks=12, shards=4, timeout=600)),
        R("C07.no_idle_teardown", "kechan", "TestC07NoIdleTeardown", 8, 600, shrink=5, quick=dict(checks=8, shards=4, timeout=600)),
        R("C07.late_duplicates_then_idle", "kechan", "TestC07LateDuplicates", 48, 4000, shrink=5, quick=dict(shards=4, timeout=600)),
        R("C07.outage_beyond_reject_after", "kechan", "TestC07OutageBeyondReject", 40, 1500, shrink=5, quick=dict(shards=4, timeout=600)),
        R("C07.silent_replacement", "kechan", "TestC07SilentReplacement", 16, 800, shrink=5, quick=dict(checks=16, shards=4, timeout=600)),
    ],
)

PROPS["C01"] = dict(
    level="exploration",
    technique="property-based testing (rapid): generated swarm nestings x workloads against a sent/received ledger (round-trip oracle)",
    level_text="Stack specs are generated at run time (type-erased nesting of every layer kind), workloads vary length at every layer boundary, content, iovec presentation, concurrency and buffer reuse; every delivery is checked byte for byte against the ledger and for source/destination truth. Holds on everything generated.",
    level_note="Loss is allowed (Tell is best effort); duplication is not judged. Concurrency is real goroutines, not an owned schedule. SSH stacks are covered by C04/C11 harness stand-alone, not by the nesting generator.",
    design_ref="4/C01",
    assumptions=["loss is permitted, duplication is not judged by C01"],
    subs=[
        R("C01.mem_stacks", "swarms", "TestC01Mem", 300, 18000, shrink=10, quick=dict(checks=300, shards=4, timeout=600)),
        R("C01.secure_and_udp_stacks", "swarms", "TestC01Net", 40, 2250, shrink=10, quick=dict(checks=40, shards=4, timeout=600)),
        R("C01.address_takeover", "secure", "TestC01AddressTakeover", 36, 1500, quick=dict(shards=3, timeout=600)),
        R("C01.deadline_during_tell", "swarms", "TestC01Deadline", 120, 5000, shrink=10, quick=dict(shards=2, timeout=600)),
    ],
)

PROPS["C09"] = dict(
    level="exploration",
    technique="property-based testing (rapid): boundary payload lengths x generated stacks with recording decorators under every layer; error-class, no-size-rejection-beneath and ledger/sentinel oracles",
    level_text="Generated stacks with small inner MTUs and header-bearing channel ids are probed at lengths around MTU() and around every fragment-size / fragment-count boundary, through Tell and Ask; recording decorators make a size rejection by any lower layer visible even when an upper layer swallows the error. Holds on everything generated.",
    level_note="Recorders beneath a QUIC layer are excluded from the no-size-rejection rule (QUIC probes the path MTU with oversize packets by design). Loss of an accepted payload is allowed (queue overflow, reassembly garbage collection); anything delivered must be the complete payload.",
    design_ref="4/C09",
    assumptions=["QUIC path-MTU probes rejected by the inner transport are not size rejections of application payloads", "loss of accepted payloads is allowed; deliveries must be complete"],
    subs=[
        R("C09.mtu_honest", "swarms", "TestC09MTU", 400, 40000, shrink=10, quick=dict(checks=400, shards=4, timeout=600)),
        R("C09.mux_several_channels", "swarms", "TestC09MuxChannels", 200, 25000, shrink=10),
        R("C09.ssh_boundary", "swarms", "TestC09SSH", 80, 4000),
        R("C09.fragment_boundaries", "swarms", "TestC09FragmentBoundaries", 150, 10000, shrink=10, quick=dict(shards=3, timeout=600)),
        R("C09.deadline_during_tell", "swarms", "TestC09Deadline", 60, 3000, shrink=10, quick=dict(shards=2, timeout=600)),
    ],
)

PROPS["C15"] = dict(
    level="exploration",
    technique="property-based testing (rapid): frame/unframe round trip through a scripted transport, pairwise frame distinctness, differential against an independent reference decoder, channel-isolation ledger on live stacks",
    level_text="The harness plays the transport under each multiplexer kind: it captures the exact framed bytes and injects genuine, mutated and random bytes, comparing where they are delivered with an independent decoder; frames of all generated (channel, payload) pairs are compared pairwise; isolation is checked on live in-memory stacks with several channels. Holds on everything generated.",
    level_note="The reference decoder is written from the documented framing (length-prefixed string, fixed-width big-endian integers, uvarint). Distinctness is checked among generated pairs, not proved.",
    design_ref="4/C15",
    assumptions=["frames are compared pairwise among generated cases only"],
    subs=[
        R("C15.framing", "swarms", "TestC15Framing", 8000, 500000),
        R("C15.isolation", "swarms", "TestC15Isolation", 300, 37500, quick=dict(checks=300, shards=2, timeout=600)),
        R("C15.concurrent_senders", "swarms", "TestC15Concurrent", 150, 20000),
    ],
)

PROPS["C10"] = dict(
    level="fault_enumeration",
    technique="property-based testing (rapid) over fragment schedules (permutation, loss, duplication, 4-way concurrent feeding) with the harness as the inner transport of real fragmenting layers; per-source ledger oracle",
    level_text="Real sender instances produce the fragments; the harness owns the receiver's inner transport and feeds a generated schedule (any interleaving of several messages from several sources, per-fragment loss and duplication, sequential or concurrent); every delivery is checked against the per-source ledger and against the loss set. Holds on everything generated.",
    level_note="Quantifies over network faults on honest senders; a sender that restarts and reuses message ids within the reassembly window is outside the domain (DESIGN.md 6).",
    design_ref="4/C10",
    assumptions=["senders are honest and do not reuse message ids within the reassembly window"],
    subs=[
        R("C10.fragswarm", "swarms", "TestC10Frag", 1500, 60000),
        R("C10.fragment_counts", "swarms", "TestC10FragmentCounts", 90, 6000, shrink=10, quick=dict(shards=3, timeout=600)),
        R("C10.mbapp", "swarms", "TestC10Mbapp", 1000, 50000, quick=dict(checks=1000, shards=2, timeout=600)),
        R("C10.mbapp_reply_vs_tell", "swarms", "TestC10MbappBidi", 120, 12000, quick=dict(checks=120, shards=2, timeout=600)),
        P("C10.two_message_interleavings", "swarms", "TestC10Exhaustive"),
        R("C10.slow_gc_epochs", "swarms", "TestC10SlowEpochs", 1, 8, shrink=0, quick=dict(skip=True), thorough=dict(timeout=1200)),
    ],
)

PROPS["C08"] = dict(
    level="exploration",
    technique="property-based testing (rapid) of hostile packet sequences executed in a child process per target (crash isolation); oracle: process survival plus continued service of a valid message; native fuzzing of single-packet entry points in thorough",
    level_text="For every packet-facing layer the harness plays the remote peer: it generates structured mutations of valid packets (contradictory headers, hostile varints, truncations), random bytes and hostile operation sequences, runs each case against a fresh instance in a long-lived child process, and requires the process to survive and keep serving. Holds on everything generated.",
    level_note="A panic in any goroutine kills the child and is attributed to the running case. QUIC stream frames are exercised through a raw QUIC peer (C08.quic). Absence of crashes is only shown for generated inputs.",
    design_ref="4/C08",
    assumptions=["an error return or a dropped packet is success; only process death or loss of service is a violation"],
    subs=[
        R("C08.fragswarm", "crash", "TestC08Frag", 800, 40000),
        R("C08.mbapp", "crash", "TestC08Mbapp", 600, 30000),
        R("C08.mux", "crash", "TestC08Mux", 600, 30000),
        R("C08.parsers", "crash", "TestC08Parsers", 3000, 200000),
        R("C08.p2pke_session_channel", "crash", "TestC08Session", 500, 25000),
        R("C08.dht_requests_during_peer_churn", "kad", "TestC08DHTConcurrent", 10, 300, race=True, shrink=5),
        R("C08.p2pkeswarm_multiswarm_dht", "crash", "TestC08SwarmsAndDHT", 500, 25000),
        R("C08.quic_raw_peer", "crash", "TestC08QuicRawPeer", 200, 6000, quick=dict(shards=2, timeout=600)),
        F("C08.fuzz_session_deliver", "crash", "FuzzSessionDeliver", 60),
        F("C08.fuzz_frag_packet", "crash", "FuzzFragPacket", 60),
        F("C08.fuzz_mux_packet", "crash", "FuzzMuxPacket", 60),
        F("C08.fuzz_mbapp_header", "crash", "FuzzMbappHeader", 20),
    ],
)

PROPS["C11"] = dict(
    level="exploration",
    technique="property-based testing (rapid): generated concurrent ask workloads with failure classes on generated ask-capable stacks; request/response nonce ledger oracle",
    level_text="Handlers answer with bytes unique to the invocation and record what they saw; every successful Ask is matched against the invocation that produced its bytes, and every failure class (negative return, closed destination, short buffer, ended context) must surface as an error within the deadline. Holds on everything generated.",
    level_note="Concurrency is real goroutines (symmetric bursts, groups), not an owned schedule. Deadlines carry 1.5 s slack.",
    design_ref="4/C11",
    assumptions=["an Ask may fail for any reason; only wrong/empty/truncated successes and late returns are violations"],
    subs=[
        R("C11.mem_stacks", "swarms", "TestC11Mem", 240, 10000, shrink=10, quick=dict(checks=240, shards=4, timeout=600)),
        R("C11.ask_storm", "swarms", "TestC11AskStorm", 48, 3000, shrink=8, quick=dict(shards=4, timeout=600)),
        R("C11.mbapp_reply_origin", "swarms", "TestC11MbappReplyOrigin", 200, 10000, shrink=10),
        R("C11.mux_channels", "swarms", "TestC11MuxChannels", 300, 15000, quick=dict(shards=2, timeout=600)),
        R("C11.quic_ssh_stacks", "swarms", "TestC11Net", 32, 1200, shrink=10, quick=dict(checks=32, shards=4, timeout=600)),
    ],
)

PROPS["C12"] = dict(
    level="exploration",
    technique="property-based testing (rapid): generated blocked-call vectors x Close timings on generated stacks; return/err/latency oracle, sentinel for late callbacks, goroutine stack-dump diff",
    level_text="For generated stacks the harness blocks a generated number of Receive/ServeAsk calls with non-expiring contexts, keeps traffic in flight and closes at a generated point (also concurrently and twice); it requires every call to return an error promptly, no callback to start after Close returned, later calls to fail promptly and all goroutines with library frames to be gone after a grace period. Holds on everything generated.",
    level_note="'Promptly' is 3 s for calls blocked at Close and 1 s for later calls, against a faulty behaviour of 'never'. The interleaving of Close with in-flight deliveries is sampled, not enumerated.",
    design_ref="4/C12",
    assumptions=["3 s / 1 s thresholds separate 'promptly' from 'never'", "goroutines are attributed to the library by a frame of the module path in their stack"],
    subs=[
        R("C12.close_generated_stacks", "swarms", "TestC12Close", 160, 6000, shrink=10, quick=dict(checks=160, shards=4, timeout=900)),
        R("C12.close_ssh", "swarms", "TestC12CloseSSH", 12, 600, shrink=10, quick=dict(checks=12, shards=2, timeout=600)),
        R("C12.hub_mass_close", "hubs", "TestC12HubMassClose", 60, 3000),
        R("C12.channel_reopen", "swarms", "TestC12ChannelReopen", 400, 20000, shrink=10, quick=dict(shards=2, timeout=600)),
    ],
)

PROPS["C13"] = dict(
    level="exploration",
    technique="property-based testing (rapid): generated concurrent programs on the tell hub, ask hub, bounded queue and real swarms, executed on real goroutines under several GOMAXPROCS; timestamped history checked against the rendezvous specification",
    level_text="Generated programs of receivers, producers, cancels and closes run against the real hubs and queue; the logged history (call/return/callback events) is checked against invariants of the rendezvous specification (exactly-one receiver, success iff a callback finished, prompt cancellation, conservation of messages). Holds on everything generated; interleavings are sampled, not enumerated.",
    level_note="The schedule is the Go scheduler's (varied through GOMAXPROCS, start offsets and callback work), not owned by the harness: a violation that needs one specific interleaving can be missed. Asks are required to be prompt only before the hub's commit point.",
    design_ref="4/C13",
    assumptions=["cancellation promptness threshold 500 ms", "after the commit point a deliverer waits for the callback regardless of its own context (the statement's rule)"],
    subs=[
        R("C13.tellhub_histories", "hubs", "TestC13TellHub", 600, 120000),
        R("C13.askhub_histories", "hubs", "TestC13AskHub", 600, 120000),
        R("C13.queue_histories", "hubs", "TestC13Queue", 400, 80000),
        R("C13.queue_stampede", "hubs", "TestC13QueueStampede", 100, 12000),
        R("C13.ask_cancel", "hubs", "TestC13AskCancel", 300, 12000),
        R("C13.swarm_cancel", "hubs", "TestC13SwarmCancel", 120, 12000, quick=dict(checks=120, shards=4, timeout=600)),
    ],
)

PROPS["C14"] = dict(
    level="exploration",
    technique="property-based testing (rapid) of contention-heavy generated workloads in binaries built with the Go race detector; oracle: race reports with library frames, callback buffer stability, C01 ledger",
    level_text="Generated stacks and goroutine mixes hammer every API method concurrently in -race builds; the race detector decides the memory-model part, self-checking callbacks decide buffer ownership, the ledger decides that recycled buffers never leak old contents. Holds on the interleavings that occurred.",
    level_note="The race detector only reports races that actually occur in an executed interleaving. Reports whose stacks lie entirely in third-party packages are logged in the evidence, not counted.",
    design_ref="4/C14",
    assumptions=["a data race is attributed to the library when a stack of the report has a frame under go.brendoncarroll.net/p2p/"],
    subs=[
        R("C14.contention_workloads", "swarms", "TestC14Stress", 72, 1200, race=True, shrink=5, quick=dict(checks=72, shards=6, timeout=900)),
        R("C14.channel_close_during_callback", "swarms", "TestC14ChannelClose", 24, 800, race=True, shrink=5, quick=dict(checks=24, shards=4, timeout=900)),
        R("C14.kademlia_concurrent", "kad", "TestC14Cache", 10, 300, race=True, shrink=5),
        R("C14.ssh_concurrent", "swarms", "TestC14SSH", 24, 800, race=True, quick=dict(shards=2, timeout=600)),
        R("C14.recycled_buffer_exposure", "swarms", "TestC14BufferReuse", 150, 8000),
        R("C14.ask_buffer_after_return", "swarms", "TestC14AskBufferAfterReturn", 12, 400, quick=dict(shards=2, timeout=600)),
        R("C14.ask_storm_buffers", "swarms", "TestC14AskStormBuffers", 24, 1500, shrink=8, quick=dict(shards=3, timeout=600)),
    ],
)

PROPS["C04"] = dict(
    level="exploration",
    technique="property-based testing (rapid) over live secure stacks with known key pairs, wrong-identity destinations, whitelists in both orders of first contact, and a forked SSH client that reorders authentication steps; key-ledger oracle evaluated inside every callback",
    level_text="The harness knows every node's key pair; every callback checks that Src's identity and the key looked up in the handler belong to the real sender, that a payload addressed to identity X reaches only the holder of X, and that whitelisted-out sources never reach a callback. For SSH a fork of the client library executes generated query/sign step lists with attacker and victim keys. Holds on everything generated.",
    level_note="For QUIC the adversary is limited to honest TLS handshakes with its own key and wrong-identity dialling (a lying TLS stack is out of reach). The SSH adversary is a copy of golang.org/x/crypto/ssh v0.9.0 with one added auth method.",
    design_ref="4/C04",
    assumptions=["QUIC peers run the stock TLS handshake", "the SSH adversary cannot produce signatures for keys it does not hold"],
    subs=[
        R("C04.p2pke_quic_attribution", "secure", "TestC04Attribution", 120, 5000, shrink=10, quick=dict(checks=120, shards=4, timeout=900)),
        R("C04.p2pke_claimed_key_adversary", "secure", "TestC04P2PKEForger", 300, 15000, shrink=10, quick=dict(checks=300, shards=2, timeout=600)),
        R("C04.ssh_auth_step_adversary", "secure", "TestC04SSHAdversary", 60, 3000, shrink=10, quick=dict(checks=60, shards=2, timeout=600)),
        R("C04.address_takeover", "secure", "TestC04AddressTakeover", 36, 1500, quick=dict(shards=3, timeout=600)),
        R("C04.quic_certificate_chain_adversary", "secure", "TestC04QuicCertChain", 200, 10000, quick=dict(shards=2, timeout=600)),
    ],
)
