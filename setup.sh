#!/bin/sh
# setup_cmd: build every harness test binary offline from files on disk.
set -e
cd "$(dirname "$0")"
export GOFLAGS=-mod=mod GOPROXY=off GOSUMDB=off GOTOOLCHAIN=local
exec ./check --build
