#!/bin/sh
# Runs the repository's own suite (guard off) with a bounded timeout and prints only failures.
cd /repo && go test -vet=off -count=1 -timeout 5m ./... 2>&1 | grep -v "no test files" | grep -v "^ok" | head -40
echo "[repotest] done"
