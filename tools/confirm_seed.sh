#!/bin/bash
# usage: tools/confirm_seed.sh <ID> <m1|m2>
# Confirms a sub-agent's change in its scratch worktree: demo passes on the clean tree, fails with
# the change; the module builds and the existing suite passes with the change. Writes /verif/seeded/<ID>-<m>/.
id="$1"; m="$2"
wt=/tmp/seed/$id; out=/tmp/seed/$id-out/$m
export GOFLAGS=-mod=mod GOPROXY=off GOSUMDB=off GOTOOLCHAIN=local
cd "$wt" || exit 2
git checkout -q -- . ; git clean -fdq
[ -f "$out/patch.diff" ] || { echo "[confirm] no patch"; exit 2; }
git apply --check "$out/patch.diff" || { echo "[confirm] patch does not apply to the pinned+fixed tree"; exit 2; }
# place demo files
pkgs=""; tests=""
for f in $(find "$out/demo" -type f); do
  [ -f "$f" ] || continue
  p=$(head -1 "$f" | sed -n 's#^// *path: *##p')
  [ -n "$p" ] || { echo "[confirm] demo file $f has no path line"; continue; }
  mkdir -p "$(dirname "$p")"; cp "$f" "$p"
  case "$p" in *_test.go) pkgs="$pkgs ./$(dirname "$p")"; tests="$tests $(grep -o '^func Test[A-Za-z0-9_]*' "$f" | sed 's/func //' | tr '\n' '|')";; esac
done
pkgs=$(echo $pkgs | tr ' ' '\n' | sort -u | tr '\n' ' ')
run="$(echo $tests | tr -d ' ' | sed 's/|$//')"
[ -n "$run" ] || { echo "[confirm] no demo test found"; exit 2; }
echo "[confirm] demo: go test -run '^($run)\$' $pkgs"
go test -count=1 -timeout 5m -run "^($run)\$" $pkgs > /tmp/confirm.$id.$m.clean.txt 2>&1; rc_clean=$?
git apply "$out/patch.diff"
go build ./... || { echo "[confirm] does not build"; git checkout -q -- .; git clean -fdq; exit 2; }
go test -count=1 -timeout 5m -run "^($run)\$" $pkgs > /tmp/confirm.$id.$m.mut.txt 2>&1; rc_mut=$?
# existing suite with the change (demo files removed)
for f in $(find "$out/demo" -type f); do p=$(head -1 "$f" | sed -n 's#^// *path: *##p'); [ -n "$p" ] && rm -f "$p"; done
# Only packages whose test binaries can differ are run: those that (transitively, tests included) import a package
# the patch touches. The other packages' binaries are byte-identical to the unchanged tree's, whose suite passes.
changed=$(grep '^+++ b/' "$out/patch.diff" | sed 's#^+++ b/##' | xargs -n1 dirname | sort -u | awk '{ if ($0==".") print "go.brendoncarroll.net/p2p"; else print "go.brendoncarroll.net/p2p/"$0 }')
affected=""
for p in $(go list ./...); do
  deps=$(go list -test -deps $p 2>/dev/null)
  for c in $changed; do if echo "$deps" | grep -qx "$c"; then affected="$affected $p"; break; fi; done
done
echo "[confirm] packages affected by the patch:$affected"
go test -vet=off -count=1 -timeout 8m -p 4 $affected > /tmp/confirm.$id.$m.suite.txt 2>&1; rc_suite=$?
if [ $rc_suite -ne 0 ]; then
  failed=$(grep '^FAIL' /tmp/confirm.$id.$m.suite.txt | awk '{print $2}' | grep -v '^$' | sort -u | tr '\n' ' ')
  echo "[confirm] suite failed in: $failed - re-running those packages"
  go test -vet=off -count=1 -timeout 8m -p 2 $failed > /tmp/confirm.$id.$m.suite2.txt 2>&1; rc_suite=$?
fi
git checkout -q -- . ; git clean -fdq
echo "[confirm] $id $m: demo clean rc=$rc_clean (want 0), demo with change rc=$rc_mut (want !=0), suite with change rc=$rc_suite (want 0)"
if [ $rc_clean -eq 0 ] && [ $rc_mut -ne 0 ] && [ $rc_suite -eq 0 ]; then
  d=/verif/seeded/$id-$m; mkdir -p $d/demo
  cp "$out/patch.diff" $d/; cp -r "$out"/demo/* $d/demo/ 2>/dev/null; [ -f "$out/notes.md" ] && cp "$out/notes.md" $d/
  echo "confirmed" > $d/.confirmed
  echo "[confirm] kept in $d"
else
  tail -5 /tmp/confirm.$id.$m.clean.txt; tail -5 /tmp/confirm.$id.$m.mut.txt; grep -E '^(FAIL|---)' /tmp/confirm.$id.$m.suite.txt | head
fi
