#!/bin/bash
# usage: tools/seed_matrix.sh [seed-id ...]
# Runs each kept seeded change (all, or the ones named) against its own property's quick check and records which
# sub-properties fire in seeded/RESULTS.tsv (rows of changes that are not re-run are kept).
cd /verif
out=seeded/RESULTS.tsv
[ -f $out ] || echo -e "seed\tproperty\trc\tcaught_by" > $out
if [ $# -gt 0 ]; then list="$@"; else list=$(ls -d seeded/C*-m* | xargs -n1 basename); fi
for s in $list; do
  d=seeded/$s; id=${s%-*}
  if [ -n "$(git -C /repo status --porcelain)" ]; then echo "/repo is not clean"; exit 2; fi
  git -C /repo apply /verif/$d/patch.diff || { echo "$s: patch failed"; continue; }
  VERIF_EVIDENCE_DIR=/verif/.work/matrix_evidence VERIF_SEED=${VERIF_SEED:-1} ./check $id quick > .work/matrix.out 2>&1; rc=$?
  subs=$(grep '^VIOLATION' .work/matrix.out | sed 's#.*/\([^/]*\)--.*#\1#' | sort -u | tr '\n' ',' | sed 's/,$//')
  [ $rc -eq 2 ] && subs="$subs INCONCLUSIVE:$(grep '^INCONCLUSIVE' .work/matrix.out | head -1)"
  grep -v "^$s	" $out > $out.tmp; mv $out.tmp $out
  echo -e "$s\t$id\t$rc\t$subs" | tee -a $out
  git -C /repo checkout -- . ; git -C /repo clean -fdq
done
(head -1 $out; tail -n +2 $out | sort) > $out.tmp; mv $out.tmp $out
