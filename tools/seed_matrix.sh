#!/bin/bash
# Runs each kept seeded change against its own property's quick check and records which sub-properties fire.
cd /verif
out=seeded/RESULTS.tsv
echo -e "seed\tproperty\trc\tcaught_by" > $out
for d in seeded/C*-m*; do
  s=$(basename $d); id=${s%-*}
  cd /repo; git apply /verif/$d/patch.diff || { echo "$s: patch failed"; continue; }
  cd /verif
  ./check $id quick > /tmp/matrix.out 2>&1; rc=$?
  subs=$(grep '^VIOLATION' /tmp/matrix.out | sed 's#.*/\([^/]*\)--.*#\1#' | sort -u | tr '\n' ',' | sed 's/,$//')
  [ $rc -eq 2 ] && subs="$subs INCONCLUSIVE:$(grep '^INCONCLUSIVE' /tmp/matrix.out | head -1)"
  echo -e "$s\t$id\t$rc\t$subs" | tee -a $out
  git -C /repo checkout -- . ; git -C /repo clean -fdq
done
