#!/usr/bin/env python3
"""Regenerates seeded/<id>/meta.json and seeded/README.md from notes.md, patch.diff, RESULTS.tsv
(last tools/seed_matrix.sh run) and FIRST_MISSED.tsv (maintained by hand)."""
import json, glob, os, re
root = '/verif/seeded'
def tsv(path):
    rows = {}
    if os.path.exists(path):
        for l in open(path).read().splitlines()[1:]:
            f = l.split('\t')
            rows[f[0]] = f[1:]
    return rows
results = tsv(root + '/RESULTS.tsv')
missed = tsv(root + '/FIRST_MISSED.tsv')
# scratch-worktree verdicts (tools/try_prop_wt.py) of later rounds; a later file overrides an earlier one
wt = {}
for f in sorted(glob.glob(root + '/ROUND*_WT.tsv')):
    for l in open(f).read().splitlines():
        c = l.split('\t')
        if len(c) >= 3 and re.match(r'C\d\d-m\d+$', c[0]):
            wt[c[0]] = c
table = []
for d in sorted(glob.glob(root + '/C*-m*')):
    sid = os.path.basename(d)
    prop = sid.split('-')[0]
    notes = open(d + '/notes.md').read() if os.path.exists(d + '/notes.md') else ''
    title = notes.splitlines()[0].lstrip('# ').strip() if notes else sid
    m = re.search(r'##[^\n]*(needed|needs)[^\n]*\n(.*?)(\n## |\Z)', notes, re.S | re.I)
    needs = ' '.join(m.group(2).split())[:600] if m else ''
    files = sorted(set(re.findall(r'^\+\+\+ b/(.*)$', open(d + '/patch.diff').read(), re.M)))
    demos = sorted(os.path.relpath(p, d) for p in glob.glob(d + '/demo/**', recursive=True) if os.path.isfile(p))
    r = results.get(sid, ['', '', ''])
    caught = [c for c in (r[2].split(',') if len(r) > 2 and r[2] else []) if c and not c.startswith(' INCONCLUSIVE')]
    how = 'tools/seed_matrix.sh: git -C /repo apply seeded/%s/patch.diff; ./check %s quick; git -C /repo checkout -- .' % (sid, prop)
    if sid in wt and (sid not in results or not caught):
        caught = [c.strip() for c in wt[sid][2].split(',') if c.strip() and c.strip() != 'NOTHING']
        how = 'tools/try_prop_wt.py %s %s: harness built against a scratch worktree with the change applied, every sub-property of %s at its quick budget (/repo untouched)' % (prop, sid.split('-')[1], wt[sid][1])
    fm = missed.get(sid, ['no'])[0]
    meta = {
        'property': prop, 'title': title, 'files_changed': files, 'needs_to_manifest': needs, 'demonstration': demos,
        'confirmed_by': ['tools/confirm_seed.sh %s %s: demonstration passes on the unchanged tree, fails with the change; go build ./... ok; go test ./... passes with the change (load-related flakes re-run per package)' % (prop, sid.split('-')[1])],
        'checks_run': [how],
        'caught_by': caught, 'quick_check_exit_code': r[1] if len(r) > 1 else '', 'missed_before_strengthening': fm,
    }
    json.dump(meta, open(d + '/meta.json', 'w'), indent=1)
    table.append((sid, prop, title, needs[:160], ', '.join(caught) or 'NOT CAUGHT', fm))
with open(root + '/README.md', 'w') as f:
    f.write('''# Seeded changes

Each directory holds a change to brendoncarroll/go-p2p that breaks one listed property while still compiling and passing the
repository's own suite, written by an independent sub-agent that was given only the property text and a scratch worktree
(nothing from /verif). Two rounds of twenty agents, two changes each. Every change was confirmed here (`tools/confirm_seed.sh`):
the demonstration passes on the unchanged tree and fails with the change, the module builds and the existing suite passes with
the change. `tools/try_seed.sh` applies a patch to /repo, runs the quick checks and reverts; `tools/seed_matrix.sh` does so for all
of them (results in RESULTS.tsv); `tools/seed_meta.py` regenerates this file and the meta.json files. FIRST_MISSED.tsv records
which changes the checks missed when they were first tried and what was strengthened.

| change | breaks | what it is | needs to manifest | caught by (quick tier) | first missed? |
|---|---|---|---|---|---|
''')
    for row in table:
        f.write('| %s | %s | %s | %s | %s | %s |\n' % tuple(x.replace('|', '/') for x in row))
print(len(table), 'seeds;', sum(1 for r in table if r[4] == 'NOT CAUGHT'), 'not caught in RESULTS.tsv')
