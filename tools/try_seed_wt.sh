#!/bin/bash
# usage: tools/try_seed_wt.sh <worktree> <patch.diff> <pkg> <TestRegex> [rapid.checks] [extra go test flags...]
# Runs harness tests against a scratch worktree with a seeded change applied, without touching /repo
# (alternate go.mod whose replace directive points at the worktree). For development only; the
# registered checks always build from /repo.
wt="$1"; patch="$2"; pkg="$3"; re="$4"; n="${5:-300}"; shift 5
export GOFLAGS=-mod=mod GOPROXY=off GOSUMDB=off GOTOOLCHAIN=local
cd "$wt" || exit 2
git checkout -q -- . ; git clean -fdq
git apply "$patch" || { echo "[try_wt] patch does not apply"; exit 2; }
mf=$(mktemp -d /tmp/try_wt.XXXXXX)
sed "s#=> /repo#=> $wt#" /verif/harness/go.mod > $mf/go.mod; cp /verif/harness/go.sum $mf/go.sum
cd /verif/harness
go test -c -tags verif -vet=off -modfile=$mf/go.mod -o $mf/t.test ./$pkg || { echo "[try_wt] build failed"; cd "$wt"; git checkout -q -- .; rm -rf $mf; exit 2; }
mkdir -p $mf/run; cd $mf/run
VERIF_BIN=$mf/t.test VERIF_KNOWN=/verif/KNOWN_FINDINGS.txt $mf/t.test -test.run "^($re)\$" -test.timeout 600s -rapid.checks=$n -rapid.seed=1000003 "$@" 2>&1 | grep -v 'rapid\] draw' | grep -E "failed after|panic|flaky|^(ok|PASS|FAIL|---)|case:|died|traceback|DEBUG" | head -12
cd "$wt"; git checkout -q -- . ; git clean -fdq; rm -rf $mf
