#!/bin/sh
# usage: tools/try_seed.sh <patch.diff> <ID> [more IDs...]
# Applies a seeded change to /repo, runs the quick checks of the given properties, and always reverts.
patch="$1"; shift
cd /repo || exit 2
if [ -n "$(git status --porcelain)" ]; then echo "[try_seed] /repo is not clean"; exit 2; fi
git apply "$patch" || { echo "[try_seed] patch does not apply"; exit 2; }
go build ./... || { echo "[try_seed] does not build"; git checkout -- . ; exit 2; }
cd /verif
for id in "$@"; do
  ./check "$id" quick > /tmp/try_seed.$id.out 2>&1
  rc=$?
  echo "[try_seed] $id rc=$rc $(grep -c '^VIOLATION' /tmp/try_seed.$id.out) violation line(s)"
  grep -E '^VIOLATION|^INCONCLUSIVE' /tmp/try_seed.$id.out | head -5
done
git -C /repo checkout -- . && git -C /repo clean -fdq
echo "[try_seed] reverted: $(git -C /repo status --porcelain | wc -l) dirty files"
