#!/bin/sh
# usage: tools/thorough_all.sh [ID...]   runs the thorough tier property by property, logs time and exit code
cd /verif || exit 2
ids="$*"; [ -z "$ids" ] && ids="C19 C18 C20 C17 C16 C06 C03 C02 C05 C07 C01 C09 C15 C10 C08 C11 C12 C13 C14 C04"
mkdir -p .work/thorough
for id in $ids; do
  s=$(date +%s)
  ./check $id thorough > .work/thorough/$id.log 2>&1
  rc=$?
  echo "$id rc=$rc secs=$(( $(date +%s) - s )) $(grep -c '^VIOLATION' .work/thorough/$id.log) violations" >> .work/thorough/SUMMARY
done
