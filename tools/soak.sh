#!/bin/bash
# usage: tools/soak.sh <rounds> [busy-loops]   quick tier of every property at VERIF_SEED = 11, 12, ... with
# optional synthetic CPU load beside it; prints every run that did not exit 0.
cd /verif
rounds=${1:-3}; hogs=${2:-0}
pids=""
for i in $(seq 1 $hogs); do (while :; do :; done) & pids="$pids $!"; done
trap "kill $pids 2>/dev/null" EXIT
bad=0
for r in $(seq 1 $rounds); do
  seed=$((10 + r))
  for id in C01 C02 C03 C04 C05 C06 C07 C08 C09 C10 C11 C12 C13 C14 C15 C16 C17 C18 C19 C20; do
    VERIF_SEED=$seed ./check $id quick > .work/soak.$id.log 2>&1; rc=$?
    if [ $rc -ne 0 ]; then
      bad=$((bad+1)); cp .work/soak.$id.log .work/soak.$id.seed$seed.rc$rc.log
      echo "seed=$seed $id rc=$rc: $(grep -E '^VIOLATION|^INCONCLUSIVE' .work/soak.$id.log | head -2 | tr '\n' ' ')"
    fi
  done
  echo "round $r (seed $seed, $hogs busy loops) done, $bad bad runs so far"
done
