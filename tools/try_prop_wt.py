#!/usr/bin/env python3
"""usage: tools/try_prop_wt.py <ID> <m>   (development aid)
Runs every non-fuzz sub-property of <ID> at its quick budget against the scratch worktree /tmp/seed/<ID>
with /tmp/seed/<ID>-out/<m>/patch.diff applied - /repo is not touched. Prints which subs fail."""
import sys, os, subprocess, tempfile, shutil, re
sys.path.insert(0, '/verif')
import checks_table as c
pid, m = sys.argv[1], sys.argv[2]
wt = os.environ.get('WT', '/tmp/seed/%s' % pid)
patch = sys.argv[3] if len(sys.argv) > 3 else '/tmp/seed/%s-out/%s/patch.diff' % (pid, m)
env = dict(os.environ, GOFLAGS='-mod=mod', GOPROXY='off', GOSUMDB='off', GOTOOLCHAIN='local')
def sh(cmd, **kw): return subprocess.run(cmd, shell=True, env=env, **kw)
sh('git checkout -q -- . ; git clean -fdq', cwd=wt)
if sh('git apply %s' % patch, cwd=wt).returncode: sys.exit('[try] patch does not apply')
mf = tempfile.mkdtemp(prefix='try_wt.', dir='/tmp')
try:
    open(mf + '/go.mod', 'w').write(open('/verif/harness/go.mod').read().replace('=> /repo', '=> ' + wt))
    shutil.copy('/verif/harness/go.sum', mf + '/go.sum')
    bins = {}
    caught = []
    for s in c.PROPS[pid]['subs']:
        if s['kind'] == 'fuzz': continue
        key = (s['pkg'], bool(s.get('race')))
        if key not in bins:
            out = '%s/%s%s.test' % (mf, s['pkg'], '.race' if key[1] else '')
            r = sh('go test -c -tags verif -vet=off %s -modfile=%s/go.mod -o %s ./%s' % ('-race' if key[1] else '', mf, out, s['pkg']), cwd='/verif/harness')
            if r.returncode: sys.exit('[try] build failed')
            bins[key] = out
        n = s['quick'].get('checks', 0)
        rd = tempfile.mkdtemp(dir=mf)
        e = dict(env, VERIF_BIN=bins[key], VERIF_KNOWN='/verif/KNOWN_FINDINGS.txt', VERIF_TIER='quick', GORACE='halt_on_error=0')
        args = [bins[key], '-test.run', '^%s$' % s['test'], '-test.timeout', '900s']
        if s['kind'] == 'rapid':
            args += ['-rapid.checks=%d' % n, '-rapid.seed=1000003']
            for k, v in s.get('common', {}).items():
                if k == 'steps': args.append('-rapid.steps=%d' % v)
        r = subprocess.run(args, cwd=rd, env=e, stdout=subprocess.PIPE, stderr=subprocess.STDOUT, text=True, errors='replace')
        out = r.stdout
        races = out.count('WARNING: DATA RACE')
        bad = r.returncode != 0 or races
        msg = ''
        if bad:
            caught.append(s['name'])
            mm = re.search(r'\[rapid\] (failed after[^\n]{0,300}|panic[^\n]{0,300}|flaky[^\n]{0,100})', out)
            msg = mm.group(1) if mm else (('%d DATA RACE' % races) if races else out[-300:].replace('\n', ' | '))
        print('[try] %-36s %s %s' % (s['name'], 'FAIL' if bad else 'pass', msg[:330]))
    print('[try] %s-%s caught by: %s' % (pid, m, ', '.join(caught) or 'NOTHING'))
finally:
    sh('git checkout -q -- . ; git clean -fdq', cwd=wt)
    shutil.rmtree(mf, ignore_errors=True)
